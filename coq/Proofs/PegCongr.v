(* Terminal congruence (simulation) for the interpreter of Model/Peg.v.

   Two "worlds" (grammar table, input, oracle) whose non-terminal nodes are identical and whose
   terminals behave alike at every position, and whose whitespace skipping agrees for every
   whitespace set the interpreter can be in, produce the same outcome for every node, every
   state, both memoization settings and every fuel - up to a fixed relabelling [supf] of the
   Terminal.suppress flag per node (needed because a StrMatch inside a Sequence is marked
   suppress while the RegExMatch that autokwd puts in its place is not).

   Used by C20 (same grammar, inputs differing in letter case) and C21 (autokwd grammar vs the
   plain one, same input). *)
From TxV Require Import Core.Base Model.PegSyntax Model.Peg.

(* ---------------------------------------------------------------- induction principles *)
Section TreeInd.
Variable P : tree -> Prop.
Hypothesis HT : forall nid p len sup, P (T nid p len sup).
Hypothesis HN : forall nid kids, Forall P kids -> P (NT nid kids).
Fixpoint tree_ind2 (t : tree) : P t :=
  match t with
  | T nid p len sup => HT nid p len sup
  | NT nid kids =>
    HN nid kids ((fix go (l : list tree) : Forall P l :=
                    match l with
                    | [] => Forall_nil P
                    | x :: l' => Forall_cons x (tree_ind2 x) (go l')
                    end) kids)
  end.
End TreeInd.

Section ResInd.
Variable P : res -> Prop.
Hypothesis HN : P RNone.
Hypothesis HT : forall t, P (RTree t).
Hypothesis HL : forall l, Forall P l -> P (RList l).
Fixpoint res_ind2 (r : res) : P r :=
  match r with
  | RNone => HN
  | RTree t => HT t
  | RList l =>
    HL l ((fix go (l : list res) : Forall P l :=
             match l with
             | [] => Forall_nil P
             | x :: l' => Forall_cons x (res_ind2 x) (go l')
             end) l)
  end.
End ResInd.

(* ---------------------------------------------------------------- the relabelling *)
Section Relabel.
Variable supf : nat -> bool -> bool.

Fixpoint ft (t : tree) : tree :=
  match t with
  | T nid p len sup => T nid p len (supf nid sup)
  | NT nid kids => NT nid (map ft kids)
  end.

Fixpoint fr (r : res) : res :=
  match r with
  | RNone => RNone
  | RTree t => RTree (ft t)
  | RList l => RList (map fr l)
  end.

Definition fcr (c : cres) : cres := match c with CNoMatch => CNoMatch | CRes r => CRes (fr r) end.

Definition fcache (m : list ((nat * nat) * (cres * nat))) : list ((nat * nat) * (cres * nat)) :=
  map (fun e => (fst e, (fcr (fst (snd e)), snd (snd e)))) m.

Definition fs (s : st) : st :=
  mkSt (pos s) (ws s) (real_ws s) (skipws s) (eolterm s) (in_cmt s) (nm s) (cpos s) (fcache (cache s)).

Definition fo (o : out) : out :=
  match o with
  | Ok r s => Ok (fr r) (fs s)
  | Fail s => Fail (fs s)
  | Abort w => Abort w
  end.

Definition foutcome (o : outcome) : outcome :=
  match o with
  | Parsed r => Parsed (fr r)
  | SyntaxErr p => SyntaxErr p
  | Aborted w => Aborted w
  end.

Lemma truthy_fr r : truthy (fr r) = truthy r.
Proof. destruct r as [|[nid p len sup|nid [|k ks]]|[|x l]]; reflexivity. Qed.

Lemma is_none_fr r : is_none (fr r) = is_none r.
Proof. destruct r; reflexivity. Qed.

Lemma head_is_none_fr r : head_is_none (fr r) = head_is_none r.
Proof. destruct r as [|t|[|[|t|l0] l]]; reflexivity. Qed.

Lemma is_ptnode_fr r : is_ptnode (fr r) = is_ptnode r.
Proof. destruct r; reflexivity. Qed.

Lemma flatten_fr r : flatten (fr r) = map ft (flatten r).
Proof.
  induction r as [| t | l IH] using res_ind2; try reflexivity.
  cbn [fr flatten]. induction IH as [| x l Hx Hl IHl]; [reflexivity|].
  cbn [map]. rewrite map_app, <- IHl, Hx. reflexivity.
Qed.

Lemma post_fr nid nd r : post nid nd (fr r) = fr (post nid nd r).
Proof.
  unfold post. rewrite head_is_none_fr.
  destruct (n_suppress nd || head_is_none r)%bool.
  - cbn. rewrite andb_false_r. reflexivity.
  - rewrite truthy_fr, is_ptnode_fr.
    destruct (n_root nd && truthy r && negb (is_ptnode r))%bool; [|reflexivity].
    cbn [fr ft]. rewrite flatten_fr. reflexivity.
Qed.

Lemma clookup_fcache n p m :
  clookup n p (fcache m) =
  match clookup n p m with Some v => Some (fcr (fst v), snd v) | None => None end.
Proof.
  induction m as [|[[n' p'] v] m IH]; [reflexivity|].
  cbn [fcache map clookup fst snd]. destruct (Nat.eqb n n' && Nat.eqb p p')%bool; [reflexivity|].
  exact IH.
Qed.

(* ---- fs commutes with every state operation *)
Lemma fs_pos s : pos (fs s) = pos s. Proof. reflexivity. Qed.
Lemma fs_ws s : ws (fs s) = ws s. Proof. reflexivity. Qed.
Lemma fs_real_ws s : real_ws (fs s) = real_ws s. Proof. reflexivity. Qed.
Lemma fs_skipws s : skipws (fs s) = skipws s. Proof. reflexivity. Qed.
Lemma fs_eolterm s : eolterm (fs s) = eolterm s. Proof. reflexivity. Qed.
Lemma fs_in_cmt s : in_cmt (fs s) = in_cmt s. Proof. reflexivity. Qed.
Lemma fs_nm s : nm (fs s) = nm s. Proof. reflexivity. Qed.
Lemma fs_cpos s : cpos (fs s) = cpos s. Proof. reflexivity. Qed.
Lemma fs_cache s : cache (fs s) = fcache (cache s). Proof. reflexivity. Qed.
Lemma fs_set_pos p s : set_pos p (fs s) = fs (set_pos p s). Proof. reflexivity. Qed.
Lemma fs_set_skipws b s : set_skipws b (fs s) = fs (set_skipws b s). Proof. reflexivity. Qed.
Lemma fs_set_in_cmt b s : set_in_cmt b (fs s) = fs (set_in_cmt b s). Proof. reflexivity. Qed.
Lemma fs_set_nm n s : set_nm n (fs s) = fs (set_nm n s). Proof. reflexivity. Qed.
Lemma fs_set_cpos c s : set_cpos c (fs s) = fs (set_cpos c s). Proof. reflexivity. Qed.
Lemma fs_set_ws w s : set_ws w (fs s) = fs (set_ws w s). Proof. reflexivity. Qed.
Lemma fs_set_eolterm b s : set_eolterm b (fs s) = fs (set_eolterm b s). Proof. reflexivity. Qed.
Lemma fs_nm_pos s : nm_pos (fs s) = nm_pos s. Proof. reflexivity. Qed.
Lemma fs_cput_res n p r np s : cput n p (CRes (fr r), np) (fs s) = fs (cput n p (CRes r, np) s). Proof. reflexivity. Qed.
Lemma fs_cput_nomatch n p np s : cput n p (CNoMatch, np) (fs s) = fs (cput n p (CNoMatch, np) s). Proof. reflexivity. Qed.
Lemma fs_init c : fs (init_st c) = init_st c. Proof. reflexivity. Qed.
Lemma fs_reg_fail p s : reg_fail p (fs s) = fs (reg_fail p s).
Proof.
  unfold reg_fail. rewrite fs_nm, fs_in_cmt. destruct (nm s) as [q|]; [|reflexivity].
  destruct (in_cmt s); [reflexivity|]. destruct (Nat.ltb q p); reflexivity.
Qed.
Lemma fs_nm_raise p s : nm_raise p (fs s) = fo (nm_raise p s).
Proof. unfold nm_raise. rewrite fs_reg_fail. reflexivity. Qed.
Lemma fs_enter_ws nd s : enter_ws nd (fs s) = fs (enter_ws nd s).
Proof. unfold enter_ws. destruct (n_ws nd), (n_skipws nd); reflexivity. Qed.
Lemma fs_leave_ws nd old s : leave_ws nd (fs old) (fs s) = fs (leave_ws nd old s).
Proof. unfold leave_ws. destruct (n_ws nd), (n_skipws nd); reflexivity. Qed.
Lemma fs_enter_eol nd s : enter_eol nd (fs s) = fs (enter_eol nd s).
Proof. unfold enter_eol. destruct (n_eolterm nd); reflexivity. Qed.
Lemma fs_leave_eol nd old s : leave_eol nd (fs old) (fs s) = fs (leave_eol nd old s).
Proof. unfold leave_eol. destruct (n_eolterm nd); reflexivity. Qed.

End Relabel.

#[export] Hint Rewrite fs_pos fs_ws fs_real_ws fs_skipws fs_eolterm fs_in_cmt fs_nm fs_cpos
  fs_set_pos fs_set_skipws fs_set_in_cmt fs_set_nm fs_set_cpos fs_nm_raise fs_reg_fail : fsdb.

(* the identity relabelling changes nothing *)
Lemma ft_id t : ft (fun _ b => b) t = t.
Proof.
  induction t as [nid p len sup | nid kids IH] using tree_ind2; [reflexivity|].
  cbn [ft]. f_equal. induction IH as [| x l Hx Hl IHl]; [reflexivity|].
  cbn [map]. rewrite Hx, IHl. reflexivity.
Qed.

Lemma fr_id r : fr (fun _ b => b) r = r.
Proof.
  induction r as [| t | l IH] using res_ind2; [reflexivity | cbn [fr]; rewrite ft_id; reflexivity |].
  cbn [fr]. f_equal. induction IH as [| x l Hx Hl IHl]; [reflexivity|].
  cbn [map]. rewrite Hx, IHl. reflexivity.
Qed.

Lemma foutcome_id o : foutcome (fun _ b => b) o = o.
Proof. destruct o; cbn; rewrite ?fr_id; reflexivity. Qed.

(* ---------------------------------------------------------------- the simulation *)
Section Sim.
Variable supf : nat -> bool -> bool.
Variables g g' : grammar.
Variables input input' : list N.
Variables orc orc' : nat -> nat -> option nat.
Variable memo : bool.
Variable wsP : list N -> Prop.       (* the whitespace sets the interpreter can be in *)

Notation fr := (fr supf).
Notation fs := (fs supf).
Notation fo := (fo supf).
Notation parser := (nat -> bool -> st -> out) (only parsing).

Definition inv (s : st) : Prop := wsP (ws s) /\ wsP (real_ws s).
Definition invo (o : out) : Prop :=
  match o with Ok _ s => inv s | Fail s => inv s | Abort _ => True end.
Definition osim (o o' : out) : Prop := o' = fo o /\ invo o.
Definition psim (rec rec' : parser) : Prop :=
  forall n psq s, inv s -> osim (rec n psq s) (rec' n psq (fs s)).

(* terminals of the two worlds behave alike (up to the relabelling) *)
Definition node_sim (nid : nat) (nd nd' : node) : Prop :=
  if is_match_kind (n_kind nd)
  then is_match_kind (n_kind nd') = true /\ n_suppress nd' = n_suppress nd /\
       forall psq s, term_parse input' orc' nid (n_kind nd') psq (fs s)
                     = fo (term_parse input orc nid (n_kind nd) psq s)
  else nd' = nd.

Hypothesis H_nodes : forall nid,
  match get_node g nid, get_node g' nid with
  | None, None => True
  | Some nd, Some nd' => node_sim nid nd nd'
  | _, _ => False
  end.
Hypothesis H_comments : g_comments g' = g_comments g.
Hypothesis H_ws_nodes : forall nid nd w, get_node g nid = Some nd -> n_ws nd = Some w -> wsP w.
Hypothesis H_ws_strip : forall w, wsP w -> wsP (strip_eol w).
Hypothesis H_skip : forall w p, wsP w ->
  skip_ws_from w (skipn p input') p = skip_ws_from w (skipn p input) p.

(* ---- invariant bookkeeping *)
Lemma inv_set_pos p s : inv s -> inv (set_pos p s). Proof. exact (fun H => H). Qed.
Lemma inv_set_skipws b s : inv s -> inv (set_skipws b s). Proof. exact (fun H => H). Qed.
Lemma inv_set_in_cmt b s : inv s -> inv (set_in_cmt b s). Proof. exact (fun H => H). Qed.
Lemma inv_set_nm n s : inv s -> inv (set_nm n s). Proof. exact (fun H => H). Qed.
Lemma inv_set_cpos c s : inv s -> inv (set_cpos c s). Proof. exact (fun H => H). Qed.
Lemma inv_set_cache c s : inv s -> inv (set_cache c s). Proof. exact (fun H => H). Qed.
Lemma inv_cput n p v s : inv s -> inv (cput n p v s). Proof. exact (fun H => H). Qed.
Lemma inv_reg_fail p s : inv s -> inv (reg_fail p s).
Proof.
  intro H. unfold reg_fail. destruct (nm s) as [q|]; [|exact H].
  destruct (in_cmt s); [exact H|]. destruct (Nat.ltb q p); exact H.
Qed.
Lemma inv_set_ws w s : wsP w -> inv s -> inv (set_ws w s).
Proof.
  intros Hw _. unfold inv, set_ws. cbn [ws real_ws]. split; [|exact Hw].
  destruct (eolterm s); [apply H_ws_strip|]; exact Hw.
Qed.
Lemma inv_set_eolterm b s : inv s -> inv (set_eolterm b s).
Proof.
  intros [H1 H2]. unfold inv, set_eolterm. cbn [ws real_ws]. split; [|exact H2].
  destruct b; [apply H_ws_strip; exact H1 | exact H2].
Qed.
Lemma inv_do_skip_ws s : inv s -> inv (do_skip_ws input s). Proof. exact (fun H => H). Qed.
Lemma inv_maybe_skip_ws s : inv s -> inv (maybe_skip_ws input s).
Proof. intro H. unfold maybe_skip_ws. destruct (skipws s); exact H. Qed.
Lemma inv_enter_ws nid nd s : get_node g nid = Some nd -> inv s -> inv (enter_ws nd s).
Proof.
  intros Hn H. unfold enter_ws. destruct (n_ws nd) as [w|] eqn:Ew.
  - assert (Hi : inv (set_ws w s)) by (apply inv_set_ws; [eapply H_ws_nodes; eassumption | exact H]).
    destruct (n_skipws nd); exact Hi.
  - destruct (n_skipws nd); exact H.
Qed.
Lemma inv_leave_ws nd old s : inv old -> inv s -> inv (leave_ws nd old s).
Proof.
  intros Ho H. unfold leave_ws. destruct (n_ws nd) as [w|].
  - assert (Hi : inv (set_ws (ws old) s)) by (apply inv_set_ws; [exact (proj1 Ho) | exact H]).
    destruct (n_skipws nd); exact Hi.
  - destruct (n_skipws nd); exact H.
Qed.
Lemma inv_enter_eol nd s : inv s -> inv (enter_eol nd s).
Proof. intro H. unfold enter_eol. destruct (n_eolterm nd); [apply inv_set_eolterm|]; exact H. Qed.
Lemma inv_leave_eol nd old s : inv s -> inv (leave_eol nd old s).
Proof. intro H. unfold leave_eol. destruct (n_eolterm nd); [apply inv_set_eolterm|]; exact H. Qed.

Lemma invo_term_parse nid k psq s : inv s -> invo (term_parse input orc nid k psq s).
Proof.
  intro H. unfold term_parse, nm_raise.
  destruct k as [| | | | | | | | | |t oid|o]; try exact I.
  - destruct (Nat.eqb (length input) (pos s)); [exact H | apply inv_reg_fail; exact H].
  - destruct (match oid with Some o => _ | None => _ end); [exact H | apply inv_reg_fail; exact H].
  - destruct (orc o (pos s)) as [len|]; [destruct (Nat.eqb len 0); exact H | apply inv_reg_fail; exact H].
Qed.

(* ---- whitespace skipping *)
Lemma fs_do_skip_ws s : inv s -> do_skip_ws input' (fs s) = fs (do_skip_ws input s).
Proof.
  intros [H _]. unfold do_skip_ws. rewrite fs_pos, fs_ws, fs_set_pos, (H_skip _ _ H). reflexivity.
Qed.
Lemma fs_maybe_skip_ws s : inv s -> maybe_skip_ws input' (fs s) = fs (maybe_skip_ws input s).
Proof.
  intro H. unfold maybe_skip_ws. rewrite fs_skipws. destruct (skipws s); [apply fs_do_skip_ws; exact H | reflexivity].
Qed.

Ltac inv_tac :=
  repeat match goal with
    | |- inv (set_pos _ _) => apply inv_set_pos
    | |- inv (set_skipws _ _) => apply inv_set_skipws
    | |- inv (set_in_cmt _ _) => apply inv_set_in_cmt
    | |- inv (set_nm _ _) => apply inv_set_nm
    | |- inv (set_cpos _ _) => apply inv_set_cpos
    | |- inv (set_cache _ _) => apply inv_set_cache
    | |- inv (cput _ _ _ _) => apply inv_cput
    | |- inv (reg_fail _ _) => apply inv_reg_fail
    | |- inv (maybe_skip_ws _ _) => apply inv_maybe_skip_ws
    | |- inv (do_skip_ws _ _) => apply inv_do_skip_ws
    | |- inv (set_eolterm _ _) => apply inv_set_eolterm
    | |- inv (enter_eol _ _) => apply inv_enter_eol
    | |- inv (leave_eol _ _ _) => apply inv_leave_eol
    | |- inv _ => assumption
    end.

Ltac fsrw := autorewrite with fsdb.

Lemma osim_ok r s : inv s -> osim (Ok r s) (Ok (fr r) (fs s)).
Proof. intro H. split; [reflexivity | exact H]. Qed.
Lemma osim_fail s : inv s -> osim (Fail s) (Fail (fs s)).
Proof. intro H. split; [reflexivity | exact H]. Qed.
Lemma osim_abort w : osim (Abort w) (Abort w).
Proof. split; [reflexivity | exact I]. Qed.
Lemma osim_nm_raise p s : inv s -> osim (nm_raise p s) (nm_raise p (fs s)).
Proof. intro H. split; [apply fs_nm_raise | unfold nm_raise; cbn; inv_tac]. Qed.

(* use the simulation hypothesis on the call [rec n b s] that the goal scrutinises *)
Ltac step Hrec :=
  match goal with
  | |- osim (match ?rec ?n ?b ?s with _ => _ end) _ =>
    let E := fresh "E" in let I := fresh "I" in let o := fresh "o" in
    let s1 := fresh "s1" in let r := fresh "r" in
    assert (o : osim (rec n b s) (_ n b (fs s))) by (apply Hrec; inv_tac);
    destruct o as [E I]; rewrite E; clear E;
    destruct (rec n b s) as [r s1 | s1 | ?]; cbn [fo invo] in *
  end.

(* ---- comments *)
Lemma cmt_sim rec rec' : psim rec rec' ->
  forall cm k s, inv s -> osim (cmt_loop input rec cm k s) (cmt_loop input' rec' cm k (fs s)).
Proof.
  intros Hrec cm k. induction k as [|k IH]; intros s Hs; cbn [cmt_loop]; [apply osim_abort|].
  step Hrec.
  - rewrite fs_maybe_skip_ws by exact I. apply IH. inv_tac.
  - apply (osim_ok RNone). exact I.
  - apply osim_abort.
Qed.

Lemma parse_comments_sim rec rec' : psim rec rec' ->
  forall k s, inv s -> osim (parse_comments g input rec k s) (parse_comments g' input' rec' k (fs s)).
Proof.
  intros Hrec k s Hs. unfold parse_comments. rewrite H_comments.
  destruct (g_comments g) as [cm|].
  - rewrite fs_set_in_cmt.
    destruct (cmt_sim rec rec' Hrec cm k (set_in_cmt true s)) as [E I]; [inv_tac|].
    rewrite E. destruct (cmt_loop input rec cm k (set_in_cmt true s)) as [r s1|s1|w]; cbn [fo invo] in *.
    + rewrite fs_set_in_cmt. apply (osim_ok RNone). inv_tac.
    + apply osim_fail. exact I.
    + apply osim_abort.
  - fsrw. apply (osim_ok RNone). inv_tac.
Qed.

Lemma match_pre_sim rec rec' : psim rec rec' ->
  forall k s, inv s -> osim (match_pre g input rec k s) (match_pre g' input' rec' k (fs s)).
Proof.
  intros Hrec k s Hs. unfold match_pre. cbv zeta. rewrite fs_maybe_skip_ws by exact Hs.
  set (s1 := maybe_skip_ws input s). assert (Hs1 : inv s1) by (unfold s1; inv_tac).
  clearbody s1. fsrw.
  destruct (if skipws s1 then lookup (pos s1) (cpos s1) else None) as [p'|].
  - fsrw. apply (osim_ok RNone). inv_tac.
  - destruct (in_cmt s1).
    + apply (osim_ok RNone). exact Hs1.
    + destruct (parse_comments_sim rec rec' Hrec k s1 Hs1) as [E I]. rewrite E.
      destruct (parse_comments g input rec k s1) as [r s2|s2|w]; cbn [fo invo] in *.
      * fsrw. apply (osim_ok RNone). inv_tac.
      * apply osim_fail. exact I.
      * apply osim_abort.
Qed.

(* ---- loops *)
Lemma acc_fr (b : bool) acc r :
  (if b then map fr acc ++ [fr r] else map fr acc) = map fr (if b then acc ++ [r] else acc).
Proof. destruct b; [rewrite map_app; reflexivity | reflexivity]. Qed.

Lemma seq_sim rec rec' : psim rec rec' ->
  forall psq kids acc s, inv s ->
    osim (seq_loop rec psq kids acc s) (seq_loop rec' psq kids (map fr acc) (fs s)).
Proof.
  intros Hrec psq kids. induction kids as [|c kids IH]; intros acc s Hs; cbn [seq_loop].
  - apply (osim_ok (RList acc)). exact Hs.
  - step Hrec.
    + rewrite truthy_fr, acc_fr. apply IH. exact I.
    + apply osim_fail. exact I.
    + apply osim_abort.
Qed.

Lemma choice_sim rec rec' : psim rec rec' ->
  forall c_pos kids s, inv s ->
    osim (choice_loop rec c_pos kids s) (choice_loop rec' c_pos kids (fs s)).
Proof.
  intros Hrec c_pos kids. induction kids as [|c kids IH]; intros s Hs; cbn [choice_loop].
  - apply (osim_ok RNone). exact Hs.
  - step Hrec.
    + rewrite is_none_fr. destruct (is_none r); [apply IH; exact I | apply osim_ok; exact I].
    + fsrw. apply IH. inv_tac.
    + apply osim_abort.
Qed.

Lemma rep_sim rec rec' : psim rec rec' ->
  forall e sep plus k first acc s, inv s ->
    osim (rep_loop rec e sep plus k first acc s) (rep_loop rec' e sep plus k first (map fr acc) (fs s)).
Proof.
  intros Hrec e sep plus k. induction k as [|k IH]; intros first acc s Hs; cbn [rep_loop]; [apply osim_abort|].
  assert (Helem : forall acc1 s1 c_pos, inv s1 ->
    osim (match rec e false s1 with
          | Ok r s2 => if truthy r then rep_loop rec e sep plus k false (acc1 ++ [r]) s2
                       else Ok (RList acc1) s2
          | Fail s2 => if (plus && first)%bool then Fail (set_pos c_pos s2)
                       else Ok (RList acc1) (set_pos c_pos s2)
          | Abort w => Abort w
          end)
         (match rec' e false (fs s1) with
          | Ok r s2 => if truthy r then rep_loop rec' e sep plus k false (map fr acc1 ++ [r]) s2
                       else Ok (RList (map fr acc1)) s2
          | Fail s2 => if (plus && first)%bool then Fail (set_pos c_pos s2)
                       else Ok (RList (map fr acc1)) (set_pos c_pos s2)
          | Abort w => Abort w
          end)).
  { intros acc1 s1 c_pos Hs1. step Hrec.
    - rewrite truthy_fr. destruct (truthy r).
      + replace (map fr acc1 ++ [fr r]) with (map fr (acc1 ++ [r])) by (rewrite map_app; reflexivity).
        apply IH. exact I.
      + apply (osim_ok (RList acc1)). exact I.
    - fsrw. destruct (plus && first)%bool; [apply osim_fail | apply (osim_ok (RList acc1))]; inv_tac.
    - apply osim_abort. }
  fsrw. destruct sep as [sp|]; [|apply Helem; exact Hs].
  destruct first; [apply Helem; exact Hs|].
  step Hrec.
  - rewrite truthy_fr, acc_fr. apply Helem. exact I.
  - fsrw. rewrite andb_false_r. apply (osim_ok (RList acc)). inv_tac.
  - apply osim_abort.
Qed.

(* unordered groups *)
Definition fugr (u : ugr) : ugr :=
  match u with
  | UGHit e r s => UGHit e (fr r) (fs s)
  | UGNone mt s => UGNone mt (fs s)
  | UGAbort w => UGAbort w
  end.
Definition invugr (u : ugr) : Prop :=
  match u with UGHit _ _ s => inv s | UGNone _ s => inv s | UGAbort _ => True end.

Lemma ug_try_sim rec rec' : psim rec rec' ->
  forall sep_failed c_loc todo mt s, inv s ->
    ug_try rec' sep_failed c_loc todo mt (fs s) = fugr (ug_try rec sep_failed c_loc todo mt s)
    /\ invugr (ug_try rec sep_failed c_loc todo mt s).
Proof.
  intros Hrec sep_failed c_loc todo. induction todo as [|e rest IH]; intros mt s Hs; cbn [ug_try].
  - split; [reflexivity | exact Hs].
  - destruct (Hrec e false s Hs) as [E I]. rewrite E.
    destruct (rec e false s) as [r s1|s1|w]; cbn [fo invo] in *.
    + rewrite truthy_fr. destruct (truthy r).
      * destruct sep_failed.
        -- fsrw. apply IH. inv_tac.
        -- split; [reflexivity | exact I].
      * apply IH. exact I.
    + fsrw. apply IH. inv_tac.
    + split; [reflexivity | exact Logic.I].
Qed.

Definition fugo (u : ugo) : ugo :=
  match u with
  | UGDone mt acc s => UGDone mt (map fr acc) (fs s)
  | UGOAbort w => UGOAbort w
  end.
Definition invugo (u : ugo) : Prop :=
  match u with UGDone _ _ s => inv s | UGOAbort _ => True end.

Lemma ug_loop_sim rec rec' : psim rec rec' ->
  forall sep n todo first sr acc s, inv s ->
    ug_loop rec' sep n todo first (fr sr) (map fr acc) (fs s)
    = fugo (ug_loop rec sep n todo first sr acc s)
    /\ invugo (ug_loop rec sep n todo first sr acc s).
Proof.
  intros Hrec sep n. induction n as [|n IH]; intros todo first sr acc s Hs.
  - destruct todo; cbn [ug_loop]; (split; [reflexivity | first [exact Hs | exact Logic.I]]).
  - destruct todo as [|t0 todo]; [cbn [ug_loop]; split; [reflexivity | exact Hs]|].
    cbn [ug_loop].
    assert (Hcont : forall sep_failed sr1 s1 c_loc_sep, inv s1 ->
      match ug_try rec' sep_failed (pos s1) (t0 :: todo) true (fs s1) with
      | UGHit e r s2 =>
        ug_loop rec' sep n (remove_first e (t0 :: todo)) false (fr sr1)
                ((if truthy (fr sr1) then map fr acc ++ [fr sr1] else map fr acc) ++ [r]) s2
      | UGNone mt s2 => UGDone mt (map fr acc) (set_pos c_loc_sep s2)
      | UGAbort w => UGOAbort w
      end
      = fugo match ug_try rec sep_failed (pos s1) (t0 :: todo) true s1 with
             | UGHit e r s2 =>
               ug_loop rec sep n (remove_first e (t0 :: todo)) false sr1
                       ((if truthy sr1 then acc ++ [sr1] else acc) ++ [r]) s2
             | UGNone mt s2 => UGDone mt acc (set_pos c_loc_sep s2)
             | UGAbort w => UGOAbort w
             end
      /\ invugo match ug_try rec sep_failed (pos s1) (t0 :: todo) true s1 with
             | UGHit e r s2 =>
               ug_loop rec sep n (remove_first e (t0 :: todo)) false sr1
                       ((if truthy sr1 then acc ++ [sr1] else acc) ++ [r]) s2
             | UGNone mt s2 => UGDone mt acc (set_pos c_loc_sep s2)
             | UGAbort w => UGOAbort w
             end).
    { intros sep_failed sr1 s1 c_loc_sep Hs1.
      destruct (ug_try_sim rec rec' Hrec sep_failed (pos s1) (t0 :: todo) true s1 Hs1) as [E I].
      rewrite E. destruct (ug_try rec sep_failed (pos s1) (t0 :: todo) true s1) as [e r s2|mt s2|w];
        cbn [fugr invugr] in *.
      - rewrite truthy_fr, acc_fr.
        replace (map fr (if truthy sr1 then acc ++ [sr1] else acc) ++ [fr r])
          with (map fr ((if truthy sr1 then acc ++ [sr1] else acc) ++ [r])) by (rewrite map_app; reflexivity).
        apply IH. exact I.
      - fsrw. split; [reflexivity | cbn [invugo]; inv_tac].
      - split; [reflexivity | exact Logic.I]. }
    fsrw.
    destruct sep as [sp|]; [|apply Hcont; exact Hs].
    destruct first; [apply Hcont; exact Hs|].
    destruct (Hrec sp false s Hs) as [E I]. rewrite E.
    destruct (rec sp false s) as [r s1|s1|w]; cbn [fo invo] in *.
    + fsrw. apply Hcont. exact I.
    + fsrw. apply Hcont. inv_tac.
    + split; [reflexivity | exact Logic.I].
Qed.

(* ---- bodies of non-terminals *)
Lemma body_sim rec rec' : psim rec rec' ->
  forall k nid nd s, get_node g nid = Some nd -> inv s ->
    osim (body rec k nd s) (body rec' k nd (fs s)).
Proof.
  intros Hrec k nid nd s Hn Hs. unfold body. fsrw.
  destruct (n_kind nd) as [| | | | | | | | | |t oid|o] eqn:Ek; try apply osim_abort.
  - (* Sequence *)
    rewrite fs_enter_ws.
    destruct (seq_sim rec rec' Hrec true (n_kids nd) [] (enter_ws nd s)) as [E I];
      [eapply inv_enter_ws; eassumption|].
    cbn [map] in E. rewrite E.
    destruct (seq_loop rec true (n_kids nd) [] (enter_ws nd s)) as [r s1|s1|w]; cbn [fo invo] in *.
    + destruct r as [|t|[|x l]]; cbn [fr map]; rewrite fs_leave_ws;
        first [apply (osim_ok RNone) | apply (osim_ok (RTree t)) | apply (osim_ok (RList (x :: l)))];
        apply inv_leave_ws; assumption.
    + fsrw. rewrite fs_leave_ws. apply osim_fail. apply inv_leave_ws; inv_tac.
    + apply osim_abort.
  - (* OrderedChoice *)
    rewrite fs_enter_ws.
    destruct (choice_sim rec rec' Hrec (pos s) (n_kids nd) (enter_ws nd s)) as [E I];
      [eapply inv_enter_ws; eassumption|].
    rewrite E.
    destruct (choice_loop rec (pos s) (n_kids nd) (enter_ws nd s)) as [r s1|s1|w]; cbn [fo invo] in *.
    + rewrite is_none_fr, fs_leave_ws. destruct (is_none r).
      * apply osim_nm_raise. apply inv_leave_ws; assumption.
      * apply (osim_ok (RList [r])). apply inv_leave_ws; assumption.
    + apply osim_fail. exact I.
    + apply osim_abort.
  - (* Optional *)
    destruct (n_kids nd) as [|e kids]; [apply osim_abort|]. cbv beta iota.
    step Hrec.
    + apply (osim_ok (RList [r])). exact I.
    + fsrw. apply (osim_ok RNone). inv_tac.
    + apply osim_abort.
  - (* ZeroOrMore *)
    destruct (n_kids nd) as [|e kids]; [apply osim_abort|]. cbv beta iota.
    rewrite fs_enter_eol.
    destruct (rep_sim rec rec' Hrec e (n_sep nd) false k true [] (enter_eol nd s)) as [E I]; [inv_tac|].
    cbn [map] in E. rewrite E.
    destruct (rep_loop rec e (n_sep nd) false k true [] (enter_eol nd s)) as [r s1|s1|w]; cbn [fo invo] in *.
    + rewrite fs_leave_eol. apply osim_ok. inv_tac.
    + rewrite fs_leave_eol. apply osim_fail. inv_tac.
    + apply osim_abort.
  - (* OneOrMore *)
    destruct (n_kids nd) as [|e kids]; [apply osim_abort|]. cbv beta iota.
    rewrite fs_enter_eol.
    destruct (rep_sim rec rec' Hrec e (n_sep nd) true k true [] (enter_eol nd s)) as [E I]; [inv_tac|].
    cbn [map] in E. rewrite E.
    destruct (rep_loop rec e (n_sep nd) true k true [] (enter_eol nd s)) as [r s1|s1|w]; cbn [fo invo] in *.
    + rewrite fs_leave_eol. apply osim_ok. inv_tac.
    + rewrite fs_leave_eol. apply osim_fail. inv_tac.
    + apply osim_abort.
  - (* UnorderedGroup *)
    destruct (n_kids nd) as [|e kids]; [apply osim_abort|]. cbv beta iota.
    rewrite fs_enter_eol.
    destruct (ug_loop_sim rec rec' Hrec (n_sep nd) (S (length (e :: kids))) (e :: kids) true RNone []
                          (enter_eol nd s)) as [E I]; [inv_tac|].
    cbn [map fr] in E. rewrite E.
    destruct (ug_loop rec (n_sep nd) (S (length (e :: kids))) (e :: kids) true RNone [] (enter_eol nd s))
      as [mt acc s1|w]; cbn [fugo invugo] in *.
    + rewrite fs_leave_eol. destruct mt.
      * destruct acc as [|x acc]; [apply (osim_ok RNone) | apply (osim_ok (RList (x :: acc)))]; inv_tac.
      * rewrite fs_set_pos. apply osim_nm_raise. inv_tac.
    + apply osim_abort.
  - (* And *)
    destruct (seq_sim rec rec' Hrec false (n_kids nd) [] s Hs) as [E I]. cbn [map] in E. rewrite E.
    destruct (seq_loop rec false (n_kids nd) [] s) as [r s1|s1|w]; cbn [fo invo] in *.
    + fsrw. apply (osim_ok RNone). inv_tac.
    + fsrw. apply osim_fail. inv_tac.
    + apply osim_abort.
  - (* Not *)
    destruct (seq_sim rec rec' Hrec false (n_kids nd) [] s Hs) as [E I]. cbn [map] in E. rewrite E.
    destruct (seq_loop rec false (n_kids nd) [] s) as [r s1|s1|w]; cbn [fo invo] in *.
    + rewrite fs_set_pos. apply osim_nm_raise. inv_tac.
    + fsrw. apply (osim_ok RNone). inv_tac.
    + apply osim_abort.
  - (* Empty *)
    apply (osim_ok RNone). exact Hs.
Qed.

(* ---- parse *)
Theorem parse_sim : forall fuel,
  psim (parse g input orc memo fuel) (parse g' input' orc' memo fuel).
Proof.
  induction fuel as [|f IH]; intros nid psq s Hs; cbn [parse]; [apply osim_abort|].
  pose proof (H_nodes nid) as Hn.
  destruct (get_node g nid) as [nd|] eqn:En; destruct (get_node g' nid) as [nd'|] eqn:En';
    try contradiction; [|apply osim_abort].
  unfold node_sim in Hn. destruct (is_match_kind (n_kind nd)) eqn:Em.
  - destruct Hn as [Hm' [Hsup Hterm]]. rewrite Hm'.
    destruct (match_pre_sim _ _ IH f s Hs) as [E I]. rewrite E.
    destruct (match_pre g input (parse g input orc memo f) f s) as [r s1|s1|w]; cbn [fo invo] in *.
    + rewrite Hterm. pose proof (invo_term_parse nid (n_kind nd) psq s1 I) as It.
      destruct (term_parse input orc nid (n_kind nd) psq s1) as [r2 s2|s2|w]; cbn [fo invo] in *.
      * rewrite Hsup. destruct (n_suppress nd); [apply (osim_ok RNone) | apply osim_ok]; exact It.
      * apply osim_fail. exact It.
      * apply osim_abort.
    + apply osim_fail. exact I.
    + apply osim_abort.
  - subst nd'. rewrite Em. rewrite fs_pos, fs_cache.
    destruct memo.
    + rewrite clookup_fcache.
      destruct (clookup nid (pos s) (cache s)) as [[[|cr] np]|]; cbn [fst snd fcr].
      * fsrw. apply osim_fail. inv_tac.
      * fsrw. apply osim_ok. inv_tac.
      * destruct (body_sim _ _ IH f nid nd s En Hs) as [E I]. rewrite E.
        destruct (body (parse g input orc true f) f nd s) as [r s1|s1|w]; cbn [fo invo] in *.
        -- rewrite post_fr, fs_pos, fs_cput_res. apply osim_ok. inv_tac.
        -- fsrw. rewrite fs_cput_nomatch. apply osim_fail. inv_tac.
        -- apply osim_abort.
    + destruct (body_sim _ _ IH f nid nd s En Hs) as [E I]. rewrite E.
      destruct (body (parse g input orc false f) f nd s) as [r s1|s1|w]; cbn [fo invo] in *.
      * rewrite post_fr. apply osim_ok. exact I.
      * fsrw. apply osim_fail. inv_tac.
      * apply osim_abort.
Qed.

End Sim.

(* ---------------------------------------------------------------- run *)
Theorem run_sim :
  forall supf g g' input input' orc orc' memo (wsP : list N -> Prop) cfg fuel,
    (forall nid,
        match get_node g nid, get_node g' nid with
        | None, None => True
        | Some nd, Some nd' => node_sim supf input input' orc orc' nid nd nd'
        | _, _ => False
        end) ->
    g_comments g' = g_comments g ->
    g_top g' = g_top g ->
    (forall nid nd w, get_node g nid = Some nd -> n_ws nd = Some w -> wsP w) ->
    (forall w, wsP w -> wsP (strip_eol w)) ->
    (forall w p, wsP w -> skip_ws_from w (skipn p input') p = skip_ws_from w (skipn p input) p) ->
    wsP (c_ws cfg) ->
    run g' cfg orc' memo fuel input' = foutcome supf (run g cfg orc memo fuel input).
Proof.
  intros supf g g' input input' orc orc' memo wsP cfg fuel Hn Hc Ht Hw Hs Hk Hcfg.
  unfold run. rewrite Ht.
  assert (Hi : inv wsP (init_st cfg)) by (split; exact Hcfg).
  destruct (parse_sim supf g g' input input' orc orc' memo wsP Hn Hc Hw Hs Hk fuel (g_top g) false
                      (init_st cfg) Hi) as [E _].
  rewrite fs_init in E.
  rewrite E.
  destruct (parse g input orc memo fuel (g_top g) false (init_st cfg)) as [r s|s|w]; cbn [fo foutcome];
    [reflexivity | rewrite fs_nm_pos; reflexivity | reflexivity].
Qed.
