(* C15 for the model repositories: composition with the repository model of C17/C18
   (Model/Repo.v, Proofs/RepoProofs.v, read only). *)
From TxV Require Import Core.Base Model.RepoDefs Gen.SrcRepo Model.Repo Proofs.RepoProofs.

(* A load with the same metamodel configuration fails at any point of any history (file loads,
   string loads, rewritten files) - the main model from a file or from a string: every repository
   component is what it was when the load began. *)
Theorem failed_load_repositories_restored c builtins fs0 ops s' :
  let s := run_hist c fs0 (init_state builtins) ops in
  (exists fs f e, load_main fs c f s = (inl e, s')) \/ (exists fs fc e, load_str fs c fc s = (inl e, s')) ->
  heap s' = heap s /\ allm s' = allm (begin_op c s) /\ locals s' = locals s /\ constr s' = constr s /\
  targets s' = targets s /\
  (forall k v, In (k, v) (allm s') -> v < length (heap s)).
Proof.
  intros s H.
  destruct (run_hist_stable_tidy c ops fs0 (init_state builtins) (Stable_init builtins) (Tidy_init builtins)) as [HS HT].
  fold s in HS, HT.
  assert (R : heap s' = heap s /\ allm s' = allm (begin_op c s) /\ locals s' = locals s /\ constr s' = constr s /\
              targets s' = targets s /\ curop s' = curop s).
  { destruct H as [[fs [f [e H]]]|[fs [fc [e H]]]].
    - exact (failed_load_restores_state fs c f s e s' HS HT H).
    - exact (failed_load_str_restores_state fs c fc s e s' HS HT H). }
  destruct R as [R1 [R2 [R3 [R4 [R5 _]]]]].
  repeat (split; [assumption|]).
  (* the entries left are entries of the state before, whose models existed before (Stable) *)
  intros k v Hin. rewrite R2 in Hin.
  destruct HS as [_ [_ [HS3 _]]].
  unfold begin_op in Hin. destruct (cglobal c); cbn in Hin; [|destruct Hin].
  destruct (HS3 k v Hin) as [mi [Hn _]]. apply nth_error_Some. congruence.
Qed.
