(* Proofs about the RREL evaluation model (Model/Rrel.v). *)
From TxV Require Import Core.Base Gen.SrcRrel Model.RrelSyntax Model.Rrel.

(* ------------------------------------------------------------ primitive steps *)
Lemma root_of_spec F m o r : root_of F m o = Some r -> is_root_of m o r.
Proof.
  revert o; induction F as [|F IH]; intros o H; simpl in H.
  - destruct (m_parent m o) eqn:E; [discriminate|]. inversion H; subst. split; [constructor|assumption].
  - destruct (m_parent m o) as [p|] eqn:E.
    + apply IH in H. destruct H as [Ha Hr]. split; [econstructor; eassumption|assumption].
    + inversion H; subst. split; [constructor|assumption].
Qed.

Lemma apply_parent_spec F m T o p : apply_parent F m T o = Some (Some p) -> nearest m T o p.
Proof.
  revert o; induction F as [|F IH]; intros o H; simpl in H.
  - destruct (m_parent m o) as [q|] eqn:E; [|discriminate].
    destruct (m_conf m q T) eqn:C; [|discriminate]. inversion H; subst. apply near_here; assumption.
  - destruct (m_parent m o) as [q|] eqn:E; [|discriminate].
    destruct (m_conf m q T) eqn:C.
    + inversion H; subst. apply near_here; assumption.
    + eapply near_up; eauto.
Qed.

Lemma apply_dots_spec m n o p : apply_dots m n o = Some p -> up m (pred n) o p.
Proof.
  revert o; induction n as [|n IH]; intros o H.
  - simpl in H. inversion H; subst. constructor.
  - destruct n as [|n'].
    + simpl in H. inversion H; subst. constructor.
    + change (apply_dots m (S (S n')) o) with
        (match m_parent m o with Some q => apply_dots m (S n') q | None => None end) in H.
      destruct (m_parent m o) as [q|] eqn:E; [|discriminate].
      apply IH in H. simpl. econstructor; eauto.
Qed.

Lemma name_is_spec m nm x : name_is m nm x = true -> m_name m x = Some nm.
Proof.
  unfold name_is. destruct (m_name m x) as [s|]; [|discriminate].
  intro H. apply str_eqb_eq in H. subst. reflexivity.
Qed.

Lemma base_spec F m (first : bool) (o b : nat) :
  (if first then root_of F m o else Some o) = Some b -> base_of m first o b.
Proof.
  destruct first; simpl; intro H.
  - apply root_of_spec in H. exact H.
  - inversion H; reflexivity.
Qed.

Lemma apply_nav_spec F m name consume fixed first c l :
  apply_nav F m name consume fixed first c = SOuts l ->
  forall c', In c' l -> r_elem m (ENav name consume fixed) first c c'.
Proof.
  unfold apply_nav.
  destruct (if first then root_of F m (c_obj c) else Some (c_obj c)) as [b|] eqn:Eb; [|discriminate].
  apply base_spec in Eb.
  intros H c' Hin.
  assert (Hcase :
    forall v, m_attr m b name = v ->
      match consume, fixed with
      | false, None => SOuts (map (fun x => mk x (c_names c) (c_path c)) (vals v))
      | _, Some f =>
          match List.find (name_is m f) (vals v) with
          | Some x => SOuts [mk x (c_names c) (c_path c ++ [x])]
          | None => SOuts []
          end
      | true, None =>
          match c_names c with
          | nm :: rest =>
              match List.find (name_is m nm) (vals v) with
              | Some x => SOuts [mk x rest (c_path c ++ [x])]
              | None => SOuts []
              end
          | [] => SOuts []
          end
      end = SOuts l ->
      (consume = true -> c_names c <> []) ->
      r_elem m (ENav name consume fixed) first c c').
  { intros v Ev Hl Hne.
    destruct consume, fixed as [f|].
    - destruct (List.find (name_is m f) (vals v)) as [x|] eqn:Ef; inversion Hl; subst; [|contradiction].
      destruct Hin as [<-|[]]. apply find_some in Ef as [Hi Hn]. apply name_is_spec in Hn.
      eapply R_nav_fixed; eauto; try (rewrite Ev; assumption).
    - destruct (c_names c) as [|nm rest] eqn:En; [inversion Hl; subst; contradiction|].
      destruct (List.find (name_is m nm) (vals v)) as [x|] eqn:Ef; inversion Hl; subst; [|contradiction].
      destruct Hin as [<-|[]]. apply find_some in Ef as [Hi Hn]. apply name_is_spec in Hn.
      eapply R_nav_consume; eauto; try (rewrite Ev; assumption).
    - destruct (List.find (name_is m f) (vals v)) as [x|] eqn:Ef; inversion Hl; subst; [|contradiction].
      destruct Hin as [<-|[]]. apply find_some in Ef as [Hi Hn]. apply name_is_spec in Hn.
      eapply R_nav_fixed; eauto; try (rewrite Ev; assumption).
    - inversion Hl; subst. apply in_map_iff in Hin as [x [<- Hi]].
      eapply R_nav_all; eauto; try (rewrite Ev; assumption). }
  remember (m_attr m b name) as v eqn:Ev.
  pose proof (Hcase v eq_refl) as Hc. clear Hcase.
  destruct consume.
  - destruct (c_names c) as [|nm rest] eqn:En.
    + inversion H; subst. contradiction.
    + destruct v; try discriminate;
        try (inversion H; subst; contradiction);
        (apply Hc; [exact H | intros _; discriminate]).
  - destruct v; try discriminate;
      try (inversion H; subst; contradiction);
      (apply Hc; [exact H | discriminate]).
Qed.

(* ------------------------------------------------------------ soundness (wp style) *)
Section Sound.
  Variable m : model.
  Variable Q : res -> Prop.
  Hypothesis QNone : Q RNone.
  Hypothesis QPost : Q RPost.
  Hypothesis QOof : Q ROof.

  Lemma guard_wp kf pos first c s body :
    (forall s1, Q (fst (body s1))) -> Q (fst (guard kf pos first c s body)).
  Proof.
    intro H. unfold guard.
    destruct (existsb _ _); [exact QNone | apply H].
  Qed.

  Lemma iter_outs_wp l k s :
    (forall c, In c l -> forall s1, Q (fst (k c s1))) -> Q (fst (iter_outs l k s)).
  Proof.
    revert s; induction l as [|c l IH]; intros s H; simpl; [exact QNone|].
    destruct (k c s) as [r s'] eqn:E.
    assert (Hr : Q r) by (specialize (H c (or_introl eq_refl) s); rewrite E in H; exact H).
    destruct r; try exact Hr.
    apply IH. intros c0 Hc0. apply H. right; assumption.
  Qed.

  Lemma pd_filter_wp id pos k c :
    (forall s1, Q (fst (k c s1))) -> forall s, Q (fst (pd_filter id pos k c s)).
  Proof.
    intros H s. unfold pd_filter. destruct (existsb _ _); [exact QNone | apply H].
  Qed.

  Lemma star_zero_wp sq F k' first c s1 :
    (forall c', r_elem m (EStar sq) first c c' -> forall s, Q (fst (k' c' s))) ->
    Q (fst (star_zero (sl_seq sq) (sr_seq sq) F m k' first c s1)).
  Proof.
    intro Hk. unfold star_zero. destruct first.
    - assert (H1 : Q (fst (if sl_seq sq then k' c s1 else (RNone, s1)))).
      { destruct (sl_seq sq) eqn:Esl; [|exact QNone]. apply Hk. apply R_star_local; assumption. }
      destruct (if sl_seq sq then k' c s1 else (RNone, s1)) as [r1 s1'].
      destruct r1; try exact H1.
      destruct (sr_seq sq) eqn:Esr; [|exact QNone].
      destruct (root_of F m (c_obj c)) as [rt|] eqn:Ert; [|exact QOof].
      apply Hk. apply R_star_root; [assumption | eapply root_of_spec; eauto].
    - apply Hk. apply R_star_stay.
  Qed.

  Lemma gfz_wp evs sq F kf pos k' :
    (forall f c k s, (forall c', r_seq m sq f c c' -> forall s1, Q (fst (k c' s1))) -> Q (fst (evs f c k s))) ->
    forall n first c s,
      (forall c', r_elem m (EStar sq) first c c' -> forall s1, Q (fst (k' c' s1))) ->
      Q (fst (gfz evs (sl_seq sq) (sr_seq sq) F m kf pos k' n first c s)).
  Proof.
    intros Hevs. induction n as [|n IH]; intros first c s Hk; simpl; [exact QOof|].
    apply guard_wp. intros s1.
    assert (Hz := star_zero_wp sq F k' first c s1 Hk).
    destruct (star_zero (sl_seq sq) (sr_seq sq) F m k' first c s1) as [r s2].
    destruct r; try exact Hz.
    apply Hevs. intros c1 Hc1 s3. apply IH.
    intros c' Hc' s4. apply Hk. eapply R_star_more; eauto.
  Qed.

  Lemma ev_wp F kf :
    (forall e pos first c k s,
        (forall c', r_elem m e first c c' -> forall s1, Q (fst (k c' s1))) ->
        Q (fst (ev_elem F m kf pos e first c k s))) /\
    (forall p q i j first c k s,
        (forall c', r_path m p first c c' -> forall s1, Q (fst (k c' s1))) ->
        Q (fst (ev_path F m kf q i j p first c k s))) /\
    (forall sq,
        (forall q i first c k s,
            (forall c', r_seq m sq first c c' -> forall s1, Q (fst (k c' s1))) ->
            Q (fst (ev_alts F m kf q i sq first c k s))) /\
        (forall q first c k s,
            (forall c', r_seq m sq first c c' -> forall s1, Q (fst (k c' s1))) ->
            Q (fst (ev_seq F m kf q sq first c k s)))).
  Proof.
    apply rrel_mutind.
    - (* EParent *)
      intros T pos first c k s Hk. simpl. apply guard_wp. intro s1.
      destruct (apply_parent F m T (c_obj c)) as [[p|]|] eqn:E; [|exact QNone|exact QOof].
      apply Hk. constructor. eapply apply_parent_spec; eauto.
    - (* ENav *)
      intros name consume fixed pos first c k s Hk. simpl. apply guard_wp. intro s1.
      destruct (apply_nav F m name consume fixed first c) as [l| |] eqn:E; [|exact QPost|exact QOof].
      apply iter_outs_wp. intros c' Hin s2. apply Hk. eapply apply_nav_spec; eauto.
    - (* EDots *)
      intros n pos first c k s Hk. simpl. apply guard_wp. intro s1.
      destruct (apply_dots m n (c_obj c)) as [p|] eqn:E; [|exact QNone].
      apply Hk. constructor. apply apply_dots_spec; assumption.
    - (* EBr *)
      intros sq [_ IH] pos first c k s Hk. simpl. apply guard_wp. intro s1.
      apply IH. intros c' Hc'. apply Hk. constructor; assumption.
    - (* EStar *)
      intros sq [_ IH] pos first c k s Hk. simpl.
      apply gfz_wp.
      + intros f c1 k1 s1 Hk1. apply IH. exact Hk1.
      + intros c' Hc' s1. apply pd_filter_wp. intro s2. apply Hk. exact Hc'.
    - (* P1 *)
      intros e IH q i j first c k s Hk. simpl. apply IH.
      intros c' Hc'. apply Hk. constructor; assumption.
    - (* PCons *)
      intros e IHe p IHp q i j first c k s Hk. simpl. apply IHe.
      intros c1 Hc1 s1. apply IHp. intros c2 Hc2. apply Hk. econstructor; eauto.
    - (* S1 *)
      intros p IHp. split.
      + intros q i first c k s Hk. simpl. apply IHp. intros c' Hc'. apply Hk. constructor; assumption.
      + intros q first c k s Hk. simpl. apply guard_wp. intro s1.
        apply IHp. intros c' Hc'. apply Hk. constructor; assumption.
    - (* SCons *)
      intros p IHp sq [IHa _]. split.
      + intros q i first c k s Hk. simpl.
        destruct (ev_path F m kf q i 0 p first c k s) as [r s1] eqn:E.
        assert (Hr : Q r).
        { assert (H := IHp q i 0 first c k s). rewrite E in H. apply H.
          intros c' Hc'. apply Hk. apply RS_head; assumption. }
        destruct r; try exact Hr.
        apply IHa. intros c' Hc'. apply Hk. apply RS_tail; assumption.
      + intros q first c k s Hk. simpl. apply guard_wp. intro s1.
        destruct (ev_path F m kf q 0 0 p first c k s1) as [r s2] eqn:E.
        assert (Hr : Q r).
        { assert (H := IHp q 0 0 first c k s1). rewrite E in H. apply H.
          intros c' Hc'. apply Hk. apply RS_head; assumption. }
        destruct r; try exact Hr.
        apply IHa. intros c' Hc'. apply Hk. apply RS_tail; assumption.
  Qed.
End Sound.

(* every answer RFound t tr of find_object_with_path is justified, tr being the path *)
Lemma fowp_sound F m kf sq o names T t tr s :
  fowp F m kf sq o names T = (RFound t tr, s) -> justified m sq o names T t tr.
Proof.
  intro H.
  set (Q := fun r => match r with RFound t tr => justified m sq o names T t tr | _ => True end).
  assert (HQ : Q (fst (fowp F m kf sq o names T))).
  { unfold fowp.
    destruct (ev_wp m Q I I I F kf) as [_ [_ Hs]]. destruct (Hs sq) as [Ha _].
    apply Ha. intros c' Hc' s1. unfold final.
    destruct c' as [o' ns' tr']; simpl in *.
    destruct ns' as [|n ns']; [|exact I].
    destruct (conf_opt m T o') eqn:C; [|exact I].
    simpl. split; assumption. }
  rewrite H in HQ. exact HQ.
Qed.

(* ------------------------------------------------------------ find and the proxy path *)
Lemma proxy_path_spec t tr :
  (proxy_path t tr = tr /\ exists pre, tr = pre ++ [t]) \/
  (proxy_path t tr = tr ++ [t] /\ forall pre, tr <> pre ++ [t]).
Proof.
  unfold proxy_path. destruct (rev tr) as [|x l] eqn:E.
  - right. assert (tr = []) by (rewrite <- (rev_involutive tr), E; reflexivity). subst.
    split; [reflexivity|]. intros pre H. destruct pre; discriminate.
  - assert (Htr : tr = rev l ++ [x]) by (rewrite <- (rev_involutive tr), E; reflexivity).
    destruct (Nat.eqb x t) eqn:Ex.
    + apply Nat.eqb_eq in Ex. subst x. left. split; [reflexivity|]. exists (rev l). exact Htr.
    + right. split; [reflexivity|]. intros pre H. rewrite Htr in H.
      apply app_inj_tail in H as [_ H]. subst. rewrite Nat.eqb_refl in Ex. discriminate.
Qed.

Lemma proxy_path_last t tr d : last (proxy_path t tr) d = t.
Proof.
  destruct (proxy_path_spec t tr) as [[-> [pre ->]]|[-> _]]; apply last_last.
Qed.

Lemma find_obj_sound F m kf sq o names T t :
  find F m kf sq o names T false = FObj t -> exists tr, justified m sq o names T t tr.
Proof.
  unfold find. destruct (fowp F m kf sq o names T) as [r s] eqn:E. simpl.
  destruct r; try discriminate. intro H. inversion H; subst.
  eexists. eapply fowp_sound; eauto.
Qed.

Lemma find_proxy_sound F m kf sq o names T p :
  find F m kf sq o names T true = FProxy p ->
  exists t tr, justified m sq o names T t tr /\ p = proxy_path t tr.
Proof.
  unfold find. destruct (fowp F m kf sq o names T) as [r s] eqn:E. simpl.
  destruct r; try discriminate. intro H. inversion H; subst.
  do 2 eexists. split; [eapply fowp_sound; eauto | reflexivity].
Qed.

(* find with and without use_proxy answer from the same search *)
Lemma find_proxy_obj F m kf sq o names T p :
  find F m kf sq o names T true = FProxy p ->
  find F m kf sq o names T false = FObj (last p 0).
Proof.
  unfold find. destruct (fst (fowp F m kf sq o names T)); try discriminate.
  intro H. inversion H. rewrite proxy_path_last. reflexivity.
Qed.

Lemma find_proxy_full : forall F m kf sq o names T p,
  find F m kf sq o names T true = FProxy p ->
  exists t tr, justified m sq o names T t tr /\
               (p = tr \/ p = tr ++ [t]) /\ last p 0 = t /\
               find F m kf sq o names T false = FObj t.
Proof.
  intros F m kf sq o names T p H.
  destruct (find_proxy_sound _ _ _ _ _ _ _ _ H) as [t [tr [Hj Hp]]].
  exists t, tr. split; [exact Hj|]. split.
  - destruct (proxy_path_spec t tr) as [[E _]|[E _]]; rewrite <- E, <- Hp; auto.
  - split; [rewrite Hp; apply proxy_path_last|].
    rewrite (find_proxy_obj _ _ _ _ _ _ _ _ H), Hp, proxy_path_last. reflexivity.
Qed.

(* ------------------------------------------------------------ ',' precedence at the top *)
Lemma fowp_first_alt F m kf p sq o names T :
  fst (fowp F m kf (S1 p) o names T) <> RNone ->
  fowp F m kf (SCons p sq) o names T = fowp F m kf (S1 p) o names T.
Proof.
  unfold fowp. simpl.
  destruct (ev_path F m kf [] 0 0 p true (mk o names []) (final m T) st0) as [r s]. simpl.
  intro H. destruct r; try reflexivity. contradiction.
Qed.

Lemma find_first_alt F m kf p sq o names T px :
  find F m kf (S1 p) o names T px <> FNone ->
  find F m kf (SCons p sq) o names T px = find F m kf (S1 p) o names T px.
Proof.
  intro H. unfold find in *. rewrite fowp_first_alt; [reflexivity|].
  intro E. rewrite E in H. apply H; reflexivity.
Qed.

(* when the first alternative finds nothing, an answer is justified by the remaining ones *)
Lemma find_later_alt F m kf p sq o names T t :
  find F m kf (S1 p) o names T false = FNone ->
  find F m kf (SCons p sq) o names T false = FObj t ->
  exists tr, r_seq m sq true (mk o names []) (mk t [] tr) /\ conf_opt m T t = true.
Proof.
  unfold find, fowp. simpl.
  destruct (ev_path F m kf [] 0 0 p true (mk o names []) (final m T) st0) as [r s]. simpl.
  destruct r; try discriminate. intros _.
  set (Q := fun r => match r with
                     | RFound t tr => r_seq m sq true (mk o names []) (mk t [] tr) /\ conf_opt m T t = true
                     | _ => True end).
  assert (HQ : Q (fst (ev_alts F m kf [] 1 sq true (mk o names []) (final m T) s))).
  { destruct (ev_wp m Q I I I F kf) as [_ [_ Hs]]. destruct (Hs sq) as [Ha _].
    apply Ha. intros c' Hc' s1. unfold final.
    destruct c' as [o' ns' tr']; simpl in *.
    destruct ns' as [|n ns']; [|exact I].
    destruct (conf_opt m T o') eqn:C; [|exact I].
    simpl. split; assumption. }
  destruct (fst (ev_alts F m kf [] 1 sq true (mk o names []) (final m T) s)); try discriminate.
  intro H. inversion H; subst. eexists. exact HQ.
Qed.

(* ------------------------------------------------------------ consumed names and the path *)
Scheme r_elem_min := Minimality for r_elem Sort Prop
  with r_path_min := Minimality for r_path Sort Prop
  with r_seq_min := Minimality for r_seq Sort Prop.
Combined Scheme r_mutind from r_elem_min, r_path_min, r_seq_min.

Lemma embeds_app m a b x y : embeds m a x -> embeds m b y -> embeds m (a ++ b) (x ++ y).
Proof.
  intros H1 H2. induction H1; simpl; [assumption| |]; constructor; assumption.
Qed.

(* the step from c to c' consumes a prefix of the names and extends the path by objects
   among which the consumed names occur in order *)
Definition extends (m : model) (c c' : cfg) : Prop :=
  exists cons new, c_names c = cons ++ c_names c' /\ c_path c' = c_path c ++ new /\ embeds m cons new.

Lemma extends_refl m c : extends m c c.
Proof. exists [], []. rewrite app_nil_r. repeat split; constructor. Qed.

Lemma extends_same m c o : extends m c (mk o (c_names c) (c_path c)).
Proof. exists [], []. simpl. rewrite app_nil_r. repeat split; constructor. Qed.

Lemma extends_trans m a b c : extends m a b -> extends m b c -> extends m a c.
Proof.
  intros [c1 [n1 [H1 [H2 H3]]]] [c2 [n2 [H4 [H5 H6]]]].
  exists (c1 ++ c2), (n1 ++ n2). split; [|split].
  - rewrite H1, H4, app_assoc. reflexivity.
  - rewrite H5, H2, app_assoc. reflexivity.
  - apply embeds_app; assumption.
Qed.

Lemma r_extends m :
  (forall e f c c', r_elem m e f c c' -> extends m c c') /\
  (forall p f c c', r_path m p f c c' -> extends m c c') /\
  (forall s f c c', r_seq m s f c c' -> extends m c c').
Proof.
  apply r_mutind; intros; try (apply extends_same); try (apply extends_refl); try assumption.
  - (* consume *)
    exists [nm], [x]. simpl. repeat split; try assumption.
    apply emb_take; [assumption | constructor].
  - (* fixed *)
    exists [], [x]. simpl. repeat split. apply emb_skip. constructor.
  - eapply extends_trans; eassumption.
  - eapply extends_trans; eassumption.
Qed.

Lemma justified_names m sq o names T t tr :
  justified m sq o names T t tr -> embeds m names tr.
Proof.
  intros [H _]. destruct (r_extends m) as [_ [_ Hs]].
  destruct (Hs _ _ _ _ H) as [cons [new [H1 [H2 H3]]]]. simpl in *.
  rewrite app_nil_r in H1. subst. exact H3.
Qed.

(* without fixed-name steps the path is exactly the objects named by the name parts *)
Definition extends_exact (m : model) (c c' : cfg) : Prop :=
  exists cons new, c_names c = cons ++ c_names c' /\ c_path c' = c_path c ++ new /\
                   Forall2 (fun nm x => m_name m x = Some nm) cons new.

Lemma extends_exact_trans m a b c : extends_exact m a b -> extends_exact m b c -> extends_exact m a c.
Proof.
  intros [c1 [n1 [H1 [H2 H3]]]] [c2 [n2 [H4 [H5 H6]]]].
  exists (c1 ++ c2), (n1 ++ n2). split; [|split].
  - rewrite H1, H4, app_assoc. reflexivity.
  - rewrite H5, H2, app_assoc. reflexivity.
  - apply Forall2_app; assumption.
Qed.

Lemma extends_exact_same m c o : extends_exact m c (mk o (c_names c) (c_path c)).
Proof. exists [], []. simpl. rewrite app_nil_r. repeat split; constructor. Qed.

Lemma extends_exact_refl m c : extends_exact m c c.
Proof. exists [], []. rewrite app_nil_r. repeat split; constructor. Qed.

Lemma r_extends_exact m :
  (forall e f c c', r_elem m e f c c' -> nofix_elem e = true -> extends_exact m c c') /\
  (forall p f c c', r_path m p f c c' -> nofix_path p = true -> extends_exact m c c') /\
  (forall s f c c', r_seq m s f c c' -> nofix_seq s = true -> extends_exact m c c').
Proof.
  apply r_mutind; intros; simpl in *;
    try (apply extends_exact_same); try (apply extends_exact_refl);
    try discriminate; auto.
  - exists [nm], [x]. simpl. repeat split; try assumption. constructor; [assumption|constructor].
  - eapply extends_exact_trans; eauto.
  - match goal with H : _ && _ = true |- _ => apply andb_true_iff in H as [Ha Hb] end. eapply extends_exact_trans; eauto.
  - match goal with H : _ && _ = true |- _ => apply andb_true_iff in H as [Ha Hb] end. auto.
  - match goal with H : _ && _ = true |- _ => apply andb_true_iff in H as [Ha Hb] end. auto.
Qed.

Lemma justified_names_exact m sq o names T t tr :
  nofix_seq sq = true -> justified m sq o names T t tr ->
  Forall2 (fun nm x => m_name m x = Some nm) names tr.
Proof.
  intros Hn [H _]. destruct (r_extends_exact m) as [_ [_ Hs]].
  destruct (Hs _ _ _ _ H Hn) as [cons [new [H1 [H2 H3]]]]. simpl in *.
  rewrite app_nil_r in H1. subst. exact H3.
Qed.

(* ------------------------------------------------------------ name splitting *)
Lemma split_name_nonempty sep s : Forall (fun p => p <> []) (split_name sep s).
Proof.
  unfold split_name. apply Forall_forall. intros p Hp.
  apply filter_In in Hp as [_ Hp]. destruct p; [discriminate|discriminate].
Qed.

(* ------------------------------------------------------------ determinism of primitive steps *)
Lemma root_unique m o r r' : is_root_of m o r -> is_root_of m o r' -> r = r'.
Proof.
  intros [Ha Hr] [Ha' Hr']. induction Ha as [o|o p r Hp Ha IH].
  - inversion Ha' as [|o1 p1 r1 Hp1 Ha1]; subst; [reflexivity|]. rewrite Hr in Hp1. discriminate.
  - inversion Ha' as [|o1 p1 r1 Hp1 Ha1]; subst.
    + rewrite Hr' in Hp. discriminate.
    + rewrite Hp in Hp1. inversion Hp1; subst. apply IH; assumption.
Qed.

Lemma base_det F m (first : bool) (o b b0 : nat) :
  base_of m first o b -> (if first then root_of F m o else Some o) = Some b0 -> b0 = b.
Proof.
  destruct first; simpl; intros Hb H.
  - apply root_of_spec in H. eapply root_unique; eauto.
  - unfold base_of in Hb. congruence.
Qed.

Lemma apply_parent_complete m T o p :
  nearest m T o p -> forall F r, apply_parent F m T o = Some r -> r = Some p.
Proof.
  induction 1 as [T o p Hp Hc | T o q p Hp Hc Hn IH]; intros F r H.
  - destruct F; simpl in H; rewrite Hp, Hc in H; inversion H; reflexivity.
  - destruct F; simpl in H; rewrite Hp, Hc in H; [discriminate|]. eapply IH; eauto.
Qed.

Lemma apply_dots_complete m n : forall o p, up m (pred n) o p -> apply_dots m n o = Some p.
Proof.
  induction n as [|n IH]; intros o p H.
  - simpl in H. inversion H; subst. reflexivity.
  - destruct n as [|n'].
    + simpl in H. inversion H; subst. reflexivity.
    + simpl in H. inversion H as [|n0 o0 q p0 Hq Hu]; subst.
      change (apply_dots m (S (S n')) o) with
        (match m_parent m o with Some q => apply_dots m (S n') q | None => None end).
      rewrite Hq. apply IH. simpl. exact Hu.
Qed.

Lemma name_is_true m nm x : m_name m x = Some nm -> name_is m nm x = true.
Proof. unfold name_is. intros ->. apply str_eqb_refl. Qed.

Lemma find_unique m b a x nm :
  siblings_unique m -> In x (vals (m_attr m b a)) -> m_name m x = Some nm ->
  List.find (name_is m nm) (vals (m_attr m b a)) = Some x.
Proof.
  intros Hu Hin Hn. destruct (List.find (name_is m nm) (vals (m_attr m b a))) as [y|] eqn:E.
  - apply find_some in E as [Hy Hny]. apply name_is_spec in Hny.
    f_equal. eapply Hu; eauto.
  - eapply find_none in E; [|exact Hin]. rewrite (name_is_true _ _ _ Hn) in E. discriminate.
Qed.

Lemma vals_in_shape v x : In x (vals v) -> (exists y, v = VObj y) \/ (exists l, v = VList l).
Proof. destruct v; simpl; try contradiction; eauto. Qed.

Lemma apply_nav_complete F m name consume fixed first c c' l :
  siblings_unique m ->
  r_elem m (ENav name consume fixed) first c c' ->
  apply_nav F m name consume fixed first c = SOuts l -> In c' l.
Proof.
  intros Hu Hr. unfold apply_nav.
  destruct (if first then root_of F m (c_obj c) else Some (c_obj c)) as [b0|] eqn:Eb; [|discriminate].
  inversion Hr as [| |name0 first0 c0 b x Hb Hin|name0 first0 c0 b x nm rest Hb Hin Hns Hnm
                   |name0 consume0 f first0 c0 b x Hb Hin Hne Hnm| | | | |]; subst.
  - (* ~name *)
    assert (b0 = b) by (eapply base_det; eauto). subst b0. simpl.
    destruct (vals_in_shape _ _ Hin) as [[y Ev]|[l0 Ev]]; rewrite Ev in *; intro H; inversion H; subst;
      apply (in_map (fun x => mk x (c_names c) (c_path c))) in Hin; exact Hin.
  - (* consuming *)
    assert (b0 = b) by (eapply base_det; eauto). subst b0. rewrite Hns.
    pose proof (find_unique m b name x nm Hu Hin Hnm) as Hf.
    destruct (vals_in_shape _ _ Hin) as [[y Ev]|[l0 Ev]]; rewrite Ev in *; rewrite Hf;
      intro H; inversion H; subst; left; reflexivity.
  - (* fixed name *)
    assert (b0 = b) by (eapply base_det; eauto). subst b0.
    pose proof (find_unique m b name x f Hu Hin Hnm) as Hf.
    destruct consume.
    + destruct (c_names c) as [|nm rest] eqn:En; [exfalso; apply Hne; reflexivity|].
      destruct (vals_in_shape _ _ Hin) as [[y Ev]|[l0 Ev]]; rewrite Ev in *; rewrite Hf;
        intro H; inversion H; subst; left; reflexivity.
    + destruct (vals_in_shape _ _ Hin) as [[y Ev]|[l0 Ev]]; rewrite Ev in *; rewrite Hf;
        intro H; inversion H; subst; left; reflexivity.
Qed.

(* ------------------------------------------------------------ searches without pruning *)
Definition clean (x : res * st) : Prop := fst x = RNone /\ hit (snd x) = false.
Definition monoc (f : st -> res * st) : Prop := forall s, hit s = true -> hit (snd (f s)) = true.
Definition mono (k : cfg -> st -> res * st) : Prop := forall c, monoc (k c).

Lemma clean_hit f s : monoc f -> clean (f s) -> hit s = false.
Proof.
  intros Hm [_ Hc]. destruct (hit s) eqn:E; [|reflexivity]. rewrite (Hm s E) in Hc. discriminate.
Qed.

Lemma guard_mono kf pos first c body : monoc body -> monoc (fun s => guard kf pos first c s body).
Proof.
  intros H s Hs. unfold guard. destruct (existsb _ _); simpl; [reflexivity|]. apply H. simpl. exact Hs.
Qed.

Lemma iter_outs_mono l k : mono k -> monoc (iter_outs l k).
Proof.
  intros Hk. induction l as [|c l IH]; intros s Hs; simpl; [exact Hs|].
  destruct (k c s) as [r s'] eqn:E.
  assert (Hs' : hit s' = true) by (specialize (Hk c s Hs); rewrite E in Hk; exact Hk).
  destruct r; simpl; auto.
Qed.

Lemma pd_filter_mono id pos k : mono k -> mono (pd_filter id pos k).
Proof.
  intros Hk c s Hs. unfold pd_filter. destruct (existsb _ _); simpl; [reflexivity|]. apply Hk. simpl. exact Hs.
Qed.

Lemma star_zero_mono sl sr F m k' first c : mono k' -> monoc (star_zero sl sr F m k' first c).
Proof.
  intros Hk s Hs. unfold star_zero. destruct first; [|apply Hk; exact Hs].
  assert (H1 : hit (snd (if sl then k' c s else (RNone, s))) = true).
  { destruct sl; [apply Hk; exact Hs | exact Hs]. }
  destruct (if sl then k' c s else (RNone, s)) as [r1 s1']. simpl in H1.
  destruct r1; simpl; try exact H1.
  destruct sr; [|exact H1].
  destruct (root_of F m (c_obj c)); [apply Hk; exact H1 | exact H1].
Qed.

Lemma gfz_mono evs sl sr F m kf pos k' :
  (forall f c k, mono k -> monoc (evs f c k)) -> mono k' ->
  forall n first c, monoc (gfz evs sl sr F m kf pos k' n first c).
Proof.
  intros Hevs Hk. induction n as [|n IH]; intros first c s Hs; simpl; [exact Hs|].
  apply (guard_mono kf pos first c); [|exact Hs]. intros s1 Hs1.
  pose proof (star_zero_mono sl sr F m k' first c Hk s1 Hs1) as Hz.
  destruct (star_zero sl sr F m k' first c s1) as [r s2]. simpl in Hz.
  destruct r; simpl; try exact Hz.
  apply Hevs; [|exact Hz]. intros c1. apply IH.
Qed.

Lemma ev_mono F m kf :
  (forall e pos first c k, mono k -> monoc (ev_elem F m kf pos e first c k)) /\
  (forall p q i j first c k, mono k -> monoc (ev_path F m kf q i j p first c k)) /\
  (forall sq,
      (forall q i first c k, mono k -> monoc (ev_alts F m kf q i sq first c k)) /\
      (forall q first c k, mono k -> monoc (ev_seq F m kf q sq first c k))).
Proof.
  apply rrel_mutind.
  - intros T pos first c k Hk s Hs. simpl. apply (guard_mono kf pos first c); [|exact Hs].
    intros s1 Hs1. destruct (apply_parent F m T (c_obj c)) as [[p|]|]; simpl; try exact Hs1. apply Hk; exact Hs1.
  - intros name consume fixed pos first c k Hk s Hs. simpl. apply (guard_mono kf pos first c); [|exact Hs].
    intros s1 Hs1. destruct (apply_nav F m name consume fixed first c); simpl; try exact Hs1.
    apply iter_outs_mono; assumption.
  - intros n pos first c k Hk s Hs. simpl. apply (guard_mono kf pos first c); [|exact Hs].
    intros s1 Hs1. destruct (apply_dots m n (c_obj c)); simpl; try exact Hs1. apply Hk; exact Hs1.
  - intros sq [_ IH] pos first c k Hk s Hs. simpl. apply (guard_mono kf pos first c); [|exact Hs].
    intros s1 Hs1. apply IH; assumption.
  - intros sq [_ IH] pos first c k Hk s Hs. simpl.
    apply gfz_mono.
    + intros f c1 k1 Hk1. apply IH. exact Hk1.
    + apply pd_filter_mono. exact Hk.
    + simpl. exact Hs.
  - intros e IH q i j first c k Hk. simpl. apply IH. exact Hk.
  - intros e IHe p IHp q i j first c k Hk. simpl. apply IHe. intros c1. apply IHp. exact Hk.
  - intros p IHp. split.
    + intros q i first c k Hk. simpl. apply IHp. exact Hk.
    + intros q first c k Hk s Hs. simpl. apply (guard_mono kf q first c); [|exact Hs]. apply IHp. exact Hk.
  - intros p IHp sq [IHa _]. split.
    + intros q i first c k Hk s Hs. simpl.
      pose proof (IHp q i 0 first c k Hk s Hs) as H1.
      destruct (ev_path F m kf q i 0 p first c k s) as [r s1]. simpl in H1.
      destruct r; simpl; try exact H1. apply IHa; assumption.
    + intros q first c k Hk s Hs. simpl. apply (guard_mono kf q first c); [|exact Hs]. intros s1 Hs1.
      pose proof (IHp q 0 0 first c k Hk s1 Hs1) as H1.
      destruct (ev_path F m kf q 0 0 p first c k s1) as [r s2]. simpl in H1.
      destruct r; simpl; try exact H1. apply IHa; assumption.
Qed.

Lemma guard_clean kf pos first c s body : clean (guard kf pos first c s body) -> exists s1, clean (body s1).
Proof.
  unfold guard. destruct (existsb _ _).
  - intros [_ H]. simpl in H. discriminate.
  - intro H. eexists. exact H.
Qed.

Lemma iter_outs_clean l k : mono k -> forall s, clean (iter_outs l k s) ->
  forall c, In c l -> exists s1, clean (k c s1).
Proof.
  intros Hk. induction l as [|a l IH]; intros s H c Hin; [destruct Hin|].
  simpl in H. destruct (k a s) as [r s'] eqn:E.
  destruct r; try (destruct H as [H _]; simpl in H; discriminate).
  pose proof (clean_hit _ _ (iter_outs_mono l k Hk) H) as Hs'.
  destruct Hin as [<-|Hin].
  - exists s. rewrite E. split; [reflexivity | exact Hs'].
  - eapply IH; eauto.
Qed.

Lemma pd_filter_clean id pos k c s : clean (pd_filter id pos k c s) -> exists s1, clean (k c s1).
Proof.
  unfold pd_filter. destruct (existsb _ _).
  - intros [_ H]. simpl in H. discriminate.
  - intro H. eexists. exact H.
Qed.

Section Complete.
  Variable m : model.
  Hypothesis Huniq : siblings_unique m.

  Lemma star_zero_clean sq F k' first c s :
    mono k' -> clean (star_zero (sl_seq sq) (sr_seq sq) F m k' first c s) ->
    forall c', (first = false /\ c' = c) \/ (first = true /\ sl_seq sq = true /\ c' = c) \/
               (first = true /\ sr_seq sq = true /\ exists rt, is_root_of m (c_obj c) rt /\ c' = mk rt (c_names c) (c_path c)) ->
               exists s1, clean (k' c' s1).
  Proof.
    intros Hk H c' Hc. unfold star_zero in H. destruct first.
    - destruct (if sl_seq sq then k' c s else (RNone, s)) as [r1 s1'] eqn:E1.
      destruct r1; try (destruct H as [H _]; simpl in H; discriminate).
      assert (Hs1' : hit s1' = false).
      { destruct (sr_seq sq).
        - destruct (root_of F m (c_obj c)) as [rt|].
          + eapply (clean_hit (k' _)); [apply Hk | exact H].
          + destruct H as [H _]; simpl in H; discriminate.
        - destruct H as [_ H]. exact H. }
      destruct Hc as [[Hf _]|[[_ [Hsl ->]]|[_ [Hsr [rt [Hrt ->]]]]]]; [discriminate| |].
      + rewrite Hsl in E1. exists s. rewrite E1. split; [reflexivity | exact Hs1'].
      + rewrite Hsr in H. destruct (root_of F m (c_obj c)) as [rt'|] eqn:Er.
        * apply root_of_spec in Er. assert (rt' = rt) by (eapply root_unique; eauto). subst.
          eexists. exact H.
        * destruct H as [H _]; simpl in H; discriminate.
    - destruct Hc as [[_ ->]|[[Hf _]|[Hf _]]]; try discriminate. eexists. exact H.
  Qed.

  Lemma gfz_clean evs sq F kf pos k' :
    (forall f c k, mono k -> monoc (evs f c k)) ->
    (forall f c k s, mono k -> clean (evs f c k s) -> forall c', r_seq m sq f c c' -> exists s1, clean (k c' s1)) ->
    mono k' ->
    forall n first c s,
      clean (gfz evs (sl_seq sq) (sr_seq sq) F m kf pos k' n first c s) ->
      forall c', r_elem m (EStar sq) first c c' -> exists s1, clean (k' c' s1).
  Proof.
    intros Hem Hec Hk. induction n as [|n IH]; intros first c s H c' Hr.
    - destruct H as [H _]. simpl in H. discriminate.
    - simpl in H. apply guard_clean in H as [s1 H].
      destruct (star_zero (sl_seq sq) (sr_seq sq) F m k' first c s1) as [r s2] eqn:Ez.
      destruct r; try (destruct H as [H _]; simpl in H; discriminate).
      assert (Hm : mono (fun c1 s3 => gfz evs (sl_seq sq) (sr_seq sq) F m kf pos k' n false c1 s3)).
      { intros c1. apply gfz_mono; assumption. }
      assert (Hz : clean (star_zero (sl_seq sq) (sr_seq sq) F m k' first c s1)).
      { rewrite Ez. split; [reflexivity|]. eapply (clean_hit (evs first c _)); [apply Hem; exact Hm | exact H]. }
      inversion Hr as [| | | | | |sq0 c0|sq0 c0 Hsl|sq0 c0 rt Hsr Hrt|sq0 first0 c0 c1 c2 Hs1 Hs2]; subst.
      + eapply star_zero_clean; eauto.
      + eapply star_zero_clean; eauto.
      + eapply star_zero_clean; eauto. right; right. eauto.
      + destruct (Hec _ _ _ _ Hm H _ Hs1) as [s3 H3]. eapply IH; eauto.
  Qed.

  Lemma ev_clean F kf :
    (forall e pos first c k s, mono k -> clean (ev_elem F m kf pos e first c k s) ->
        forall c', r_elem m e first c c' -> exists s1, clean (k c' s1)) /\
    (forall p q i j first c k s, mono k -> clean (ev_path F m kf q i j p first c k s) ->
        forall c', r_path m p first c c' -> exists s1, clean (k c' s1)) /\
    (forall sq,
        (forall q i first c k s, mono k -> clean (ev_alts F m kf q i sq first c k s) ->
            forall c', r_seq m sq first c c' -> exists s1, clean (k c' s1)) /\
        (forall q first c k s, mono k -> clean (ev_seq F m kf q sq first c k s) ->
            forall c', r_seq m sq first c c' -> exists s1, clean (k c' s1))).
  Proof.
    destruct (ev_mono F m kf) as [Mel [Mpa Msq]].
    apply rrel_mutind.
    - (* EParent *)
      intros T pos first c k s Hk H c' Hr. simpl in H. apply guard_clean in H as [s1 H].
      inversion Hr as [T0 first0 c0 p Hn| | | | | | | | |]; subst.
      destruct (apply_parent F m T (c_obj c)) as [r|] eqn:E.
      + rewrite (apply_parent_complete _ _ _ _ Hn _ _ E) in H. eexists. exact H.
      + destruct H as [H _]; simpl in H; discriminate.
    - (* ENav *)
      intros name consume fixed pos first c k s Hk H c' Hr. simpl in H. apply guard_clean in H as [s1 H].
      destruct (apply_nav F m name consume fixed first c) as [l| |] eqn:E;
        try (destruct H as [H _]; simpl in H; discriminate).
      eapply iter_outs_clean; eauto. eapply apply_nav_complete; eauto.
    - (* EDots *)
      intros n pos first c k s Hk H c' Hr. simpl in H. apply guard_clean in H as [s1 H].
      inversion Hr as [|num first0 c0 p Hu| | | | | | | |]; subst.
      rewrite (apply_dots_complete _ _ _ _ Hu) in H. eexists. exact H.
    - (* EBr *)
      intros sq [_ IH] pos first c k s Hk H c' Hr. simpl in H. apply guard_clean in H as [s1 H].
      inversion Hr; subst. eapply IH; eauto.
    - (* EStar *)
      intros sq [_ IH] pos first c k s Hk H c' Hr. simpl in H.
      destruct (Msq sq) as [_ Mseq].
      edestruct (gfz_clean (fun f c1 k1 s1 => ev_seq F m kf (0 :: pos) sq f c1 k1 s1) sq F kf pos
                           (pd_filter (nxt s) pos k)) as [s1 H1]; try exact H; try exact Hr.
      + intros f c1 k1 Hk1. apply Mseq. exact Hk1.
      + intros f c1 k1 s1 Hk1 Hc c2 Hr2. eapply IH; eauto.
      + apply pd_filter_mono. exact Hk.
      + eapply pd_filter_clean. exact H1.
    - (* P1 *)
      intros e IH q i j first c k s Hk H c' Hr. simpl in H. inversion Hr; subst. eapply IH; eauto.
    - (* PCons *)
      intros e IHe p IHp q i j first c k s Hk H c' Hr. simpl in H.
      inversion Hr as [|e0 p0 first0 c0 c1 c2 Hr1 Hr2]; subst.
      assert (Hm : mono (fun c1 s1 => ev_path F m kf q i (S j) p false c1 k s1)).
      { intros c3. apply Mpa. exact Hk. }
      destruct (IHe _ _ _ _ _ Hm H _ Hr1) as [s1 H1].
      eapply IHp; eauto.
    - (* S1 *)
      intros p IHp. split.
      + intros q i first c k s Hk H c' Hr. simpl in H. inversion Hr; subst. eapply IHp; eauto.
      + intros q first c k s Hk H c' Hr. simpl in H. apply guard_clean in H as [s1 H].
        inversion Hr; subst. eapply IHp; eauto.
    - (* SCons *)
      intros p IHp sq [IHa _]. destruct (Msq sq) as [Malt _]. split.
      + intros q i first c k s Hk H c' Hr. simpl in H.
        destruct (ev_path F m kf q i 0 p first c k s) as [r s1] eqn:E.
        destruct r; try (destruct H as [H _]; simpl in H; discriminate).
        inversion Hr; subst.
        * eapply IHp; [exact Hk | | eassumption]. rewrite E. split; [reflexivity|].
          eapply (clean_hit (ev_alts F m kf q (S i) sq first c k)); [apply Malt; exact Hk | exact H].
        * eapply IHa; eauto.
      + intros q first c k s Hk H c' Hr. simpl in H. apply guard_clean in H as [s1 H].
        destruct (ev_path F m kf q 0 0 p first c k s1) as [r s2] eqn:E.
        destruct r; try (destruct H as [H _]; simpl in H; discriminate).
        inversion Hr; subst.
        * eapply IHp; [exact Hk | | eassumption]. rewrite E. split; [reflexivity|].
          eapply (clean_hit (ev_alts F m kf q 1 sq first c k)); [apply Malt; exact Hk | exact H].
        * eapply IHa; eauto.
  Qed.

  (* a search that ends with "not found" without ever having been cut short by the visited
     set or prevent_doubles has tried every justified result: there is none *)
  Lemma fowp_complete_nohit F kf sq o names T s :
    fowp F m kf sq o names T = (RNone, s) -> hit s = false ->
    forall t tr, ~ justified m sq o names T t tr.
  Proof.
    intros H Hh t tr [Hr Hc].
    destruct (ev_clean F kf) as [_ [_ Hs]]. destruct (Hs sq) as [Ha _].
    unfold fowp in H.
    assert (Hm : mono (final m T)).
    { intros c s0 Hs0. unfold final. destruct (c_names c); [destruct (conf_opt m T (c_obj c))|]; exact Hs0. }
    edestruct (Ha [] 0 true (mk o names []) (final m T) st0 Hm) as [s1 [H1 _]].
    - rewrite H. split; [reflexivity | exact Hh].
    - exact Hr.
    - unfold final in H1. simpl in H1. rewrite Hc in H1. simpl in H1. discriminate.
  Qed.
End Complete.

(* ------------------------------------------------------------ find-level statements *)
Lemma find_none_fowp F m kf sq o names T px :
  find F m kf sq o names T px = FNone -> fst (fowp F m kf sq o names T) = RNone.
Proof.
  unfold find. destruct (fst (fowp F m kf sq o names T)); try discriminate; [reflexivity|].
  destruct px; discriminate.
Qed.

Lemma find_complete_nohit F m kf sq o names T px :
  siblings_unique m ->
  find F m kf sq o names T px = FNone -> find_hit F m kf sq o names T = false ->
  forall t tr, ~ justified m sq o names T t tr.
Proof.
  intros Hu Hf Hh. apply find_none_fowp in Hf. unfold find_hit in Hh.
  destruct (fowp F m kf sq o names T) as [r s] eqn:E. simpl in *. subst r.
  eapply fowp_complete_nohit; eauto.
Qed.

(* ------------------------------------------------------------ table models *)
Lemma assoc_attr_in a l : assoc_attr a l = VAbsent \/ exists b, In (b, assoc_attr a l) l.
Proof.
  induction l as [|[b v] l IH]; simpl; [left; reflexivity|].
  destruct (str_eqb a b).
  - right. exists b. left. reflexivity.
  - destruct IH as [IH|[b' IH]]; [left; exact IH | right; exists b'; right; exact IH].
Qed.

Lemma siblings_unique_tbl_ok t : siblings_unique_tbl t = true -> siblings_unique (of_table t).
Proof.
  intros H o a x y nm Hx Hy Hnx Hny. simpl in *.
  destruct (Nat.lt_ge_cases o (List.length t)) as [Hlt|Hge].
  - assert (Hrow : In (nth o t row0) t) by (apply nth_In; exact Hlt).
    unfold siblings_unique_tbl in H. rewrite forallb_forall in H. specialize (H _ Hrow).
    destruct (assoc_attr_in a (o_attrs (nth o t row0))) as [E|[b Hin]].
    + rewrite E in Hx. destruct Hx.
    + rewrite forallb_forall in H. specialize (H _ Hin). simpl in H.
      unfold names_unique_in in H. rewrite forallb_forall in H. specialize (H _ Hx).
      rewrite forallb_forall in H. specialize (H _ Hy). simpl in H.
      rewrite Hnx, Hny, str_eqb_refl in H. apply Nat.eqb_eq in H. exact H.
  - rewrite (nth_overflow _ _ Hge) in Hx. simpl in Hx. destruct Hx.
Qed.

(* ------------------------------------------------------------ samples and witnesses *)
Definition s_kids : list N := [107;105;100;115]%N.
Definition s_members : list N := [109;101;109;98;101;114;115]%N.
Definition s_Cls : list N := [67;108;115]%N.
Definition s_Mem : list N := [77;101;109]%N.
Definition row (p : option nat) (n : option (list N)) (a : list (list N * value)) (c : list (list N)) : orow :=
  {| o_parent := p; o_name := n; o_attrs := a; o_conf := c |}.
Definition sample_tbl : list orow :=
  [ row None None [(s_kids, VList [1; 3])] [];
    row (Some 0) (Some [97]%N) [(s_members, VList [2])] [s_Cls];
    row (Some 1) (Some [112]%N) [] [s_Mem];
    row (Some 0) (Some [98]%N) [(s_members, VList [4])] [s_Cls];
    row (Some 3) (Some [113]%N) [] [s_Mem] ].
Definition sample := of_table sample_tbl.
(* ~kids*.members *)
Definition e_star : seq := S1 (PCons (EStar (S1 (P1 (ENav s_kids false None)))) (P1 (ENav s_members true None))).
(* kids.members.parent(Cls) *)
Definition e_tail : seq :=
  S1 (PCons (ENav s_kids true None) (PCons (ENav s_members true None) (P1 (EParent s_Cls)))).
(* zzz, ~kids*.members *)
Definition e_alt : seq := SCons (P1 (ENav [122]%N true None)) e_star.

Definition dup_tbl : list orow :=
  [ row None None [(s_kids, VList [1])] [];
    row (Some 0) (Some [97]%N) [(s_kids, VList [2; 3])] [];
    row (Some 1) (Some [98]%N) [(s_members, VList [])] [s_Cls];
    row (Some 1) (Some [98]%N) [(s_members, VList [4])] [s_Cls];
    row (Some 3) (Some [99]%N) [] [s_Mem] ].
Definition e_kkm : seq :=
  S1 (PCons (ENav s_kids true None) (PCons (ENav s_kids true None) (P1 (ENav s_members true None)))).

Lemma sample_unique : siblings_unique sample.
Proof. apply siblings_unique_tbl_ok. vm_compute. reflexivity. Qed.

Lemma sample_found : find 20 sample true e_star 1 [[112]%N] (Some s_Mem) false = FObj 2.
Proof. vm_compute. reflexivity. Qed.

Lemma old_key_witness :
  exists F m sq o names T t tr,
    siblings_unique m /\ find F m false sq o names T false = FNone /\ justified m sq o names T t tr.
Proof.
  destruct (find_obj_sound _ _ _ _ _ _ _ _ sample_found) as [tr Hj].
  exists 20, sample, e_star, 1, [[112]%N], (Some s_Mem), 2, tr.
  split; [exact sample_unique|]. split; [vm_compute; reflexivity | exact Hj].
Qed.

Lemma dup_witness :
  exists F m sq o names T t tr,
    find F m true sq o names T false = FNone /\ find_hit F m true sq o names T = false /\
    justified m sq o names T t tr.
Proof.
  exists 20, (of_table dup_tbl), e_kkm, 0, [[97]%N; [98]%N; [99]%N], (Some s_Mem), 4, [1; 3; 4].
  split; [vm_compute; reflexivity|]. split; [vm_compute; reflexivity|].
  split; [|vm_compute; reflexivity].
  apply RS_one.
  eapply RP_cons.
  { eapply (R_nav_consume (of_table dup_tbl) s_kids true (mk 0 [[97]%N; [98]%N; [99]%N] []) 0 1 [97]%N [[98]%N; [99]%N]).
    - split; [apply anc_refl | reflexivity].
    - simpl. left. reflexivity.
    - reflexivity.
    - reflexivity. }
  eapply RP_cons.
  { eapply (R_nav_consume (of_table dup_tbl) s_kids false (mk 1 [[98]%N; [99]%N] [1]) 1 3 [98]%N [[99]%N]).
    - reflexivity.
    - simpl. right. left. reflexivity.
    - reflexivity.
    - reflexivity. }
  apply RP_one.
  eapply (R_nav_consume (of_table dup_tbl) s_members false (mk 3 [[99]%N] [1; 3]) 3 4 [99]%N []).
  - reflexivity.
  - simpl. left. reflexivity.
  - reflexivity.
  - reflexivity.
Qed.

(* ------------------------------------------------------------ facts read from the source
   (Gen/SrcRrel.v, regenerated from textx/scoping/rrel.py on every run) against the same facts
   observed on the model's own functions *)
Definition obs_tbl : list orow :=
  [ {| o_parent := None; o_name := None; o_attrs := [([97]%N, VList [1; 2])]; o_conf := [] |};
    {| o_parent := Some 0; o_name := Some [110]%N; o_attrs := []; o_conf := [] |};
    {| o_parent := Some 0; o_name := Some [110]%N; o_attrs := []; o_conf := [] |} ].

Definition obs_pick_first : bool :=
  match apply_nav 5 (of_table obs_tbl) [97]%N true None false (mk 0 [[110]%N] []),
        apply_nav 5 (of_table obs_tbl) [97]%N false (Some [110]%N) false (mk 0 [] []) with
  | SOuts [c1], SOuts [c2] => Nat.eqb (c_obj c1) 1 && Nat.eqb (c_obj c2) 1
  | _, _ => false
  end.

Definition obs_star_local_first : bool :=
  match fst (star_zero true true 5 (of_table obs_tbl) (fun c s => (RFound (c_obj c) [], s)) true (mk 1 [] []) st0) with
  | RFound 1 _ => true
  | _ => false
  end.

Definition obs_proxy_completed : bool :=
  match proxy_path 1 [0], proxy_path 1 [0; 1], proxy_path 1 [] with
  | [0; 1], [0; 1], [1] => true
  | _, _, _ => false
  end.

Definition obs_nav_flags (txt : list N) : bool * bool :=
  match parse txt with
  | Some {| eseq := S1 (P1 (ENav _ c f)); eflags := _ |} => (c, match f with Some _ => true | None => false end)
  | _ => (false, false)
  end.

Definition model_facts : rrel_facts := {|
  key_has_first := true;                       (* the key form all C11 statements about completeness use *)
  pick_first_named := obs_pick_first;
  star_local_before_root := obs_star_local_first;
  proxy_completed_by_target := obs_proxy_completed;
  leaf_starts := [(sl_elem (EParent []), sr_elem (EParent []));
                  (sl_elem (ENav [] true None), sr_elem (ENav [] true None));
                  (sl_elem (EDots 1), sr_elem (EDots 1))];
  nav_flags := [obs_nav_flags [97]%N; obs_nav_flags [126; 97]%N; obs_nav_flags [39; 115; 39; 126; 97]%N]
|}.

Lemma src_facts_ok : src_facts = model_facts.
Proof. vm_compute. reflexivity. Qed.

Lemma src_key_form : key_has_first src_facts = true.
Proof. rewrite src_facts_ok. reflexivity. Qed.

(* ------------------------------------------------------------ the completeness certificate *)
Lemma pos_eqb_eq a b : pos_eqb a b = true <-> a = b.
Proof.
  unfold pos_eqb. revert b; induction a as [|x a IH]; intros [|y b]; split; intro H;
    try reflexivity; try discriminate.
  - apply andb_true_iff in H as [H1 H2]. apply Nat.eqb_eq in H1. apply IH in H2. subst; reflexivity.
  - inversion H; subst. apply andb_true_iff. split; [apply Nat.eqb_refl | apply IH; reflexivity].
Qed.

Lemma key_eqb_eq a b : key_eqb a b = true <-> a = b.
Proof.
  destruct a as [[[o1 p1] l1] f1], b as [[[o2 p2] l2] f2]. unfold key_eqb. split; intro H.
  - repeat (apply andb_true_iff in H as [H ?]).
    apply Nat.eqb_eq in H. apply pos_eqb_eq in H2. apply Nat.eqb_eq in H1. apply Bool.eqb_prop in H0.
    subst. reflexivity.
  - inversion H; subst. rewrite !Nat.eqb_refl, Bool.eqb_reflx.
    replace (pos_eqb p2 p2) with true by (symmetry; apply pos_eqb_eq; reflexivity). reflexivity.
Qed.

Section CertProofs.
  Variable F : nat.
  Variable m : model.
  Variable names0 : list (list N).
  Variable V : list (nat * list nat * nat * bool).
  Hypothesis Huniq : siblings_unique m.

  Lemma memk_In k : memk V k = true <-> In k V.
  Proof.
    unfold memk. rewrite existsb_exists. split.
    - intros [x [Hx E]]. apply key_eqb_eq in E. subst. exact Hx.
    - intro H. exists k. split; [exact H | apply key_eqb_eq; reflexivity].
  Qed.

  Lemma rule_at (g : nat * list nat * nat * bool -> bool) o pos l f :
    forallb g (keys_at V pos) = true -> In (o, pos, l, f) V -> g (o, pos, l, f) = true.
  Proof.
    intros H Hin. rewrite forallb_forall in H. apply H. unfold keys_at.
    apply filter_In. split; [exact Hin|]. simpl. apply pos_eqb_eq. reflexivity.
  Qed.

  Definition Suf (c : cfg) : Prop := exists pre, names0 = pre ++ c_names c.

  Lemma sufl_suf c : Suf c -> sufl names0 (List.length (c_names c)) = c_names c.
  Proof.
    intros [pre E]. unfold sufl. rewrite E at 1 2. rewrite app_length.
    replace (List.length pre + List.length (c_names c) - List.length (c_names c)) with (List.length pre) by lia.
    rewrite skipn_app, skipn_all, Nat.sub_diag. reflexivity.
  Qed.

  Lemma Suf_extends c c' : extends m c c' -> Suf c -> Suf c'.
  Proof.
    intros [cons [new [H1 _]]] [pre E]. exists (pre ++ cons). rewrite E, H1, app_assoc. reflexivity.
  Qed.

  Lemma cert_sound :
    (forall e f c c', r_elem m e f c c' ->
       forall pos H, ck_elem F m names0 V pos e H = true -> Suf c ->
                     In (c_obj c, pos, List.length (c_names c), f) V -> H (c_obj c') (c_names c') = true) /\
    (forall p f c c', r_path m p f c c' ->
       forall q i j H, ck_path F m names0 V q i j p H = true -> Suf c ->
                       In (c_obj c, j :: i :: q, List.length (c_names c), f) V -> H (c_obj c') (c_names c') = true) /\
    (forall sq f c c', r_seq m sq f c c' ->
       forall q i H, ck_alts F m names0 V q i sq H = true -> Suf c ->
                     firsts_in V q i sq (c_obj c) (List.length (c_names c)) f = true -> H (c_obj c') (c_names c') = true).
  Proof.
    apply r_mutind.
    - (* parent *)
      intros T first c p Hn pos H Hck Hs Hin. simpl in Hck. unfold base_rule in Hck.
      pose proof (rule_at _ _ _ _ _ Hck Hin) as Hr. simpl in Hr.
      destruct (apply_parent F m T (c_obj c)) as [r|] eqn:E; [|discriminate].
      rewrite (apply_parent_complete _ _ _ _ Hn _ _ E) in Hr. rewrite (sufl_suf _ Hs) in Hr. exact Hr.
    - (* dots *)
      intros num first c p Hu pos H Hck Hs Hin. simpl in Hck. unfold base_rule in Hck.
      pose proof (rule_at _ _ _ _ _ Hck Hin) as Hr. simpl in Hr.
      rewrite (apply_dots_complete _ _ _ _ Hu), (sufl_suf _ Hs) in Hr. exact Hr.
    - (* ~name *)
      intros name first c b x Hb Hi pos H Hck Hs Hin. simpl in Hck. unfold base_rule in Hck.
      pose proof (rule_at _ _ _ _ _ Hck Hin) as Hr. simpl in Hr. rewrite (sufl_suf _ Hs) in Hr.
      destruct (apply_nav F m name false None first (mk (c_obj c) (c_names c) [])) as [outs| |] eqn:E; try discriminate.
      rewrite forallb_forall in Hr.
      apply (Hr (mk x (c_names c) [])).
      eapply apply_nav_complete; [exact Huniq | | exact E].
      apply (R_nav_all m name first (mk (c_obj c) (c_names c) []) b x Hb Hi).
    - (* consuming *)
      intros name first c b x nm rest Hb Hi Hns Hnm pos H Hck Hs Hin. simpl in Hck. unfold base_rule in Hck.
      pose proof (rule_at _ _ _ _ _ Hck Hin) as Hr. simpl in Hr. rewrite (sufl_suf _ Hs) in Hr.
      destruct (apply_nav F m name true None first (mk (c_obj c) (c_names c) [])) as [outs| |] eqn:E; try discriminate.
      rewrite forallb_forall in Hr.
      apply (Hr (mk x rest ([] ++ [x]))).
      eapply apply_nav_complete; [exact Huniq | | exact E].
      apply (R_nav_consume m name first (mk (c_obj c) (c_names c) []) b x nm rest Hb Hi Hns Hnm).
    - (* fixed *)
      intros name consume fx first c b x Hb Hi Hne Hnm pos H Hck Hs Hin. simpl in Hck. unfold base_rule in Hck.
      pose proof (rule_at _ _ _ _ _ Hck Hin) as Hr. simpl in Hr. rewrite (sufl_suf _ Hs) in Hr.
      destruct (apply_nav F m name consume (Some fx) first (mk (c_obj c) (c_names c) [])) as [outs| |] eqn:E; try discriminate.
      rewrite forallb_forall in Hr.
      apply (Hr (mk x (c_names c) ([] ++ [x]))).
      eapply apply_nav_complete; [exact Huniq | | exact E].
      apply (R_nav_fixed m name consume fx first (mk (c_obj c) (c_names c) []) b x Hb Hi Hne Hnm).
    - (* brackets *)
      intros sq first c c' _ IH pos H Hck Hs Hin. simpl in Hck.
      apply andb_true_iff in Hck as [Hck Ha]. apply andb_true_iff in Hck as [Hb Hq].
      pose proof (rule_at _ _ _ _ _ Hb Hin) as Hk. simpl in Hk. apply memk_In in Hk.
      pose proof (rule_at _ _ _ _ _ Hq Hk) as Hf. simpl in Hf.
      eapply IH; eauto.
    - (* star: stay *)
      intros sq c pos H Hck Hs Hin. simpl in Hck.
      apply andb_true_iff in Hck as [Hck _]. apply andb_true_iff in Hck as [Hst _].
      pose proof (rule_at _ _ _ _ _ Hst Hin) as Hr. simpl in Hr.
      apply andb_true_iff in Hr as [_ Hr]. rewrite (sufl_suf _ Hs) in Hr. exact Hr.
    - (* star: local *)
      intros sq c Hsl pos H Hck Hs Hin. simpl in Hck.
      apply andb_true_iff in Hck as [Hck _]. apply andb_true_iff in Hck as [Hst _].
      pose proof (rule_at _ _ _ _ _ Hst Hin) as Hr. simpl in Hr.
      apply andb_true_iff in Hr as [_ Hr]. apply andb_true_iff in Hr as [Hr _].
      rewrite Hsl, (sufl_suf _ Hs) in Hr. exact Hr.
    - (* star: root *)
      intros sq c rt Hsr Hrt pos H Hck Hs Hin. simpl in Hck.
      apply andb_true_iff in Hck as [Hck _]. apply andb_true_iff in Hck as [Hst _].
      pose proof (rule_at _ _ _ _ _ Hst Hin) as Hr. simpl in Hr.
      apply andb_true_iff in Hr as [_ Hr]. apply andb_true_iff in Hr as [_ Hr].
      rewrite Hsr in Hr. simpl in Hr.
      destruct (root_of F m (c_obj c)) as [rt'|] eqn:E; [|discriminate].
      apply root_of_spec in E. rewrite (root_unique _ _ _ _ E Hrt), (sufl_suf _ Hs) in Hr. exact Hr.
    - (* star: one more unfolding *)
      intros sq first c c1 c2 Hr1 IH1 Hr2 IH2 pos H Hck Hs Hin.
      pose proof Hck as Hck0. simpl in Hck.
      apply andb_true_iff in Hck as [Hck Ha]. apply andb_true_iff in Hck as [Hst Hq].
      pose proof (rule_at _ _ _ _ _ Hst Hin) as Hr. simpl in Hr.
      apply andb_true_iff in Hr as [Hk _]. apply memk_In in Hk.
      pose proof (rule_at _ _ _ _ _ Hq Hk) as Hf. simpl in Hf.
      pose proof (IH1 _ _ _ Ha Hs Hf) as Hn. unfold hnext in Hn. apply memk_In in Hn.
      destruct (r_extends m) as [_ [_ Hes]].
      eapply IH2; [exact Hck0 | eapply Suf_extends; [eapply Hes; eauto | exact Hs] | exact Hn].
    - (* P1 *)
      intros e first c c' _ IH q i j H Hck Hs Hin. simpl in Hck. eapply IH; eauto.
    - (* PCons *)
      intros e p first c c1 c2 Hr1 IH1 _ IH2 q i j H Hck Hs Hin. simpl in Hck.
      apply andb_true_iff in Hck as [He Hp].
      pose proof (IH1 _ _ He Hs Hin) as Hn. unfold hnext in Hn. apply memk_In in Hn.
      destruct (r_extends m) as [Hee _].
      eapply IH2; [exact Hp | eapply Suf_extends; [eapply Hee; eauto | exact Hs] | exact Hn].
    - (* S1 *)
      intros p first c c' _ IH q i H Hck Hs Hf. simpl in Hck, Hf. apply memk_In in Hf. eapply IH; eauto.
    - (* SCons head *)
      intros p sq first c c' _ IH q i H Hck Hs Hf. simpl in Hck, Hf.
      apply andb_true_iff in Hck as [Hp _]. apply andb_true_iff in Hf as [Hf _]. apply memk_In in Hf.
      eapply IH; eauto.
    - (* SCons tail *)
      intros p sq first c c' _ IH q i H Hck Hs Hf. simpl in Hck, Hf.
      apply andb_true_iff in Hck as [_ Ha]. apply andb_true_iff in Hf as [_ Hf].
      eapply IH; eauto.
  Qed.
End CertProofs.

(* a closed set of visited keys leaves no room for a justified result *)
Lemma closure_complete F m sq o names T V :
  siblings_unique m -> closure_ok F m names V sq o T = true ->
  forall t tr, ~ justified m sq o names T t tr.
Proof.
  intros Hu Hc t tr [Hr Hconf]. unfold closure_ok in Hc. apply andb_true_iff in Hc as [Hf Ha].
  destruct (cert_sound F m names V Hu) as [_ [_ Hs]].
  assert (H := Hs _ _ _ _ Hr [] 0 (hfinal m T) Ha).
  simpl in H. unfold hfinal in H. rewrite Hconf in H.
  assert (E : true = false); [|discriminate].
  symmetry. rewrite <- (negb_involutive false). simpl. rewrite <- H; [reflexivity | exists []; reflexivity | exact Hf].
Qed.

Lemma find_certified_complete F m kf sq o names T :
  siblings_unique m -> find_certified F m kf sq o names T = true ->
  forall t tr, ~ justified m sq o names T t tr.
Proof. intros Hu H. eapply closure_complete; eauto. Qed.
