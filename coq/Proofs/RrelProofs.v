(* Proofs about the RREL evaluation model (Model/Rrel.v). *)
From TxV Require Import Core.Base Model.RrelSyntax Model.Rrel.

(* ------------------------------------------------------------ primitive steps *)
Lemma root_of_spec F m o r : root_of F m o = Some r -> is_root_of m o r.
Proof.
  revert o; induction F as [|F IH]; intros o H; simpl in H.
  - destruct (m_parent m o) eqn:E; [discriminate|]. inversion H; subst. split; [constructor|assumption].
  - destruct (m_parent m o) as [p|] eqn:E.
    + apply IH in H. destruct H as [Ha Hr]. split; [econstructor; eassumption|assumption].
    + inversion H; subst. split; [constructor|assumption].
Qed.

Lemma apply_parent_spec F m T o p : apply_parent F m T o = Some (Some p) -> nearest m T o p.
Proof.
  revert o; induction F as [|F IH]; intros o H; simpl in H.
  - destruct (m_parent m o) as [q|] eqn:E; [|discriminate].
    destruct (m_conf m q T) eqn:C; [|discriminate]. inversion H; subst. apply near_here; assumption.
  - destruct (m_parent m o) as [q|] eqn:E; [|discriminate].
    destruct (m_conf m q T) eqn:C.
    + inversion H; subst. apply near_here; assumption.
    + eapply near_up; eauto.
Qed.

Lemma apply_dots_spec m n o p : apply_dots m n o = Some p -> up m (pred n) o p.
Proof.
  revert o; induction n as [|n IH]; intros o H.
  - simpl in H. inversion H; subst. constructor.
  - destruct n as [|n'].
    + simpl in H. inversion H; subst. constructor.
    + change (apply_dots m (S (S n')) o) with
        (match m_parent m o with Some q => apply_dots m (S n') q | None => None end) in H.
      destruct (m_parent m o) as [q|] eqn:E; [|discriminate].
      apply IH in H. simpl. econstructor; eauto.
Qed.

Lemma name_is_spec m nm x : name_is m nm x = true -> m_name m x = Some nm.
Proof.
  unfold name_is. destruct (m_name m x) as [s|]; [|discriminate].
  intro H. apply str_eqb_eq in H. subst. reflexivity.
Qed.

Lemma base_spec F m (first : bool) (o b : nat) :
  (if first then root_of F m o else Some o) = Some b -> base_of m first o b.
Proof.
  destruct first; simpl; intro H.
  - apply root_of_spec in H. exact H.
  - inversion H; reflexivity.
Qed.

Lemma apply_nav_spec F m name consume fixed first c l :
  apply_nav F m name consume fixed first c = SOuts l ->
  forall c', In c' l -> r_elem m (ENav name consume fixed) first c c'.
Proof.
  unfold apply_nav.
  destruct (if first then root_of F m (c_obj c) else Some (c_obj c)) as [b|] eqn:Eb; [|discriminate].
  apply base_spec in Eb.
  intros H c' Hin.
  assert (Hcase :
    forall v, m_attr m b name = v ->
      match consume, fixed with
      | false, None => SOuts (map (fun x => mk x (c_names c) (c_path c)) (vals v))
      | _, Some f =>
          match List.find (name_is m f) (vals v) with
          | Some x => SOuts [mk x (c_names c) (c_path c ++ [x])]
          | None => SOuts []
          end
      | true, None =>
          match c_names c with
          | nm :: rest =>
              match List.find (name_is m nm) (vals v) with
              | Some x => SOuts [mk x rest (c_path c ++ [x])]
              | None => SOuts []
              end
          | [] => SOuts []
          end
      end = SOuts l ->
      (consume = true -> c_names c <> []) ->
      r_elem m (ENav name consume fixed) first c c').
  { intros v Ev Hl Hne.
    destruct consume, fixed as [f|].
    - destruct (List.find (name_is m f) (vals v)) as [x|] eqn:Ef; inversion Hl; subst; [|contradiction].
      destruct Hin as [<-|[]]. apply find_some in Ef as [Hi Hn]. apply name_is_spec in Hn.
      eapply R_nav_fixed; eauto; try (rewrite Ev; assumption).
    - destruct (c_names c) as [|nm rest] eqn:En; [inversion Hl; subst; contradiction|].
      destruct (List.find (name_is m nm) (vals v)) as [x|] eqn:Ef; inversion Hl; subst; [|contradiction].
      destruct Hin as [<-|[]]. apply find_some in Ef as [Hi Hn]. apply name_is_spec in Hn.
      eapply R_nav_consume; eauto; try (rewrite Ev; assumption).
    - destruct (List.find (name_is m f) (vals v)) as [x|] eqn:Ef; inversion Hl; subst; [|contradiction].
      destruct Hin as [<-|[]]. apply find_some in Ef as [Hi Hn]. apply name_is_spec in Hn.
      eapply R_nav_fixed; eauto; try (rewrite Ev; assumption).
    - inversion Hl; subst. apply in_map_iff in Hin as [x [<- Hi]].
      eapply R_nav_all; eauto; try (rewrite Ev; assumption). }
  remember (m_attr m b name) as v eqn:Ev.
  pose proof (Hcase v eq_refl) as Hc. clear Hcase.
  destruct consume.
  - destruct (c_names c) as [|nm rest] eqn:En.
    + inversion H; subst. contradiction.
    + destruct v; try discriminate;
        try (inversion H; subst; contradiction);
        (apply Hc; [exact H | intros _; discriminate]).
  - destruct v; try discriminate;
      try (inversion H; subst; contradiction);
      (apply Hc; [exact H | discriminate]).
Qed.

(* ------------------------------------------------------------ soundness (wp style) *)
Section Sound.
  Variable m : model.
  Variable Q : res -> Prop.
  Hypothesis QNone : Q RNone.
  Hypothesis QPost : Q RPost.
  Hypothesis QOof : Q ROof.

  Lemma guard_wp kf pos first c s body :
    (forall s1, Q (fst (body s1))) -> Q (fst (guard kf pos first c s body)).
  Proof.
    intro H. unfold guard.
    destruct (existsb _ _); [exact QNone | apply H].
  Qed.

  Lemma iter_outs_wp l k s :
    (forall c, In c l -> forall s1, Q (fst (k c s1))) -> Q (fst (iter_outs l k s)).
  Proof.
    revert s; induction l as [|c l IH]; intros s H; simpl; [exact QNone|].
    destruct (k c s) as [r s'] eqn:E.
    assert (Hr : Q r) by (specialize (H c (or_introl eq_refl) s); rewrite E in H; exact H).
    destruct r; try exact Hr.
    apply IH. intros c0 Hc0. apply H. right; assumption.
  Qed.

  Lemma pd_filter_wp id k c :
    (forall s1, Q (fst (k c s1))) -> forall s, Q (fst (pd_filter id k c s)).
  Proof.
    intros H s. unfold pd_filter. destruct (existsb _ _); [exact QNone | apply H].
  Qed.

  Lemma gfz_wp evs sq F kf pos k' :
    (forall f c k s, (forall c', r_seq m sq f c c' -> forall s1, Q (fst (k c' s1))) -> Q (fst (evs f c k s))) ->
    forall n first c s,
      (forall c', r_elem m (EStar sq) first c c' -> forall s1, Q (fst (k' c' s1))) ->
      Q (fst (gfz evs (sl_seq sq) (sr_seq sq) F m kf pos k' n first c s)).
  Proof.
    intros Hevs. induction n as [|n IH]; intros first c s Hk; simpl; [exact QOof|].
    apply guard_wp. intros s1.
    (* the zero-iteration yields *)
    match goal with |- Q (fst (let '(r, s2) := ?X in _)) => destruct X as [r s2] eqn:EX end.
    assert (Hr : Q r).
    { destruct first.
      - destruct (sl_seq sq) eqn:Esl.
        + destruct (k' c s1) as [r1 s1'] eqn:E1.
          assert (Hr1 : Q r1).
          { specialize (Hk c (R_star_local m sq c Esl) s1). rewrite E1 in Hk. exact Hk. }
          destruct r1; try (inversion EX; subst; exact Hr1).
          destruct (sr_seq sq) eqn:Esr.
          * destruct (root_of F m (c_obj c)) as [rt|] eqn:Ert.
            -- apply root_of_spec in Ert.
               specialize (Hk _ (R_star_root m sq c rt Esr Ert) s1'). rewrite EX in Hk. exact Hk.
            -- inversion EX; subst. exact QOof.
          * inversion EX; subst. exact QNone.
        + destruct (sr_seq sq) eqn:Esr.
          * destruct (root_of F m (c_obj c)) as [rt|] eqn:Ert.
            -- apply root_of_spec in Ert.
               specialize (Hk _ (R_star_root m sq c rt Esr Ert) s1). rewrite EX in Hk. exact Hk.
            -- inversion EX; subst. exact QOof.
          * inversion EX; subst. exact QNone.
      - specialize (Hk c (R_star_stay m sq c) s1). rewrite EX in Hk. exact Hk. }
    destruct r; try exact Hr.
    apply Hevs. intros c1 Hc1 s3. apply IH.
    intros c' Hc' s4. apply Hk. eapply R_star_more; eauto.
  Qed.

  Lemma ev_wp F kf :
    (forall e pos first c k s,
        (forall c', r_elem m e first c c' -> forall s1, Q (fst (k c' s1))) ->
        Q (fst (ev_elem F m kf pos e first c k s))) /\
    (forall p q i j first c k s,
        (forall c', r_path m p first c c' -> forall s1, Q (fst (k c' s1))) ->
        Q (fst (ev_path F m kf q i j p first c k s))) /\
    (forall sq,
        (forall q i first c k s,
            (forall c', r_seq m sq first c c' -> forall s1, Q (fst (k c' s1))) ->
            Q (fst (ev_alts F m kf q i sq first c k s))) /\
        (forall q first c k s,
            (forall c', r_seq m sq first c c' -> forall s1, Q (fst (k c' s1))) ->
            Q (fst (ev_seq F m kf q sq first c k s)))).
  Proof.
    apply rrel_mutind.
    - (* EParent *)
      intros T pos first c k s Hk. simpl. apply guard_wp. intro s1.
      destruct (apply_parent F m T (c_obj c)) as [[p|]|] eqn:E; [|exact QNone|exact QOof].
      apply Hk. constructor. eapply apply_parent_spec; eauto.
    - (* ENav *)
      intros name consume fixed pos first c k s Hk. simpl. apply guard_wp. intro s1.
      destruct (apply_nav F m name consume fixed first c) as [l| |] eqn:E; [|exact QPost|exact QOof].
      apply iter_outs_wp. intros c' Hin s2. apply Hk. eapply apply_nav_spec; eauto.
    - (* EDots *)
      intros n pos first c k s Hk. simpl. apply guard_wp. intro s1.
      destruct (apply_dots m n (c_obj c)) as [p|] eqn:E; [|exact QNone].
      apply Hk. constructor. apply apply_dots_spec; assumption.
    - (* EBr *)
      intros sq [_ IH] pos first c k s Hk. simpl. apply guard_wp. intro s1.
      apply IH. intros c' Hc'. apply Hk. constructor; assumption.
    - (* EStar *)
      intros sq [_ IH] pos first c k s Hk. simpl.
      apply gfz_wp.
      + intros f c1 k1 s1 Hk1. apply IH. exact Hk1.
      + intros c' Hc' s1. apply pd_filter_wp. intro s2. apply Hk. exact Hc'.
    - (* P1 *)
      intros e IH q i j first c k s Hk. simpl. apply IH.
      intros c' Hc'. apply Hk. constructor; assumption.
    - (* PCons *)
      intros e IHe p IHp q i j first c k s Hk. simpl. apply IHe.
      intros c1 Hc1 s1. apply IHp. intros c2 Hc2. apply Hk. econstructor; eauto.
    - (* S1 *)
      intros p IHp. split.
      + intros q i first c k s Hk. simpl. apply IHp. intros c' Hc'. apply Hk. constructor; assumption.
      + intros q first c k s Hk. simpl. apply guard_wp. intro s1.
        apply IHp. intros c' Hc'. apply Hk. constructor; assumption.
    - (* SCons *)
      intros p IHp sq [IHa _]. split.
      + intros q i first c k s Hk. simpl.
        destruct (ev_path F m kf q i 0 p first c k s) as [r s1] eqn:E.
        assert (Hr : Q r).
        { assert (H := IHp q i 0 first c k s). rewrite E in H. apply H.
          intros c' Hc'. apply Hk. apply RS_head; assumption. }
        destruct r; try exact Hr.
        apply IHa. intros c' Hc'. apply Hk. apply RS_tail; assumption.
      + intros q first c k s Hk. simpl. apply guard_wp. intro s1.
        destruct (ev_path F m kf q 0 0 p first c k s1) as [r s2] eqn:E.
        assert (Hr : Q r).
        { assert (H := IHp q 0 0 first c k s1). rewrite E in H. apply H.
          intros c' Hc'. apply Hk. apply RS_head; assumption. }
        destruct r; try exact Hr.
        apply IHa. intros c' Hc'. apply Hk. apply RS_tail; assumption.
  Qed.
End Sound.

(* every answer RFound t tr of find_object_with_path is justified, tr being the path *)
Lemma fowp_sound F m kf sq o names T t tr s :
  fowp F m kf sq o names T = (RFound t tr, s) -> justified m sq o names T t tr.
Proof.
  intro H.
  set (Q := fun r => match r with RFound t tr => justified m sq o names T t tr | _ => True end).
  assert (HQ : Q (fst (fowp F m kf sq o names T))).
  { unfold fowp.
    destruct (ev_wp m Q I I I F kf) as [_ [_ Hs]]. destruct (Hs sq) as [Ha _].
    apply Ha. intros c' Hc' s1. unfold final.
    destruct c' as [o' ns' tr']; simpl in *.
    destruct ns' as [|n ns']; [|exact I].
    destruct (conf_opt m T o') eqn:C; [|exact I].
    simpl. split; assumption. }
  rewrite H in HQ. exact HQ.
Qed.

(* ------------------------------------------------------------ find and the proxy path *)
Lemma proxy_path_spec t tr :
  (proxy_path t tr = tr /\ exists pre, tr = pre ++ [t]) \/
  (proxy_path t tr = tr ++ [t] /\ forall pre, tr <> pre ++ [t]).
Proof.
  unfold proxy_path. destruct (rev tr) as [|x l] eqn:E.
  - right. assert (tr = []) by (rewrite <- (rev_involutive tr), E; reflexivity). subst.
    split; [reflexivity|]. intros pre H. destruct pre; discriminate.
  - assert (Htr : tr = rev l ++ [x]) by (rewrite <- (rev_involutive tr), E; reflexivity).
    destruct (Nat.eqb x t) eqn:Ex.
    + apply Nat.eqb_eq in Ex. subst x. left. split; [reflexivity|]. exists (rev l). exact Htr.
    + right. split; [reflexivity|]. intros pre H. rewrite Htr in H.
      apply app_inj_tail in H as [_ H]. subst. rewrite Nat.eqb_refl in Ex. discriminate.
Qed.

Lemma proxy_path_last t tr d : last (proxy_path t tr) d = t.
Proof.
  destruct (proxy_path_spec t tr) as [[-> [pre ->]]|[-> _]]; apply last_last.
Qed.

Lemma find_obj_sound F m kf sq o names T t :
  find F m kf sq o names T false = FObj t -> exists tr, justified m sq o names T t tr.
Proof.
  unfold find. destruct (fowp F m kf sq o names T) as [r s] eqn:E. simpl.
  destruct r; try discriminate. intro H. inversion H; subst.
  eexists. eapply fowp_sound; eauto.
Qed.

Lemma find_proxy_sound F m kf sq o names T p :
  find F m kf sq o names T true = FProxy p ->
  exists t tr, justified m sq o names T t tr /\ p = proxy_path t tr.
Proof.
  unfold find. destruct (fowp F m kf sq o names T) as [r s] eqn:E. simpl.
  destruct r; try discriminate. intro H. inversion H; subst.
  do 2 eexists. split; [eapply fowp_sound; eauto | reflexivity].
Qed.

(* find with and without use_proxy answer from the same search *)
Lemma find_proxy_obj F m kf sq o names T p :
  find F m kf sq o names T true = FProxy p ->
  find F m kf sq o names T false = FObj (last p 0).
Proof.
  unfold find. destruct (fst (fowp F m kf sq o names T)); try discriminate.
  intro H. inversion H. rewrite proxy_path_last. reflexivity.
Qed.

Lemma find_proxy_full : forall F m kf sq o names T p,
  find F m kf sq o names T true = FProxy p ->
  exists t tr, justified m sq o names T t tr /\
               (p = tr \/ p = tr ++ [t]) /\ last p 0 = t /\
               find F m kf sq o names T false = FObj t.
Proof.
  intros F m kf sq o names T p H.
  destruct (find_proxy_sound _ _ _ _ _ _ _ _ H) as [t [tr [Hj Hp]]].
  exists t, tr. split; [exact Hj|]. split.
  - destruct (proxy_path_spec t tr) as [[E _]|[E _]]; rewrite <- E, <- Hp; auto.
  - split; [rewrite Hp; apply proxy_path_last|].
    rewrite (find_proxy_obj _ _ _ _ _ _ _ _ H), Hp, proxy_path_last. reflexivity.
Qed.
