(* C07 — bridges from Model/Plain.v to the models of the neighbouring properties (imported read-only):
     Model/Kinds.v (C03): the class table PlainName's type test runs on is the _tx_inh_by that
                          _determine_rule_types records, and Plain.conforms is Kinds.isinstance on it;
     Model/Nav.v   (C05): Plain.collect is get_children (the transcription with attribute slots, attr.cont,
                          single/many multiplicities and the collected_ids set) on the containment tree. *)
From TxV Require Import Core.Base Model.PlainDefs Gen.SrcPlain Model.Plain Proofs.PlainProofs.
From TxV Require Model.Kinds Proofs.KindsProofs.
Require Import Lia.

(* ------------------------------------------------------------------ Kinds *)
(* the class table built from a recorded inheritance function: class i = rule i, textX-created classes *)
Definition table_of (n : nat) (names : nat -> list N) (inhf : nat -> list nat) : list cls :=
  map (fun i => {| cname := names i; cinh := inhf i; cpy := [] |}) (seq 0 n).

Lemma table_of_length n names inhf : length (table_of n names inhf) = n.
Proof. unfold table_of. rewrite map_length, seq_length. reflexivity. Qed.

Lemma table_of_nth n names inhf i : i < n ->
  nth_error (table_of n names inhf) i = Some {| cname := names i; cinh := inhf i; cpy := [] |}.
Proof.
  intro H. unfold table_of. rewrite nth_error_map.
  assert (E : nth_error (seq 0 n) i = Some i).
  { rewrite (nth_error_nth' _ 0); [|rewrite seq_length; exact H]. rewrite seq_nth; [reflexivity | exact H]. }
  rewrite E. reflexivity.
Qed.

Lemma inh_table_of n names inhf i : i < n -> Plain.inh (table_of n names inhf) i = inhf i.
Proof. intro H. unfold Plain.inh. rewrite (table_of_nth _ _ _ _ H). reflexivity. Qed.

Lemma inh_table_of_out n names inhf i : n <= i -> Plain.inh (table_of n names inhf) i = [].
Proof.
  intro H. unfold Plain.inh. rewrite (proj2 (nth_error_None _ _)); [reflexivity|].
  rewrite table_of_length. exact H.
Qed.

Section KindsBridge.
  Variable n : nat.
  Variable names : nat -> list N.
  Variable inhf : nat -> list nat.
  Hypothesis Hrange : forall x y, In y (inhf x) -> y < n.
  Hypothesis Hnames : forall i, names i <> OBJECT_name.
  Notation classes := (table_of n names inhf).

  Lemma wf_table_of : wf_classes classes = true.
  Proof.
    unfold wf_classes. rewrite table_of_length. apply forallb_forall. intros k Hk.
    unfold table_of in Hk. apply in_map_iff in Hk. destruct Hk as [i [<- _]]. simpl.
    apply forallb_forall. intros d Hd. apply Nat.ltb_lt. exact (Hrange i d Hd).
  Qed.

  Lemma no_object_cls c : is_object_cls classes c = false.
  Proof.
    unfold is_object_cls. destruct (nth_error classes c) as [k|] eqn:E; [|reflexivity].
    destruct (Nat.lt_ge_cases c n) as [L|G].
    - rewrite (table_of_nth _ _ _ _ L) in E. inversion E; subst. simpl.
      apply str_eqb_neq. apply Hnames.
    - rewrite (proj2 (nth_error_None _ _)) in E; [discriminate|]. rewrite table_of_length. exact G.
  Qed.

  Lemma Reach_ireach t c : Reach classes t c -> Kinds.ireach inhf t c.
  Proof.
    induction 1 as [c|c d e Hd _ IH]; [apply Kinds.ireach_refl|].
    destruct (Nat.lt_ge_cases c n) as [L|G].
    - rewrite (inh_table_of _ _ _ _ L) in Hd. eapply Kinds.ireach_step; eassumption.
    - rewrite (inh_table_of_out _ _ _ _ G) in Hd. destruct Hd.
  Qed.

  Lemma ireach_Reach t c : Kinds.ireach inhf t c -> t < n -> Reach classes t c.
  Proof.
    induction 1 as [x|x y z Hy _ IH]; intro L; [apply ReachRefl|].
    eapply ReachStep; [rewrite (inh_table_of _ _ _ _ L); exact Hy | apply IH; exact (Hrange x y Hy)].
  Qed.

  Lemma conforms_ireach k t : t < n -> (conforms classes [k] t = true <-> Kinds.ireach inhf t k).
  Proof.
    intro L. rewrite (conforms_spec classes [k] wf_table_of). unfold Conforms. split.
    - intros [c [Hr Hl]]. unfold local in Hl. rewrite no_object_cls in Hl. simpl in Hl.
      rewrite orb_false_r in Hl. apply Nat.eqb_eq in Hl. subst c. apply Reach_ireach. exact Hr.
    - intro H. exists k. split; [apply ireach_Reach; assumption|].
      unfold local. rewrite no_object_cls. simpl. rewrite Nat.eqb_refl. reflexivity.
  Qed.

  Lemma isinstance_conforms k t : t < n ->
    Kinds.isinstance n inhf k (Some t) = Some (conforms classes [k] t).
  Proof.
    intro L. destruct (KindsProofs.isinstance_graph inhf n Hrange k t) as [b [Hb Hiff]].
    rewrite Hb. f_equal. pose proof (conforms_ireach k t L) as Hc.
    destruct b, (conforms classes [k] t); try reflexivity.
    - symmetry. apply Hc. apply Hiff. reflexivity.
    - apply Hiff. apply Hc. reflexivity.
  Qed.
End KindsBridge.

(* for EVERY grammar (in the C03 model's form): the rule-kind computation ends; the class table made of the
   _tx_inh_by lists it records is well-formed for C07; and PlainName's type test on that table is the C03
   model's textx_isinstance *)
Theorem kinds_bridge (g : list Kinds.rule) (names : nat -> list N) :
  (forall i, names i <> OBJECT_name) ->
  exists s, Kinds.determine_types g = Some s /\
    wf_classes (table_of (length g) names (Kinds.inh s)) = true /\
    (forall i, i < length g -> Plain.inh (table_of (length g) names (Kinds.inh s)) i = Kinds.inh s i) /\
    (forall k t, t < length g ->
       Kinds.isinstance (length g) (Kinds.inh s) k (Some t)
       = Some (conforms (table_of (length g) names (Kinds.inh s)) [k] t)) /\
    (forall k, Kinds.isinstance (length g) (Kinds.inh s) k None = Some true).
Proof.
  intro Hn. destruct (KindsProofs.kinds_correct g) as [s [H1 [H2 H3]]]. exists s. split; [exact H1|].
  assert (Hrange : forall x y, In y (Kinds.inh s x) -> y < length g).
  { intros x y Hy. destruct (H3 x y Hy) as [_ [_ Hm]].
    destruct (Nat.lt_ge_cases y (length g)) as [L|G]; [exact L|]. exfalso.
    assert (K := H2 y). unfold Kinds.kind_spec, Kinds.rule_refs in K. rewrite (KindsProofs.rule_of_overflow g y G) in K.
    destruct (Kinds.types s y); simpl in *; [discriminate | destruct K as [_ [w [[] _]]] | discriminate]. }
  split; [apply wf_table_of; exact Hrange|].
  split; [intros i L; apply inh_table_of; exact L|].
  split; [intros k t L; apply isinstance_conforms; assumption | reflexivity].
Qed.

(* ------------------------------------------------------------------ Nav *)
From TxV Require Model.Nav Proofs.NavProofs.

(* all objects of a tree, parents first *)
Definition pre (n : node) : list node := map snd (collect (fun _ => true) n).

Lemma snd_collect_kids sel : forall ks i,
  map snd (collect_kids sel i ks) = flat_map (fun k => map snd (collect sel k)) ks.
Proof.
  induction ks as [|k r IH]; intro i; simpl; [reflexivity|].
  rewrite map_app, map_map, IH. simpl. reflexivity.
Qed.

Lemma pre_node c nm ks : pre (Node c nm ks) = Node c nm ks :: flat_map pre ks.
Proof. unfold pre at 1. rewrite collect_unfold. simpl. rewrite snd_collect_kids. reflexivity. Qed.

Lemma filter_flat_map {A B} (p : B -> bool) (f : A -> list B) l :
  filter p (flat_map f l) = flat_map (fun x => filter p (f x)) l.
Proof. induction l as [|a l IH]; simpl; [reflexivity|]. rewrite filter_app, IH. reflexivity. Qed.

Lemma flat_map_ext_Forall {A B} (f g : A -> list B) l :
  Forall (fun x => f x = g x) l -> flat_map f l = flat_map g l.
Proof. induction 1 as [|a l H _ IH]; simpl; [reflexivity|]. rewrite H, IH. reflexivity. Qed.

Lemma flat_map_flat_map {A B C} (f : B -> list C) (g : A -> list B) l :
  flat_map f (flat_map g l) = flat_map (fun x => flat_map f (g x)) l.
Proof. induction l as [|a l IH]; simpl; [reflexivity|]. rewrite flat_map_app, IH. reflexivity. Qed.

Lemma filter_map_comm {A B} (p : B -> bool) (f : A -> B) l :
  map f (filter (fun x => p (f x)) l) = filter p (map f l).
Proof. induction l as [|a l IH]; simpl; [reflexivity|]. destruct (p (f a)); simpl; rewrite IH; reflexivity. Qed.

(* get_children's result is the selected part of the pre-order *)
Lemma snd_collect sel : forall n, map snd (collect sel n) = filter sel (pre n).
Proof.
  intro n. induction n as [c nm ks HF] using node_ind2.
  rewrite pre_node, collect_unfold, map_app, snd_collect_kids. cbn [filter].
  rewrite filter_flat_map.
  rewrite (flat_map_ext_Forall _ (fun x => filter sel (pre x)) ks HF).
  destruct (sel (Node c nm ks)); reflexivity.
Qed.

Section NavBridge.
  (* how a C05 object is read as a C07 node: its class through [cix], its `name` attribute through [nmf]
     (any functions: they only produce labels), its children = the model objects held by containment
     slots, in slot order *)
  Variable cix : list N -> nat.
  Variable nmf : list (Nav.ameta * list Nav.obj) -> nameval.

  Definition kid_of (F : Nav.obj -> node) (v : Nav.obj) : list node :=
    if Nav.is_node v then [F v] else [].

  Fixpoint abs (o : Nav.obj) {struct o} : node :=
    match o with
    | Nav.Node id c slots =>
        Node (cix c) (nmf slots)
          (flat_map (fun mvs : Nav.ameta * list Nav.obj =>
             if Nav.acont (fst mvs) then
               if Nav.amany (fst mvs) then flat_map (kid_of abs) (snd mvs)
               else match snd mvs with [] => [] | v :: _ => kid_of abs v end
             else []) slots)
    | _ => Node 0 NoName []
    end.

  Definition slot_kids (mvs : Nav.ameta * list Nav.obj) : list node :=
    if Nav.acont (fst mvs) then
      if Nav.amany (fst mvs) then flat_map (kid_of abs) (snd mvs)
      else match snd mvs with [] => [] | v :: _ => kid_of abs v end
    else [].

  Lemma abs_node id c slots : abs (Nav.Node id c slots) = Node (cix c) (nmf slots) (flat_map slot_kids slots).
  Proof. reflexivity. Qed.

  Definition pre_ok (o : Nav.obj) : Prop :=
    flat_map pre (kid_of abs o) = map abs (Nav.walk (fun _ => true) false o).

  Lemma pre_abs_all : forall o, pre_ok o.
  Proof.
    apply NavProofs.obj_ind'; unfold pre_ok.
    - intros k t. reflexivity.
    - intro t. reflexivity.
    - intros id c slots HF. unfold kid_of. cbn [Nav.is_node flat_map]. rewrite app_nil_r.
      rewrite abs_node, pre_node. rewrite NavProofs.walk_node. cbn [map]. f_equal.
      unfold NavProofs.below. rewrite NavProofs.map_flat_map, flat_map_flat_map.
      apply flat_map_ext_Forall. rewrite Forall_forall in *. intros [m vs] Hin. specialize (HF _ Hin). simpl in HF.
      unfold slot_kids, NavProofs.wslot. simpl fst. simpl snd.
      destruct (Nav.acont m); [|reflexivity].
      destruct (Nav.amany m).
      + rewrite flat_map_flat_map, NavProofs.map_flat_map. apply flat_map_ext_Forall.
        rewrite Forall_forall in *. intros v Hv. unfold NavProofs.wval. exact (HF v Hv).
      + destruct vs as [|v vs]; [reflexivity|]. unfold NavProofs.wval.
        rewrite Forall_forall in HF. exact (HF v (or_introl eq_refl)).
  Qed.

  Lemma pre_abs o : Nav.is_node o = true -> pre (abs o) = map abs (Nav.nodes o).
  Proof.
    intro H. pose proof (pre_abs_all o) as P. unfold pre_ok, kid_of in P. rewrite H in P.
    cbn [flat_map] in P. rewrite app_nil_r in P. exact P.
  Qed.

  (* Plain.collect on the abstracted tree = the abstraction of what Nav.get_children (default arguments
     children_first = False, should_follow = always) returns, for every selector *)
  Theorem nav_bridge sel root :
    Nav.is_node root = true -> Nav.uniq root ->
    map snd (collect sel (abs root))
    = map abs (Nav.get_children (fun x => sel (abs x)) root false (fun _ => true)).
  Proof.
    intros Hn Hu. rewrite snd_collect, (pre_abs root Hn).
    rewrite (NavProofs.get_children_uniq _ _ _ root Hu). rewrite filter_map_comm. reflexivity.
  Qed.
End NavBridge.
