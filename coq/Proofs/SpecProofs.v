(* Lemmas relating Model/Peg.v (the Arpeggio interpreter as driven by textX) to Model/Spec.v (the
   reference PEG semantics). *)
From TxV Require Import Core.Base Model.PegSyntax Model.Peg Model.Spec.
Require Import Lia.

Definition accepts (o : outcome) : bool := match o with Parsed _ => true | _ => false end.
Definition saccepts (r : sres) : bool := match r with SOk _ _ => true | _ => false end.
Definition c_default : config := mkConfig true [9;10;13;32]%N.

(* ================================================================ witnesses outside the class *)
(* M: ('a'- | 'b') 'c';   on "ac"  (dumped by tools/pegdump.py) *)
Definition g_sup_alt : grammar := (mkGrammar [mkNode KSeq [1;6] None false [77;111;100;101;108]%N true false None None;
  mkNode KSeq [2;5] None false [77]%N true false None None;
  mkNode KChoice [3;4] None false []%N false false None None;
  mkNode (KStr [97]%N None) [] None false []%N false true None None;
  mkNode (KStr [98]%N None) [] None false []%N false false None None;
  mkNode (KStr [99]%N None) [] None false []%N false false None None;
  mkNode KEOF [] None false [69;79;70]%N false false None None] 0 None).

Lemma refuted_sup_alt :
  wfg g_sup_alt 24 = false /\
  saccepts (spec_run g_sup_alt c_default (fun _ _ => None) 50 [97;99]%N) = true /\
  run g_sup_alt c_default (fun _ _ => None) false 50 [97;99]%N = SyntaxErr 1.
Proof. vm_compute. repeat split. Qed.

(* M: x=INT ('a'? | 'b') y=INT;   on "1 2" *)
Definition g_opt_alt : grammar := (mkGrammar [mkNode KSeq [1;9] None false [77;111;100;101;108]%N true false None None;
  mkNode KSeq [2;4;8] None false [77]%N true false None None;
  mkNode KSeq [3] None false [95;95;97;115;103;110;95;112;108;97;105;110]%N true false None None;
  mkNode (KRegex 0) [] None false [73;78;84]%N true false None None;
  mkNode KChoice [5;7] None false []%N false false None None;
  mkNode KOpt [6] None false []%N false false None None;
  mkNode (KStr [97]%N None) [] None false []%N false false None None;
  mkNode (KStr [98]%N None) [] None false []%N false false None None;
  mkNode KSeq [3] None false [95;95;97;115;103;110;95;112;108;97;105;110]%N true false None None;
  mkNode KEOF [] None false [69;79;70]%N false false None None] 0 None).
Definition t_opt_alt := [((0,0),1);((0,2),1)].

Lemma refuted_opt_alt :
  wfg g_opt_alt 24 = false /\
  saccepts (spec_run g_opt_alt c_default (orc_of t_opt_alt) 50 [49;32;50]%N) = true /\
  run g_opt_alt c_default (orc_of t_opt_alt) false 50 [49;32;50]%N = SyntaxErr 2.
Proof. vm_compute. repeat split. Qed.

(* ================================================================ refinement inside the class *)
Lemma flatten_list l : flatten (RList l) = flat_map flatten l.
Proof. induction l as [|x l IH]; [reflexivity|]. cbn [flat_map]. rewrite <- IH. reflexivity. Qed.

Lemma flatten_app l r : flatten (RList (l ++ [r])) = flatten (RList l) ++ flatten r.
Proof. rewrite !flatten_list. rewrite flat_map_app. cbn [flat_map]. rewrite app_nil_r. reflexivity. Qed.

Lemma erase_all_app a b : erase_all (a ++ b) = erase_all a ++ erase_all b.
Proof. unfold erase_all. apply flat_map_app. Qed.

Lemma erase_SNT n kids : erase (SNT n kids) = [NT n (erase_all kids)].
Proof.
  cbn [erase]. unfold erase_all.
  assert (E : (fix go (l : list stree) : list tree :=
                 match l with [] => [] | x :: l' => erase x ++ go l' end) kids = flat_map erase kids).
  { induction kids as [|x l IH]; [reflexivity|]. cbn [flat_map]. rewrite <- IH. reflexivity. }
  rewrite E. reflexivity.
Qed.

(* every tree of the result is truthy (no empty NonTerminal) *)
Definition clean (r : res) : Prop := Forall (fun t => truthy (RTree t) = true) (flatten r).

Lemma clean_falsy r : clean r -> truthy r = false -> flatten r = [].
Proof.
  intros Hc Ht. destruct r as [|t|l]; [reflexivity| |].
  - unfold clean in Hc. cbn [flatten] in Hc. inversion Hc; subst. congruence.
  - destruct l; [reflexivity | discriminate].
Qed.

Lemma clean_truthy r : clean r -> flatten r <> [] -> truthy r = true.
Proof.
  intros Hc Hne. destruct (truthy r) eqn:E; [reflexivity|]. exfalso. apply Hne. apply clean_falsy; assumption.
Qed.

Lemma clean_list_app l r : clean (RList l) -> clean r -> clean (RList (l ++ [r])).
Proof. unfold clean. rewrite flatten_app. intros. apply Forall_app. split; assumption. Qed.

Definition cpos_id (m : list (nat * nat)) : Prop := Forall (fun kv => fst kv = snd kv) m.

Lemma cpos_id_lookup m p q : cpos_id m -> lookup p m = Some q -> q = p.
Proof.
  induction m as [|[k v] m IH]; intros H L; [discriminate|].
  inversion H as [|? ? Hkv Hm]; subst. cbn [lookup] in L. cbn in Hkv. subst v.
  destruct (Nat.eqb p k) eqn:E.
  - apply Nat.eqb_eq in E. inversion L; subst. reflexivity.
  - apply IH; assumption.
Qed.

Lemma cpos_id_upd m p : cpos_id m -> cpos_id (upd p p m).
Proof.
  induction m as [|[k v] m IH]; intro H; cbn [upd].
  - constructor; [reflexivity | constructor].
  - inversion H as [|? ? Hkv Hm]; subst. destruct (Nat.eqb p k).
    + constructor; [reflexivity | exact Hm].
    + constructor; [exact Hkv | apply IH; exact Hm].
Qed.

Section Refine1.
Variable g : grammar.
Variable input : list N.
Variable orc : nat -> nat -> option nat.
Variable x : sctx.
(* the invariant of comment_positions is a parameter: identity entries without a Comment rule, the comment
   closure with one; [d]: the reference semantics may run with d more units of fuel *)
Variable CP : list (nat * nat) -> Prop.
Variable dx : nat.
Hypothesis HCPid : forall m, CP m -> cpos_id m.
Hypothesis HCPupd : forall m p, CP m -> CP (upd p p m).
Hypothesis Hx_cmt : x_incmt x = false.
Hypothesis Hcm : g_comments g = None.
Hypothesis Horc : orc_pos orc.

Record inv (s : st) : Prop := mkInv {
  inv_ws : ws s = eff_ws x; inv_skip : skipws s = x_skip x; inv_cmt : in_cmt s = false;
  inv_cpos : CP (cpos s); inv_eol : eolterm s = x_eol x; inv_real : real_ws s = x_ws x }.

Lemma inv_set_pos p s : inv s -> inv (set_pos p s).
Proof. intros [H1 H2 H3 H4 H5 H6]. constructor; assumption. Qed.

Definition valid (nid : nat) : Prop := nid < length (g_nodes g).

Definition sim (rec : nat -> bool -> st -> out) (srec : nat -> bool -> sctx -> nat -> sres) : Prop :=
  forall nid psq s, inv s -> valid nid ->
    match rec nid psq s with
    | Ok r s' => exists ts, srec nid psq x (pos s) = SOk ts (pos s') /\ erase_all ts = flatten r /\ clean r /\
                            inv s' /\ pos s <= pos s' /\
                            (forall k, prodb g k nid = true -> flatten r <> [] /\ pos s < pos s')
    | Fail s' => srec nid psq x (pos s) = SFail /\ inv s'
    | Abort _ => True
    end.

Lemma skip_ws_from_ge w l p : p <= skip_ws_from w l p.
Proof.
  revert p; induction l as [|c l IH]; intro p; cbn [skip_ws_from]; [lia|].
  destruct (existsb (N.eqb c) w); [|lia]. specialize (IH (S p)). lia.
Qed.

(* Match.parse up to _parse: whitespace skipping only (no comment model) *)
Lemma match_pre_sim rec k s :
  inv s ->
  exists s1, match_pre g input rec k s = Ok RNone s1 /\ inv s1 /\
             pos s1 = (if x_skip x then sws input x (pos s) else pos s) /\ pos s <= pos s1.
Proof.
  intros [H1 H2 H3 H4 H5 H6]. unfold match_pre, maybe_skip_ws. rewrite H2.
  destruct (x_skip x) eqn:Esk.
  - unfold do_skip_ws. cbn [skipws set_pos cpos pos in_cmt ws].
    set (p1 := skip_ws_from (ws s) (skipn (pos s) input) (pos s)).
    assert (Ep1 : p1 = sws input x (pos s)) by (unfold sws; rewrite <- H1; reflexivity).
    assert (Hge : pos s <= p1) by apply skip_ws_from_ge.
    rewrite H2. destruct (lookup p1 (cpos s)) as [q|] eqn:EL.
    + apply (cpos_id_lookup _ _ _ (HCPid _ H4)) in EL. subst q.
      eexists. split; [reflexivity|]. split; [constructor; cbn; try assumption; congruence|]. cbn [pos set_pos]. split; [exact Ep1 | exact Hge].
    + rewrite H3. unfold parse_comments. rewrite Hcm.
      eexists. split; [reflexivity|]. split.
      * constructor; cbn; try assumption; try congruence. apply HCPupd. exact H4.
      * cbn [pos set_pos set_cpos set_in_cmt]. split; [exact Ep1 | exact Hge].
  - rewrite H2. rewrite H3. unfold parse_comments. rewrite Hcm.
    eexists. split; [reflexivity|]. split.
    + constructor; cbn; try assumption; try congruence. apply HCPupd. exact H4.
    + cbn. split; [reflexivity | lia].
Qed.

Lemma seq_sim rec srec psq kids :
  sim rec srec -> Forall valid kids ->
  forall acc sacc s, inv s -> erase_all sacc = flatten (RList acc) -> clean (RList acc) ->
  Forall (fun r => truthy r = true) acc ->
  match seq_loop rec psq kids acc s with
  | Ok r s' => exists acc' ts, r = RList acc' /\ sseq srec psq x kids sacc (pos s) = SOk ts (pos s') /\
       erase_all ts = flatten (RList acc') /\ clean (RList acc') /\ inv s' /\ pos s <= pos s' /\
       Forall (fun r => truthy r = true) acc' /\
       (exists rest, flatten (RList acc') = flatten (RList acc) ++ rest) /\
       (forall k, existsb (prodb g k) kids = true -> flatten (RList acc') <> [] /\ pos s < pos s')
  | Fail s' => sseq srec psq x kids sacc (pos s) = SFail /\ inv s'
  | Abort _ => True
  end.
Proof.
  intros Hsim. induction kids as [|c kids IH]; intros Hval acc sacc s Hinv He Hcl Htr.
  - cbn [seq_loop sseq]. exists acc, sacc.
    split; [reflexivity|]. split; [reflexivity|]. split; [exact He|]. split; [exact Hcl|]. split; [exact Hinv|].
    split; [lia|]. split; [exact Htr|]. split.
    + exists []. rewrite app_nil_r. reflexivity.
    + intros k Hk. cbn in Hk. discriminate.
  - inversion Hval as [|? ? Hc Hval']; subst. cbn [seq_loop sseq].
    pose proof (Hsim c psq s Hinv Hc) as HS.
    destruct (rec c psq s) as [r s1|s1|w] eqn:E.
    + destruct HS as [ts1 [Es [Ee [Hcr [Hinv1 [Hle Hprod]]]]]]. rewrite Es.
      set (acc1 := if truthy r then acc ++ [r] else acc).
      assert (Hfl : flatten (RList acc1) = flatten (RList acc) ++ flatten r).
      { subst acc1. destruct (truthy r) eqn:Et; [apply flatten_app|].
        rewrite (clean_falsy _ Hcr Et). rewrite app_nil_r. reflexivity. }
      assert (He1 : erase_all (sacc ++ ts1) = flatten (RList acc1)).
      { rewrite erase_all_app, He, Ee, Hfl. reflexivity. }
      assert (Hcl1 : clean (RList acc1)).
      { unfold clean. rewrite Hfl. apply Forall_app. split; [exact Hcl | exact Hcr]. }
      assert (Htr1 : Forall (fun r => truthy r = true) acc1).
      { subst acc1. destruct (truthy r) eqn:Et; [|exact Htr]. apply Forall_app. split; [exact Htr|]. constructor; [exact Et | constructor]. }
      specialize (IH Hval' acc1 (sacc ++ ts1) s1 Hinv1 He1 Hcl1 Htr1).
      destruct (seq_loop rec psq kids acc1 s1) as [r' s'|s'|w'] eqn:E'.
      * destruct IH as [acc' [ts [Er [Es' [Ee' [Hcl' [Hinv' [Hle' [Htr' [[rest Hrest] Hprod']]]]]]]]]].
        exists acc', ts.
        split; [exact Er|]. split; [exact Es'|]. split; [exact Ee'|]. split; [exact Hcl'|]. split; [exact Hinv'|].
        split; [lia|]. split; [exact Htr'|]. split.
        -- exists (flatten r ++ rest). rewrite Hrest, Hfl, app_assoc. reflexivity.
        -- intros k Hk. cbn [existsb] in Hk. apply orb_true_iff in Hk as [Hp|Hp].
           ++ destruct (Hprod _ Hp) as [Hne Hlt]. split; [|lia]. rewrite Hrest, Hfl. intro X.
              apply app_eq_nil in X as [X _]. apply app_eq_nil in X as [_ X]. contradiction.
           ++ destruct (Hprod' _ Hp) as [Hne Hlt]. split; [exact Hne | lia].
      * exact IH.
      * exact I.
    + destruct HS as [Es Hinv1]. rewrite Es. split; [reflexivity | exact Hinv1].
    + exact I.
Qed.

Lemma choice_sim rec srec c_pos kids :
  sim rec srec -> Forall valid kids -> (forall c, In c kids -> exists k, prodb g k c = true) ->
  forall s, inv s -> pos s = c_pos ->
  match choice_loop rec c_pos kids s with
  | Ok r s' => (is_none r = false /\ exists ts, schoice srec x kids c_pos = SOk ts (pos s') /\ erase_all ts = flatten r /\
                clean r /\ inv s' /\ c_pos < pos s' /\ flatten r <> [])
               \/ (is_none r = true /\ schoice srec x kids c_pos = SFail /\ inv s')
  | Fail _ => False
  | Abort _ => True
  end.
Proof.
  intros Hsim. induction kids as [|c kids IH]; intros Hval Hprod s Hinv Hpos.
  - cbn [choice_loop schoice]. right. split; [reflexivity|]. split; [reflexivity | exact Hinv].
  - inversion Hval as [|? ? Hc Hval']; subst. cbn [choice_loop schoice].
    pose proof (Hsim c false s Hinv Hc) as HS.
    destruct (rec c false s) as [r s1|s1|w] eqn:E.
    + destruct HS as [ts1 [Es [Ee [Hcr [Hinv1 [Hle Hp]]]]]].
      destruct (Hprod c (or_introl eq_refl)) as [k Hk]. destruct (Hp k Hk) as [Hne Hlt].
      assert (Hnn : is_none r = false) by (destruct r; [exfalso; apply Hne; reflexivity | reflexivity | reflexivity]).
      rewrite Hnn. left. split; [exact Hnn|]. exists ts1. rewrite Es.
      split; [reflexivity|]. split; [exact Ee|]. split; [exact Hcr|]. split; [exact Hinv1|]. split; [lia | exact Hne].
    + destruct HS as [Es Hinv1]. rewrite Es.
      apply IH; [exact Hval' | intros c' Hc'; apply Hprod; right; exact Hc' | apply inv_set_pos; exact Hinv1 | reflexivity].
    + exact I.
Qed.

(* one iteration of a repetition after the (optional) separator, named so that the loops unfold to it *)
Definition rep_elem (rec : nat -> bool -> st -> out) e sep plus k first c_pos (acc1 : list res) (s1 : st) : out :=
  match rec e false s1 with
  | Ok r s2 => if truthy r then rep_loop rec e sep plus k false (acc1 ++ [r]) s2 else Ok (RList acc1) s2
  | Fail s2 => if (plus && first)%bool then Fail (set_pos c_pos s2) else Ok (RList acc1) (set_pos c_pos s2)
  | Abort w => Abort w
  end.
Lemma rep_loop_S rec e sep plus k first acc s :
  rep_loop rec e sep plus (S k) first acc s =
  match sep with
  | Some sp =>
    if first then rep_elem rec e sep plus k first (pos s) acc s
    else match rec sp false s with
         | Ok sr s1 => rep_elem rec e sep plus k first (pos s) (if truthy sr then acc ++ [sr] else acc) s1
         | Fail s1 => if (plus && first)%bool then Fail (set_pos (pos s) s1) else Ok (RList acc) (set_pos (pos s) s1)
         | Abort w => Abort w
         end
  | None => rep_elem rec e sep plus k first (pos s) acc s
  end.
Proof. reflexivity. Qed.

Definition srep_elem (srec : nat -> bool -> sctx -> nat -> sres) e sep plus k first (acc : list stree) p
           (sts : list stree) p1 : sres :=
  match srec e false x p1 with
  | SOk ts p2 => if Nat.ltb p p2 then srep true srec e sep plus x k false (acc ++ sts ++ ts) p2
                 else if (plus && first)%bool then SOk (acc ++ sts ++ ts) p2
                 else if (plus && first)%bool then SFail else SOk acc p
  | SFail => if (plus && first)%bool then SFail else SOk (acc ++ sts) p
  | SOut => SOut
  end.
Lemma srep_S srec e sep plus k first acc p :
  srep true srec e sep plus x (S k) first acc p =
  match sep with
  | Some sp =>
    if first then srep_elem srec e sep plus k first acc p [] p
    else match srec sp false x p with
         | SOk sts p1 => srep_elem srec e sep plus k first acc p sts p1
         | SFail => if (plus && first)%bool then SFail else SOk acc p
         | SOut => SOut
         end
  | None => srep_elem srec e sep plus k first acc p [] p
  end.
Proof.
  cbn [srep]. unfold srep_elem. rewrite app_nil_r.
  destruct sep as [sp|]; [destruct first|]; try reflexivity.
Qed.

(* repetitions, with or without separator; the reference side is the trailing-separator variant *)
Definition rep_post (plus first : bool) (acc : list res) (sacc : list stree) (s : st) (r : res) (s' : st)
           (ts : list stree) : Prop :=
  exists acc', r = RList acc' /\ erase_all ts = flatten (RList acc') /\ clean (RList acc') /\ inv s' /\ pos s <= pos s' /\
    Forall (fun r => truthy r = true) acc' /\
    (exists rest, flatten (RList acc') = flatten (RList acc) ++ rest) /\
    (first = true -> (acc' = acc /\ ts = sacc) \/ flatten (RList acc') <> []) /\
    ((plus && first)%bool = true -> flatten (RList acc') <> [] /\ pos s < pos s').

Lemma rep_sim rec srec e sep plus :
  sim rec srec -> valid e -> (exists k, prodb g k e = true) -> (forall sp, sep = Some sp -> valid sp) ->
  forall k first acc sacc s, inv s -> erase_all sacc = flatten (RList acc) -> clean (RList acc) ->
  Forall (fun r => truthy r = true) acc ->
  match rep_loop rec e sep plus k first acc s with
  | Ok r s' => exists ts, srep true srec e sep plus x (k + dx) first sacc (pos s) = SOk ts (pos s') /\
                          rep_post plus first acc sacc s r s' ts
  | Fail s' => srep true srec e sep plus x (k + dx) first sacc (pos s) = SFail /\ inv s'
  | Abort _ => True
  end.
Proof.
  intros Hsim He [ke Hke] Hsepv. induction k as [|k IH]; intros first acc sacc s Hinv Hea Hcl Htr; [exact I|].
  (* the element step, for any accumulated prefix *)
  assert (Helem : forall acc1 sts s1,
            inv s1 -> pos s <= pos s1 -> erase_all (sacc ++ sts) = flatten (RList acc1) -> clean (RList acc1) ->
            Forall (fun r => truthy r = true) acc1 ->
            (exists rest, flatten (RList acc1) = flatten (RList acc) ++ rest) ->
            (first = true -> acc1 = acc /\ sts = []) ->
            match rep_elem rec e sep plus k first (pos s) acc1 s1 with
            | Ok r s' => exists ts, srep_elem srec e sep plus (k + dx) first sacc (pos s) sts (pos s1) = SOk ts (pos s') /\
                                    rep_post plus first acc sacc s r s' ts
            | Fail s' => srep_elem srec e sep plus (k + dx) first sacc (pos s) sts (pos s1) = SFail /\ inv s'
            | Abort _ => True
            end).
  { intros acc1 sts s1 Hinv1 Hle1 He1 Hcl1 Htr1 [rest1 Hrest1] Hfirst.
    unfold rep_elem, srep_elem.
    pose proof (Hsim e false s1 Hinv1 He) as HS.
    destruct (rec e false s1) as [r s2|s2|w] eqn:E.
    - destruct HS as [ts1 [Es [Ee [Hcr [Hinv2 [Hle Hp]]]]]]. destruct (Hp ke Hke) as [Hne Hlt].
      rewrite (clean_truthy _ Hcr Hne). rewrite Es.
      assert (Hltb : Nat.ltb (pos s) (pos s2) = true) by (apply Nat.ltb_lt; lia). rewrite Hltb.
      assert (He2 : erase_all (sacc ++ sts ++ ts1) = flatten (RList (acc1 ++ [r]))).
      { rewrite app_assoc, erase_all_app, He1, flatten_app, Ee. reflexivity. }
      assert (Hcl2 : clean (RList (acc1 ++ [r]))) by (apply clean_list_app; assumption).
      assert (Htr2 : Forall (fun r => truthy r = true) (acc1 ++ [r])).
      { apply Forall_app. split; [exact Htr1|]. constructor; [apply clean_truthy; assumption | constructor]. }
      specialize (IH false (acc1 ++ [r]) (sacc ++ sts ++ ts1) s2 Hinv2 He2 Hcl2 Htr2).
      destruct (rep_loop rec e sep plus k false (acc1 ++ [r]) s2) as [r' s'|s'|w'] eqn:E'.
      + destruct IH as [ts [Es' [acc' [Er [Ee' [Hcl' [Hinv' [Hle' [Htr' [[rest Hrest] _]]]]]]]]]].
        assert (Hne' : flatten (RList acc') <> []).
        { rewrite Hrest, flatten_app. intro X. apply app_eq_nil in X as [X _]. apply app_eq_nil in X as [_ X]. contradiction. }
        exists ts. split; [exact Es'|]. exists acc'.
        split; [exact Er|]. split; [exact Ee'|]. split; [exact Hcl'|]. split; [exact Hinv'|]. split; [lia|].
        split; [exact Htr'|]. split.
        * exists (rest1 ++ flatten r ++ rest). rewrite Hrest, flatten_app, Hrest1. rewrite <- !app_assoc. reflexivity.
        * split; [intros _; right; exact Hne'|]. intros _. split; [exact Hne' | lia].
      + destruct IH as [Es' Hinv']. split; [exact Es' | exact Hinv'].
      + exact I.
    - destruct HS as [Es Hinv2]. rewrite Es.
      destruct (plus && first)%bool eqn:Epf.
      + split; [reflexivity | apply inv_set_pos; exact Hinv2].
      + exists (sacc ++ sts). split; [reflexivity|]. exists acc1. cbn [pos set_pos].
        split; [reflexivity|]. split; [exact He1|]. split; [exact Hcl1|]. split; [apply inv_set_pos; exact Hinv2|].
        split; [lia|]. split; [exact Htr1|]. split; [exists rest1; exact Hrest1|]. split.
        * intros Hf. destruct (Hfirst Hf) as [-> ->]. left. split; [reflexivity | apply app_nil_r].
        * intro X. rewrite Epf in X. discriminate.
    - exact I. }
  change (S k + dx) with (S (k + dx)). rewrite rep_loop_S, srep_S.
  assert (Hself : exists rest, flatten (RList acc) = flatten (RList acc) ++ rest) by (exists []; rewrite app_nil_r; reflexivity).
  assert (Hea0 : erase_all (sacc ++ []) = flatten (RList acc)) by (rewrite app_nil_r; exact Hea).
  destruct sep as [sp|].
  - destruct first.
    + apply (Helem acc [] s Hinv (le_n _) Hea0 Hcl Htr Hself). intros _. split; reflexivity.
    + pose proof (Hsim sp false s Hinv (Hsepv sp eq_refl)) as HS.
      destruct (rec sp false s) as [sr s1|s1|w] eqn:E.
      * destruct HS as [sts [Es [Ee [Hcr [Hinv1 [Hle _]]]]]]. rewrite Es.
        set (acc1 := if truthy sr then acc ++ [sr] else acc).
        assert (Hfl : flatten (RList acc1) = flatten (RList acc) ++ flatten sr).
        { subst acc1. destruct (truthy sr) eqn:Et; [apply flatten_app|].
          rewrite (clean_falsy _ Hcr Et). rewrite app_nil_r. reflexivity. }
        apply (Helem acc1 sts s1 Hinv1 Hle).
        -- rewrite erase_all_app, Hea, Ee, Hfl. reflexivity.
        -- unfold clean. rewrite Hfl. apply Forall_app. split; [exact Hcl | exact Hcr].
        -- subst acc1. destruct (truthy sr) eqn:Et; [|exact Htr]. apply Forall_app. split; [exact Htr|]. constructor; [exact Et | constructor].
        -- exists (flatten sr). exact Hfl.
        -- intro X; discriminate.
      * destruct HS as [Es Hinv1]. rewrite Es. rewrite andb_false_r.
        exists sacc. split; [reflexivity|]. exists acc. cbn [pos set_pos].
        split; [reflexivity|]. split; [exact Hea|]. split; [exact Hcl|]. split; [apply inv_set_pos; exact Hinv1|].
        split; [lia|]. split; [exact Htr|]. split; [exact Hself|]. split; [intro X; discriminate|].
        intro X. rewrite andb_false_r in X. discriminate.
      * exact I.
  - apply (Helem acc [] s Hinv (le_n _) Hea0 Hcl Htr Hself). intros _. split; reflexivity.
Qed.

Lemma inv_reg_fail p s : inv s -> inv (reg_fail p s).
Proof.
  intros [H1 H2 H3 H4 H5 H6]. unfold reg_fail. destruct (nm s) as [q|].
  - rewrite H3. destruct (Nat.ltb q p); constructor; cbn; assumption.
  - constructor; cbn; assumption.
Qed.

Lemma term_sim nid k psq s1 :
  inv s1 -> is_match_kind k = true -> (forall t o, k = KStr t o -> t <> []) ->
  match term_parse input orc nid k psq s1 with
  | Ok r s2 => exists ts, term_match input orc nid k psq (pos s1) = SOk ts (pos s2) /\ erase_all ts = flatten r /\
                          clean r /\ inv s2 /\ pos s1 <= pos s2 /\ (k <> KEOF -> flatten r <> [] /\ pos s1 < pos s2)
  | Fail s2 => term_match input orc nid k psq (pos s1) = SFail /\ inv s2
  | Abort _ => True
  end.
Proof.
  intros Hinv Hk Hne. destruct k as [| | | | | | | | | |t o|o]; try discriminate.
  - (* KEOF *) cbn [term_parse term_match]. destruct (Nat.eqb (length input) (pos s1)).
    + eexists. split; [reflexivity|]. split; [reflexivity|]. split; [constructor; [reflexivity|constructor]|].
      split; [exact Hinv|]. split; [lia|]. intro X; congruence.
    + split; [reflexivity | apply inv_reg_fail; exact Hinv].
  - (* KStr *)
    assert (Hlen : 0 < length t) by (specialize (Hne t o eq_refl); destruct t; [congruence | cbn; lia]).
    cbn [term_parse term_match].
    destruct o as [o|].
    + destruct (orc o (pos s1)) as [n|].
      * eexists. split; [reflexivity|]. split; [reflexivity|]. split; [constructor; [reflexivity|constructor]|].
        split; [apply inv_set_pos; exact Hinv|]. cbn [pos set_pos]. split; [lia|]. intros _. split; [discriminate | lia].
      * split; [reflexivity | apply inv_reg_fail; exact Hinv].
    + destruct (is_prefix t (skipn (pos s1) input)).
      * eexists. split; [reflexivity|]. split; [reflexivity|]. split; [constructor; [reflexivity|constructor]|].
        split; [apply inv_set_pos; exact Hinv|]. cbn [pos set_pos]. split; [lia|]. intros _. split; [discriminate | lia].
      * split; [reflexivity | apply inv_reg_fail; exact Hinv].
  - (* KRegex *) cbn [term_parse term_match]. destruct (orc o (pos s1)) as [n|] eqn:Eo.
    + pose proof (Horc _ _ _ Eo) as Hn. assert (En : Nat.eqb n 0 = false) by (apply Nat.eqb_neq; lia). rewrite En.
      eexists. split; [reflexivity|]. split; [reflexivity|]. split; [constructor; [reflexivity|constructor]|].
      split; [apply inv_set_pos; exact Hinv|]. cbn [pos set_pos]. split; [lia|]. intros _. split; [discriminate | lia].
    + split; [reflexivity | apply inv_reg_fail; exact Hinv].
Qed.

Lemma prodb_0 nid : prodb g 0 nid = false.
Proof.
  unfold prodb. cbn [prod_tbl]. revert nid. induction (g_nodes g) as [|a l IH]; intro nid; destruct nid; cbn; auto.
Qed.

Lemma nth_map_some {A B} (f : A -> B) l n a d : nth_error l n = Some a -> nth n (map f l) d = f a.
Proof.
  revert n; induction l as [|y l IH]; intros [|n] H; cbn in *; try discriminate.
  - inversion H; reflexivity.
  - apply IH; exact H.
Qed.

Lemma prodb_S k nid nd : get_node g nid = Some nd -> prodb g (S k) nid = prod_nd (prodb g k) nd.
Proof.
  intro H. unfold prodb at 1. cbn [prod_tbl]. cbv zeta. unfold get_node in H. rewrite (nth_map_some _ _ _ _ _ H). reflexivity.
Qed.

Lemma ctx_enter_id nd : n_ws nd = None -> n_skipws nd = None -> ctx_enter nd x = x.
Proof. intros H1 H2. unfold ctx_enter. rewrite H1, H2. destruct x; reflexivity. Qed.
Lemma ctx_eol_id nd : n_eolterm nd = false -> ctx_eol nd x = x.
Proof. intro H. unfold ctx_eol. rewrite H. reflexivity. Qed.

End Refine1.

Definition opt_is_none {A} (o : option A) : o = None <-> opt_none o = true.
Proof. destruct o; cbn; split; congruence. Qed.

Lemma head_not_none_of_truthy acc : Forall (fun r => truthy r = true) acc -> head_is_none (RList acc) = false.
Proof. intro H. destruct acc as [|a l]; [reflexivity|]. inversion H; subst. destruct a; [discriminate | reflexivity | reflexivity]. Qed.

(* ---------------------------------------------------------------- whitespace contexts *)
Lemma strip_eol_idem w : strip_eol (strip_eol w) = strip_eol w.
Proof.
  unfold strip_eol. induction w as [|c w IH]; [reflexivity|]. cbn [filter].
  destruct (negb (N.eqb c 10 || N.eqb c 13)) eqn:E; [|exact IH]. cbn [filter]. rewrite E, IH. reflexivity.
Qed.

(* contexts that occur: not inside comment parsing; inside an eolterm repetition only when the table has no
   rule-level ws modifier at all *)
Definition okx (g : grammar) (x : sctx) : Prop := x_incmt x = false /\ (x_eol x = true -> nows g = true).

Lemma okx_enter g nd x : okx g x -> okx g (ctx_enter nd x).
Proof. intros [A B]. split; assumption. Qed.

Lemma okx_eol g nd x : okx g x -> (n_eolterm nd = true -> nows g = true) -> okx g (ctx_eol nd x).
Proof.
  intros [A B] H. unfold ctx_eol. destruct (n_eolterm nd) eqn:E; [|split; assumption].
  split; [exact A|]. intros _. apply H. reflexivity.
Qed.

Lemma nows_node g nd : nows g = true -> In nd (g_nodes g) -> n_ws nd = None.
Proof.
  unfold nows. intros H Hin. rewrite forallb_forall in H. specialize (H nd Hin). destruct (n_ws nd); [discriminate | reflexivity].
Qed.

Lemma enter_ws_pos nd s : pos (enter_ws nd s) = pos s.
Proof. unfold enter_ws. destruct (n_ws nd), (n_skipws nd); reflexivity. Qed.
Lemma leave_ws_pos nd s s1 : pos (leave_ws nd s s1) = pos s1.
Proof. unfold leave_ws. destruct (n_ws nd), (n_skipws nd); reflexivity. Qed.
Lemma enter_eol_pos nd s : pos (enter_eol nd s) = pos s.
Proof. unfold enter_eol. destruct (n_eolterm nd); reflexivity. Qed.
Lemma leave_eol_pos nd s s1 : pos (leave_eol nd s s1) = pos s1.
Proof. unfold leave_eol. destruct (n_eolterm nd); reflexivity. Qed.

Lemma enter_ws_inv x CP nd s : inv x CP s -> (n_ws nd = None \/ x_eol x = false) -> inv (ctx_enter nd x) CP (enter_ws nd s).
Proof.
  destruct x as [xw xs xe xi]. intros [H1 H2 H3 H4 H5 H6] Hc.
  unfold enter_ws, ctx_enter, set_ws, set_skipws, eff_ws in *. cbn [x_ws x_skip x_eol x_incmt] in *.
  destruct (n_ws nd) as [w|] eqn:Ew.
  - destruct Hc as [X|X]; [discriminate|]. rewrite X in *. cbv iota in *.
    destruct (n_skipws nd); constructor; cbn [ws skipws in_cmt cpos eolterm real_ws x_ws x_skip x_eol eff_ws];
      try rewrite H5; try assumption; reflexivity.
  - destruct (n_skipws nd); constructor; cbn [ws skipws in_cmt cpos eolterm real_ws x_ws x_skip x_eol eff_ws]; try assumption; reflexivity.
Qed.

Lemma leave_ws_inv x CP nd s s1 :
  inv x CP s -> (n_ws nd = None \/ x_eol x = false) -> inv (ctx_enter nd x) CP s1 -> inv x CP (leave_ws nd s s1).
Proof.
  destruct x as [xw xs xe xi]. intros [H1 H2 H3 H4 H5 H6] Hc [G1 G2 G3 G4 G5 G6]. unfold leave_ws, set_ws, set_skipws.
  unfold ctx_enter, eff_ws in *. cbn [x_ws x_skip x_eol x_incmt] in *.
  destruct (n_ws nd) as [w|] eqn:Ew.
  - destruct Hc as [X|X]; [discriminate|]. rewrite X in *. cbv iota in *.
    destruct (n_skipws nd); constructor; cbn [ws skipws in_cmt cpos eolterm real_ws x_ws x_skip x_eol eff_ws];
      try rewrite G5; try assumption; try reflexivity.
  - destruct (n_skipws nd); constructor; cbn [ws skipws in_cmt cpos eolterm real_ws x_ws x_skip x_eol eff_ws]; try assumption; reflexivity.
Qed.

Lemma enter_eol_inv x CP nd s : inv x CP s -> inv (ctx_eol nd x) CP (enter_eol nd s).
Proof.
  destruct x as [xw xs xe xi]. intros [H1 H2 H3 H4 H5 H6]. unfold enter_eol, ctx_eol.
  destruct (n_eolterm nd); [|constructor; assumption].
  unfold set_eolterm, eff_ws in *. cbn [x_ws x_skip x_eol x_incmt] in *.
  constructor; cbn [ws skipws in_cmt cpos eolterm real_ws x_ws x_skip x_eol eff_ws]; try assumption; try reflexivity.
  rewrite H1. destruct xe; [apply strip_eol_idem | reflexivity].
Qed.

Lemma leave_eol_inv x CP nd s s1 : inv x CP s -> inv (ctx_eol nd x) CP s1 -> inv x CP (leave_eol nd s s1).
Proof.
  destruct x as [xw xs xe xi]. intros [H1 H2 H3 H4 H5 H6] [G1 G2 G3 G4 G5 G6]. unfold leave_eol. unfold ctx_eol in *.
  destruct (n_eolterm nd); [|constructor; assumption].
  unfold set_eolterm, eff_ws in *. cbn [x_ws x_skip x_eol x_incmt] in *. rewrite H5.
  constructor; cbn [ws skipws in_cmt cpos eolterm real_ws x_ws x_skip x_eol eff_ws]; try assumption; try reflexivity.
  destruct xe; [rewrite G1; apply strip_eol_idem | exact G6].
Qed.

Section Refine2.
Variable g : grammar.
Variable input : list N.
Variable orc : nat -> nat -> option nat.
Hypothesis Horc : orc_pos orc.
(* parameters of the simulation: the invariant of comment_positions, the extra fuel of the reference side, the
   contexts that occur, and what Match.parse does before the terminal itself (whitespace / comments) *)
Variable CP : list (nat * nat) -> Prop.
Variable dx : nat.
Variable OKX : sctx -> Prop.
Hypothesis HOK_enter : forall nd x, In nd (g_nodes g) -> OKX x -> OKX (ctx_enter nd x).
Hypothesis HOK_eol : forall nd x, In nd (g_nodes g) -> OKX x -> OKX (ctx_eol nd x).
Hypothesis HOK_ws : forall nd x, In nd (g_nodes g) -> OKX x -> n_ws nd = None \/ x_eol x = false.
Hypothesis Hpre : forall f x s, OKX x -> inv x CP s ->
  match match_pre g input (parse g input orc false f) f s with
  | Ok r s1 => inv x CP s1 /\ skip g input (seval g input orc true (f + dx)) (f + dx) x (pos s) = Some (pos s1) /\ pos s <= pos s1
  | Fail _ => False
  | Abort _ => True
  end.

Definition sim_all (rec : nat -> bool -> st -> out) (srec : nat -> bool -> sctx -> nat -> sres) : Prop :=
  forall x, OKX x -> sim g x CP rec srec.

(* what body_sim concludes *)
Definition body_post (x : sctx) (nd : node) (s : st) (r : res) (s' : st) (ts : list stree) : Prop :=
  erase_all ts = flatten r /\ clean r /\ inv x CP s' /\ pos s <= pos s' /\ is_ptnode r = false /\
  (head_is_none r = true -> flatten r = []) /\
  (live_root nd = true -> flatten r = [] ->
     truthy (if head_is_none r then RNone else r) = false /\ ts = [] /\ (n_kind nd = KOpt \/ n_kind nd = KStar)) /\
  (forall k, prod_nd (prodb g k) nd = true -> flatten r <> [] /\ pos s < pos s').

Lemma body_post_none x nd s s' :
  inv x CP s' -> pos s <= pos s' -> live_root nd = false -> (forall k, prod_nd (prodb g k) nd = false) ->
  body_post x nd s RNone s' [].
Proof.
  intros Hi Hl Hr Hp. unfold body_post.
  split; [reflexivity|]. split; [constructor|]. split; [exact Hi|]. split; [exact Hl|]. split; [reflexivity|].
  split; [intro X; discriminate|]. split; [intro X; rewrite Hr in X; discriminate|].
  intros k X. rewrite Hp in X. discriminate.
Qed.

Lemma body_sim rec srec k nd pf x s :
  sim_all rec srec -> OKX x -> node_ok g (prodb g pf) nd = true -> In nd (g_nodes g) ->
  inv x CP s -> is_match_kind (n_kind nd) = false ->
  match body rec k nd s with
  | Ok r s' => exists ts, sbody true srec (k + dx) nd x (pos s) = SOk ts (pos s') /\ body_post x nd s r s' ts
  | Fail s' => sbody true srec (k + dx) nd x (pos s) = SFail /\ inv x CP s'
  | Abort _ => True
  end.
Proof.
  intros Hall Hokx Hok Hnd Hinv Hnm. unfold node_ok in Hok.
  pose proof (Hall x Hokx) as Hsim.
  pose proof (HOK_ws nd x Hnd Hokx) as Hwsc.
  assert (Hpr : forall c, prodb g pf c = true -> exists j, prodb g j c = true) by (intros c Hc; exists pf; exact Hc).
  apply andb_true_iff in Hok as [Hok Hkind]. apply andb_true_iff in Hok as [Hok Hkids].
  apply andb_true_iff in Hok as [Hok Hmods]. apply andb_true_iff in Hok as [Hsepok Heol].
  assert (Hval : Forall (valid g) (n_kids nd)).
  { apply Forall_forall. intros c Hc. rewrite forallb_forall in Hkids. specialize (Hkids c Hc). apply Nat.ltb_lt in Hkids. exact Hkids. }
  unfold body, sbody.
  destruct (n_kind nd) eqn:Ek; try discriminate.
  - (* KSeq *)
    set (x' := ctx_enter nd x). set (s0 := enter_ws nd s).
    assert (Hinv0 : inv x' CP s0) by (apply enter_ws_inv; assumption).
    assert (Hp0 : pos s0 = pos s) by apply enter_ws_pos.
    pose proof (seq_sim g x' CP rec srec true (n_kids nd) (Hall x' (HOK_enter nd x Hnd Hokx)) Hval [] [] s0 Hinv0 eq_refl (Forall_nil _) (Forall_nil _)) as HS.
    rewrite Hp0 in HS.
    destruct (seq_loop rec true (n_kids nd) [] s0) as [r s1|s1|w] eqn:E.
    + destruct HS as [acc' [ts [Er [Es [Ee [Hcl [Hinv1 [Hle [Htr [_ Hprod]]]]]]]]]]. subst r.
      assert (Hinvl : inv x CP (leave_ws nd s s1)) by (apply leave_ws_inv; assumption).
      assert (Hpost : forall r0, flatten r0 = flatten (RList acc') -> clean r0 -> is_ptnode r0 = false ->
                                 head_is_none r0 = false -> body_post x nd s r0 (leave_ws nd s s1) ts).
      { intros r0 Hf Hc0 Hpt Hh. unfold body_post. rewrite Hf, leave_ws_pos.
        split; [exact Ee|]. split; [exact Hc0|]. split; [exact Hinvl|]. split; [exact Hle|]. split; [exact Hpt|].
        split; [rewrite Hh; discriminate|]. split.
        - intros Hr X. exfalso. rewrite Hr in Hkind.
          assert (Y : prod_nd (prodb g pf) nd = true) by exact Hkind.
          unfold prod_nd in Y. rewrite Ek in Y. apply andb_true_iff in Y as [_ Y].
          destruct (Hprod _ Y) as [Z _]. contradiction.
        - intros j Hj. unfold prod_nd in Hj. rewrite Ek in Hj. apply andb_true_iff in Hj as [_ Hj]. apply (Hprod j Hj). }
      destruct acc' as [|a l].
      * exists ts. rewrite leave_ws_pos. split; [exact Es|]. apply Hpost; try reflexivity. constructor.
      * exists ts. rewrite leave_ws_pos. split; [exact Es|]. apply Hpost; try reflexivity; try exact Hcl.
        apply head_not_none_of_truthy. exact Htr.
    + destruct HS as [Es Hinv1]. split; [exact Es|]. apply leave_ws_inv; [exact Hinv | exact Hwsc | apply inv_set_pos; exact Hinv1].
    + exact I.
  - (* KChoice *)
    set (x' := ctx_enter nd x). set (s0 := enter_ws nd s).
    assert (Hinv0 : inv x' CP s0) by (apply enter_ws_inv; assumption).
    assert (Hp0 : pos s0 = pos s) by apply enter_ws_pos.
    apply andb_true_iff in Hkind as [Hall' Hne].
    assert (Hprodk : forall c, In c (n_kids nd) -> exists j, prodb g j c = true).
    { intros c Hc. apply Hpr. rewrite forallb_forall in Hall'. apply Hall'. exact Hc. }
    pose proof (choice_sim g x' CP rec srec (pos s) (n_kids nd) (Hall x' (HOK_enter nd x Hnd Hokx)) Hval Hprodk s0 Hinv0 Hp0) as HS.
    destruct (choice_loop rec (pos s) (n_kids nd) s0) as [r s1|s1|w] eqn:E.
    + destruct HS as [[Hnn [ts [Es [Ee [Hcl [Hinv1 [Hlt Hne']]]]]]] | [Hn [Es Hinv1]]].
      * rewrite Hnn. exists ts. rewrite leave_ws_pos. split; [exact Es|]. unfold body_post.
        assert (Hf : flatten (RList [r]) = flatten r) by (rewrite flatten_list; cbn; apply app_nil_r).
        rewrite Hf, leave_ws_pos.
        split; [exact Ee|]. split; [unfold clean; rewrite Hf; exact Hcl|].
        split; [apply leave_ws_inv; assumption|]. split; [lia|].
        split; [reflexivity|].
        assert (Hh : head_is_none (RList [r]) = false) by (destruct r; [discriminate | reflexivity | reflexivity]).
        split; [rewrite Hh; discriminate|]. split; [intros _ X; contradiction|]. intros _ _. split; [exact Hne' | exact Hlt].
      * rewrite Hn. unfold nm_raise. split; [exact Es|]. apply inv_reg_fail. apply leave_ws_inv; assumption.
    + destruct HS.
    + exact I.
  - (* KOpt *)
    destruct (n_kids nd) as [|e rest] eqn:Ekids; [discriminate|].
    inversion Hval as [|? ? He _]; subst.
    pose proof (Hsim e false s Hinv He) as HS.
    destruct (rec e false s) as [r s1|s1|w] eqn:E.
    + destruct HS as [ts [Es [Ee [Hcl [Hinv1 [Hle Hp]]]]]]. rewrite Es. exists ts. split; [reflexivity|].
      assert (Hf : flatten (RList [r]) = flatten r) by (rewrite flatten_list; cbn; apply app_nil_r).
      unfold body_post. rewrite Hf.
      split; [exact Ee|]. split; [unfold clean; rewrite Hf; exact Hcl|]. split; [exact Hinv1|]. split; [exact Hle|].
      split; [reflexivity|]. split.
      * intro Hh. destruct r; [reflexivity | discriminate | discriminate].
      * split.
        -- intros Hr X. exfalso. rewrite Hr in Hkind. destruct (Hpr e Hkind) as [j Hj]. destruct (Hp j Hj) as [Y _]. contradiction.
        -- intros j Hj. unfold prod_nd in Hj. rewrite Ek in Hj. rewrite andb_false_r in Hj. discriminate.
    + destruct HS as [Es Hinv1]. rewrite Es. exists []. split; [reflexivity|]. unfold body_post. cbn [pos set_pos flatten].
      split; [reflexivity|]. split; [constructor|]. split; [apply inv_set_pos; exact Hinv1|]. split; [lia|].
      split; [reflexivity|]. split; [reflexivity|]. split.
      * intros _ _. split; [reflexivity|]. split; [reflexivity | left; exact Ek].
      * intros j Hj. unfold prod_nd in Hj. rewrite Ek in Hj. rewrite andb_false_r in Hj. discriminate.
    + exact I.
  - (* KStar *)
    destruct (n_kids nd) as [|e rest] eqn:Ekids; [discriminate|].
    inversion Hval as [|? ? He _]; subst.
    set (x' := ctx_eol nd x). set (s0 := enter_eol nd s).
    assert (Hinv0 : inv x' CP s0) by (apply enter_eol_inv; exact Hinv).
    assert (Hp0 : pos s0 = pos s) by apply enter_eol_pos.
    assert (Hsepv : forall sp, n_sep nd = Some sp -> valid g sp).
    { intros sp E. unfold sep_ok in Hsepok. rewrite E, Ek in Hsepok. apply Nat.ltb_lt in Hsepok. exact Hsepok. }
    pose proof (rep_sim g x' CP dx rec srec e (n_sep nd) false (Hall x' (HOK_eol nd x Hnd Hokx)) He (Hpr e Hkind) Hsepv k true [] [] s0 Hinv0 eq_refl (Forall_nil _) (Forall_nil _)) as HS.
    rewrite Hp0 in HS.
    destruct (rep_loop rec e (n_sep nd) false k true [] s0) as [r s1|s1|w] eqn:E.
    + destruct HS as [ts [Es [acc' [Er [Ee [Hcl [Hinv1 [Hle [Htr [_ [Hdich _]]]]]]]]]]]. subst r.
      exists ts. rewrite leave_eol_pos. split; [exact Es|]. unfold body_post. rewrite leave_eol_pos.
      split; [exact Ee|]. split; [exact Hcl|]. split; [apply leave_eol_inv; assumption|]. split; [lia|]. split; [reflexivity|].
      rewrite (head_not_none_of_truthy _ Htr).
      split; [discriminate|]. split.
      * intros _ X. destruct (Hdich eq_refl) as [[-> ->]|Y]; [|contradiction].
        split; [reflexivity|]. split; [reflexivity | right; exact Ek].
      * intros j Hj. unfold prod_nd in Hj. rewrite Ek in Hj. rewrite andb_false_r in Hj. discriminate.
    + destruct HS as [Es Hinv1]. split; [exact Es | apply leave_eol_inv; assumption].
    + exact I.
  - (* KPlus *)
    destruct (n_kids nd) as [|e rest] eqn:Ekids; [discriminate|].
    inversion Hval as [|? ? He _]; subst.
    set (x' := ctx_eol nd x). set (s0 := enter_eol nd s).
    assert (Hinv0 : inv x' CP s0) by (apply enter_eol_inv; exact Hinv).
    assert (Hp0 : pos s0 = pos s) by apply enter_eol_pos.
    assert (Hsepv : forall sp, n_sep nd = Some sp -> valid g sp).
    { intros sp E. unfold sep_ok in Hsepok. rewrite E, Ek in Hsepok. apply Nat.ltb_lt in Hsepok. exact Hsepok. }
    pose proof (rep_sim g x' CP dx rec srec e (n_sep nd) true (Hall x' (HOK_eol nd x Hnd Hokx)) He (Hpr e Hkind) Hsepv k true [] [] s0 Hinv0 eq_refl (Forall_nil _) (Forall_nil _)) as HS.
    rewrite Hp0 in HS.
    destruct (rep_loop rec e (n_sep nd) true k true [] s0) as [r s1|s1|w] eqn:E.
    + destruct HS as [ts [Es [acc' [Er [Ee [Hcl [Hinv1 [Hle [Htr [_ [_ Hpf]]]]]]]]]]]. subst r.
      destruct (Hpf eq_refl) as [Hne Hlt].
      exists ts. rewrite leave_eol_pos. split; [exact Es|]. unfold body_post. rewrite leave_eol_pos.
      split; [exact Ee|]. split; [exact Hcl|]. split; [apply leave_eol_inv; assumption|]. split; [lia|]. split; [reflexivity|].
      rewrite (head_not_none_of_truthy _ Htr).
      split; [discriminate|]. split; [intros _ X; contradiction|]. intros _ _. split; [exact Hne | lia].
    + destruct HS as [Es Hinv1]. split; [exact Es | apply leave_eol_inv; assumption].
    + exact I.
  - (* KAnd *)
    apply negb_true_iff in Hkind.
    assert (Hnp : forall j, prod_nd (prodb g j) nd = false) by (intro j; unfold prod_nd; rewrite Ek; apply andb_false_r).
    pose proof (seq_sim g x CP rec srec false (n_kids nd) Hsim Hval [] [] s Hinv eq_refl (Forall_nil _) (Forall_nil _)) as HS.
    destruct (seq_loop rec false (n_kids nd) [] s) as [r s1|s1|w] eqn:E.
    + destruct HS as [acc' [ts [_ [Es [_ [_ [Hinv1 _]]]]]]]. rewrite Es. exists []. split; [reflexivity|].
      apply body_post_none; [apply inv_set_pos; exact Hinv1 | cbn; lia | exact Hkind | exact Hnp].
    + destruct HS as [Es Hinv1]. rewrite Es. split; [reflexivity | apply inv_set_pos; exact Hinv1].
    + exact I.
  - (* KNot *)
    apply negb_true_iff in Hkind.
    assert (Hnp : forall j, prod_nd (prodb g j) nd = false) by (intro j; unfold prod_nd; rewrite Ek; apply andb_false_r).
    pose proof (seq_sim g x CP rec srec false (n_kids nd) Hsim Hval [] [] s Hinv eq_refl (Forall_nil _) (Forall_nil _)) as HS.
    destruct (seq_loop rec false (n_kids nd) [] s) as [r s1|s1|w] eqn:E.
    + destruct HS as [acc' [ts [_ [Es [_ [_ [Hinv1 _]]]]]]]. rewrite Es. unfold nm_raise.
      split; [reflexivity|]. apply inv_reg_fail. apply inv_set_pos. exact Hinv1.
    + destruct HS as [Es Hinv1]. rewrite Es. exists []. split; [reflexivity|].
      apply body_post_none; [apply inv_set_pos; exact Hinv1 | cbn; lia | exact Hkind | exact Hnp].
    + exact I.
  - (* KEmpty *)
    apply negb_true_iff in Hkind.
    assert (Hnp : forall j, prod_nd (prodb g j) nd = false) by (intro j; unfold prod_nd; rewrite Ek; apply andb_false_r).
    exists []. split; [reflexivity|]. apply body_post_none; [exact Hinv | lia | exact Hkind | exact Hnp].
Qed.

Variable pf : nat.
Hypothesis Hwf : forall nid nd, get_node g nid = Some nd -> node_ok g (prodb g pf) nd = true.

Lemma parse_sim : forall f, sim_all (parse g input orc false f) (seval g input orc true (f + dx)).
Proof.
  induction f as [|f IH]; intros x Hokx nid psq s Hinv Hv.
  - cbn. exact I.
  - change (S f + dx) with (S (f + dx)). cbn [parse seval].
    destruct (get_node g nid) as [nd|] eqn:En.
    2:{ exfalso. unfold get_node in En. apply nth_error_None in En. unfold valid in Hv. lia. }
    pose proof (Hwf _ _ En) as Hok.
    destruct (is_match_kind (n_kind nd)) eqn:Em.
    + (* terminals *)
      pose proof (Hpre f x s Hokx Hinv) as HP.
      destruct (match_pre g input (parse g input orc false f) f s) as [r0 s1|s1|w0] eqn:Emp; [|destruct HP|exact I].
      destruct HP as [Hinv1 [Esk Hle1]]. rewrite Esk.
      unfold node_ok in Hok. apply andb_true_iff in Hok as [_ Hkind].
      assert (Hne : forall t o, n_kind nd = KStr t o -> t <> []).
      { intros t o E. rewrite E in Hkind. destruct t; [discriminate | discriminate]. }
      pose proof (term_sim input orc x CP Horc nid (n_kind nd) psq s1 Hinv1 Em Hne) as HT.
      destruct (term_parse input orc nid (n_kind nd) psq s1) as [r s2|s2|w] eqn:Et.
      * destruct HT as [ts [Es [Ee [Hcl [Hinv2 [Hle2 Hp]]]]]]. rewrite Es.
        destruct (n_suppress nd) eqn:Hsup.
        -- exists [SSup ts]. split; [reflexivity|]. split; [reflexivity|]. split; [constructor|]. split; [exact Hinv2|]. split; [lia|].
           intros k Hk. destruct k as [|k]; [rewrite prodb_0 in Hk; discriminate|].
           rewrite (prodb_S g k nid nd En) in Hk. unfold prod_nd in Hk. rewrite Hsup in Hk. discriminate.
        -- exists ts. split; [reflexivity|]. split; [exact Ee|]. split; [exact Hcl|]. split; [exact Hinv2|]. split; [lia|].
           intros k Hk. destruct k as [|k]; [rewrite prodb_0 in Hk; discriminate|].
           rewrite (prodb_S g k nid nd En) in Hk. unfold prod_nd in Hk. rewrite Hsup in Hk. cbn [negb andb] in Hk.
           assert (Hke : n_kind nd <> KEOF) by (intro X; rewrite X in Hk; discriminate).
           destruct (Hp Hke) as [A B]. split; [exact A | lia].
      * destruct HT as [Es Hinv2]. rewrite Es. split; [reflexivity | exact Hinv2].
      * exact I.
    + (* non-terminals; memoization is off *)
      cbv iota.
      assert (Hnd : In nd (g_nodes g)) by (unfold get_node in En; apply nth_error_In in En; exact En).
      pose proof (body_sim (parse g input orc false f) (seval g input orc true (f + dx)) f nd pf x s IH Hokx Hok Hnd Hinv Em) as HB.
      destruct (body (parse g input orc false f) f nd s) as [r s1|s1|w] eqn:Eb.
      * destruct HB as [ts [Es [Ee [Hcl [Hinv1 [Hle [Hpt [Hhead [Hroot Hprod]]]]]]]]]. rewrite Es.
        unfold post, wrap.
        destruct (n_suppress nd) eqn:Hsup.
        { (* suppressed: nothing is contributed *)
          cbn [orb]. replace (n_root nd && truthy RNone && negb (is_ptnode RNone))%bool with false
            by (cbn; rewrite andb_false_r; reflexivity).
          exists [SSup ts]. split; [reflexivity|]. split; [reflexivity|]. split; [constructor|]. split; [exact Hinv1|].
          split; [exact Hle|].
          intros k Hk. destruct k as [|k]; [rewrite prodb_0 in Hk; discriminate|].
          rewrite (prodb_S g k nid nd En) in Hk. unfold prod_nd in Hk. rewrite Hsup in Hk. discriminate. }
        cbn [orb].
        set (r1 := if head_is_none r then RNone else r).
        assert (Hf1 : flatten r1 = flatten r).
        { subst r1. destruct (head_is_none r) eqn:Eh; [|reflexivity]. rewrite (Hhead eq_refl). reflexivity. }
        assert (Hcl1 : clean r1) by (unfold clean; rewrite Hf1; exact Hcl).
        assert (Hpt1 : is_ptnode r1 = false) by (subst r1; destruct (head_is_none r); [reflexivity | exact Hpt]).
        destruct (n_root nd) eqn:Er.
        -- assert (Hlive : live_root nd = true) by (unfold live_root; rewrite Er, Hsup; reflexivity).
           destruct (flatten r) as [|t0 l0] eqn:Efl.
           ++ destruct (Hroot Hlive eq_refl) as [Htf [Hts Hk]]. fold r1 in Htf. rewrite Htf. cbn [andb]. subst ts.
              exists []. split.
              ** destruct Hk as [-> | ->]; reflexivity.
              ** split; [rewrite Hf1; reflexivity|]. split; [exact Hcl1|]. split; [exact Hinv1|]. split; [exact Hle|].
                 intros k Hk'. destruct k as [|k]; [rewrite prodb_0 in Hk'; discriminate|].
                 rewrite (prodb_S g k nid nd En) in Hk'. destruct (Hprod k Hk') as [A _]. exfalso. apply A. reflexivity.
           ++ assert (Hne : flatten r1 <> []) by (rewrite Hf1; discriminate).
              rewrite (clean_truthy _ Hcl1 Hne), Hpt1. cbn [andb negb].
              assert (Hts : ts <> []) by (intro X; subst ts; cbn in Ee; discriminate).
              exists [SNT nid ts]. split.
              ** destruct ts as [|a b]; [congruence|]. destruct (n_kind nd); reflexivity.
              ** split; [unfold erase_all; cbn [flat_map]; rewrite erase_SNT, app_nil_r, Ee, Hf1; reflexivity|].
                 split; [unfold clean; cbn [flatten]; constructor; [|constructor]; cbn; rewrite Hf1; reflexivity|].
                 split; [exact Hinv1|]. split; [exact Hle|].
                 intros k Hk'. destruct k as [|k]; [rewrite prodb_0 in Hk'; discriminate|].
                 rewrite (prodb_S g k nid nd En) in Hk'. destruct (Hprod k Hk') as [_ B]. split; [discriminate | exact B].
        -- cbn [andb]. exists ts. split; [reflexivity|]. split; [rewrite Hf1; exact Ee|]. split; [exact Hcl1|].
           split; [exact Hinv1|]. split; [exact Hle|].
           intros k Hk'. destruct k as [|k]; [rewrite prodb_0 in Hk'; discriminate|].
           rewrite (prodb_S g k nid nd En) in Hk'. destruct (Hprod k Hk') as [A B]. split; [rewrite Hf1; exact A | exact B].
      * destruct HB as [Es Hinv1]. rewrite Es. split; [reflexivity | apply inv_set_pos; exact Hinv1].
      * exact I.
Qed.

End Refine2.

(* the instance without a Comment rule: identity entries in comment_positions, no extra fuel *)
Lemma okx_eol_g g : eol_ws_ok g = true -> forall nd x, In nd (g_nodes g) -> okx g x -> okx g (ctx_eol nd x).
Proof.
  intros He nd x Hnd Hx. apply okx_eol; [exact Hx|]. intro X. unfold eol_ws_ok in He.
  apply orb_true_iff in He as [A|A]; [|exact A]. rewrite forallb_forall in A. specialize (A nd Hnd). rewrite X in A. discriminate.
Qed.

Lemma okx_ws_g g : forall nd x, In nd (g_nodes g) -> okx g x -> n_ws nd = None \/ x_eol x = false.
Proof.
  intros nd x Hnd [_ Hx]. destruct (x_eol x) eqn:Ee; [left; apply (nows_node g nd); [apply Hx; reflexivity | exact Hnd] | right; reflexivity].
Qed.

Lemma pre_nocmt g input orc : g_comments g = None -> forall f x s, okx g x -> inv x cpos_id s ->
  match match_pre g input (parse g input orc false f) f s with
  | Ok r s1 => inv x cpos_id s1 /\ skip g input (seval g input orc true (f + 0)) (f + 0) x (pos s) = Some (pos s1) /\ pos s <= pos s1
  | Fail _ => False
  | Abort _ => True
  end.
Proof.
  intros Hcm f x s [Hx_cmt _] Hinv.
  destruct (match_pre_sim g input x cpos_id (fun m H => H) cpos_id_upd Hcm (parse g input orc false f) f s Hinv) as [s1 [Emp [Hinv1 [Hp1 Hle1]]]].
  rewrite Emp. split; [exact Hinv1|]. split; [|exact Hle1].
  unfold skip. rewrite Hx_cmt, Hcm, Hp1. destruct (x_skip x); reflexivity.
Qed.

Lemma wfg_parts g pf :
  wfg g pf = true ->
  (forall nid nd, get_node g nid = Some nd -> node_ok g (prodb g pf) nd = true) /\
  g_comments g = None /\ g_top g < length (g_nodes g).
Proof.
  unfold wfg. cbv zeta. intro H. apply andb_true_iff in H as [H _]. apply andb_true_iff in H as [H Htop]. apply andb_true_iff in H as [Hall Hc].
  split; [|split].
  - intros nid nd En. rewrite forallb_forall in Hall. unfold get_node in En. apply nth_error_In in En.
    exact (Hall nd En).
  - destruct (g_comments g); [discriminate | reflexivity].
  - apply Nat.ltb_lt. exact Htop.
Qed.

Lemma wfg_eolws g pf : wfg g pf = true -> eol_ws_ok g = true.
Proof. unfold wfg. intro H. apply andb_true_iff in H as [_ H]. exact H. Qed.

(* Inside the class, whenever the interpreter terminates within the fuel, it accepts exactly when
   the reference semantics accept, with the same parse tree. *)
Theorem refinement_q g pf c orc fuel input :
  wfg g pf = true -> orc_pos orc ->
  match run g c orc false fuel input with
  | Parsed r => exists ts p, spec_run_q g c orc fuel input = SOk ts p /\ erase_all ts = flatten r
  | SyntaxErr _ => spec_run_q g c orc fuel input = SFail
  | Aborted _ => True
  end.
Proof.
  intros Hwf Horc. destruct (wfg_parts g pf Hwf) as [Hnodes [Hcm Htop]].
  assert (Hinv : inv (init_ctx c) cpos_id (init_st c)).
  { constructor; cbn; try reflexivity. constructor. }
  assert (Hok0 : okx g (init_ctx c)) by (split; [reflexivity | intro X; discriminate]).
  pose proof (parse_sim g input orc Horc cpos_id 0 (okx g)
                (fun nd x _ H => okx_enter g nd x H)
                (okx_eol_g g (wfg_eolws g pf Hwf)) (okx_ws_g g)
                (pre_nocmt g input orc Hcm) pf Hnodes fuel (init_ctx c) Hok0 (g_top g) false (init_st c) Hinv Htop) as HS.
  rewrite Nat.add_0_r in HS.
  unfold run, spec_run_q. cbn [pos init_st] in HS.
  destruct (parse g input orc false fuel (g_top g) false (init_st c)) as [r s'|s'|w].
  - destruct HS as [ts [Es [Ee _]]]. exists ts, (pos s'). split; assumption.
  - destruct HS as [Es _]. exact Es.
  - exact I.
Qed.

(* a grammar in the class: Model: 'a' (x=ID | 'b')* ;  (dumped by tools/pegdump.py) *)
Definition g_items : grammar := (mkGrammar [mkNode KSeq [1;15] None false [77;111;100;101;108]%N true false None None;
  mkNode KSeq [2;3] None false [77;111;100;101;108]%N true false None None;
  mkNode (KStr [97]%N None) [] None false []%N false false None None;
  mkNode KStar [4] None false []%N false false None None;
  mkNode KPlus [5] None false [95;95;97;115;103;110;95;111;110;101;111;114;109;111;114;101]%N true false None None;
  mkNode KChoice [6;14] None false [73;116;101;109]%N true false None None;
  mkNode KSeq [7;9] None false []%N false false None None;
  mkNode KSeq [8] None false [95;95;97;115;103;110;95;112;108;97;105;110]%N true false None None;
  mkNode (KRegex 0) [] None false [73;68]%N true false None None;
  mkNode KOpt [10] None false []%N false false None None;
  mkNode KSeq [11;12] None false []%N false false None None;
  mkNode (KStr [61]%N None) [] None false []%N false false None None;
  mkNode KSeq [13] None false [95;95;97;115;103;110;95;112;108;97;105;110]%N true false None None;
  mkNode (KRegex 1) [] None false [73;78;84]%N true false None None;
  mkNode (KStr [98]%N None) [] None false []%N false false None None;
  mkNode KEOF [] None false [69;79;70]%N false false None None] 0 None).
Definition in_items : list N := [97;32;120;61;49;32;98;32;121]%N.      (* "a x=1 b y" *)
Definition t_items := [((0,0),1);((0,2),1);((0,6),1);((0,8),1);((1,4),1)].

Lemma items_in_class :
  wfg g_items 24 = true /\
  accepts (run g_items c_default (orc_of t_items) false 60 in_items) = true /\
  saccepts (spec_run g_items c_default (orc_of t_items) 60 in_items) = true /\
  accepts (run g_items c_default (orc_of [((0,0),1)]) false 60 [97;32;61]%N) = false.
Proof. vm_compute. repeat split. Qed.

(* ---------------------------------------------------------------- more witnesses outside the class *)
Definition spec_tree (r : sres) : list tree := match r with SOk ts _ => erase_all ts | _ => [] end.
Definition run_tree (o : outcome) : list tree := match o with Parsed r => flatten r | _ => [] end.

(* Model: a=A b=B?; A: x=ID?; B: 'b';   on ""  -- a rule that matches the empty string *)
Definition g_nullable : grammar := (mkGrammar [mkNode KSeq [1;9] None false [77;111;100;101;108]%N true false None None;
  mkNode KSeq [2;6] None false [77;111;100;101;108]%N true false None None;
  mkNode KSeq [3] None false [95;95;97;115;103;110;95;112;108;97;105;110]%N true false None None;
  mkNode KOpt [4] None false [65]%N true false None None;
  mkNode KSeq [5] None false [95;95;97;115;103;110;95;112;108;97;105;110]%N true false None None;
  mkNode (KRegex 0) [] None false [73;68]%N true false None None;
  mkNode KOpt [7] None false []%N false false None None;
  mkNode KSeq [8] None false [95;95;97;115;103;110;95;112;108;97;105;110]%N true false None None;
  mkNode (KStr [98]%N None) [] None false [66]%N true false None None;
  mkNode KEOF [] None false [69;79;70]%N false false None None] 0 None).
Lemma refuted_nullable :
  wfg g_nullable 24 = false /\
  run_tree (run g_nullable c_default (fun _ _ => None) false 50 []) = [NT 0 [T 9 0 0 true]] /\
  spec_tree (spec_run g_nullable c_default (fun _ _ => None) 50 []) = [NT 0 [NT 1 [NT 2 []]; T 9 0 0 true]].
Proof. vm_compute. repeat split. Qed.

(* Model: a=A ',' b=B; A: xs+=X[',']; X: 'x'; B: 'b';   on "x,b"  -- trailing separator *)
Definition g_trailsep : grammar := (mkGrammar [mkNode KSeq [1;10] None false [77;111;100;101;108]%N true false None None;
  mkNode KSeq [2;7;8] None false [77;111;100;101;108]%N true false None None;
  mkNode KSeq [3] None false [95;95;97;115;103;110;95;112;108;97;105;110]%N true false None None;
  mkNode KSeq [4] None false [65]%N true false None None;
  mkNode KPlus [5] (Some 6) false [95;95;97;115;103;110;95;111;110;101;111;114;109;111;114;101]%N true false None None;
  mkNode (KStr [120]%N None) [] None false [88]%N true false None None;
  mkNode (KStr [44]%N None) [] None false [115;101;112]%N false false None None;
  mkNode (KStr [44]%N None) [] None false []%N false false None None;
  mkNode KSeq [9] None false [95;95;97;115;103;110;95;112;108;97;105;110]%N true false None None;
  mkNode (KStr [98]%N None) [] None false [66]%N true false None None;
  mkNode KEOF [] None false [69;79;70]%N false false None None] 0 None).
(* the grammar is in the class; the interpreter's tree is the trailing-separator variant's, not the documented one *)
Lemma refuted_trailsep :
  wfg g_trailsep 24 = true /\
  run_tree (run g_trailsep c_default (fun _ _ => None) false 50 [120;44;98]%N) =
    [NT 0 [NT 1 [NT 2 [NT 3 [NT 4 [T 5 0 1 false; T 6 1 1 false]]]; T 7 1 1 true; NT 8 [T 9 2 1 true]]; T 10 3 0 true]] /\
  spec_tree (spec_run g_trailsep c_default (fun _ _ => None) 50 [120;44;98]%N) =
    [NT 0 [NT 1 [NT 2 [NT 3 [NT 4 [T 5 0 1 false]]]; T 7 1 1 true; NT 8 [T 9 2 1 true]]; T 10 3 0 true]] /\
  spec_tree (spec_run_q g_trailsep c_default (fun _ _ => None) 50 [120;44;98]%N) =
    run_tree (run g_trailsep c_default (fun _ _ => None) false 50 [120;44;98]%N).
Proof. vm_compute. repeat split. Qed.

(* Model: x=/a*/ 'b';   on "b"  -- a regex match of length 0 (the oracle reports Some 0) *)
Definition g_emptyrx : grammar := (mkGrammar [mkNode KSeq [1;5] None false [77;111;100;101;108]%N true false None None;
  mkNode KSeq [2;4] None false [77;111;100;101;108]%N true false None None;
  mkNode KSeq [3] None false [95;95;97;115;103;110;95;112;108;97;105;110]%N true false None None;
  mkNode (KRegex 0) [] None false []%N false false None None;
  mkNode (KStr [98]%N None) [] None false []%N false false None None;
  mkNode KEOF [] None false [69;79;70]%N false false None None] 0 None).
Definition t_emptyrx := [((0,0),0);((0,1),0)].
Lemma refuted_emptyrx :
  wfg g_emptyrx 24 = true /\ orc_of t_emptyrx 0 0 = Some 0 /\
  run_tree (run g_emptyrx c_default (orc_of t_emptyrx) false 50 [98]%N) = [NT 0 [NT 1 [T 4 0 1 true]; T 5 1 0 true]] /\
  spec_tree (spec_run g_emptyrx c_default (orc_of t_emptyrx) 50 [98]%N) =
    [NT 0 [NT 1 [NT 2 [T 3 0 0 false]; T 4 0 1 true]; T 5 1 0 true]].
Proof. vm_compute. repeat split. Qed.

(* Model: ('a'-)* 'b';   on "aab"  -- a repetition whose element produces no node *)
Definition g_repsup : grammar := (mkGrammar [mkNode KSeq [1;5] None false [77;111;100;101;108]%N true false None None;
  mkNode KSeq [2;4] None false [77;111;100;101;108]%N true false None None;
  mkNode KStar [3] None false []%N false false None None;
  mkNode (KStr [97]%N None) [] None false []%N false true None None;
  mkNode (KStr [98]%N None) [] None false []%N false false None None;
  mkNode KEOF [] None false [69;79;70]%N false false None None] 0 None).
Lemma refuted_repsup :
  wfg g_repsup 24 = false /\
  saccepts (spec_run g_repsup c_default (fun _ _ => None) 50 [97;97;98]%N) = true /\
  run g_repsup c_default (fun _ _ => None) false 50 [97;97;98]%N = SyntaxErr 1.
Proof. vm_compute. repeat split. Qed.
