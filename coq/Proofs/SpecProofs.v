(* Lemmas relating Model/Peg.v (the Arpeggio interpreter as driven by textX) to Model/Spec.v (the
   reference PEG semantics). *)
From TxV Require Import Core.Base Model.PegSyntax Model.Peg Model.Spec.
Require Import Lia.

Definition accepts (o : outcome) : bool := match o with Parsed _ => true | _ => false end.
Definition saccepts (r : sres) : bool := match r with SOk _ _ => true | _ => false end.
Definition c_default : config := mkConfig true [9;10;13;32]%N.

(* ================================================================ witnesses outside the class *)
(* M: ('a'- | 'b') 'c';   on "ac"  (dumped by tools/pegdump.py) *)
Definition g_sup_alt : grammar := (mkGrammar [mkNode KSeq [1;6] None false [77;111;100;101;108]%N true false None None;
  mkNode KSeq [2;5] None false [77]%N true false None None;
  mkNode KChoice [3;4] None false []%N false false None None;
  mkNode (KStr [97]%N None) [] None false []%N false true None None;
  mkNode (KStr [98]%N None) [] None false []%N false false None None;
  mkNode (KStr [99]%N None) [] None false []%N false false None None;
  mkNode KEOF [] None false [69;79;70]%N false false None None] 0 None).

Lemma refuted_sup_alt :
  wfg g_sup_alt 24 = false /\
  saccepts (spec_run g_sup_alt c_default (fun _ _ => None) 50 [97;99]%N) = true /\
  run g_sup_alt c_default (fun _ _ => None) false 50 [97;99]%N = SyntaxErr 1.
Proof. vm_compute. repeat split. Qed.

(* M: x=INT ('a'? | 'b') y=INT;   on "1 2" *)
Definition g_opt_alt : grammar := (mkGrammar [mkNode KSeq [1;9] None false [77;111;100;101;108]%N true false None None;
  mkNode KSeq [2;4;8] None false [77]%N true false None None;
  mkNode KSeq [3] None false [95;95;97;115;103;110;95;112;108;97;105;110]%N true false None None;
  mkNode (KRegex 0) [] None false [73;78;84]%N true false None None;
  mkNode KChoice [5;7] None false []%N false false None None;
  mkNode KOpt [6] None false []%N false false None None;
  mkNode (KStr [97]%N None) [] None false []%N false false None None;
  mkNode (KStr [98]%N None) [] None false []%N false false None None;
  mkNode KSeq [3] None false [95;95;97;115;103;110;95;112;108;97;105;110]%N true false None None;
  mkNode KEOF [] None false [69;79;70]%N false false None None] 0 None).
Definition t_opt_alt := [((0,0),1);((0,2),1)].

Lemma refuted_opt_alt :
  wfg g_opt_alt 24 = false /\
  saccepts (spec_run g_opt_alt c_default (orc_of t_opt_alt) 50 [49;32;50]%N) = true /\
  run g_opt_alt c_default (orc_of t_opt_alt) false 50 [49;32;50]%N = SyntaxErr 2.
Proof. vm_compute. repeat split. Qed.
