(* C22 - memoization on: composition of the whitespace-insertion invariance (memo off) with
   C19's memo_safe (run memo=true = run memo=false on ctx_constant grammars). *)
From TxV Require Import Core.Base Model.PegSyntax Model.Peg Proofs.PegProofs Proofs.PegMemo.
From TxV Require Import Model.PegWsDefs Proofs.PegWs Proofs.PegWsSim.

Lemma ctx_constant_ins_wf g cfg ins :
  ctx_constant g = true -> c_skipws cfg = true -> subset_ws ins (c_ws cfg) = true ->
  ins_wf g cfg ins = true.
Proof.
  unfold ctx_constant, ins_wf. intros Hc Hs Hw. apply andb_true_iff in Hc as [Hc _].
  rewrite Hs, Hw. simpl. rewrite forallb_forall in *. intros nd Hin. specialize (Hc nd Hin).
  unfold node_ctx_free in Hc. unfold node_ins_ok.
  destruct (n_ws nd); [discriminate|]. destruct (n_skipws nd); [discriminate|].
  apply andb_true_iff in Hc as [Hc _]. apply negb_true_iff in Hc. rewrite Hc. reflexivity.
Qed.

Lemma ws_insert_invariant_memo g cfg orc orc' fuel a ins b :
  ctx_constant g = true -> c_skipws cfg = true -> subset_ws ins (c_ws cfg) = true ->
  shift_okb g (a ++ b) orc (a ++ ins ++ b) orc' (length a) (length ins) = true ->
  not_aborted (run g cfg orc false fuel (a ++ b)) ->
  outcome_shifted (length a) (length ins)
                  (run g cfg orc true fuel (a ++ b)) (run g cfg orc' true fuel (a ++ ins ++ b)).
Proof.
  intros Hc Hs Hw Hok Hna.
  pose proof (ws_insert_invariant g cfg orc orc' fuel a ins b (ctx_constant_ins_wf g cfg ins Hc Hs Hw) Hok) as H.
  assert (Hna' : not_aborted (run g cfg orc' false fuel (a ++ ins ++ b))).
  { destruct (run g cfg orc false fuel (a ++ b)), (run g cfg orc' false fuel (a ++ ins ++ b));
      simpl in *; auto. }
  rewrite (memo_safe g (a ++ b) orc Hc cfg fuel Hna).
  rewrite (memo_safe g (a ++ ins ++ b) orc' Hc cfg fuel Hna'). exact H.
Qed.
