(* C22 - memoization on: composition of the whitespace-insertion invariance (memo off) with
   C19's memo_safe (run memo=true = run memo=false on ctx_constant grammars). *)
From TxV Require Import Core.Base Model.PegSyntax Model.Peg Proofs.PegProofs Proofs.PegMemo Proofs.PegFuel.
From TxV Require Import Model.PegWsDefs Proofs.PegWs Proofs.PegWsSim Proofs.PegCmtSim.

Lemma ctx_constant_ins_wf g cfg ins :
  ctx_constant g = true -> c_skipws cfg = true -> subset_ws ins (c_ws cfg) = true ->
  ins_wf g cfg ins = true.
Proof.
  unfold ctx_constant, ins_wf. intros Hc Hs Hw. apply andb_true_iff in Hc as [Hc _].
  rewrite Hs, Hw. simpl. rewrite forallb_forall in *. intros nd Hin. specialize (Hc nd Hin).
  unfold node_ctx_free in Hc. unfold node_ins_ok.
  destruct (n_ws nd); [discriminate|]. destruct (n_skipws nd); [discriminate|].
  apply negb_true_iff in Hc. rewrite Hc. reflexivity.
Qed.

Lemma ws_insert_invariant_memo g cfg orc orc' fuel a ins b :
  ctx_constant g = true -> c_skipws cfg = true -> subset_ws ins (c_ws cfg) = true ->
  shift_okb g (a ++ b) orc (a ++ ins ++ b) orc' (length a) (length ins) = true ->
  not_aborted (run g cfg orc false fuel (a ++ b)) ->
  outcome_shifted (length a) (length ins)
                  (run g cfg orc true fuel (a ++ b)) (run g cfg orc' true fuel (a ++ ins ++ b)).
Proof.
  intros Hc Hs Hw Hok Hna.
  pose proof (ws_insert_invariant g cfg orc orc' fuel a ins b (ctx_constant_ins_wf g cfg ins Hc Hs Hw) Hok) as H.
  assert (Hna' : not_aborted (run g cfg orc' false fuel (a ++ ins ++ b))).
  { destruct (run g cfg orc false fuel (a ++ b)), (run g cfg orc' false fuel (a ++ ins ++ b));
      simpl in *; auto. }
  rewrite (memo_safe g (a ++ b) orc Hc cfg fuel Hna).
  rewrite (memo_safe g (a ++ ins ++ b) orc' Hc cfg fuel Hna'). exact H.
Qed.

(* ---------------------------------------------------------------- any two sufficient fuels
   (fuel monotonicity, Proofs/PegFuel.v): the comment theorem compares the two runs at one common
   fuel; since the mutated run needs more fuel than the original one, the usable form takes a
   sufficient fuel for each run separately *)
Lemma na_not0 o : PegWsDefs.not_aborted o -> o <> Aborted 0.
Proof. intros H E. rewrite E in H. exact H. Qed.

Lemma comment_insert_invariant_any_fuel g cfg orc orc' f f' a w1 c w2 b :
  cmt_wf g cfg = true ->
  cmt_ins_okb g cfg orc' a w1 c w2 = true ->
  shift_okb g (a ++ b) orc (a ++ (w1 ++ c ++ w2) ++ b) orc' (length a) (length (w1 ++ c ++ w2)) = true ->
  PegWsDefs.not_aborted (run g cfg orc false f (a ++ b)) ->
  PegWsDefs.not_aborted (run g cfg orc' false f' (a ++ (w1 ++ c ++ w2) ++ b)) ->
  outcome_shifted (length a) (length (w1 ++ c ++ w2))
                  (run g cfg orc false f (a ++ b)) (run g cfg orc' false f' (a ++ (w1 ++ c ++ w2) ++ b)).
Proof.
  intros Hwf Hins Hok Hna Hna'.
  pose proof (run_fuel_mono g cfg orc false f (Nat.max f f') (a ++ b) (Nat.le_max_l f f') (na_not0 _ Hna)) as E1.
  pose proof (run_fuel_mono g cfg orc' false f' (Nat.max f f') (a ++ (w1 ++ c ++ w2) ++ b) (Nat.le_max_r f f') (na_not0 _ Hna')) as E2.
  rewrite <- E1, <- E2. apply comment_insert_invariant; try assumption; [rewrite E1 | rewrite E2]; assumption.
Qed.

Lemma ws_insert_invariant_any_fuel g cfg orc orc' f f' a ins b :
  ins_wf g cfg ins = true ->
  shift_okb g (a ++ b) orc (a ++ ins ++ b) orc' (length a) (length ins) = true ->
  PegWsDefs.not_aborted (run g cfg orc false f (a ++ b)) ->
  PegWsDefs.not_aborted (run g cfg orc' false f' (a ++ ins ++ b)) ->
  outcome_shifted (length a) (length ins)
                  (run g cfg orc false f (a ++ b)) (run g cfg orc' false f' (a ++ ins ++ b)).
Proof.
  intros Hwf Hok Hna Hna'.
  pose proof (run_fuel_mono g cfg orc false f (Nat.max f f') (a ++ b) (Nat.le_max_l f f') (na_not0 _ Hna)) as E1.
  pose proof (run_fuel_mono g cfg orc' false f' (Nat.max f f') (a ++ ins ++ b) (Nat.le_max_r f f') (na_not0 _ Hna')) as E2.
  rewrite <- E1, <- E2. apply ws_insert_invariant; assumption.
Qed.
