(* Termination of the Peg interpreter (Model/Peg.v): for grammar tables accepted by the decidable
   check [terminating] the interpreter never runs out of fuel once the fuel exceeds [fuel_bound].

   Stable names: [terminating], [fuel_bound], [run_terminates], [parse_terminates].

   The class (what real Arpeggio needs in order to terminate):
   - no left recursion: there is a rank on nodes that strictly decreases along every edge
     "child that can be called at the position where its parent started" (computed with a
     nullability over-approximation [nl]: children of a Sequence/And/Not after a nullable prefix,
     every alternative of an OrderedChoice, the element of Optional / ZeroOrMore / OneOrMore);
   - the element of a ZeroOrMore / OneOrMore cannot return a truthy result without consuming
     ([tr] over-approximates "can be truthy without consuming": a repetition whose element is an
     optional repetition is outside);
   - the Comment rule cannot succeed without consuming;
   - UnorderedGroup: every member and the separator have a smaller rank (its loops end structurally).
   [rxn o] says whether the regex terminal with oracle id [o] is treated as possibly matching the empty
   string; for the ids with [rxn o = false] the theorems need the oracle hypothesis that every match
   is non-empty ([all_nullable]: no hypothesis; [none_nullable]: [orc_pos]).
   The analysis tables are computed by [analyse] and then CHECKED ([check]); the theorems only use
   the check. *)
From TxV Require Import Core.Base Model.PegSyntax Model.Peg Proofs.PegProofs.

(* ================================================================ analysis tables and the check *)
Record ana := mkAna { a_null : list bool; a_truthy : list bool; a_rank : list nat }.
Definition nl (a : ana) (i : nat) : bool := nth i (a_null a) true.
Definition tr (a : ana) (i : nat) : bool := nth i (a_truthy a) true.
Definition rk (a : ana) (i : nat) : nat := nth i (a_rank a) 0.

Definition hd_or {A} (d : A) (f : nat -> A) (l : list nat) : A := match l with e :: _ => f e | [] => d end.

(* can return Ok with the position unchanged *)
Definition null_local (rxn : nat -> bool) (a : ana) (nd : node) : bool :=
  match n_kind nd with
  | KSeq => forallb (nl a) (n_kids nd)
  | KChoice => existsb (nl a) (n_kids nd)
  | KPlus => hd_or true (fun e => nl a e || tr a e) (n_kids nd)
  | KStr t _ => Nat.eqb (length t) 0
  | KRegex o => rxn o
  | _ => true
  end.
(* can return a truthy result with the position unchanged *)
Definition truthy_local (a : ana) (nd : node) : bool :=
  match n_kind nd with
  | KSeq => forallb (nl a) (n_kids nd) && existsb (tr a) (n_kids nd)
  | KChoice => existsb (nl a) (n_kids nd)
  | KOpt => hd_or false (nl a) (n_kids nd)
  | KStar | KPlus => hd_or false (tr a) (n_kids nd)
  | KUnord => true
  | KAnd | KNot | KEmpty => false
  | KEOF => true
  | KStr t _ => Nat.eqb (length t) 0
  | KRegex _ => false
  end.

Fixpoint seq_rank_ok (a : ana) (rn : nat) (kids : list nat) : bool :=
  match kids with
  | [] => true
  | c :: r => Nat.ltb (rk a c) rn && (if nl a c then seq_rank_ok a rn r else true)
  end.

Definition rank_ok (a : ana) (i : nat) (nd : node) : bool :=
  let rn := rk a i in
  match n_kind nd with
  | KSeq | KAnd | KNot => seq_rank_ok a rn (n_kids nd)
  | KChoice => forallb (fun c => Nat.ltb (rk a c) rn) (n_kids nd)
  | KOpt => hd_or true (fun e => Nat.ltb (rk a e) rn) (n_kids nd)
  | KStar | KPlus => hd_or true (fun e => Nat.ltb (rk a e) rn && negb (tr a e)) (n_kids nd)
  | KUnord => forallb (fun c => Nat.ltb (rk a c) rn) (n_kids nd) &&
              match n_sep nd with Some sp => Nat.ltb (rk a sp) rn | None => true end
  | _ => true
  end.

Definition node_ok (rxn : nat -> bool) (a : ana) (i : nat) (nd : node) : bool :=
  implb (null_local rxn a nd) (nl a i) && implb (truthy_local a nd) (tr a i) && rank_ok a i nd.

Fixpoint all_nodes_ok (rxn : nat -> bool) (a : ana) (i : nat) (l : list node) : bool :=
  match l with
  | [] => true
  | nd :: l' => node_ok rxn a i nd && all_nodes_ok rxn a (S i) l'
  end.

Definition check (rxn : nat -> bool) (a : ana) (g : grammar) : bool :=
  all_nodes_ok rxn a 0 (g_nodes g) &&
  match g_comments g with None => true | Some cm => negb (nl a cm) end.

(* ---- computing the tables (least fixpoints by iteration; only [check] is trusted) *)
Definition idxs (g : grammar) : list nat := seq 0 (length (g_nodes g)).
Definition step_nt (rxn : nat -> bool) (g : grammar) (a : ana) : ana :=
  mkAna (map (fun nd => null_local rxn a nd) (g_nodes g))
        (map (fun nd => truthy_local a nd) (g_nodes g)) (a_rank a).
Fixpoint callable (a : ana) (kids : list nat) : list nat :=
  match kids with [] => [] | c :: r => c :: (if nl a c then callable a r else []) end.
Definition rank_kids (a : ana) (nd : node) : list nat :=
  match n_kind nd with
  | KSeq | KAnd | KNot => callable a (n_kids nd)
  | KChoice | KUnord => n_kids nd
  | KOpt | KStar | KPlus => match n_kids nd with e :: _ => [e] | [] => [] end
  | _ => []
  end.
Definition step_rk (g : grammar) (a : ana) : ana :=
  mkAna (a_null a) (a_truthy a)
        (map (fun nd => S (list_max (map (rk a) (rank_kids a nd)))) (g_nodes g)).
Fixpoint iter {A} (n : nat) (f : A -> A) (x : A) : A := match n with 0 => x | S n' => iter n' f (f x) end.
Definition analyse (rxn : nat -> bool) (g : grammar) : ana :=
  let n := S (2 * length (g_nodes g)) in
  let a0 := mkAna (map (fun _ => false) (g_nodes g)) (map (fun _ => false) (g_nodes g)) (map (fun _ => 0) (g_nodes g)) in
  iter n (step_rk g) (iter n (step_nt rxn g) a0).

Definition terminating (rxn : nat -> bool) (g : grammar) : bool := check rxn (analyse rxn g) g.

Definition rank_top (a : ana) : nat := S (list_max (a_rank a)).
Definition fuel_bound_a (a : ana) (input : list N) : nat :=
  (2 * length input + 2) * rank_top a + rank_top a + length input + 3.
Definition fuel_bound (rxn : nat -> bool) (g : grammar) (input : list N) : nat := fuel_bound_a (analyse rxn g) input.

(* ================================================================ oracle hypotheses *)
Definition orc_sane (g : grammar) (input : list N) (orc : nat -> nat -> option nat) : Prop :=
  (forall o p l, orc o p = Some l -> p + l <= length input) /\
  (forall nid nd t o p x, get_node g nid = Some nd -> n_kind nd = KStr t (Some o) ->
                          orc o p = Some x -> p + length t <= length input).
Definition orc_pos (orc : nat -> nat -> option nat) : Prop := forall o p l, orc o p = Some l -> 0 < l.

Section Term.
Variable g : grammar.
Variable input : list N.
Variable orc : nat -> nat -> option nat.
Variable rxn : nat -> bool.
Variable a : ana.
Hypothesis Hchk : check rxn a g = true.
Hypothesis Hsane : orc_sane g input orc.
Hypothesis Hpos : forall o, rxn o = false -> forall p l, orc o p = Some l -> 0 < l.

Notation parser := (nat -> bool -> st -> out) (only parsing).
Notation len := (length input).

Lemma all_nodes_ok_nth l : forall k j nd,
  all_nodes_ok rxn a k l = true -> nth_error l j = Some nd -> node_ok rxn a (k + j) nd = true.
Proof.
  induction l as [|x l IH]; intros k j nd Hc Hn; [destruct j; discriminate|].
  cbn in Hc. apply andb_true_iff in Hc as [H1 H2]. destruct j as [|j]; cbn in Hn.
  - injection Hn as <-. now rewrite Nat.add_0_r.
  - replace (k + S j) with (S k + j) by lia. now apply IH.
Qed.
Lemma node_checked nid nd : get_node g nid = Some nd -> node_ok rxn a nid nd = true.
Proof.
  intro Hn. unfold check in Hchk. apply andb_true_iff in Hchk as [H1 _].
  apply (all_nodes_ok_nth _ 0 nid nd H1 Hn).
Qed.
Lemma node_null nid nd : get_node g nid = Some nd -> nl a nid = false -> null_local rxn a nd = false.
Proof.
  intros Hn E. pose proof (node_checked _ _ Hn) as C. unfold node_ok in C.
  apply andb_true_iff in C as [C _]. apply andb_true_iff in C as [C _].
  destruct (null_local rxn a nd); [cbn in C; congruence | reflexivity].
Qed.
Lemma node_truthy nid nd : get_node g nid = Some nd -> tr a nid = false -> truthy_local a nd = false.
Proof.
  intros Hn E. pose proof (node_checked _ _ Hn) as C. unfold node_ok in C.
  apply andb_true_iff in C as [C _]. apply andb_true_iff in C as [_ C].
  destruct (truthy_local a nd); [cbn in C; congruence | reflexivity].
Qed.
Lemma node_rank nid nd : get_node g nid = Some nd -> rank_ok a nid nd = true.
Proof.
  intros Hn. pose proof (node_checked _ _ Hn) as C. unfold node_ok in C.
  now apply andb_true_iff in C as [_ C].
Qed.

(* ================================================================ state invariant, progress *)
Definition cache_ok (c : list ((nat * nat) * (cres * nat))) : Prop :=
  forall nid p cr np, clookup nid p c = Some (cr, np) ->
    p <= np <= len /\
    match cr with
    | CRes r => (nl a nid = false -> p < np) /\ (tr a nid = false -> truthy r = true -> p < np)
    | CNoMatch => True
    end.
Definition cposT_ok (c : list (nat * nat)) : Prop := forall k v, lookup k c = Some v -> k <= v <= len.
Definition tinv (s : st) : Prop := pos s <= len /\ cache_ok (cache s) /\ cposT_ok (cpos s).

(* s1 is a later state: invariant kept, position not smaller, same comment mode *)
Definition mono (s s1 : st) : Prop := tinv s1 /\ pos s <= pos s1 /\ in_cmt s1 = in_cmt s.

Lemma mono_refl s : tinv s -> mono s s.
Proof. intro T. split; [exact T | split; [apply Nat.le_refl | reflexivity]]. Qed.
Lemma mono_trans s s1 s2 : mono s s1 -> mono s1 s2 -> mono s s2.
Proof. intros (T1 & P1 & C1) (T2 & P2 & C2). split; [exact T2 | split; [lia | congruence]]. Qed.
Lemma tinv_set_pos p s : tinv s -> p <= len -> tinv (set_pos p s).
Proof. intros (P & C & K) L. split; [exact L | split; [exact C | exact K]]. Qed.
Lemma mono_set_pos p s : tinv s -> pos s <= p -> p <= len -> mono s (set_pos p s).
Proof. intros T L1 L2. split; [now apply tinv_set_pos | split; [exact L1 | reflexivity]]. Qed.

Lemma pos_reg_fail' p s : pos (reg_fail p s) = pos s.
Proof. unfold reg_fail. destruct (nm s); [destruct (in_cmt s); [|destruct (Nat.ltb _ _)]|]; reflexivity. Qed.
Lemma cache_reg_fail p s : cache (reg_fail p s) = cache s.
Proof. unfold reg_fail. destruct (nm s); [destruct (in_cmt s); [|destruct (Nat.ltb _ _)]|]; reflexivity. Qed.
Lemma cpos_reg_fail' p s : cpos (reg_fail p s) = cpos s.
Proof. unfold reg_fail. destruct (nm s); [destruct (in_cmt s); [|destruct (Nat.ltb _ _)]|]; reflexivity. Qed.
Lemma in_cmt_reg_fail' p s : in_cmt (reg_fail p s) = in_cmt s.
Proof. unfold reg_fail. destruct (nm s); [destruct (in_cmt s) eqn:E; [|destruct (Nat.ltb _ _)]|]; auto. Qed.
Lemma mono_reg_fail p s : tinv s -> mono s (reg_fail p s).
Proof.
  intros (P & C & K). unfold mono, tinv.
  rewrite pos_reg_fail', cache_reg_fail, cpos_reg_fail', in_cmt_reg_fail'.
  split; [split; [exact P | split; [exact C | exact K]] | split; [apply Nat.le_refl | reflexivity]].
Qed.

Lemma skip_ws_from_bounds w l : forall p, p <= skip_ws_from w l p <= p + length l.
Proof.
  induction l as [|c l IH]; intro p; cbn [skip_ws_from length]; [lia|].
  destruct (existsb (N.eqb c) w); [specialize (IH (S p)); lia | lia].
Qed.
Lemma do_skip_ws_mono s : tinv s -> mono s (do_skip_ws input s).
Proof.
  intro T. unfold do_skip_ws. pose proof (skip_ws_from_bounds (ws s) (skipn (pos s) input) (pos s)) as B.
  rewrite skipn_length in B. destruct T as (P & C & K).
  apply mono_set_pos; [split; [exact P | split; [exact C | exact K]] | lia | lia].
Qed.
Lemma msw_mono s : tinv s -> mono s (maybe_skip_ws input s).
Proof. intro T. unfold maybe_skip_ws. destruct (skipws s); [now apply do_skip_ws_mono | now apply mono_refl]. Qed.

Definition prog (c : nat) (s : st) (o : out) : Prop :=
  match o with
  | Ok r s1 => mono s s1 /\ (nl a c = false -> pos s < pos s1) /\
               (tr a c = false -> truthy r = true -> pos s < pos s1)
  | Fail s1 => mono s s1
  | Abort _ => True
  end.
Definition rec_prog (rec : parser) : Prop := forall c psq s, tinv s -> prog c s (rec c psq s).

(* ---------------------------------------------------------------- Match.parse prefix *)
Section Prog.
Variable rec : parser.
Hypothesis Hrec : rec_prog rec.

Lemma cmt_loop_prog cm k : forall s, tinv s ->
  match cmt_loop input rec cm k s with
  | Ok _ s1 => mono s s1
  | Fail _ => False
  | Abort _ => True
  end.
Proof.
  induction k as [|k IH]; intros s T; cbn [cmt_loop]; [exact I|].
  pose proof (Hrec cm false s T) as G. destruct (rec cm false s) as [r s1|s1|w]; cbn in G; auto.
  destruct G as [M _]. pose proof (msw_mono s1 (proj1 M)) as M2.
  specialize (IH (maybe_skip_ws input s1) (proj1 M2)).
  destruct (cmt_loop input rec cm k (maybe_skip_ws input s1)); auto.
  eapply mono_trans; [exact M|]. eapply mono_trans; eassumption.
Qed.

Lemma cposT_upd k v c : cposT_ok c -> k <= v <= len -> cposT_ok (upd k v c).
Proof.
  intros C B k2 v2 L. destruct (Nat.eq_dec k2 k) as [->|Hne].
  - rewrite lookup_upd_same in L. injection L as <-. exact B.
  - rewrite lookup_upd_other in L by assumption. now apply C.
Qed.

Lemma match_pre_prog k s : tinv s ->
  match match_pre g input rec k s with
  | Ok _ s1 | Fail s1 => mono s s1
  | Abort _ => True
  end.
Proof.
  intro T. unfold match_pre, parse_comments.
  pose proof (msw_mono s T) as M1. set (s1 := maybe_skip_ws input s) in *.
  destruct (if skipws s1 then lookup (pos s1) (cpos s1) else None) as [p'|] eqn:L.
  - destruct (skipws s1); [|discriminate]. destruct M1 as (T1 & P1 & C1).
    pose proof (proj2 (proj2 T1) _ _ L) as B.
    eapply mono_trans; [split; [exact T1 | split; [exact P1 | exact C1]]|].
    apply mono_set_pos; [exact T1 | lia | lia].
  - destruct (in_cmt s1) eqn:IC; [exact M1|].
    destruct (g_comments g) as [cm|].
    + assert (T2 : tinv (set_in_cmt true s1)) by exact (proj1 M1).
      pose proof (cmt_loop_prog cm k (set_in_cmt true s1) T2) as G.
      destruct (cmt_loop input rec cm k (set_in_cmt true s1)) as [r s2|s2|w]; auto; [|contradiction].
      destruct G as ((P2 & C2 & K2) & L2 & _). cbn in L2.
      eapply mono_trans; [exact M1|]. split; [|split; [exact L2 | cbn; now rewrite IC]].
      split; [exact P2 | split; [exact C2 |]]. cbn. apply cposT_upd; [exact K2 | lia].
    + destruct M1 as ((P1 & C1 & K1) & L1 & I1).
      split; [|split; [exact L1 | cbn; congruence]].
      split; [exact P1 | split; [exact C1|]]. cbn. apply cposT_upd; [exact K1 | lia].
Qed.

End Prog.

(* ---------------------------------------------------------------- terminals *)
Lemma is_prefix_len t : forall l, is_prefix t l = true -> length t <= length l.
Proof.
  induction t as [|x t IH]; intros l E; cbn in *; [lia|].
  destruct l as [|y l]; [discriminate|]. apply andb_true_iff in E as [_ E]. cbn. specialize (IH l E). lia.
Qed.

Lemma term_prog nid nd psq s : get_node g nid = Some nd -> tinv s ->
  match term_parse input orc nid (n_kind nd) psq s with
  | Ok r s1 => mono s s1 /\ (null_local rxn a nd = false -> pos s < pos s1) /\
               (truthy_local a nd = false -> truthy r = true -> pos s < pos s1)
  | Fail s1 => mono s s1
  | Abort _ => True
  end.
Proof.
  intros Hn T. destruct Hsane as [S1 S2]. unfold term_parse, nm_raise, null_local, truthy_local.
  destruct (n_kind nd) eqn:K; try exact I.
  - (* EOF *)
    destruct (Nat.eqb len (pos s)); [|now apply mono_reg_fail].
    split; [now apply mono_refl | split; discriminate].
  - (* StrMatch *)
    destruct oid as [o|].
    + destruct (orc o (pos s)) as [x|] eqn:E; [|now apply mono_reg_fail].
      pose proof (S2 nid nd s0 o (pos s) x Hn K E) as B.
      split; [apply mono_set_pos; [exact T | lia | lia]|].
      split; intro Z; apply Nat.eqb_neq in Z; cbn; lia.
    + destruct (is_prefix s0 (skipn (pos s) input)) eqn:E; [|now apply mono_reg_fail].
      apply is_prefix_len in E. rewrite skipn_length in E. destruct T as (P & C & Kc).
      split; [apply mono_set_pos; [split; [exact P | split; [exact C | exact Kc]] | lia | lia]|].
      split; intro Z; apply Nat.eqb_neq in Z; cbn; lia.
  - (* RegExMatch *)
    destruct (orc oid (pos s)) as [l|] eqn:E; [|now apply mono_reg_fail].
    pose proof (S1 _ _ _ E) as B. destruct (Nat.eqb l 0) eqn:Z.
    + split; [now apply mono_refl|]. split; [|discriminate].
      intro R. apply Nat.eqb_eq in Z. subst l. pose proof (Hpos _ R _ _ E). lia.
    + apply Nat.eqb_neq in Z. split; [apply mono_set_pos; [exact T | lia | lia]|].
      split; intros; cbn; lia.
Qed.

(* ---------------------------------------------------------------- loops *)
Section Prog2.
Variable rec : parser.
Hypothesis Hrec : rec_prog rec.

Lemma seq_loop_prog psq kids : forall acc s, tinv s ->
  match seq_loop rec psq kids acc s with
  | Ok r s1 => mono s s1 /\ (forallb (nl a) kids = false -> pos s < pos s1) /\
               exists acc', r = RList acc' /\ (existsb (tr a) kids = false -> acc' = acc \/ pos s < pos s1)
  | Fail s1 => mono s s1
  | Abort _ => True
  end.
Proof.
  induction kids as [|c kids IH]; intros acc s T; cbn [seq_loop forallb existsb].
  - split; [now apply mono_refl | split; [discriminate | exists acc; auto]].
  - pose proof (Hrec c psq s T) as G. destruct (rec c psq s) as [r s1|s1|w]; cbn in G; auto.
    destruct G as (M & GN & GT).
    specialize (IH (if truthy r then acc ++ [r] else acc) s1 (proj1 M)).
    destruct (seq_loop rec psq kids (if truthy r then acc ++ [r] else acc) s1) as [r2 s2|s2|w]; auto.
    + destruct IH as (M2 & IN & acc' & -> & IT). destruct M as (T1 & P1 & C1), M2 as (T2 & P2 & C2).
      split; [split; [exact T2 | split; [lia | congruence]]|]. split.
      * intro F. apply andb_false_iff in F as [F|F]; [specialize (GN F); lia | specialize (IN F); lia].
      * exists acc'. split; [reflexivity|]. intro F. apply orb_false_iff in F as [F1 F2].
        destruct (IT F2) as [E|L]; [|right; lia].
        destruct (truthy r) eqn:Tr; [right; specialize (GT F1 eq_refl); lia | left; exact E].
    + eapply mono_trans; eassumption.
Qed.

(* positions are compared with cp, the position where the OrderedChoice started *)
Lemma choice_loop_prog cp kids : forall s, tinv s -> cp <= pos s -> cp <= len ->
  match choice_loop rec cp kids s with
  | Ok r s1 => tinv s1 /\ cp <= pos s1 /\ in_cmt s1 = in_cmt s /\
               (is_none r = false -> existsb (nl a) kids = false -> cp < pos s1)
  | Fail _ => False
  | Abort _ => True
  end.
Proof.
  induction kids as [|c kids IH]; intros s T L Lc; cbn [choice_loop existsb].
  - split; [exact T | split; [exact L | split; [reflexivity | discriminate]]].
  - pose proof (Hrec c false s T) as G. destruct (rec c false s) as [r s1|s1|w]; cbn in G; auto.
    + destruct G as ((T1 & P1 & C1) & GN & _). destruct (is_none r) eqn:Nn.
      * assert (L1 : cp <= pos s1) by lia. specialize (IH s1 T1 L1 Lc).
        destruct (choice_loop rec cp kids s1); auto.
        destruct IH as (T2 & P2 & C2 & I2). split; [exact T2 | split; [exact P2 | split; [congruence|]]].
        intros Z F. apply orb_false_iff in F as [_ F]. now apply I2.
      * split; [exact T1 | split; [lia | split; [exact C1|]]].
        intros _ F. apply orb_false_iff in F as [F _]. specialize (GN F). lia.
    + destruct G as (T1 & P1 & C1).
      assert (T1' : tinv (set_pos cp s1)) by (apply tinv_set_pos; assumption).
      specialize (IH (set_pos cp s1) T1' (Nat.le_refl _) Lc).
      destruct (choice_loop rec cp kids (set_pos cp s1)); auto.
      destruct IH as (T2 & P2 & C2 & I2). split; [exact T2 | split; [exact P2 | split; [cbn in C2; congruence|]]].
      intros Z F. apply orb_false_iff in F as [_ F]. now apply I2.
Qed.

Lemma mono_reset s0 s s2 : mono s0 s -> mono s s2 -> mono s0 (set_pos (pos s) s2).
Proof.
  intros (T1 & P1 & C1) (T2 & P2 & C2). destruct T1 as (Ps & _).
  split; [apply tinv_set_pos; [exact T2 | exact Ps] | split; [exact P1 | cbn; congruence]].
Qed.

Lemma rep_loop_prog s0 e sep plus k : tr a e = false -> forall first acc s,
  mono s0 s -> (first = false -> pos s0 < pos s) ->
  match rep_loop rec e sep plus k first acc s with
  | Ok r s1 => mono s0 s1 /\ (first = false -> pos s0 < pos s1) /\
               ((plus && first)%bool = true -> nl a e = false -> pos s0 < pos s1) /\
               exists acc', r = RList acc' /\ (first = true -> acc' = acc \/ pos s0 < pos s1)
  | Fail s1 => mono s0 s1
  | Abort _ => True
  end.
Proof.
  intro He. induction k as [|k IH]; intros first acc s M0 F0; cbn [rep_loop]; [exact I|].
  assert (Helem : forall acc1 s1, mono s s1 -> (first = true -> acc1 = acc /\ s1 = s) ->
    match (match rec e false s1 with
           | Ok r s2 => if truthy r then rep_loop rec e sep plus k false (acc1 ++ [r]) s2 else Ok (RList acc1) s2
           | Fail s2 => if (plus && first)%bool then Fail (set_pos (pos s) s2) else Ok (RList acc1) (set_pos (pos s) s2)
           | Abort w => Abort w end) with
    | Ok r s3 => mono s0 s3 /\ (first = false -> pos s0 < pos s3) /\
                 ((plus && first)%bool = true -> nl a e = false -> pos s0 < pos s3) /\
                 exists acc', r = RList acc' /\ (first = true -> acc' = acc \/ pos s0 < pos s3)
    | Fail s3 => mono s0 s3
    | Abort _ => True end).
  { intros acc1 s1 M1 A1. pose proof (mono_trans _ _ _ M0 M1) as M01.
    pose proof (Hrec e false s1 (proj1 M1)) as G.
    destruct (rec e false s1) as [r s2|s2|w]; cbn in G; auto.
    - destruct G as (M2 & GN & GT). pose proof (mono_trans _ _ _ M01 M2) as M02.
      destruct M0 as (_ & P0 & _), M1 as (_ & P1 & _). pose proof (proj1 (proj2 M2)) as P2.
      destruct (truthy r) eqn:Tr.
      + specialize (GT He eq_refl).
        assert (F2 : false = false -> pos s0 < pos s2) by (intros _; lia).
        specialize (IH false (acc1 ++ [r]) s2 M02 F2).
        destruct (rep_loop rec e sep plus k false (acc1 ++ [r]) s2) as [r3 s3|s3|w]; auto.
        destruct IH as (M3 & S3 & _ & acc' & -> & _). specialize (S3 eq_refl).
        split; [exact M3 | split; [auto | split; [auto | exists acc'; split; [reflexivity | auto]]]].
      + split; [exact M02|]. split; [intro Z; specialize (F0 Z); lia|]. split.
        * intros Z F. specialize (GN F). apply andb_true_iff in Z as [_ Z]. destruct (A1 Z) as [_ ->]. lia.
        * exists acc1. split; [reflexivity|]. intro Z. left. now destruct (A1 Z).
    - pose proof (mono_reset s0 s s2 M0 (mono_trans _ _ _ M1 G)) as Mr.
      destruct (plus && first)%bool eqn:PF; [exact Mr|].
      split; [exact Mr|]. split; [intro Z; specialize (F0 Z); cbn; lia|]. split; [discriminate|].
      exists acc1. split; [reflexivity|]. intro Z. left. now destruct (A1 Z). }
  destruct sep as [sp|]; [|apply Helem; [apply mono_refl, (proj1 M0) | auto]].
  destruct first; [apply Helem; [apply mono_refl, (proj1 M0) | auto]|].
  pose proof (Hrec sp false s (proj1 M0)) as G. destruct (rec sp false s) as [sr s1|s1|w]; cbn in G; auto.
  - destruct G as (M1 & _ & _). apply Helem; [exact M1 | discriminate].
  - rewrite andb_false_r. pose proof (mono_reset s0 s s1 M0 G) as Mr.
    split; [exact Mr|]. split; [intro Z; specialize (F0 Z); cbn; lia|]. split; [discriminate|].
    exists acc. split; [reflexivity | discriminate].
Qed.

Definition ugr_mono (s0 : st) (o : ugr) : Prop :=
  match o with UGHit _ _ s1 | UGNone _ s1 => mono s0 s1 | UGAbort _ => True end.
Lemma ug_try_prog s0 sf cl todo : pos s0 <= cl -> cl <= len -> forall mt s, mono s0 s ->
  ugr_mono s0 (ug_try rec sf cl todo mt s).
Proof.
  intros L1 L2. induction todo as [|e todo IH]; intros mt s M; cbn [ug_try]; [exact M|].
  pose proof (Hrec e false s (proj1 M)) as G. destruct (rec e false s) as [r s1|s1|w]; cbn in G; [| |exact I].
  - destruct G as (M1 & _ & _). pose proof (mono_trans _ _ _ M M1) as M01.
    assert (Mr : mono s0 (set_pos cl s1)).
    { destruct M01 as (T1 & _ & C1). split; [now apply tinv_set_pos | split; [exact L1 | exact C1]]. }
    destruct (truthy r); [destruct sf|]; [now apply IH | exact M01 | now apply IH].
  - pose proof (mono_trans _ _ _ M G) as M01.
    assert (Mr : mono s0 (set_pos cl s1)).
    { destruct M01 as (T1 & _ & C1). split; [now apply tinv_set_pos | split; [exact L1 | exact C1]]. }
    now apply IH.
Qed.

Definition ugo_mono (s0 : st) (o : ugo) : Prop :=
  match o with UGDone _ _ s1 => mono s0 s1 | UGOAbort _ => True end.
Lemma ug_loop_prog s0 sep n : forall todo first sr acc s, mono s0 s ->
  ugo_mono s0 (ug_loop rec sep n todo first sr acc s).
Proof.
  induction n as [|n IH]; intros todo first sr acc s M; destruct todo as [|t0 todo]; cbn [ug_loop];
    try exact M; try exact I.
  assert (Hcont : forall sf sr1 s1, mono s0 s1 ->
    ugo_mono s0 (match ug_try rec sf (pos s1) (t0 :: todo) true s1 with
                 | UGHit e r s2 => ug_loop rec sep n (remove_first e (t0 :: todo)) false sr1
                                     ((if truthy sr1 then acc ++ [sr1] else acc) ++ [r]) s2
                 | UGNone mt s2 => UGDone mt acc (set_pos (pos s) s2)
                 | UGAbort w => UGOAbort w end)).
  { intros sf sr1 s1 M1.
    pose proof (ug_try_prog s0 sf (pos s1) (t0 :: todo) (proj1 (proj2 M1)) (proj1 (proj1 M1)) true s1 M1) as G.
    destruct (ug_try rec sf (pos s1) (t0 :: todo) true s1) as [e r s2|mt s2|w]; cbn in G; [now apply IH | | exact I].
    cbn. destruct G as (T2 & _ & C2), M as ((Ps & _) & P & _).
    split; [now apply tinv_set_pos | split; [exact P | exact C2]]. }
  destruct sep as [sp|]; [|now apply Hcont]. destruct first; [now apply Hcont|].
  pose proof (Hrec sp false s (proj1 M)) as G. destruct (rec sp false s) as [sr1 s1|s1|w]; cbn in G; [| |exact I].
  - apply Hcont. eapply mono_trans; [exact M | apply G].
  - apply Hcont. pose proof (mono_trans _ _ _ M G) as (T1 & _ & C1). destruct M as ((Ps & _) & P & _).
    split; [now apply tinv_set_pos | split; [exact P | exact C1]].
Qed.

End Prog2.

(* ---------------------------------------------------------------- body, parse *)
Definition same_core (s s' : st) : Prop :=
  pos s' = pos s /\ cache s' = cache s /\ cpos s' = cpos s /\ in_cmt s' = in_cmt s.
Lemma same_core_enter_ws nd s : same_core s (enter_ws nd s).
Proof. unfold enter_ws. destruct (n_ws nd), (n_skipws nd); repeat split. Qed.
Lemma same_core_leave_ws nd old s : same_core s (leave_ws nd old s).
Proof. unfold leave_ws. destruct (n_ws nd), (n_skipws nd); repeat split. Qed.
Lemma same_core_enter_eol nd s : same_core s (enter_eol nd s).
Proof. unfold enter_eol. destruct (n_eolterm nd); repeat split. Qed.
Lemma same_core_leave_eol nd old s : same_core s (leave_eol nd old s).
Proof. unfold leave_eol. destruct (n_eolterm nd); repeat split. Qed.
Lemma tinv_core s s' : same_core s s' -> tinv s -> tinv s'.
Proof. intros (P & C & K & _) (A1 & A2 & A3). unfold tinv. now rewrite P, C, K. Qed.
Lemma mono_core_r s s1 s1' : same_core s1 s1' -> mono s s1 -> mono s s1'.
Proof.
  intros Hc (T & P & C). split; [eapply tinv_core; eassumption|]. destruct Hc as (P' & _ & _ & C').
  split; [lia | congruence].
Qed.
Lemma mono_core_l s s' s1 : same_core s s' -> mono s' s1 -> mono s s1.
Proof. intros (P' & _ & _ & C') (T & P & C). split; [exact T | split; [lia | congruence]]. Qed.

Definition bprog (nd : node) (s : st) (o : out) : Prop :=
  match o with
  | Ok r s1 => mono s s1 /\ (null_local rxn a nd = false -> pos s < pos s1) /\
               (truthy_local a nd = false -> truthy r = true -> pos s < pos s1)
  | Fail s1 => mono s s1
  | Abort _ => True
  end.

Lemma mono_raise p s : tinv s -> mono s (reg_fail p s).
Proof. apply mono_reg_fail. Qed.

Lemma body_prog rec k nid nd s :
  rec_prog rec -> get_node g nid = Some nd -> tinv s -> bprog nd s (body rec k nd s).
Proof.
  intros Hrec Hn T. pose proof (node_rank _ _ Hn) as RK.
  unfold body, bprog, null_local, truthy_local, rank_ok in *.
  destruct (n_kind nd) eqn:K; try exact I.
  - (* Sequence *)
    pose proof (same_core_enter_ws nd s) as Ce.
    pose proof (seq_loop_prog rec Hrec true (n_kids nd) [] (enter_ws nd s) (tinv_core _ _ Ce T)) as G.
    destruct (seq_loop rec true (n_kids nd) [] (enter_ws nd s)) as [r s1|s1|w]; auto.
    + destruct G as (M & GN & acc' & -> & GT).
      pose proof (mono_core_l _ _ _ Ce M) as M'.
      pose proof (mono_core_r _ _ _ (same_core_leave_ws nd s s1) M') as M''.
      assert (Pe : pos (enter_ws nd s) = pos s) by apply Ce.
      assert (Pl : pos (leave_ws nd s s1) = pos s1) by apply same_core_leave_ws.
      assert (R : (forallb (nl a) (n_kids nd) = false -> pos s < pos (leave_ws nd s s1)) /\
                  ((forallb (nl a) (n_kids nd) && existsb (tr a) (n_kids nd))%bool = false -> acc' <> [] ->
                   pos s < pos (leave_ws nd s s1))).
      { split; [intro F; specialize (GN F); lia|]. intros F NE. apply andb_false_iff in F as [F|F].
        - specialize (GN F). lia.
        - destruct (GT F) as [E|L]; [contradiction | lia]. }
      destruct R as [R1 R2]. destruct acc' as [|x l].
      * split; [exact M'' | split; [exact R1 | discriminate]].
      * split; [exact M'' | split; [exact R1 | intros F _; apply R2; [exact F | discriminate]]].
    + pose proof (mono_core_l _ _ _ Ce G) as (T1 & P1 & C1). destruct T as (Ps & _).
      apply (mono_core_r _ (set_pos (pos s) s1)); [apply same_core_leave_ws|].
      split; [apply tinv_set_pos; assumption | split; [apply Nat.le_refl | exact C1]].
  - (* OrderedChoice *)
    pose proof (same_core_enter_ws nd s) as Ce. destruct T as (Ps & Tc & Tk).
    assert (Te : tinv (enter_ws nd s)) by (eapply tinv_core; [exact Ce | exact (conj Ps (conj Tc Tk))]).
    assert (Pe : pos (enter_ws nd s) = pos s) by apply Ce.
    pose proof (choice_loop_prog rec Hrec (pos s) (n_kids nd) (enter_ws nd s) Te) as G.
    rewrite Pe in G. specialize (G (Nat.le_refl _) Ps).
    destruct (choice_loop rec (pos s) (n_kids nd) (enter_ws nd s)) as [r s1|s1|w]; auto; [|contradiction].
    destruct G as (T1 & P1 & C1 & GN).
    assert (M1 : mono s (leave_ws nd s s1)).
    { apply (mono_core_r _ s1); [apply same_core_leave_ws|].
      split; [exact T1 | split; [exact P1 | destruct Ce as (_ & _ & _ & Ci); congruence]]. }
    assert (Pl : pos (leave_ws nd s s1) = pos s1) by apply same_core_leave_ws.
    destruct (is_none r) eqn:Nn.
    + unfold nm_raise. eapply mono_trans; [exact M1 | apply mono_reg_fail, (proj1 M1)].
    + split; [exact M1|]. split; [intro F; specialize (GN eq_refl F); lia | intros F _; specialize (GN eq_refl F); lia].
  - (* Optional *)
    destruct (n_kids nd) as [|e l]; [exact I|]. cbn [hd_or] in *.
    pose proof (Hrec e false s T) as G. destruct (rec e false s) as [r s1|s1|w]; cbn in G; auto.
    + destruct G as (M & GN & _). split; [exact M | split; [discriminate | intros F _; now apply GN]].
    + destruct G as (T1 & P1 & C1). destruct T as (Ps & _).
      split; [split; [apply tinv_set_pos; assumption | split; [apply Nat.le_refl | exact C1]]|].
      split; discriminate.
  - (* ZeroOrMore *)
    destruct (n_kids nd) as [|e l]; [exact I|]. cbn [hd_or] in *.
    apply andb_true_iff in RK as [_ He]. apply negb_true_iff in He.
    pose proof (same_core_enter_eol nd s) as Ce.
    assert (M0 : mono (enter_eol nd s) (enter_eol nd s)) by (apply mono_refl; eapply tinv_core; eassumption).
    pose proof (rep_loop_prog rec Hrec (enter_eol nd s) e (n_sep nd) false k He true [] (enter_eol nd s) M0) as G.
    assert (Pe : pos (enter_eol nd s) = pos s) by apply Ce.
    destruct (rep_loop rec e (n_sep nd) false k true [] (enter_eol nd s)) as [r s1|s1|w]; auto.
    + specialize (G ltac:(discriminate)). destruct G as (M & _ & _ & acc' & -> & GT).
      pose proof (mono_core_r _ _ _ (same_core_leave_eol nd s s1) (mono_core_l _ _ _ Ce M)) as M'.
      assert (Pl : pos (leave_eol nd s s1) = pos s1) by apply same_core_leave_eol.
      split; [exact M' | split; [discriminate|]]. intros _ Tr.
      destruct (GT eq_refl) as [->|L]; [discriminate Tr | lia].
    + specialize (G ltac:(discriminate)).
      exact (mono_core_r _ _ _ (same_core_leave_eol nd s s1) (mono_core_l _ _ _ Ce G)).
  - (* OneOrMore *)
    destruct (n_kids nd) as [|e l]; [exact I|]. cbn [hd_or] in *.
    apply andb_true_iff in RK as [_ He]. apply negb_true_iff in He.
    pose proof (same_core_enter_eol nd s) as Ce.
    assert (M0 : mono (enter_eol nd s) (enter_eol nd s)) by (apply mono_refl; eapply tinv_core; eassumption).
    pose proof (rep_loop_prog rec Hrec (enter_eol nd s) e (n_sep nd) true k He true [] (enter_eol nd s) M0) as G.
    assert (Pe : pos (enter_eol nd s) = pos s) by apply Ce.
    destruct (rep_loop rec e (n_sep nd) true k true [] (enter_eol nd s)) as [r s1|s1|w]; auto.
    + specialize (G ltac:(discriminate)). destruct G as (M & _ & GN & acc' & -> & GT).
      pose proof (mono_core_r _ _ _ (same_core_leave_eol nd s s1) (mono_core_l _ _ _ Ce M)) as M'.
      assert (Pl : pos (leave_eol nd s s1) = pos s1) by apply same_core_leave_eol.
      split; [exact M'|]. split.
      * intro F. apply orb_false_iff in F as [F _]. specialize (GN eq_refl F). lia.
      * intros _ Tr. destruct (GT eq_refl) as [->|L]; [discriminate Tr | lia].
    + specialize (G ltac:(discriminate)).
      exact (mono_core_r _ _ _ (same_core_leave_eol nd s s1) (mono_core_l _ _ _ Ce G)).
  - (* UnorderedGroup *)
    destruct (n_kids nd) as [|e l] eqn:Kd; [exact I|]. rewrite <- Kd.
    pose proof (same_core_enter_eol nd s) as Ce.
    assert (M0 : mono (enter_eol nd s) (enter_eol nd s)) by (apply mono_refl; eapply tinv_core; eassumption).
    pose proof (ug_loop_prog rec Hrec (enter_eol nd s) (n_sep nd) (S (length (n_kids nd))) (n_kids nd) true RNone []
                  (enter_eol nd s) M0) as G.
    destruct (ug_loop rec (n_sep nd) (S (length (n_kids nd))) (n_kids nd) true RNone [] (enter_eol nd s)) as [mt acc s1|w];
      [|exact I]. cbn in G.
    pose proof (mono_core_r _ _ _ (same_core_leave_eol nd s s1) (mono_core_l _ _ _ Ce G)) as M'.
    destruct mt.
    + split; [exact M' | split; discriminate].
    + unfold nm_raise. destruct M' as (T1 & P1 & C1). pose proof (proj1 T) as Ps.
      assert (M1 : mono s (set_pos (pos s) (leave_eol nd s s1)))
        by (split; [now apply tinv_set_pos | split; [apply Nat.le_refl | exact C1]]).
      eapply mono_trans; [exact M1 | apply mono_reg_fail, (proj1 M1)].
  - (* And *)
    pose proof (seq_loop_prog rec Hrec false (n_kids nd) [] s T) as G. destruct T as (Ps & _).
    destruct (seq_loop rec false (n_kids nd) [] s) as [r s1|s1|w]; auto.
    + destruct G as ((T1 & P1 & C1) & _).
      split; [split; [apply tinv_set_pos; assumption | split; [apply Nat.le_refl | exact C1]]|]. split; discriminate.
    + destruct G as (T1 & P1 & C1). split; [apply tinv_set_pos; assumption | split; [apply Nat.le_refl | exact C1]].
  - (* Not *)
    pose proof (seq_loop_prog rec Hrec false (n_kids nd) [] s T) as G. destruct T as (Ps & _).
    destruct (seq_loop rec false (n_kids nd) [] s) as [r s1|s1|w]; auto.
    + destruct G as ((T1 & P1 & C1) & _). unfold nm_raise.
      assert (M1 : mono s (set_pos (pos s) s1))
        by (split; [apply tinv_set_pos; assumption | split; [apply Nat.le_refl | exact C1]]).
      eapply mono_trans; [exact M1 | apply mono_reg_fail, (proj1 M1)].
    + destruct G as (T1 & P1 & C1).
      split; [split; [apply tinv_set_pos; assumption | split; [apply Nat.le_refl | exact C1]]|]. split; discriminate.
  - (* Empty *) split; [now apply mono_refl | split; discriminate].
Qed.

Lemma truthy_post nid nd r : truthy (post nid nd r) = true -> truthy r = true.
Proof.
  unfold post. destruct (n_suppress nd || head_is_none r)%bool.
  - destruct (n_root nd); cbn; discriminate.
  - destruct (n_root nd && truthy r && negb (is_ptnode r))%bool eqn:E; [|auto].
    intros _. apply andb_true_iff in E as [E _]. now apply andb_true_iff in E as [_ E].
Qed.

Lemma cache_ok_cons nid p cr np c :
  cache_ok c -> p <= np <= len ->
  match cr with
  | CRes r => (nl a nid = false -> p < np) /\ (tr a nid = false -> truthy r = true -> p < np)
  | CNoMatch => True
  end ->
  cache_ok (((nid, p), (cr, np)) :: c).
Proof.
  intros C B F nid2 p2 cr2 np2 L. cbn [clookup] in L.
  destruct (Nat.eqb nid2 nid && Nat.eqb p2 p)%bool eqn:E; [|now apply C].
  apply andb_true_iff in E as [E1 E2]. apply Nat.eqb_eq in E1, E2. subst. injection L as <- <-. auto.
Qed.

Lemma parse_prog m f : rec_prog (parse g input orc m f).
Proof.
  induction f as [|f IH]; intros nid psq s T; cbn [parse]; [exact I|].
  destruct (get_node g nid) as [nd|] eqn:Hn; [|exact I].
  destruct (is_match_kind (n_kind nd)) eqn:MK.
  - pose proof (match_pre_prog _ IH f s T) as G0.
    destruct (match_pre g input (parse g input orc m f) f s) as [r0 s0|s0|w0]; auto.
    pose proof (term_prog nid nd psq s0 Hn (proj1 G0)) as G.
    destruct (term_parse input orc nid (n_kind nd) psq s0) as [r s1|s1|w]; auto.
    + destruct G as (M & GN & GT). pose proof (mono_trans _ _ _ G0 M) as M'.
      destruct G0 as (_ & P0 & _). split; [exact M'|]. split.
      * intro F. specialize (GN (node_null _ _ Hn F)). lia.
      * intros F Tr. destruct (n_suppress nd); [discriminate Tr|]. specialize (GT (node_truthy _ _ Hn F) Tr). lia.
    + eapply mono_trans; eassumption.
  - cbn zeta. destruct (if m then clookup nid (pos s) (cache s) else None) as [[cr np]|] eqn:L.
    + destruct m; [|discriminate]. destruct T as (Ps & Tc & Tk). destruct (Tc _ _ _ _ L) as (B & F).
      assert (Ms : mono s (set_pos np s)).
      { split; [apply tinv_set_pos; [exact (conj Ps (conj Tc Tk)) | lia] | split; [cbn; lia | reflexivity]]. }
      destruct cr as [|r]; [exact Ms|]. split; [exact Ms | cbn; exact F].
    + pose proof (body_prog _ f nid nd s IH Hn T) as G.
      destruct (body (parse g input orc m f) f nd s) as [r s1|s1|w]; auto.
      * destruct G as (M & GN & GT). destruct M as ((P1 & C1 & K1) & L1 & I1).
        assert (FN : nl a nid = false -> pos s < pos s1) by (intro F; apply GN, (node_null _ _ Hn F)).
        assert (FT : tr a nid = false -> truthy (post nid nd r) = true -> pos s < pos s1).
        { intros F Tr. apply GT; [apply (node_truthy _ _ Hn F) | now apply truthy_post in Tr]. }
        split; [|split; [cbn; destruct m; exact FN | cbn; destruct m; exact FT]].
        destruct m; [|exact (conj (conj P1 (conj C1 K1)) (conj L1 I1))].
        split; [|split; [exact L1 | exact I1]].
        split; [exact P1 | split; [|exact K1]]. cbn.
        apply cache_ok_cons; [exact C1 | lia | split; [exact FN | exact FT]].
      * destruct G as ((P1 & C1 & K1) & L1 & I1). destruct T as (Ps & _).
        destruct m; cbn.
        -- split; [|split; [apply Nat.le_refl | exact I1]].
           split; [exact Ps | split; [|exact K1]]. cbn.
           apply cache_ok_cons; [exact C1 | lia | exact I].
        -- split; [split; [exact Ps | split; [exact C1 | exact K1]] | split; [apply Nat.le_refl | exact I1]].
Qed.

(* ================================================================ no Abort 0 *)
Definition lvl (s : st) : nat := 2 * (len - pos s) + (if in_cmt s then 0 else 1).
Definition below (s : st) (c : nat) (s0 : st) (n : nat) : Prop :=
  lvl s < lvl s0 \/ (lvl s = lvl s0 /\ rk a c < rk a n).
Definition rec_nab (s0 : st) (n : nat) (rec : parser) : Prop :=
  forall c psq s, tinv s -> below s c s0 n -> rec c psq s <> Abort 0.

Lemma lvl_mono s0 s : mono s0 s -> lvl s <= lvl s0.
Proof. intros (_ & P & C). unfold lvl. rewrite C. lia. Qed.
Lemma lvl_strict s0 s : mono s0 s -> pos s0 < pos s -> lvl s < lvl s0.
Proof. intros ((Ps & _) & P & C) L. unfold lvl. rewrite C. lia. Qed.
Lemma below_rank s0 s c n : mono s0 s -> rk a c < rk a n -> below s c s0 n.
Proof. intros M R. pose proof (lvl_mono _ _ M). unfold below. lia. Qed.
Lemma below_strict s0 s c n : mono s0 s -> pos s0 < pos s -> below s c s0 n.
Proof. intros M L. left. now apply lvl_strict. Qed.

Lemma comment_nonnull cm : g_comments g = Some cm -> nl a cm = false.
Proof.
  intro E. unfold check in Hchk. apply andb_true_iff in Hchk as [_ H2]. rewrite E in H2.
  now apply negb_true_iff in H2.
Qed.

Section Nab.
Variable rec : parser.
Variable s0 : st.
Variable n : nat.
Hypothesis Hrec : rec_prog rec.
Hypothesis Hnab : rec_nab s0 n rec.

Lemma cmt_loop_nab cm : nl a cm = false -> in_cmt s0 = false -> forall k s,
  tinv s -> in_cmt s = true -> pos s0 <= pos s -> len - pos s < k ->
  cmt_loop input rec cm k s <> Abort 0.
Proof.
  intros Hcm I0. induction k as [|k IH]; intros s T IC P L; [lia|]. cbn [cmt_loop].
  assert (B : below s cm s0 n).
  { left. unfold lvl. rewrite IC, I0. destruct T as (Ps & _). lia. }
  pose proof (Hnab cm false s T B) as NA. pose proof (Hrec cm false s T) as G.
  destruct (rec cm false s) as [r s1|s1|w]; cbn in G; [| discriminate | congruence].
  destruct G as (M & GN & _). specialize (GN Hcm).
  pose proof (msw_mono s1 (proj1 M)) as M2. destruct M as (T1 & P1 & C1), M2 as (T2 & P2 & C2).
  pose proof (proj1 T2) as Px. apply IH; [exact T2 | congruence | lia | lia].
Qed.

Lemma match_pre_nab k s : mono s0 s -> len - pos s < k -> match_pre g input rec k s <> Abort 0.
Proof.
  intros M0 L. unfold match_pre, parse_comments.
  pose proof (msw_mono s (proj1 M0)) as M1. set (s1 := maybe_skip_ws input s) in *.
  destruct (if skipws s1 then lookup (pos s1) (cpos s1) else None); [discriminate|].
  destruct (in_cmt s1) eqn:IC; [discriminate|].
  destruct (g_comments g) as [cm|] eqn:E; [|discriminate].
  assert (I0 : in_cmt s0 = false).
  { destruct M0 as (_ & _ & C0), M1 as (_ & _ & C1). congruence. }
  pose proof (cmt_loop_nab cm (comment_nonnull cm E) I0 k (set_in_cmt true s1)) as NA.
  destruct M0 as (_ & P0 & _), M1 as (T1 & P1 & _).
  specialize (NA T1 eq_refl ltac:(cbn; lia) ltac:(cbn; lia)).
  destruct (cmt_loop input rec cm k (set_in_cmt true s1)); [discriminate | discriminate | congruence].
Qed.

Lemma seq_loop_nab psq kids : forall acc s, mono s0 s ->
  pos s0 < pos s \/ seq_rank_ok a (rk a n) kids = true ->
  seq_loop rec psq kids acc s <> Abort 0.
Proof.
  induction kids as [|c kids IH]; intros acc s M D; cbn [seq_loop]; [discriminate|].
  assert (B : below s c s0 n).
  { destruct D as [D|D]; [now apply below_strict|]. cbn in D. apply andb_true_iff in D as [D _].
    apply Nat.ltb_lt in D. now apply below_rank. }
  pose proof (Hnab c psq s (proj1 M) B) as NA. pose proof (Hrec c psq s (proj1 M)) as G.
  destruct (rec c psq s) as [r s1|s1|w]; cbn in G; [| discriminate | congruence].
  destruct G as (M1 & GN & _). apply IH; [eapply mono_trans; eassumption|].
  destruct D as [D|D]; [left; destruct M1 as (_ & P1 & _); lia|].
  cbn in D. apply andb_true_iff in D as [_ D]. destruct (nl a c) eqn:Nc; [now right|].
  left. specialize (GN eq_refl). destruct M as (_ & P & _). lia.
Qed.

Lemma choice_loop_nab kids : forallb (fun c => Nat.ltb (rk a c) (rk a n)) kids = true ->
  forall s, mono s0 s -> choice_loop rec (pos s0) kids s <> Abort 0.
Proof.
  induction kids as [|c kids IH]; intros F s M; cbn [choice_loop]; [discriminate|].
  cbn in F. apply andb_true_iff in F as [F1 F2]. apply Nat.ltb_lt in F1.
  pose proof (Hnab c false s (proj1 M) (below_rank _ _ _ _ M F1)) as NA.
  pose proof (Hrec c false s (proj1 M)) as G.
  destruct (rec c false s) as [r s1|s1|w]; cbn in G; [| | congruence].
  - destruct (is_none r); [|discriminate]. apply IH; [exact F2|]. eapply mono_trans; [exact M | apply G].
  - apply IH; [exact F2|]. destruct G as (T1 & P1 & C1), M as ((Ps & _) & P & C).
    split; [apply tinv_set_pos; [exact T1 | destruct s0; cbn in *; lia] | split; [apply Nat.le_refl | cbn; congruence]].
Qed.

Lemma rep_loop_nab e sep plus : tr a e = false -> rk a e < rk a n -> forall k first acc s,
  mono s0 s -> (first = false -> pos s0 < pos s) -> len - pos s < k ->
  rep_loop rec e sep plus k first acc s <> Abort 0.
Proof.
  intros He Re. induction k as [|k IH]; intros first acc s M F L; [lia|]. cbn [rep_loop].
  assert (Helem : forall acc1 s1, mono s s1 ->
    (match rec e false s1 with
     | Ok r s2 => if truthy r then rep_loop rec e sep plus k false (acc1 ++ [r]) s2 else Ok (RList acc1) s2
     | Fail s2 => if (plus && first)%bool then Fail (set_pos (pos s) s2) else Ok (RList acc1) (set_pos (pos s) s2)
     | Abort w => Abort w end) <> Abort 0).
  { intros acc1 s1 M1. pose proof (mono_trans _ _ _ M M1) as M01.
    pose proof (Hnab e false s1 (proj1 M1) (below_rank _ _ _ _ M01 Re)) as NA.
    pose proof (Hrec e false s1 (proj1 M1)) as G.
    destruct (rec e false s1) as [r s2|s2|w]; cbn in G; [| | congruence].
    - destruct (truthy r) eqn:Tr; [|discriminate]. destruct G as (M2 & _ & GT). specialize (GT He eq_refl).
      pose proof (mono_trans _ _ _ M01 M2) as M02.
      pose proof (proj1 (proj2 M)) as P. pose proof (proj1 (proj2 M1)) as P1.
      pose proof (proj1 (proj2 M2)) as P2. pose proof (proj1 (proj1 M2)) as Px.
      apply IH; [exact M02 | intros _; lia | lia].
    - destruct (plus && first)%bool; discriminate. }
  destruct sep as [sp|]; [|apply Helem, mono_refl, (proj1 M)].
  destruct first; [apply Helem, mono_refl, (proj1 M)|].
  pose proof (Hnab sp false s (proj1 M) (below_strict _ _ _ _ M (F eq_refl))) as NA.
  pose proof (Hrec sp false s (proj1 M)) as G.
  destruct (rec sp false s) as [sr s1|s1|w]; cbn in G; [| | congruence].
  - apply Helem. apply G.
  - rewrite andb_false_r. discriminate.
Qed.

Lemma ug_try_nab sf cl todo : pos s0 <= cl -> cl <= len ->
  forallb (fun c => Nat.ltb (rk a c) (rk a n)) todo = true ->
  forall mt s, mono s0 s -> forall w, ug_try rec sf cl todo mt s = UGAbort w -> w <> 0.
Proof.
  intros L1 L2. induction todo as [|e todo IH]; intros F mt s M w E; cbn [ug_try] in E; [discriminate|].
  cbn in F. apply andb_true_iff in F as [F1 F2]. apply Nat.ltb_lt in F1.
  pose proof (Hnab e false s (proj1 M) (below_rank _ _ _ _ M F1)) as NA.
  pose proof (Hrec e false s (proj1 M)) as G.
  destruct (rec e false s) as [r s1|s1|w1]; cbn in G; [| |injection E as <-; congruence].
  - destruct G as (M1 & _ & _). pose proof (mono_trans _ _ _ M M1) as M01.
    assert (Mr : mono s0 (set_pos cl s1)).
    { destruct M01 as (T1 & _ & C1). split; [now apply tinv_set_pos | split; [exact L1 | exact C1]]. }
    destruct (truthy r); [destruct sf|];
      [exact (IH F2 false (set_pos cl s1) Mr w E) | discriminate E | exact (IH F2 mt s1 M01 w E)].
  - pose proof (mono_trans _ _ _ M G) as M01.
    assert (Mr : mono s0 (set_pos cl s1)).
    { destruct M01 as (T1 & _ & C1). split; [now apply tinv_set_pos | split; [exact L1 | exact C1]]. }
    exact (IH F2 false (set_pos cl s1) Mr w E).
Qed.

Lemma ug_try_hit_in sf cl todo : forall mt s e r s1, ug_try rec sf cl todo mt s = UGHit e r s1 -> In e todo.
Proof.
  induction todo as [|x todo IH]; intros mt s e r s1 E; cbn [ug_try] in E; [discriminate|].
  destruct (rec x false s) as [r0 s2|s2|w]; [| |discriminate].
  - destruct (truthy r0); [destruct sf|].
    + right. eapply IH; exact E.
    + injection E as <- _ _. now left.
    + right. eapply IH; exact E.
  - right. eapply IH; exact E.
Qed.

Lemma remove_first_length e l : In e l -> S (length (remove_first e l)) = length l.
Proof.
  induction l as [|y l IH]; intro H; [contradiction|]. cbn [remove_first].
  destruct (Nat.eqb e y) eqn:E; [reflexivity|]. destruct H as [H|H]; [subst; rewrite Nat.eqb_refl in E; discriminate|].
  cbn. now rewrite IH.
Qed.
Lemma remove_first_forallb (f : nat -> bool) e l : forallb f l = true -> forallb f (remove_first e l) = true.
Proof.
  induction l as [|y l IH]; intro H; [reflexivity|]. cbn in H |- *. apply andb_true_iff in H as [H1 H2].
  destruct (Nat.eqb e y); [exact H2 | cbn; now rewrite H1, IH].
Qed.

Lemma ug_loop_nab sep : match sep with Some sp => rk a sp < rk a n | None => True end ->
  forall k todo first sr acc s,
  forallb (fun c => Nat.ltb (rk a c) (rk a n)) todo = true -> length todo < k -> mono s0 s ->
  forall w, ug_loop rec sep k todo first sr acc s = UGOAbort w -> w <> 0.
Proof.
  intros Hsep. induction k as [|k IH]; intros todo first sr acc s F L M w E; [lia|].
  destruct todo as [|t0 todo]; cbn [ug_loop] in E; [discriminate|].
  assert (Hcont : forall sf sr1 s1, mono s0 s1 ->
    (match ug_try rec sf (pos s1) (t0 :: todo) true s1 with
     | UGHit e r s2 => ug_loop rec sep k (remove_first e (t0 :: todo)) false sr1
                         ((if truthy sr1 then acc ++ [sr1] else acc) ++ [r]) s2
     | UGNone mt s2 => UGDone mt acc (set_pos (pos s) s2)
     | UGAbort w => UGOAbort w end) = UGOAbort w -> w <> 0).
  { intros sf sr1 s1 M1 E1.
    pose proof (ug_try_nab sf (pos s1) (t0 :: todo) (proj1 (proj2 M1)) (proj1 (proj1 M1)) F true s1 M1) as NA.
    pose proof (ug_try_prog rec Hrec s0 sf (pos s1) (t0 :: todo) (proj1 (proj2 M1)) (proj1 (proj1 M1)) true s1 M1) as G.
    pose proof (ug_try_hit_in sf (pos s1) (t0 :: todo) true s1) as Hin.
    destruct (ug_try rec sf (pos s1) (t0 :: todo) true s1) as [e r s2|mt s2|w2]; cbn in G.
    - specialize (Hin e r s2 eq_refl). pose proof (remove_first_length e _ Hin) as Hl.
      eapply IH; [apply remove_first_forallb; exact F | | exact G | exact E1]. cbn [length] in *. lia.
    - discriminate E1.
    - injection E1 as <-. now apply NA. }
  destruct sep as [sp|]; [|eapply Hcont; eassumption]. destruct first; [eapply Hcont; eassumption|].
  pose proof (Hnab sp false s (proj1 M) (below_rank _ _ _ _ M Hsep)) as NA.
  pose proof (Hrec sp false s (proj1 M)) as G.
  destruct (rec sp false s) as [sr1 s1|s1|w1]; cbn in G; [| |injection E as <-; congruence].
  - eapply Hcont; [|exact E]. eapply mono_trans; [exact M | apply G].
  - eapply Hcont; [|exact E]. pose proof (mono_trans _ _ _ M G) as (T1 & _ & C1). destruct M as ((Ps & _) & P & _).
    split; [now apply tinv_set_pos | split; [exact P | exact C1]].
Qed.

Lemma body_nab k nd s : get_node g n = Some nd -> mono s0 s -> pos s = pos s0 -> len - pos s < k ->
  body rec k nd s <> Abort 0.
Proof.
  intros Hn M0 Hp L. pose proof (node_rank _ _ Hn) as RK. pose proof (proj1 M0) as T.
  unfold body, rank_ok in *. rewrite Hp. destruct (n_kind nd) eqn:K; try discriminate.
  - pose proof (same_core_enter_ws nd s) as Ce.
    assert (Me : mono s0 (enter_ws nd s)) by (apply (mono_core_r _ s); assumption).
    pose proof (seq_loop_nab true (n_kids nd) [] (enter_ws nd s) Me (or_intror RK)) as NA.
    destruct (seq_loop rec true (n_kids nd) [] (enter_ws nd s)) as [r s1|s1|w]; [| discriminate | congruence].
    destruct r as [|t|[|x l]]; discriminate.
  - pose proof (same_core_enter_ws nd s) as Ce.
    assert (Me : mono s0 (enter_ws nd s)) by (apply (mono_core_r _ s); assumption).
    pose proof (choice_loop_nab (n_kids nd) RK (enter_ws nd s) Me) as NA.
    destruct (choice_loop rec (pos s0) (n_kids nd) (enter_ws nd s)) as [r s1|s1|w]; [| discriminate | congruence].
    destruct (is_none r); discriminate.
  - destruct (n_kids nd) as [|e l]; [discriminate|]. cbn [hd_or] in RK. apply Nat.ltb_lt in RK.
    pose proof (Hnab e false s T (below_rank _ _ _ _ M0 RK)) as NA.
    destruct (rec e false s); [discriminate | discriminate | congruence].
  - destruct (n_kids nd) as [|e l]; [discriminate|]. cbn [hd_or] in RK.
    apply andb_true_iff in RK as [Re He]. apply Nat.ltb_lt in Re. apply negb_true_iff in He.
    pose proof (same_core_enter_eol nd s) as Ce.
    assert (Me : mono s0 (enter_eol nd s)) by (apply (mono_core_r _ s); assumption).
    assert (Pe : pos (enter_eol nd s) = pos s) by apply Ce.
    pose proof (rep_loop_nab e (n_sep nd) false He Re k true [] (enter_eol nd s) Me ltac:(discriminate) ltac:(lia)) as NA.
    destruct (rep_loop rec e (n_sep nd) false k true [] (enter_eol nd s)); [discriminate | discriminate | congruence].
  - destruct (n_kids nd) as [|e l]; [discriminate|]. cbn [hd_or] in RK.
    apply andb_true_iff in RK as [Re He]. apply Nat.ltb_lt in Re. apply negb_true_iff in He.
    pose proof (same_core_enter_eol nd s) as Ce.
    assert (Me : mono s0 (enter_eol nd s)) by (apply (mono_core_r _ s); assumption).
    assert (Pe : pos (enter_eol nd s) = pos s) by apply Ce.
    pose proof (rep_loop_nab e (n_sep nd) true He Re k true [] (enter_eol nd s) Me ltac:(discriminate) ltac:(lia)) as NA.
    destruct (rep_loop rec e (n_sep nd) true k true [] (enter_eol nd s)); [discriminate | discriminate | congruence].
  - (* UnorderedGroup *)
    apply andb_true_iff in RK as [RKk RKs].
    destruct (n_kids nd) as [|e l] eqn:Kd; [discriminate|]. rewrite <- Kd in *.
    pose proof (same_core_enter_eol nd s) as Ce.
    assert (Me : mono s0 (enter_eol nd s)) by (apply (mono_core_r _ s); assumption).
    assert (Hsep : match n_sep nd with Some sp => rk a sp < rk a n | None => True end).
    { destruct (n_sep nd); [now apply Nat.ltb_lt in RKs | exact I]. }
    pose proof (ug_loop_nab (n_sep nd) Hsep (S (length (n_kids nd))) (n_kids nd) true RNone [] (enter_eol nd s)
                  RKk (Nat.lt_succ_diag_r _) Me) as NA.
    destruct (ug_loop rec (n_sep nd) (S (length (n_kids nd))) (n_kids nd) true RNone [] (enter_eol nd s)) as [mt acc s1|w].
    + destruct mt; discriminate.
    + specialize (NA w eq_refl). congruence.
  - pose proof (seq_loop_nab false (n_kids nd) [] s M0 (or_intror RK)) as NA.
    destruct (seq_loop rec false (n_kids nd) [] s); [discriminate | discriminate | congruence].
  - pose proof (seq_loop_nab false (n_kids nd) [] s M0 (or_intror RK)) as NA.
    destruct (seq_loop rec false (n_kids nd) [] s); [discriminate | discriminate | congruence].
Qed.

End Nab.

Definition Bnd (s : st) (c : nat) : nat := lvl s * rank_top a + rk a c + len + 3.

Lemma nth_le_list_max l : forall i, nth i l 0 <= list_max l.
Proof.
  induction l as [|x l IH]; intro i.
  - destruct i; cbn; lia.
  - change (list_max (x :: l)) with (Nat.max x (list_max l)). destruct i as [|j]; cbn [nth]; [lia|].
    specialize (IH j). lia.
Qed.
Lemma rk_lt_top c : rk a c < rank_top a.
Proof. unfold rk, rank_top. pose proof (nth_le_list_max (a_rank a) c). lia. Qed.
Lemma below_Bnd s c s0 n : below s c s0 n -> Bnd s c < Bnd s0 n.
Proof.
  unfold below, Bnd. pose proof (rk_lt_top c). intros [L|[E R]]; [nia | rewrite E; lia].
Qed.

Lemma term_parse_nab nid k psq s : term_parse input orc nid k psq s <> Abort 0.
Proof.
  unfold term_parse, nm_raise. cbv zeta. destruct k; try discriminate.
  - destruct (Nat.eqb len (pos s)); discriminate.
  - destruct (match oid with Some o => match orc o (pos s) with Some _ => true | None => false end
                        | None => is_prefix s0 (skipn (pos s) input) end); discriminate.
  - destruct (orc oid (pos s)) as [l|]; [destruct (Nat.eqb l 0)|]; discriminate.
Qed.

Theorem parse_terminates m f : forall nid psq s,
  tinv s -> Bnd s nid <= f -> parse g input orc m f nid psq s <> Abort 0.
Proof.
  induction f as [|f IH]; intros nid psq s T B; [unfold Bnd in B; lia|]. cbn [parse].
  destruct (get_node g nid) as [nd|] eqn:Hn; [|discriminate].
  assert (Hnab : rec_nab s nid (parse g input orc m f)).
  { intros c psq' s' T' Bl. apply IH; [exact T'|]. apply below_Bnd in Bl. lia. }
  assert (Lk : len - pos s < f) by (unfold Bnd in B; lia).
  destruct (is_match_kind (n_kind nd)).
  - pose proof (match_pre_nab _ s nid (parse_prog m f) Hnab f s (mono_refl s T) Lk) as NA.
    destruct (match_pre g input (parse g input orc m f) f s) as [r0 s1|s1|w]; [| discriminate | congruence].
    pose proof (term_parse_nab nid (n_kind nd) psq s1) as NA2.
    destruct (term_parse input orc nid (n_kind nd) psq s1); [discriminate | discriminate | congruence].
  - cbn zeta. destruct (if m then clookup nid (pos s) (cache s) else None) as [[[|r] np]|]; try discriminate.
    pose proof (body_nab _ s nid (parse_prog m f) Hnab f nd s Hn (mono_refl s T) eq_refl Lk) as NA.
    destruct (body (parse g input orc m f) f nd s); [discriminate | discriminate | congruence].
Qed.

Theorem run_terminates_a c m f :
  fuel_bound_a a input <= f -> run g c orc m f input <> Aborted 0.
Proof.
  intro L. unfold run.
  assert (T0 : tinv (init_st c)).
  { split; [cbn; lia | split; [intros nid p cr np E; discriminate E | intros k v E; discriminate E]]. }
  assert (B0 : Bnd (init_st c) (g_top g) <= f).
  { unfold Bnd, lvl, fuel_bound_a in *. cbn. pose proof (rk_lt_top (g_top g)). nia. }
  pose proof (parse_terminates m f (g_top g) false (init_st c) T0 B0) as NA.
  destruct (parse g input orc m f (g_top g) false (init_st c)); [discriminate | discriminate | congruence].
Qed.

End Term.

(* ================================================================ the theorems, closed form *)
Theorem run_terminates rxn g c orc m input f :
  terminating rxn g = true -> orc_sane g input orc ->
  (forall o, rxn o = false -> forall p l, orc o p = Some l -> 0 < l) ->
  fuel_bound rxn g input <= f -> run g c orc m f input <> Aborted 0.
Proof.
  intros Ht Hs Hp L. unfold terminating in Ht. unfold fuel_bound in L.
  exact (run_terminates_a g input orc rxn (analyse rxn g) Ht Hs Hp c m f L).
Qed.

(* every regex terminal treated as possibly matching the empty string: no hypothesis on matches *)
Definition all_nullable (o : nat) : bool := true.
Corollary run_terminates_rxn g c orc m input f :
  terminating all_nullable g = true -> orc_sane g input orc ->
  fuel_bound all_nullable g input <= f -> run g c orc m f input <> Aborted 0.
Proof. intros Ht Hs L. apply (run_terminates all_nullable g c orc m input f Ht Hs); [discriminate | exact L]. Qed.

(* every match non-empty ([orc_pos]): regex terminals are not nullable *)
Definition none_nullable (o : nat) : bool := false.
Corollary run_terminates_pos g c orc m input f :
  terminating none_nullable g = true -> orc_sane g input orc -> orc_pos orc ->
  fuel_bound none_nullable g input <= f -> run g c orc m f input <> Aborted 0.
Proof.
  intros Ht Hs Hp L. apply (run_terminates none_nullable g c orc m input f Ht Hs); [|exact L].
  intros o _ p l E. exact (Hp o p l E).
Qed.

(* ---------------------------------------------------------------- witnesses at the boundary *)
(* left recursion:  Model: A;  A: A 'x' | 'y';   (dumped by tools/pegdump.py) *)
Definition g_leftrec : grammar := (mkGrammar [mkNode KSeq [1;5] None false [77;111;100;101;108]%N true false None None;
  mkNode KChoice [2;4] None false [65]%N true false None None;
  mkNode KSeq [1;3] None false []%N false false None None;
  mkNode (KStr [120]%N None) [] None false []%N false false None None;
  mkNode (KStr [121]%N None) [] None false []%N false false None None;
  mkNode KEOF [] None false [69;79;70]%N false false None None] 0 None).

Lemma leftrec_aborts input orc : forall f,
  (forall psq s, parse g_leftrec input orc false f 1 psq s = Abort 0) /\
  (forall psq s, parse g_leftrec input orc false (S f) 1 psq s = Abort 0).
Proof.
  induction f as [|f [IH1 IH2]].
  - split; intros psq s; reflexivity.
  - split; [exact IH2|]. intros psq s. cbn. rewrite IH1. reflexivity.
Qed.

Theorem leftrec_never_terminates c orc input f :
  terminating all_nullable g_leftrec = false /\ run g_leftrec c orc false f input = Aborted 0.
Proof.
  split; [vm_compute; reflexivity|]. unfold run. destruct f as [|f]; [reflexivity|].
  cbn. rewrite (proj1 (leftrec_aborts input orc f)). reflexivity.
Qed.

(* a repetition whose element can be truthy without consuming:  Model: ('y'* | 'b')* 'c';
   the real interpreter loops forever; the model is out of fuel for every fuel up to the one tried *)
Definition g_loop : grammar := (mkGrammar [mkNode KSeq [1;8] None false [77;111;100;101;108]%N true false None None;
  mkNode KSeq [2;7] None false [77;111;100;101;108]%N true false None None;
  mkNode KStar [3] None false []%N false false None None;
  mkNode KChoice [4;6] None false []%N false false None None;
  mkNode KStar [5] None false []%N false false None None;
  mkNode (KStr [121]%N None) [] None false []%N false false None None;
  mkNode (KStr [98]%N None) [] None false []%N false false None None;
  mkNode (KStr [99]%N None) [] None false []%N false false None None;
  mkNode KEOF [] None false [69;79;70]%N false false None None] 0 None).

Lemma loop_aborts_1500 :
  terminating all_nullable g_loop = false /\
  run g_loop (mkConfig true [9;10;13;32]%N) (fun _ _ => None) false 1500 [99]%N = Aborted 0.
Proof. vm_compute. split; reflexivity. Qed.

(* non-vacuity: a grammar of the class (backtracking, repetition with separator), hypotheses satisfiable *)
Lemma terminates_example :
  terminating none_nullable g_ex = true /\
  orc_sane g_ex [120;44;120;46]%N (fun _ _ => None) /\ orc_pos (fun _ _ => None) /\
  accepts (run g_ex c_default (fun _ _ => None) true (fuel_bound none_nullable g_ex [120;44;120;46]%N) [120;44;120;46]%N) = true.
Proof.
  split; [vm_compute; reflexivity|]. split; [split; intros; discriminate|].
  split; [intros o p l E; discriminate E | vm_compute; reflexivity].
Qed.
