(* C02 — proofs about Model/Mult.v (multiplicity inference vs. maxcount, builder vs. traces). *)
From Coq Require Import Permutation Lia.
From TxV Require Import Core.Base Model.MultBase Gen.SrcMult Model.Mult.

(* ---------------------------------------------------------------- induction on bodies *)
Section BodyInd.
  Variable P : body -> Prop.
  Hypothesis Htok : P BTok.
  Hypothesis Hasg : forall a op, P (BAsg a op).
  Hypothesis Hseq : forall l, Forall P l -> P (BSeq l).
  Hypothesis Halt : forall l, Forall P l -> P (BAlt l).
  Hypothesis Hopt : forall x, P x -> P (BOpt x).
  Hypothesis Hstar : forall x, P x -> P (BStar x).
  Hypothesis Hplus : forall x, P x -> P (BPlus x).
  Hypothesis Hunord : forall l, Forall P l -> P (BUnord l).

  Fixpoint body_ind' (b : body) : P b :=
    let go := fix go (l : list body) : Forall P l :=
      match l with
      | [] => Forall_nil P
      | x :: r => Forall_cons x (body_ind' x) (go r)
      end in
    match b with
    | BTok => Htok
    | BAsg a op => Hasg a op
    | BSeq l => Hseq l (go l)
    | BAlt l => Halt l (go l)
    | BOpt x => Hopt x (body_ind' x)
    | BStar x => Hstar x (body_ind' x)
    | BPlus x => Hplus x (body_ind' x)
    | BUnord l => Hunord l (go l)
    end.
End BodyInd.

(* ---------------------------------------------------------------- facts about the translated constants *)
(* Each of these is checked by computation against Gen/SrcMult.v, i.e. against the current source. *)
Definition many (m : mult) : Prop := is_many m = true.

Lemma src_inherits : src_branch_inherits = true. Proof. reflexivity. Qed.
Lemma src_merged : src_branch_merged = true. Proof. reflexivity. Qed.

Lemma many_is_list m : is_list m = is_many m.
Proof. destruct m; reflexivity. Qed.

Lemma many_dec m : many m \/ ~ many m.
Proof. unfold many. destruct (is_many m); [left; reflexivity | right; discriminate]. Qed.

Lemma promote_many m r : many r -> many (if mult_lt m r then r else m).
Proof. unfold many. destruct m, r; vm_compute; congruence. Qed.

Lemma rep_star_many r : many (src_rep_star r).
Proof. unfold many. destruct r; reflexivity. Qed.

Lemma rep_plus_many r : many (src_rep_plus r).
Proof. unfold many. destruct r; reflexivity. Qed.

Lemma dup_many : many src_dup_mult.
Proof. reflexivity. Qed.

Lemma walk_init_not_many : ~ many src_walk_init.
Proof. unfold many. vm_compute. discriminate. Qed.

Lemma default_not_many : ~ many src_default_mult.
Proof. unfold many. vm_compute. discriminate. Qed.

Lemma op_base_many op m : many (src_op_base op m) -> many m \/ op = OpStar \/ op = OpPlus.
Proof. unfold many. destruct op, m; vm_compute; intro H; try discriminate; auto. Qed.

Lemma op_base_list_op op m : op = OpStar \/ op = OpPlus -> many (src_op_base op m).
Proof. unfold many. intros [-> | ->]; destruct m; reflexivity. Qed.

Lemma asg_rep_many op r : many r -> many (asg_rep op r).
Proof. unfold many. destruct op, r; vm_compute; congruence. Qed.

Lemma asg_rep_listop op r : op = OpStar \/ op = OpPlus -> many (asg_rep op r).
Proof. intros [-> | ->]; [apply rep_star_many | apply rep_plus_many]. Qed.

Lemma asg_rep_scalar op r : op = OpPlain \/ op = OpBool -> asg_rep op r = r.
Proof. intros [-> | ->]; reflexivity. Qed.

(* ---------------------------------------------------------------- arithmetic helpers *)
Lemma cap2_ge1 n : 1 <= cap2 n <-> 1 <= n.
Proof. unfold cap2. lia. Qed.
Lemma cap2_ge2 n : 2 <= cap2 n <-> 2 <= n.
Proof. unfold cap2. lia. Qed.
Lemma cap2_le2 n : cap2 n <= 2.
Proof. unfold cap2. lia. Qed.

Lemma list_max_ge k l : 1 <= k -> (k <= list_max l <-> exists n, In n l /\ k <= n).
Proof.
  intro Hk. induction l as [|x l IH]; cbn [list_max fold_right].
  - split; [lia | intros [n [[] _]]].
  - change (fold_right Nat.max 0 l) with (list_max l). split.
    + intro H. destruct (Nat.max_spec x (list_max l)) as [[_ E] | [_ E]]; rewrite E in H.
      * apply IH in H as [n [Hn Hle]]. exists n. split; [right; exact Hn | exact Hle].
      * exists x. split; [left; reflexivity | exact H].
    + intros [n [[<- | Hn] Hle]]; [lia|].
      assert (k <= list_max l) by (apply IH; exists n; auto). lia.
Qed.

(* ---------------------------------------------------------------- the walk against maxcount *)
Section WalkSpec.
  Variable a : nat.
  Notation st := (bool * mult)%type.

  (* under a many-valued `mult` parameter: the set is untouched, any assignment to a promotes *)
  Definition spec_many (f : st -> st) (c : nat) : Prop :=
    forall s, fst (f s) = fst s /\ (many (snd (f s)) <-> many (snd s) \/ 1 <= c).

  (* under a single-valued `mult` parameter *)
  Definition spec_one (f : st -> st) (c : nat) : Prop :=
    forall s,
      (many (snd (f s)) <-> many (snd s) \/ 2 <= c \/ (fst s = true /\ 1 <= c))
      /\ (fst (f s) = true -> fst s = true \/ 1 <= c)
      /\ (fst s = true \/ 1 <= c -> fst (f s) = true \/ many (snd (f s))).

  Lemma spec_many_id : spec_many (fun s => s) 0.
  Proof. intro s. split; [reflexivity|]. split; [auto | intros [H|H]; [exact H | lia]]. Qed.

  Lemma spec_one_id : spec_one (fun s => s) 0.
  Proof. intro s. repeat split; try tauto; try lia. intros [H | [H | [_ H]]]; [exact H | lia | lia].
         intros [H|H]; [auto | lia]. Qed.

  Lemma spec_many_comp f g c1 c2 :
    spec_many f c1 -> spec_many g c2 -> spec_many (fun s => g (f s)) (c1 + c2).
  Proof.
    intros Hf Hg s. destruct (Hf s) as [F1 F2]. destruct (Hg (f s)) as [G1 G2].
    split; [congruence|]. rewrite G2, F2. split.
    - intros [[H|H]|H]; [auto | right; lia | right; lia].
    - intros [H|H]; [auto|]. destruct c1; [right; lia | left; right; lia].
  Qed.

  Lemma spec_one_comp f g c1 c2 :
    spec_one f c1 -> spec_one g c2 -> spec_one (fun s => g (f s)) (c1 + c2).
  Proof.
    intros Hf Hg s. destruct (Hf s) as [F1 [F2 F3]]. destruct (Hg (f s)) as [G1 [G2 G3]].
    assert (Hmono : many (snd (f s)) -> many (snd (g (f s)))) by (intro H; apply G1; auto).
    split; [|split].
    - split.
      + intro H. apply G1 in H as [H | [H | [H1 H2]]].
        * apply F1 in H as [H | [H | [H1 H2]]]; [auto | right; left; lia | right; right; split; [exact H1 | lia]].
        * right; left; lia.
        * apply F2 in H1 as [H1 | H1]; [right; right; split; [exact H1 | lia] | right; left; lia].
      + intros [H | [H | [H1 H2]]].
        * apply Hmono, F1; auto.
        * destruct (le_lt_dec 2 c1) as [L1|L1]; [apply Hmono, F1; auto|].
          destruct (le_lt_dec 2 c2) as [L2|L2]; [apply G1; auto|].
          assert (E1 : 1 <= c1) by lia. assert (E2 : 1 <= c2) by lia.
          destruct (F3 (or_intror E1)) as [K|K]; [apply G1; right; right; auto | apply Hmono, K].
        * destruct (le_lt_dec 1 c1) as [L1|L1]; [apply Hmono, F1; auto|].
          assert (E2 : 1 <= c2) by lia.
          destruct (F3 (or_introl H1)) as [K|K]; [apply G1; right; right; auto | apply Hmono, K].
    - intro H. apply G2 in H as [H|H]; [|right; lia]. apply F2 in H as [H|H]; [auto | right; lia].
    - intros [H|H].
      + destruct (F3 (or_introl H)) as [K|K]; [apply G3; auto | right; apply Hmono, K].
      + destruct (le_lt_dec 1 c2) as [L|L]; [apply G3; auto|].
        assert (E1 : 1 <= c1) by lia.
        destruct (F3 (or_intror E1)) as [K|K]; [apply G3; auto | right; apply Hmono, K].
  Qed.

  Lemma spec_many_ext f c c' : spec_many f c -> (1 <= c <-> 1 <= c') -> spec_many f c'.
  Proof. intros H E s. destruct (H s) as [H1 H2]. split; [exact H1 | rewrite H2; tauto]. Qed.

  Lemma spec_one_ext f c c' : spec_one f c -> (1 <= c <-> 1 <= c') -> (2 <= c <-> 2 <= c') -> spec_one f c'.
  Proof. intros H E1 E2 s. destruct (H s) as [H1 [H2 H3]]. rewrite H1. tauto. Qed.

  Lemma spec_many_fold (F : body -> st -> st) (l : list body) :
    Forall (fun x => spec_many (F x) (maxcount a x)) l ->
    spec_many (fun s => fold_left (fun s x => F x s) l s) (list_sum (map (maxcount a) l)).
  Proof.
    induction 1 as [|x l Hx Hl IH]; cbn [fold_left map list_sum fold_right].
    - apply spec_many_id.
    - apply (spec_many_comp (F x) (fun s => fold_left (fun s x => F x s) l s)); assumption.
  Qed.

  Lemma spec_one_fold (F : body -> st -> st) (l : list body) :
    Forall (fun x => spec_one (F x) (maxcount a x)) l ->
    spec_one (fun s => fold_left (fun s x => F x s) l s) (list_sum (map (maxcount a) l)).
  Proof.
    induction 1 as [|x l Hx Hl IH]; cbn [fold_left map list_sum fold_right].
    - apply spec_one_id.
    - apply (spec_one_comp (F x) (fun s => fold_left (fun s x => F x s) l s)); assumption.
  Qed.

  (* ordered choice, repaired handling: every branch starts from `seen`, results are united *)
  Definition alt_step (F : body -> st -> st) (seen : bool) (s : st) (x : body) : st :=
    let o := F x (seen, snd s) in (fst s || fst o, snd o).

  Lemma alt_many (F : body -> st -> st) (l : list body) :
    Forall (fun x => spec_many (F x) (maxcount a x)) l ->
    forall seen m, let r := fold_left (alt_step F seen) l (seen, m) in
      fst r = seen /\ (many (snd r) <-> many m \/ 1 <= list_max (map (maxcount a) l)).
  Proof.
    induction 1 as [|x l Hx Hl IH]; intros seen m; cbn zeta; cbn [fold_left map].
    - cbn. split; [reflexivity|]. split; [auto | intros [H|H]; [exact H | lia]].
    - destruct (Hx (seen, m)) as [X1 X2]. cbn [fst snd] in X1, X2.
      replace (alt_step F seen (seen, m) x) with (seen, snd (F x (seen, m)))
        by (unfold alt_step; cbn [fst snd]; rewrite X1, orb_diag; reflexivity).
      specialize (IH seen (snd (F x (seen, m)))). cbn zeta in IH.
      destruct IH as [I1 I2]. split; [exact I1|]. rewrite I2, X2.
      change (list_max (maxcount a x :: map (maxcount a) l)) with (Nat.max (maxcount a x) (list_max (map (maxcount a) l))).
      split; [intros [[H|H]|H]; [auto | right; lia | right; lia] | intros [H|H]; [auto|]].
      destruct (le_lt_dec 1 (maxcount a x)); [left; right; assumption | right; lia].
  Qed.

  Lemma alt_one (F : body -> st -> st) (l : list body) :
    Forall (fun x => spec_one (F x) (maxcount a x)) l ->
    forall seen acc m, let r := fold_left (alt_step F seen) l (acc, m) in
      let c := list_max (map (maxcount a) l) in
      (many (snd r) <-> many m \/ 2 <= c \/ (seen = true /\ 1 <= c))
      /\ (fst r = true -> acc = true \/ seen = true \/ 1 <= c)
      /\ (acc = true \/ 1 <= c -> fst r = true \/ many (snd r)).
  Proof.
    induction 1 as [|x l Hx Hl IH]; intros seen acc m; cbn zeta; cbn [fold_left map].
    - cbn. repeat split; try tauto; try lia. intros [H|[H|[_ H]]]; [exact H | lia | lia]. intros [H|H]; [auto | lia].
    - destruct (Hx (seen, m)) as [X1 [X2 X3]]. cbn [fst snd] in X1, X2, X3.
      change (alt_step F seen (acc, m) x) with ((acc || fst (F x (seen, m)))%bool, snd (F x (seen, m))).
      specialize (IH seen (acc || fst (F x (seen, m)))%bool (snd (F x (seen, m)))). cbn zeta in IH.
      destruct IH as [I1 [I2 I3]].
      change (list_max (maxcount a x :: map (maxcount a) l)) with (Nat.max (maxcount a x) (list_max (map (maxcount a) l))).
      set (cx := maxcount a x) in *. set (cl := list_max (map (maxcount a) l)) in *.
      assert (Hmono : many (snd (F x (seen, m))) -> many (snd (fold_left (alt_step F seen) l ((acc || fst (F x (seen, m)))%bool, snd (F x (seen, m))))))
        by (intro H; apply I1; auto).
      split; [|split].
      + split.
        * intro H. apply I1 in H as [H | [H | [H1 H2]]].
          -- apply X1 in H as [H | [H | [H1 H2]]]; [auto | right; left; lia | right; right; split; [exact H1 | lia]].
          -- right; left; lia.
          -- right; right; split; [exact H1 | lia].
        * intros [H | [H | [H1 H2]]].
          -- apply Hmono, X1; auto.
          -- destruct (le_lt_dec 2 cx); [apply Hmono, X1; auto | apply I1; right; left; lia].
          -- destruct (le_lt_dec 1 cx); [apply Hmono, X1; auto | apply I1; right; right; split; [exact H1 | lia]].
      + intro H. apply I2 in H as [H | [H | H]]; [| auto | right; right; lia].
        apply orb_true_iff in H as [H|H]; [auto|]. apply X2 in H as [H|H]; [auto | right; right; lia].
      + intros [H|H].
        * apply I3. left. rewrite H. reflexivity.
        * destruct (le_lt_dec 1 cx) as [L|L].
          -- destruct (X3 (or_intror L)) as [K|K]; [apply I3; left; rewrite K; apply orb_true_r | right; apply Hmono, K].
          -- apply I3. right. lia.
  Qed.

  Definition wk := walk true true a.

  Lemma walk_spec b :
    (forall rep, many rep -> spec_many (wk b rep) (maxcount a b))
    /\ (forall rep, ~ many rep -> spec_one (wk b rep) (maxcount a b)).
  Proof.
    induction b as [|a' op|l IH|l IH|x IH|x IH|x IH|l IH] using body_ind'; unfold wk in *.
    - (* BTok *) split; intros rep _; [apply spec_many_id | apply spec_one_id].
    - (* BAsg *)
      cbn [walk maxcount]. destruct (Nat.eqb a a') eqn:E.
      2:{ split; intros rep _; [apply spec_many_id | apply spec_one_id]. }
      split; intros rep Hrep.
      + pose proof (asg_rep_many op rep Hrep) as Hr. unfold many in Hr. rewrite Hr.
        intro s. cbn [fst snd]. split; [reflexivity|]. split; [intros _; right; destruct op; lia|].
        intros _. apply promote_many. exact Hr.
      + destruct op.
        * (* = *) cbn [asg_rep]. destruct (is_many rep) eqn:Er; [exfalso; apply Hrep; exact Er|].
          intros [seen m]. cbn [fst snd]. destruct seen; cbn [fst snd].
          -- repeat split; try tauto; try lia; intros; try (left; reflexivity); try apply dup_many; auto.
          -- repeat split; try tauto; try lia; auto.
             intros [H|[H|[H _]]]; [exact H | lia | discriminate].
        * (* ?= *) cbn [asg_rep]. destruct (is_many rep) eqn:Er; [exfalso; apply Hrep; exact Er|].
          intros [seen m]. cbn [fst snd]. destruct seen; cbn [fst snd].
          -- repeat split; try tauto; try lia; intros; try (left; reflexivity); try apply dup_many; auto.
          -- repeat split; try tauto; try lia; auto.
             intros [H|[H|[H _]]]; [exact H | lia | discriminate].
        * (* *= *) pose proof (rep_star_many rep) as Hr. cbn [asg_rep]. unfold many in Hr. rewrite Hr.
          intros [seen m]. cbn [fst snd]. pose proof (promote_many m _ Hr) as Hp.
          repeat split; try tauto; try lia; auto.
        * (* += *) pose proof (rep_plus_many rep) as Hr. cbn [asg_rep]. unfold many in Hr. rewrite Hr.
          intros [seen m]. cbn [fst snd]. pose proof (promote_many m _ Hr) as Hp.
          repeat split; try tauto; try lia; auto.
    - (* BSeq *)
      cbn [walk maxcount]. split; intros rep Hrep.
      + eapply spec_many_ext; [apply (spec_many_fold (fun x s => walk true true a x rep s)) | symmetry; apply cap2_ge1].
        eapply Forall_impl; [|exact IH]. intros x [H _]. apply H, Hrep.
      + eapply spec_one_ext; [apply (spec_one_fold (fun x s => walk true true a x rep s)) | symmetry; apply cap2_ge1 | symmetry; apply cap2_ge2].
        eapply Forall_impl; [|exact IH]. intros x [_ H]. apply H, Hrep.
    - (* BAlt *)
      cbn [walk maxcount]. split; intros rep Hrep [seen m]; cbn [fst snd].
      + assert (HF : Forall (fun x => spec_many (fun s => walk true true a x rep s) (maxcount a x)) l)
          by (eapply Forall_impl; [|exact IH]; intros x [H _]; apply H, Hrep).
        pose proof (alt_many (fun x s => walk true true a x rep s) l HF seen m) as K. cbn zeta in K.
        unfold alt_step in K. exact K.
      + assert (HF : Forall (fun x => spec_one (fun s => walk true true a x rep s) (maxcount a x)) l)
          by (eapply Forall_impl; [|exact IH]; intros x [_ H]; apply H, Hrep).
        pose proof (alt_one (fun x s => walk true true a x rep s) l HF seen seen m) as K. cbn zeta in K.
        unfold alt_step in K. destruct K as [K1 [K2 K3]]. split; [exact K1 | split; [tauto | exact K3]].
    - (* BOpt *) exact IH.
    - (* BStar *)
      cbn [walk maxcount]. destruct IH as [IHm _].
      assert (E1 : 1 <= match maxcount a x with 0 => 0 | S _ => 2 end <-> 1 <= maxcount a x) by (destruct (maxcount a x); lia).
      assert (E2 : 2 <= match maxcount a x with 0 => 0 | S _ => 2 end <-> 1 <= maxcount a x) by (destruct (maxcount a x); lia).
      split; intros rep Hrep.
      + eapply spec_many_ext; [apply IHm, rep_star_many | symmetry; exact E1].
      + intro s. destruct (IHm _ (rep_star_many rep) s) as [H1 H2]. rewrite H1, H2, E1, E2. tauto.
    - (* BPlus *)
      cbn [walk maxcount]. destruct IH as [IHm _].
      assert (E1 : 1 <= match maxcount a x with 0 => 0 | S _ => 2 end <-> 1 <= maxcount a x) by (destruct (maxcount a x); lia).
      assert (E2 : 2 <= match maxcount a x with 0 => 0 | S _ => 2 end <-> 1 <= maxcount a x) by (destruct (maxcount a x); lia).
      split; intros rep Hrep.
      + eapply spec_many_ext; [apply IHm, rep_plus_many | symmetry; exact E1].
      + intro s. destruct (IHm _ (rep_plus_many rep) s) as [H1 H2]. rewrite H1, H2, E1, E2. tauto.
    - (* BUnord *)
      cbn [walk maxcount]. split; intros rep Hrep.
      + eapply spec_many_ext; [apply (spec_many_fold (fun x s => walk true true a x rep s)) | symmetry; apply cap2_ge1].
        eapply Forall_impl; [|exact IH]. intros x [H _]. apply H, Hrep.
      + eapply spec_one_ext; [apply (spec_one_fold (fun x s => walk true true a x rep s)) | symmetry; apply cap2_ge1 | symmetry; apply cap2_ge2].
        eapply Forall_impl; [|exact IH]. intros x [_ H]. apply H, Hrep.
  Qed.

  (* a `*=`/`+=` on a anywhere in the body makes maxcount many *)
  Lemma listop_maxcount b op :
    In op (ops_of a b) -> op = OpStar \/ op = OpPlus -> 2 <= maxcount a b.
  Proof.
    unfold ops_of.
    induction b as [|a' op'|l IH|l IH|x IH|x IH|x IH|l IH] using body_ind'; cbn [asgs maxcount]; intros Hin Hop.
    - destruct Hin.
    - cbn [filter fst] in Hin. destruct (Nat.eqb a a'); cbn [map snd In] in Hin; [|destruct Hin].
      destruct Hin as [E|[]]. subst op'. destruct Hop as [-> | ->]; lia.
    - apply cap2_ge2. induction IH as [|x l Hx Hl IHl]; [destruct Hin|].
      cbn [flat_map map list_sum fold_right] in *. rewrite filter_app, map_app in Hin. apply in_app_or in Hin as [Hin|Hin].
      + specialize (Hx Hin Hop). lia.
      + specialize (IHl Hin). unfold list_sum in IHl. lia.
    - apply list_max_ge; [lia|]. induction IH as [|x l Hx Hl IHl]; [destruct Hin|].
      cbn [flat_map map] in *. rewrite filter_app, map_app in Hin. apply in_app_or in Hin as [Hin|Hin].
      + exists (maxcount a x). split; [left; reflexivity | apply Hx; assumption].
      + destruct (IHl Hin) as [n [Hn Hle]]. exists n. split; [right; exact Hn | exact Hle].
    - apply IH; assumption.
    - specialize (IH Hin Hop). destruct (maxcount a x); lia.
    - specialize (IH Hin Hop). destruct (maxcount a x); lia.
    - apply cap2_ge2. induction IH as [|x l Hx Hl IHl]; [destruct Hin|].
      cbn [flat_map map list_sum fold_right] in *. rewrite filter_app, map_app in Hin. apply in_app_or in Hin as [Hin|Hin].
      + specialize (Hx Hin Hop). lia.
      + specialize (IHl Hin). unfold list_sum in IHl. lia.
  Qed.

  Lemma fold_base_many ops m :
    many (fold_left (fun m op => src_op_base op m) ops m) ->
    many m \/ exists op, In op ops /\ (op = OpStar \/ op = OpPlus).
  Proof.
    revert m. induction ops as [|op ops IH]; intros m H; cbn [fold_left] in H; [auto|].
    apply IH in H as [H | [op' [Hin Hop]]].
    - apply op_base_many in H as [H|H]; [auto | right; exists op; split; [left; reflexivity | exact H]].
    - right. exists op'. split; [right; exact Hin | exact Hop].
  Qed.

  Lemma base_many b : many (base a b) -> 2 <= maxcount a b.
  Proof.
    unfold base. intro H. apply fold_base_many in H as [H | [op [Hin Hop]]].
    - exfalso. exact (default_not_many H).
    - eapply listop_maxcount; eassumption.
  Qed.

  (* the main result: list-valued exactly when more than one value can be collected *)
  Theorem infer_list_iff b : is_list (infer b a) = true <-> 2 <= maxcount a b.
  Proof.
    unfold infer, infer_with. rewrite src_inherits, src_merged, many_is_list.
    destruct (walk_spec b) as [_ H1]. specialize (H1 _ walk_init_not_many (false, base a b)).
    unfold wk in H1. cbn [fst snd] in H1. destruct H1 as [H1 _]. fold (many (snd (walk true true a b src_walk_init (false, base a b)))).
    rewrite H1. split.
    - intros [H | [H | [H _]]]; [apply base_many, H | exact H | discriminate].
    - auto.
  Qed.
End WalkSpec.
