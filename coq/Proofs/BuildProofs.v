(* Lemmas about Model/Build.v: pos_to_linecol exactness, spans of parse-tree nodes, spans of
   the objects built from them. *)
From TxV Require Import Core.Base Model.PegSyntax Model.Peg Model.Build.
Require Import Lia.

(* ================================================================ pos_to_linecol *)
Definition count_nl (l : list N) : nat := List.length (filter (fun c => N.eqb c 10) l).

Lemma line_ends_length l off : List.length (line_ends_from l off) = count_nl l.
Proof.
  revert off; induction l as [|c l IH]; intro off; [reflexivity|].
  unfold count_nl in *. cbn [line_ends_from filter]. destruct (N.eqb c 10); cbn [List.length]; rewrite IH; reflexivity.
Qed.

Lemma line_ends_bounds l off e : In e (line_ends_from l off) -> off <= e < off + List.length l.
Proof.
  revert off; induction l as [|c l IH]; intros off H; [destruct H|].
  cbn [line_ends_from] in H. cbn [List.length].
  destruct (N.eqb c 10).
  - destruct H as [<-|H]; [lia|]. apply IH in H. lia.
  - apply IH in H. lia.
Qed.

Lemma line_ends_nl l off e : In e (line_ends_from l off) -> nth_error l (e - off) = Some 10%N.
Proof.
  revert off; induction l as [|c l IH]; intros off H; [destruct H|].
  cbn [line_ends_from] in H. destruct (N.eqb c 10) eqn:E.
  - destruct H as [<-|H].
    + replace (off - off) with 0 by lia. apply N.eqb_eq in E. subst. reflexivity.
    + pose proof (line_ends_bounds _ _ _ H) as B. apply IH in H.
      replace (e - off) with (S (e - S off)) by lia. exact H.
  - pose proof (line_ends_bounds _ _ _ H) as B. apply IH in H.
    replace (e - off) with (S (e - S off)) by lia. exact H.
Qed.

Lemma filter_none {A} (f : A -> bool) l : (forall e, In e l -> f e = false) -> filter f l = [].
Proof.
  induction l as [|x xs IH]; intro H; [reflexivity|].
  cbn [filter]. rewrite (H x (or_introl eq_refl)). apply IH. intros e He. apply H. right; exact He.
Qed.

(* the line ends below p are those of the first p characters *)
Lemma line_ends_filter l off p :
  filter (fun e => Nat.ltb e p) (line_ends_from l off) = line_ends_from (firstn (p - off) l) off.
Proof.
  revert off; induction l as [|c l IH]; intro off.
  - rewrite firstn_nil. reflexivity.
  - destruct (p - off) as [|k] eqn:Ek.
    + rewrite filter_none; [reflexivity|].
      intros e He. apply line_ends_bounds in He. apply Nat.ltb_ge. lia.
    + cbn [firstn line_ends_from]. specialize (IH (S off)).
      replace (p - S off) with k in IH by lia.
      destruct (N.eqb c 10).
      * cbn [filter]. assert (Hlt : Nat.ltb off p = true) by (apply Nat.ltb_lt; lia).
        rewrite Hlt. rewrite IH. reflexivity.
      * exact IH.
Qed.

Lemma line_ends_app l1 l2 off :
  line_ends_from (l1 ++ l2) off = line_ends_from l1 off ++ line_ends_from l2 (off + List.length l1).
Proof.
  revert off; induction l1 as [|c l1 IH]; intro off.
  - cbn. rewrite Nat.add_0_r. reflexivity.
  - cbn [app line_ends_from List.length]. rewrite IH. replace (S off + List.length l1) with (off + S (List.length l1)) by lia.
    destruct (N.eqb c 10); reflexivity.
Qed.

(* position of the last newline of l (offset off), as the last element of line_ends *)
Lemma line_ends_last l off d :
  line_ends_from l off <> [] ->
  let e := last (line_ends_from l off) d in
  off <= e < off + List.length l /\ nth_error l (e - off) = Some 10%N /\
  forall q, e < q < off + List.length l -> nth_error l (q - off) <> Some 10%N.
Proof.
  intros Hne e.
  assert (Hin : In e (line_ends_from l off)).
  { subst e. destruct (exists_last Hne) as [xs [x E]]. rewrite E. rewrite last_last. apply in_or_app. right; left; reflexivity. }
  pose proof (line_ends_bounds _ _ _ Hin) as Hb.
  split; [exact Hb|]. split; [apply (line_ends_nl _ _ _ Hin)|].
  intros q Hq Hnl.
  (* split l at q - off: a newline at q would be a line end after e *)
  assert (Hsplit : l = firstn (q - off) l ++ skipn (q - off) l) by (symmetry; apply firstn_skipn).
  assert (Hlen : List.length (firstn (q - off) l) = q - off) by (rewrite firstn_length; lia).
  assert (E2 : line_ends_from l off = line_ends_from (firstn (q - off) l) off ++ line_ends_from (skipn (q - off) l) q).
  { pose proof (line_ends_app (firstn (q - off) l) (skipn (q - off) l) off) as E0.
    rewrite firstn_skipn in E0. rewrite Hlen in E0. replace (off + (q - off)) with q in E0 by lia. exact E0. }
  destruct (skipn (q - off) l) as [|c rest] eqn:Esk.
  - assert (List.length (skipn (q - off) l) = 0) by (rewrite Esk; reflexivity). rewrite skipn_length in H. lia.
  - assert (Hc : c = 10%N).
    { assert (nth_error l (q - off) = nth_error (skipn (q - off) l) 0).
      { pose proof (nth_error_app2 (firstn (q - off) l) (skipn (q - off) l) (n := q - off)) as E0.
        rewrite firstn_skipn in E0. rewrite E0 by lia. rewrite Hlen. replace (q - off - (q - off)) with 0 by lia. reflexivity. }
      rewrite Esk in H. cbn in H. congruence. }
    subst c. cbn [line_ends_from] in E2. rewrite N.eqb_refl in E2.
    assert (Hlast : exists x, e = x /\ q <= x).
    { subst e. rewrite E2.
      remember (line_ends_from rest (S q)) as tl.
      destruct (@exists_last _ (q :: tl)) as [xs [x E]]; [discriminate|].
      rewrite E. rewrite app_assoc. rewrite last_last. exists x. split; [reflexivity|].
      assert (In x (q :: tl)) by (rewrite E; apply in_or_app; right; left; reflexivity).
      destruct H as [<-|H]; [lia|]. subst tl. apply line_ends_bounds in H. lia. }
    destruct Hlast as [x [Ex Hx]]. lia.
Qed.

Lemma nth_filter_prefix (l1 l2 : list nat) k d : k < List.length l1 -> nth k (l1 ++ l2) d = nth k l1 d.
Proof. intro H. apply app_nth1. exact H. Qed.

(* Exactness: line = 1 + number of newlines before p; col = p - (start of that line) + 1 *)
Lemma pos_to_linecol_exact input p line col :
  p <= List.length input ->
  pos_to_linecol input p = (line, col) ->
  line = 1 + count_nl (firstn p input) /\
  exists ls, ls <= p /\ col = p - ls + 1 /\
             (ls = 0 \/ nth_error input (ls - 1) = Some 10%N) /\
             (forall q, ls <= q < p -> nth_error input q <> Some 10%N).
Proof.
  intros Hp H. unfold pos_to_linecol in H.
  set (les := line_ends_from input 0) in *.
  assert (Ef : filter (fun e => Nat.ltb e p) les = line_ends_from (firstn p input) 0).
  { subst les. rewrite line_ends_filter. rewrite Nat.sub_0_r. reflexivity. }
  assert (Eles : les = line_ends_from (firstn p input) 0 ++ line_ends_from (skipn p input) p).
  { subst les. pose proof (line_ends_app (firstn p input) (skipn p input) 0) as E0.
    rewrite firstn_skipn in E0. rewrite firstn_length in E0.
    replace (0 + Nat.min p (List.length input)) with p in E0 by lia. exact E0. }
  unfold bisect_left in H. rewrite Ef in H. rewrite line_ends_length in H.
  inversion H as [[Hl Hc]]. clear H.
  split; [lia|].
  destruct (count_nl (firstn p input)) as [|n] eqn:En.
  - exists 0. split; [lia|]. split; [lia|]. split; [left; reflexivity|].
    intros q Hq Hnl.
    assert (In q (line_ends_from (firstn p input) 0) -> False).
    { intro Hin. pose proof (line_ends_length (firstn p input) 0) as L. rewrite En in L.
      destruct (line_ends_from (firstn p input) 0); [destruct Hin | discriminate]. }
    (* a newline at q < p is a line end of the prefix *)
    assert (Hsplit : firstn p input = firstn q (firstn p input) ++ skipn q (firstn p input)) by (symmetry; apply firstn_skipn).
    assert (Hnl' : nth_error (firstn p input) q = Some 10%N).
    { rewrite <- (firstn_skipn p input) in Hnl. rewrite nth_error_app1 in Hnl; [exact Hnl|]. rewrite firstn_length. lia. }
    unfold count_nl in En.
    assert (In 10%N (filter (fun c => N.eqb c 10) (firstn p input))).
    { apply filter_In. split; [eapply nth_error_In; exact Hnl' | reflexivity]. }
    destruct (filter (fun c => N.eqb c 10) (firstn p input)); [destruct H0 | discriminate].
  - assert (Hne : line_ends_from (firstn p input) 0 <> []).
    { intro E. pose proof (line_ends_length (firstn p input) 0) as L. rewrite E, En in L. discriminate. }
    pose proof (line_ends_last (firstn p input) 0 0 Hne) as HL. cbv zeta in HL.
    assert (Enth : nth n les 0 = last (line_ends_from (firstn p input) 0) 0).
    { rewrite Eles. rewrite app_nth1 by (rewrite line_ends_length; lia).
      pose proof (line_ends_length (firstn p input) 0) as L. rewrite En in L.
      destruct (exists_last Hne) as [xs [x E]]. rewrite E. rewrite last_last.
      rewrite E in L. rewrite app_length in L. cbn in L.
      rewrite app_nth2 by lia. replace (n - List.length xs) with 0 by lia. reflexivity. }
    rewrite Enth. set (e := last (line_ends_from (firstn p input) 0) 0) in *.
    destruct HL as [Hb [Hnl Hno]]. rewrite firstn_length in Hb.
    exists (S e). split; [lia|]. split; [lia|]. split.
    + right. replace (S e - 1) with e by lia. rewrite Nat.sub_0_r in Hnl.
      rewrite <- (firstn_skipn p input). rewrite nth_error_app1; [exact Hnl|]. rewrite firstn_length. lia.
    + intros q Hq Hq'. apply (Hno q).
      * rewrite firstn_length. lia.
      * rewrite Nat.sub_0_r. rewrite <- (firstn_skipn p input) in Hq'. rewrite nth_error_app1 in Hq'; [exact Hq'|].
        rewrite firstn_length. lia.
Qed.

(* ================================================================ spans of parse-tree nodes *)
Section TreeInd.
Variable P : tree -> Prop.
Hypothesis HT : forall n p l s, P (T n p l s).
Hypothesis HNT : forall n kids, Forall P kids -> P (NT n kids).
Fixpoint tree_ind2 (t : tree) : P t :=
  match t with
  | T n p l s => HT n p l s
  | NT n kids => HNT n kids ((fix go (l : list tree) : Forall P l :=
                               match l with
                               | [] => Forall_nil P
                               | x :: l' => Forall_cons x (tree_ind2 x) (go l')
                               end) kids)
  end.
End TreeInd.

Lemma tpos_NT n k r : tpos (NT n (k :: r)) = tpos k.
Proof. reflexivity. Qed.
Lemma tend_single n k : tend (NT n [k]) = tend k.
Proof. reflexivity. Qed.
Lemma tend_cons n k1 k2 r : tend (NT n (k1 :: k2 :: r)) = tend (NT n (k2 :: r)).
Proof.
  cbn [tend].
  destruct ((fix lastend (l : list tree) : option nat :=
               match l with
               | [] => None
               | k :: l' => match lastend l' with Some e => Some e | None => Some (tend k) end
               end) r); reflexivity.
Qed.

(* children laid out left to right from a frontier *)
Fixpoint chain (hi : nat) (l : list tree) : Prop :=
  match l with
  | [] => True
  | k :: l' => hi <= tpos k /\ tpos k < tend k /\ chain (tend k) l'
  end.

Lemma chain_of_ordered l :
  Forall (fun k => tpos k < tend k) l -> ordered l = true ->
  match l with [] => True | k :: _ => chain (tpos k) l end.
Proof.
  induction l as [|k1 l IH]; intros HF Ho; [exact I|].
  inversion HF as [|? ? H1 HF']; subst.
  cbn [chain]. split; [lia|]. split; [exact H1|].
  destruct l as [|k2 r]; [exact I|].
  cbn [ordered] in Ho. apply andb_true_iff in Ho as [Hle Ho]. apply Nat.leb_le in Hle.
  specialize (IH HF' Ho). cbn [chain] in IH |- *. destruct IH as [_ [H2 H3]].
  split; [exact Hle|]. split; assumption.
Qed.

Lemma chain_mono hi hi' l : chain hi l -> hi' <= hi -> chain hi' l.
Proof. destruct l as [|k r]; [trivial|]. cbn [chain]. intros [H1 H2] H. split; [lia|exact H2]. Qed.

(* the end of a non-empty chain of children *)
Lemma chain_spans n k r hi :
  chain hi (k :: r) ->
  hi <= tpos (NT n (k :: r)) /\ tpos (NT n (k :: r)) < tend (NT n (k :: r)) /\
  (forall x, In x (k :: r) -> tpos (NT n (k :: r)) <= tpos x /\ tend x <= tend (NT n (k :: r))).
Proof.
  revert k hi; induction r as [|k2 r IH]; intros k hi Hc.
  - cbn [chain] in Hc. destruct Hc as [H1 [H2 _]]. rewrite tpos_NT, tend_single.
    split; [exact H1|]. split; [exact H2|]. intros x [<-|[]]. lia.
  - cbn [chain] in Hc. destruct Hc as [H1 [H2 Hc]].
    specialize (IH k2 (tend k) Hc). destruct IH as [I1 [I2 I3]].
    rewrite tend_cons. rewrite tpos_NT in *.
    split; [exact H1|]. split; [lia|].
    intros x [<-|Hx].
    + lia.
    + specialize (I3 x Hx). lia.
Qed.

Lemma wf_tree_NT n kids :
  wf_tree (NT n kids) = true -> kids <> [] /\ Forall (fun k => wf_tree k = true) kids /\ ordered kids = true.
Proof.
  cbn [wf_tree]. intro H. apply andb_true_iff in H as [H Ho]. apply andb_true_iff in H as [Hne Hf].
  split; [destruct kids; [discriminate | discriminate]|]. split; [|exact Ho].
  apply Forall_forall. intros x Hx. rewrite forallb_forall in Hf. apply Hf. exact Hx.
Qed.

Lemma wf_tree_nonempty t : wf_tree t = true -> tpos t < tend t.
Proof.
  induction t as [n p l s | n kids IH] using tree_ind2; intro H.
  - cbn [wf_tree tpos tend] in *. apply Nat.ltb_lt in H. lia.
  - apply wf_tree_NT in H as [Hne [Hf Ho]].
    assert (HF : Forall (fun k => tpos k < tend k) kids).
    { apply Forall_forall. intros x Hx. rewrite Forall_forall in IH, Hf. apply IH; [exact Hx | apply Hf; exact Hx]. }
    destruct kids as [|k r]; [congruence|].
    pose proof (chain_of_ordered _ HF Ho) as Hc. cbv beta iota in Hc.
    apply (chain_spans n) in Hc. tauto.
Qed.

Lemma wf_tree_chain n k r :
  wf_tree (NT n (k :: r)) = true -> chain (tpos k) (k :: r).
Proof.
  intro H. apply wf_tree_NT in H as [_ [Hf Ho]].
  assert (HF : Forall (fun k => tpos k < tend k) (k :: r)).
  { apply Forall_forall. intros x Hx. rewrite Forall_forall in Hf. apply wf_tree_nonempty. apply Hf. exact Hx. }
  exact (chain_of_ordered _ HF Ho).
Qed.

(* nesting of children in their parent *)
Lemma wf_tree_nesting n kids x :
  wf_tree (NT n kids) = true -> In x kids ->
  tpos (NT n kids) <= tpos x /\ tend x <= tend (NT n kids).
Proof.
  intros H Hx. destruct kids as [|k r]; [destruct Hx|].
  pose proof (wf_tree_chain _ _ _ H) as Hc. apply (chain_spans n) in Hc. destruct Hc as [_ [_ H3]]. apply H3. exact Hx.
Qed.

(* siblings are ordered and disjoint *)
Lemma chain_after hi k r x : chain hi (k :: r) -> In x r -> tend k <= tpos x.
Proof.
  revert hi k; induction r as [|k2 r IH]; intros hi k Hc Hx; [destruct Hx|].
  cbn [chain] in Hc. destruct Hc as [_ [_ Hc]].
  destruct Hx as [<-|Hx].
  - cbn [chain] in Hc. tauto.
  - pose proof (IH _ _ Hc Hx). cbn [chain] in Hc. lia.
Qed.

Lemma wf_tree_siblings n l1 k1 l2 k2 l3 :
  wf_tree (NT n (l1 ++ k1 :: l2 ++ k2 :: l3)) = true -> tend k1 <= tpos k2.
Proof.
  intro H. apply wf_tree_NT in H as [_ [Hf Ho]].
  assert (HF : Forall (fun k => tpos k < tend k) (l1 ++ k1 :: l2 ++ k2 :: l3)).
  { apply Forall_forall. intros x Hx. rewrite Forall_forall in Hf. apply wf_tree_nonempty. apply Hf. exact Hx. }
  clear Hf. induction l1 as [|a l1 IH].
  - cbn [app] in *. pose proof (chain_of_ordered _ HF Ho) as Hc. cbv beta iota in Hc.
    eapply chain_after; [exact Hc|]. apply in_or_app. right; left; reflexivity.
  - apply IH.
    + cbn [app ordered] in Ho. destruct (l1 ++ k1 :: l2 ++ k2 :: l3) eqn:E; [reflexivity|].
      apply andb_true_iff in Ho. tauto.
    + inversion HF; assumption.
Qed.

(* first / last terminal *)
Fixpoint leaves (t : tree) : list (nat * nat) :=
  match t with
  | T _ p len _ => [(p, len)]
  | NT _ kids => flat_map leaves kids
  end.

Lemma leaves_span t :
  wf_tree t = true ->
  exists p len rest, leaves t = (p, len) :: rest /\ tpos t = p /\
  exists p2 len2 pre, leaves t = pre ++ [(p2, len2)] /\ tend t = p2 + len2.
Proof.
  induction t as [n p l s | n kids IH] using tree_ind2; intro H.
  - exists p, l, []. split; [reflexivity|]. split; [reflexivity|]. exists p, l, []. split; reflexivity.
  - apply wf_tree_NT in H as [Hne [Hf _]].
    assert (IH' : Forall (fun k => exists p len rest, leaves k = (p, len) :: rest /\ tpos k = p /\
                   exists p2 len2 pre, leaves k = pre ++ [(p2, len2)] /\ tend k = p2 + len2) kids).
    { apply Forall_forall. intros x Hx. rewrite Forall_forall in IH, Hf. apply IH; [exact Hx | apply Hf; exact Hx]. }
    clear IH Hf. destruct kids as [|k r]; [congruence|]. clear Hne.
    inversion IH' as [|? ? Hk Hr]; subst.
    destruct Hk as [p [len [rest [E1 [E2 _]]]]].
    exists p, len, (rest ++ flat_map leaves r). split; [cbn [leaves flat_map]; rewrite E1; reflexivity|].
    split; [exact E2|].
    clear E1 E2 p len rest Hr. revert k IH'. induction r as [|k2 r IHr]; intros k IH'.
    + inversion IH' as [|? ? Hk _]; subst. destruct Hk as [_ [_ [_ [_ [_ [p2 [len2 [pre [E3 E4]]]]]]]]].
      exists p2, len2, pre. cbn [leaves flat_map]. rewrite app_nil_r. split; [exact E3 | rewrite tend_single; exact E4].
    + inversion IH' as [|? ? _ Hr']; subst. destruct (IHr k2 Hr') as [p2 [len2 [pre [E3 E4]]]].
      exists p2, len2, (leaves k ++ pre). split.
      * cbn [leaves flat_map] in *. rewrite E3. rewrite app_assoc. reflexivity.
      * rewrite tend_cons. exact E4.
Qed.

Lemma get_location_exact input p e line col nchar :
  p <= List.length input ->
  get_location input p e = ((line, col), nchar) ->
  nchar = e - p /\
  line = 1 + count_nl (firstn p input) /\
  exists ls, ls <= p /\ col = p - ls + 1 /\
             (ls = 0 \/ nth_error input (ls - 1) = Some 10%N) /\
             (forall q, ls <= q < p -> nth_error input q <> Some 10%N).
Proof.
  intros Hp H. unfold get_location in H.
  destruct (pos_to_linecol input p) as [l c] eqn:E. inversion H; subst.
  split; [reflexivity|]. exact (pos_to_linecol_exact _ _ _ _ Hp E).
Qed.
