From Coq Require Import Sorting.Sorted Permutation.
From TxV Require Import Core.Base Gen.SrcResolve Model.Resolve Proofs.ResolveOrderProofs Proofs.ResolveRetryProofs.

(* ================================================================ the facts read from textx/model.py
   (Gen/SrcResolve.v).  Every theorem below is proved for the model instantiated with the
   generated constants; when one of them changes, the corresponding lemma here stops
   compiling and the theorems that need it are no longer established. *)
Lemma fact_count_list : counts_list_resolution = true. Proof. reflexivity. Qed.
Lemma fact_count_scalar : counts_scalar_resolution = true. Proof. reflexivity. Qed.
Lemma fact_loop : loop_condition = [(true, 0); (false, 0)]. Proof. reflexivity. Qed.

Lemma counted_one x : counted x = 1.
Proof. unfold counted. rewrite fact_count_list, fact_count_scalar. destruct (xmany x); reflexivity. Qed.
Lemma cond_eq u c : forallb (holds u c) loop_condition = (Nat.ltb 0 u && Nat.ltb 0 c)%bool.
Proof. rewrite fact_loop. cbn [forallb holds fst snd]. rewrite andb_true_r. reflexivity. Qed.
Lemma err_eq u c : holds u c error_condition = Nat.ltb 0 u.
Proof. rewrite fact_error. reflexivity. Qed.

(* ================================================================ the resolver in canonical form:
   what Model/Resolve.v computes under the facts above (one queue, every resolution counts) *)
Fixpoint cstep (ans : provider) (pend : list xref) (st : state) : option (state * list xref * nat) :=
  match pend with
  | [] => Some (st, [], 0)
  | x :: r =>
      match ans x st with
      | NotFound => None
      | Postponed => match cstep ans r (bump x st) with
                     | Some (st', d, c) => Some (st', x :: d, c)
                     | None => None
                     end
      | Resolved t => match cstep ans r (store x t (bump x st)) with
                      | Some (st', d, c) => Some (st', d, S c)
                      | None => None
                      end
      end
  end.

Fixpoint cround (ans : provider) (models : list (list xref)) (st : state) : option (state * list (list xref) * nat) :=
  match models with
  | [] => Some (st, [], 0)
  | m :: ms =>
      match cstep ans m st with
      | None => None
      | Some (st1, d, c) =>
          match cround ans ms st1 with
          | None => None
          | Some (st2, ds, c') => Some (st2, d :: ds, c + c')
          end
      end
  end.

Fixpoint cloop (fuel : nat) (ans : provider) (models : list (list xref)) (st : state) : outcome :=
  match fuel with
  | O => OutOfFuel
  | S f =>
      match cround ans models st with
      | None => UnknownObject
      | Some (st', models', c) =>
          if (Nat.ltb 0 (total models') && Nat.ltb 0 c)%bool then cloop f ans models' st'
          else if Nat.ltb 0 (total models') then Unresolvable models' st'
          else Ok st'
      end
  end.

Definition cload (ans : provider) (models : list (list xref)) : outcome := cloop (S (total models)) ans models init.

Definition lift_step (r : option (state * list xref * nat)) : option (state * list xref * list xref * nat) :=
  match r with Some (st', d, c) => Some (st', d, d, c) | None => None end.
Definition lift_round (r : option (state * list (list xref) * nat)) : option (state * list (list xref) * list (list xref) * nat) :=
  match r with Some (st', d, c) => Some (st', d, d, c) | None => None end.

Lemma step_eq ans : forall pend st, step ans pend st = lift_step (cstep ans pend st).
Proof.
  induction pend as [|x r IH]; intro st; cbn [step cstep]; [reflexivity|].
  destruct (ans x st) as [t| |]; [| |reflexivity].
  - rewrite IH. destruct (cstep ans r _) as [[[st1 d1] c1]|]; cbn [lift_step]; [|reflexivity].
    rewrite counted_one. reflexivity.
  - rewrite IH. destruct (cstep ans r _) as [[[st1 d1] c1]|]; cbn [lift_step]; [|reflexivity].
    rewrite carry_requeue, carry_report. reflexivity.
Qed.

Lemma round_eq ans : forall models st, round ans models st = lift_round (cround ans models st).
Proof.
  induction models as [|m ms IH]; intro st; cbn [round cround]; [reflexivity|].
  rewrite step_eq. destruct (cstep ans m st) as [[[st1 d] c1]|]; cbn [lift_step lift_round]; [|reflexivity].
  rewrite IH. destruct (cround ans ms st1) as [[[st2 ds] c2]|]; reflexivity.
Qed.

Lemma loop_eq ans : forall fuel models st, loop fuel ans models st = cloop fuel ans models st.
Proof.
  induction fuel as [|f IH]; intros models st; cbn [loop cloop]; [reflexivity|].
  rewrite round_eq. destruct (cround ans models st) as [[[st' models'] c]|]; cbn [lift_round]; [|reflexivity].
  rewrite cond_eq, err_eq, IH. reflexivity.
Qed.

Lemma load_eq ans models : load ans models = cload ans models.
Proof. apply loop_eq. Qed.

(* a Postponed reference keeps its place: the new pending list is the delayed list and both are
   the not-yet-resolved references in their textual order *)
Lemma cstep_sub ans : forall pend st st' d c, cstep ans pend st = Some (st', d, c) -> sub d pend.
Proof.
  induction pend as [|x r IH]; intros st st' d c H; cbn [cstep] in H.
  - inversion H; subst. constructor.
  - destruct (ans x st) as [t| |]; [| |discriminate].
    + destruct (cstep ans r _) as [[[st1 d1] c1]|] eqn:E; [|discriminate]. inversion H; subst.
      apply sub_drop. exact (IH _ _ _ _ E).
    + destruct (cstep ans r _) as [[[st1 d1] c1]|] eqn:E; [|discriminate]. inversion H; subst.
      apply sub_keep. exact (IH _ _ _ _ E).
Qed.

Lemma cstep_len ans : forall pend st st' d c, cstep ans pend st = Some (st', d, c) -> length d + c = length pend.
Proof.
  induction pend as [|x r IH]; intros st st' d c E; cbn [cstep] in E.
  - inversion E; subst. reflexivity.
  - destruct (ans x st) as [t| |]; [| |discriminate].
    + destruct (cstep ans r _) as [[[st2 d2] c2]|] eqn:E2; [|discriminate]. inversion E; subst.
      specialize (IH _ _ _ _ E2). cbn [length]. lia.
    + destruct (cstep ans r _) as [[[st2 d2] c2]|] eqn:E2; [|discriminate]. inversion E; subst.
      specialize (IH _ _ _ _ E2). cbn [length]. lia.
Qed.

Theorem retry_in_order ans pend st st' np d c :
  step ans pend st = Some (st', np, d, c) -> np = d /\ sub np pend /\ length np + c = length pend.
Proof.
  rewrite step_eq. destruct (cstep ans pend st) as [[[st1 d1] c1]|] eqn:E; cbn [lift_step]; [|discriminate].
  intro H. inversion H; subst. split; [reflexivity|].
  split; [exact (cstep_sub _ _ _ _ _ _ E) | exact (cstep_len _ _ _ _ _ _ E)].
Qed.

(* ================================================================ generic facts about cstep / cround / cloop *)
Lemma step_counts ans : forall pend st st' d c,
  cstep ans pend st = Some (st', d, c) -> length d + c = length pend /\ incl d pend.
Proof.
  induction pend as [|x r IH]; intros st st' d c H; cbn [cstep] in H.
  - inversion H; subst. split; [reflexivity | intros ? []].
  - destruct (ans x st) as [t| |]; [| |discriminate].
    + destruct (cstep ans r _) as [[[st1 d1] c1]|] eqn:E; [|discriminate]. inversion H; subst.
      destruct (IH _ _ _ _ E) as [L I]. cbn [length]. split; [lia|]. intros y Hy. right. apply I. exact Hy.
    + destruct (cstep ans r _) as [[[st1 d1] c1]|] eqn:E; [|discriminate]. inversion H; subst.
      destruct (IH _ _ _ _ E) as [L I]. cbn [length]. split; [lia|].
      intros y [Hy|Hy]; [left; exact Hy | right; apply I; exact Hy].
Qed.

Lemma round_counts ans : forall models st st' models' c,
  cround ans models st = Some (st', models', c) -> total models' + c = total models.
Proof.
  unfold total. induction models as [|m ms IH]; intros st st' models' c H; cbn [cround] in H.
  - inversion H; subst. reflexivity.
  - destruct (cstep ans m st) as [[[st1 d] c1]|] eqn:E1; [|discriminate].
    destruct (cround ans ms st1) as [[[st2 ds] c2]|] eqn:E2; [|discriminate]. inversion H; subst.
    cbn [concat]. rewrite !app_length. specialize (IH _ _ _ _ E2).
    destruct (step_counts _ _ _ _ _ _ E1) as [L _]. lia.
Qed.

(* termination: with fuel above the number of pending references the cloop never runs dry,
   whatever the provider answers *)
Lemma loop_fuel ans : forall fuel models st, total models < fuel -> cloop fuel ans models st <> OutOfFuel.
Proof.
  induction fuel as [|f IH]; intros models st Hf; [lia|]. cbn [cloop].
  destruct (cround ans models st) as [[[st' models'] c]|] eqn:E; [|discriminate].
  pose proof (round_counts _ _ _ _ _ _ E) as Hc.
  destruct (Nat.ltb 0 (total models')) eqn:E1; destruct (Nat.ltb 0 c) eqn:E2; cbn [andb]; try discriminate.
  apply IH. apply Nat.ltb_lt in E2. lia.
Qed.

Theorem cload_terminates ans models : cload ans models <> OutOfFuel.
Proof. unfold cload. apply loop_fuel. lia. Qed.

Lemma step_NoDup ans : forall pend st others st' d c,
  cstep ans pend st = Some (st', d, c) -> NoDup (pend ++ others) -> NoDup (d ++ others).
Proof.
  induction pend as [|x r IH]; intros st others st' d c H ND; cbn [cstep] in H.
  - inversion H; subst. exact ND.
  - cbn [app] in ND. inversion ND as [|? ? Hnin ND']; subst.
    destruct (ans x st) as [t| |]; [| |discriminate].
    + destruct (cstep ans r _) as [[[st1 d1] c1]|] eqn:E; [|discriminate]. inversion H; subst.
      apply (IH _ _ _ _ _ E ND').
    + destruct (cstep ans r _) as [[[st1 d1] c1]|] eqn:E; [|discriminate]. inversion H; subst.
      cbn [app]. constructor.
      * intro Hin. apply Hnin. apply in_app_iff in Hin as [Hin|Hin]; apply in_app_iff; [left|right; exact Hin].
        destruct (step_counts _ _ _ _ _ _ E) as [_ I]. apply I. exact Hin.
      * apply (IH _ _ _ _ _ E ND').
Qed.

(* ================================================================ C09: providers given by a monotone readiness
   predicate over the set of resolved references reach the least fixpoint *)
Section Lfp.
  Variable all : list xref.
  Hypothesis ids_unique : NoDup (map xid all).
  Variable ready : xref -> (nat -> bool) -> bool.
  Hypothesis ready_mono : forall x (S S' : nat -> bool),
    (forall i, S i = true -> S' i = true) -> ready x S = true -> ready x S' = true.

  (* i can be resolved by some order: it is ready given some set of references that can be *)
  Inductive mreach : nat -> Prop :=
  | mreach_intro x (S : nat -> bool) : In x all -> (forall i, S i = true -> mreach i) -> ready x S = true -> mreach (xid x).

  Definition Pend (st : state) (pend : list xref) : Prop :=
    (forall x, In x pend -> In x all /\ tgt st (xid x) = None) /\
    (forall x, In x all -> tgt st (xid x) = None -> In x pend).
  Definition Sound (st : state) : Prop :=
    forall i t, tgt st i = Some t -> mreach i /\ exists x, In x all /\ xid x = i /\ t = xtgt x.
  Definition stuck (st : state) (x : xref) : Prop := ready x (resolved_set st) = false.

  Lemma Pend_perm st p q : (forall x, In x p <-> In x q) -> Pend st p -> Pend st q.
  Proof.
    intros E [I2 I3]. split.
    - intros x Hx. apply I2. apply E. exact Hx.
    - intros x Hx Ht. apply E. apply I3; assumption.
  Qed.

  Lemma mono_ans_cases x st :
    (mono_ans ready x st = Resolved (xtgt x) /\ ready x (resolved_set st) = true) \/
    (mono_ans ready x st = Postponed /\ stuck st x).
  Proof.
    unfold mono_ans, stuck. destruct (ready x (resolved_set st)); [left | right]; split; reflexivity.
  Qed.

  Lemma stuck_ext st st' x : (forall i, tgt st' i = tgt st i) -> stuck st x -> stuck st' x.
  Proof.
    unfold stuck. intros E H. destruct (ready x (resolved_set st')) eqn:R; [|reflexivity].
    rewrite <- H. symmetry. apply (ready_mono x (resolved_set st')); [|exact R].
    intros i Hi. unfold resolved_set in *. rewrite <- E. exact Hi.
  Qed.

  Lemma same_id x y : In x all -> In y all -> xid x = xid y -> x = y.
  Proof. apply same_id_same_ref. exact ids_unique. Qed.

  Lemma step_dep : forall pend st others st' d c,
    cstep (mono_ans ready) pend st = Some (st', d, c) -> NoDup (pend ++ others) -> Pend st (pend ++ others) -> Sound st ->
    Pend st' (d ++ others) /\ Sound st'.
  Proof.
    induction pend as [|x r IH]; intros st others st' d c H ND HP HS; cbn [cstep] in H.
    - inversion H; subst. split; assumption.
    - cbn [app] in ND. inversion ND as [|? ? Hnin ND']; subst.
      destruct HP as [I2 I3]. destruct (I2 x (or_introl eq_refl)) as [Hx Hn].
      destruct (mono_ans_cases x st) as [[Ea Hready]|[Ea Hst]]; rewrite Ea in H.
      + destruct (cstep (mono_ans ready) r _) as [[[st1 d1] c1]|] eqn:E; [|discriminate]. inversion H; subst.
        apply (IH _ others _ _ _ E ND').
        * split.
          -- intros y Hy. destruct (I2 y (or_intror Hy)) as [Hya Hyn]. split; [exact Hya|].
             cbn [tgt store bump]. destruct (Nat.eqb (xid y) (xid x)) eqn:Eq; [|exact Hyn].
             apply Nat.eqb_eq in Eq. exfalso. apply Hnin. rewrite <- (same_id y x Hya Hx Eq). exact Hy.
          -- intros y Hya Hyn. cbn [tgt store bump] in Hyn.
             destruct (Nat.eqb (xid y) (xid x)) eqn:Eq; [discriminate|].
             destruct (I3 y Hya Hyn) as [Hy|Hy]; [|exact Hy]. subst y. rewrite Nat.eqb_refl in Eq. discriminate.
        * intros i t Hi. cbn [tgt store bump] in Hi. destruct (Nat.eqb i (xid x)) eqn:Eq.
          -- apply Nat.eqb_eq in Eq. subst i. inversion Hi; subst t. split.
             ++ apply (mreach_intro x (resolved_set st)); try assumption. intros dd Hdd. unfold resolved_set in Hdd.
                destruct (tgt st dd) as [t'|] eqn:Et; [|discriminate]. apply (HS dd t' Et).
             ++ exists x. repeat split; assumption.
          -- apply HS. exact Hi.
      + destruct (cstep (mono_ans ready) r _) as [[[st1 d1] c1]|] eqn:E; [|discriminate]. inversion H; subst.
        assert (ND3 : NoDup (r ++ x :: others)).
        { apply (Permutation_NoDup (l := x :: r ++ others)); [|exact ND]. apply Permutation_middle. }
        destruct (IH (bump x st) (x :: others) _ _ _ E ND3) as [HP' HS'].
        * apply (Pend_perm st ((x :: r) ++ others)); [|split; assumption].
          intro y. cbn [app]. rewrite !in_app_iff. cbn [In]. rewrite in_app_iff. tauto.
        * exact HS.
        * split; [|exact HS'].
          apply (Pend_perm _ (d1 ++ x :: others)); [|exact HP'].
          intro y. cbn [app]. rewrite !in_app_iff. cbn [In]. rewrite in_app_iff. tauto.
  Qed.

  Lemma step_dep_some : forall pend st, cstep (mono_ans ready) pend st <> None.
  Proof.
    induction pend as [|x r IH]; intro st; cbn [cstep]; [discriminate|].
    destruct (mono_ans_cases x st) as [[Ea _]|[Ea _]]; rewrite Ea.
    - specialize (IH (store x (xtgt x) (bump x st))). destruct (cstep (mono_ans ready) r _) as [[[? ?] ?]|]; [discriminate | congruence].
    - specialize (IH (bump x st)). destruct (cstep (mono_ans ready) r _) as [[[? ?] ?]|]; [discriminate | congruence].
  Qed.

  (* a pass that resolves nothing changes no target and finds every pending reference stuck *)
  Lemma step_zero : forall pend st st' d,
    cstep (mono_ans ready) pend st = Some (st', d, 0) ->
    d = pend /\ (forall i, tgt st' i = tgt st i) /\ (forall x, In x pend -> stuck st x).
  Proof.
    induction pend as [|x r IH]; intros st st' d H; cbn [cstep] in H.
    - inversion H; subst. repeat split; intros ? [].
    - destruct (mono_ans_cases x st) as [[Ea _]|[Ea Hst]]; rewrite Ea in H.
      + destruct (cstep (mono_ans ready) r _) as [[[st1 d1] c1]|]; [|discriminate]. inversion H.
      + destruct (cstep (mono_ans ready) r _) as [[[st1 d1] c1]|] eqn:E; [|discriminate]. inversion H; subst.
        destruct (IH _ _ _ E) as [Hd [Ht Hs]]. subst d1. split; [reflexivity|]. split.
        * intro i. rewrite Ht. reflexivity.
        * intros y [Hy|Hy]; [subst y; exact Hst | exact (Hs y Hy)].
  Qed.

  Lemma round_dep : forall models st others st' models' c,
    cround (mono_ans ready) models st = Some (st', models', c) ->
    NoDup (concat models ++ others) -> Pend st (concat models ++ others) -> Sound st ->
    Pend st' (concat models' ++ others) /\ NoDup (concat models' ++ others) /\ Sound st'.
  Proof.
    induction models as [|m ms IH]; intros st others st' models' c H ND HP HS; cbn [cround] in H.
    - inversion H; subst. split; [assumption | split; assumption].
    - destruct (cstep (mono_ans ready) m st) as [[[st1 d] c1]|] eqn:E1; [|discriminate].
      destruct (cround (mono_ans ready) ms st1) as [[[st2 ds] c2]|] eqn:E2; [|discriminate]. inversion H; subst.
      cbn [concat] in *. rewrite <- app_assoc in ND, HP.
      destruct (step_dep m st (concat ms ++ others) _ _ _ E1 ND HP HS) as [HP1 HS1].
      pose proof (step_NoDup (mono_ans ready) m st (concat ms ++ others) _ _ _ E1 ND) as ND1.
      assert (P1 : Permutation (d ++ concat ms ++ others) (concat ms ++ d ++ others)).
      { rewrite !app_assoc. apply Permutation_app_tail. apply Permutation_app_comm. }
      destruct (IH st1 (d ++ others) _ _ _ E2) as [HP2 [ND2 HS2]].
      + apply (Permutation_NoDup P1 ND1).
      + apply (Pend_perm st1 (d ++ concat ms ++ others)); [|exact HP1].
        intro y. split; apply Permutation_in; [exact P1 | apply Permutation_sym; exact P1].
      + exact HS1.
      + assert (P2 : Permutation (concat ds ++ d ++ others) ((d ++ concat ds) ++ others)).
        { rewrite !app_assoc. apply Permutation_app_tail. apply Permutation_app_comm. }
        split; [|split; [|exact HS2]].
        * apply (Pend_perm st' (concat ds ++ d ++ others)); [|exact HP2].
          intro y. split; apply Permutation_in; [exact P2 | apply Permutation_sym; exact P2].
        * apply (Permutation_NoDup P2 ND2).
  Qed.

  Lemma round_zero : forall models st st' models',
    cround (mono_ans ready) models st = Some (st', models', 0) ->
    models' = models /\ (forall i, tgt st' i = tgt st i) /\ (forall x, In x (concat models) -> stuck st x).
  Proof.
    induction models as [|m ms IH]; intros st st' models' H; cbn [cround] in H.
    - inversion H; subst. repeat split; intros ? [].
    - destruct (cstep (mono_ans ready) m st) as [[[st1 d] c1]|] eqn:E1; [|discriminate].
      destruct (cround (mono_ans ready) ms st1) as [[[st2 ds] c2]|] eqn:E2; [|discriminate]. inversion H; subst.
      assert (c1 = 0 /\ c2 = 0) as [-> ->] by lia.
      destruct (step_zero _ _ _ _ E1) as [Hd [Ht Hs]]. subst d.
      destruct (IH _ _ _ E2) as [Hds [Ht2 Hs2]]. subst ds. split; [reflexivity|]. split.
      + intro i. rewrite Ht2, Ht. reflexivity.
      + intros x Hx. cbn [concat] in Hx. apply in_app_iff in Hx as [Hx|Hx]; [apply Hs; exact Hx|].
        apply (stuck_ext st1); [intro i; symmetry; apply Ht | apply Hs2; exact Hx].
  Qed.

  (* once every pending reference is stuck, everything reachable has been resolved *)
  Lemma complete st pend : Pend st pend -> (forall x, In x pend -> stuck st x) ->
    forall i, mreach i -> tgt st i <> None.
  Proof.
    intros [I2 I3] Hst i Hr. induction Hr as [x S Hx HS IH Hready].
    intro Hn. specialize (Hst x (I3 x Hx Hn)). unfold stuck in Hst.
    rewrite (ready_mono x S (resolved_set st)) in Hst; [discriminate| |exact Hready].
    intros j Hj. unfold resolved_set. specialize (IH j Hj). destruct (tgt st j); [reflexivity | congruence].
  Qed.

  Lemma loop_dep : forall fuel models st,
    NoDup (concat models) -> Pend st (concat models) -> Sound st ->
    match cloop fuel (mono_ans ready) models st with
    | Ok st' => Pend st' [] /\ Sound st'
    | Unresolvable lf st' => Pend st' (concat lf) /\ Sound st' /\ concat lf <> [] /\
                             (forall x, In x (concat lf) -> stuck st' x)
    | UnknownObject => False
    | OutOfFuel => True
    end.
  Proof.
    induction fuel as [|f IH]; intros models st ND HP HS; cbn [cloop]; [exact I|].
    destruct (cround (mono_ans ready) models st) as [[[st' models'] c]|] eqn:E.
    2:{ exfalso. clear - E. revert st E. induction models as [|m ms IHm]; intros st E; cbn [cround] in E; [discriminate|].
        destruct (cstep (mono_ans ready) m st) as [[[st1 d] c1]|] eqn:E1; [|exact (step_dep_some _ _ E1)].
        destruct (cround (mono_ans ready) ms st1) as [[[? ?] ?]|] eqn:E2; [discriminate | exact (IHm _ E2)]. }
    destruct (round_dep models st [] _ _ _ E) as [HP' [ND' HS']]; rewrite ?app_nil_r; try assumption.
    rewrite app_nil_r in HP', ND'.
    destruct (Nat.ltb 0 (total models')) eqn:E1.
    - destruct (Nat.ltb 0 c) eqn:E2; cbn [andb].
      + apply IH; assumption.
      + apply Nat.ltb_ge in E2. assert (c = 0) by lia. subst c.
        destruct (round_zero _ _ _ _ E) as [Hm [Ht Hs]]. subst models'.
        split; [exact HP'|]. split; [exact HS'|]. split.
        * apply Nat.ltb_lt in E1. unfold total in E1. intro Hnil. rewrite Hnil in E1. cbn in E1. lia.
        * intros x Hx. apply (stuck_ext st); [exact Ht | apply Hs; exact Hx].
    - cbn [andb]. apply Nat.ltb_ge in E1. unfold total in E1.
      destruct (concat models') eqn:Ec; [split; assumption | cbn in E1; lia].
  Qed.
End Lfp.

Lemma Pend_init models : Pend (concat models) init (concat models).
Proof. split; [intros x Hx; split; [exact Hx | reflexivity] | intros x Hx _; exact Hx]. Qed.

Lemma Sound_init all ready : Sound all ready init.
Proof. intros i t H. discriminate. Qed.

Definition monotone (ready : xref -> (nat -> bool) -> bool) : Prop :=
  forall x (S S' : nat -> bool), (forall i, S i = true -> S' i = true) -> ready x S = true -> ready x S' = true.

Section Mono.
  Variable ready : xref -> (nat -> bool) -> bool.
  Hypothesis ready_mono : monotone ready.

  Lemma mono_loop models (ND : NoDup (map xid (concat models))) :
    match cload (mono_ans ready) models with
    | Ok st' => Pend (concat models) st' [] /\ Sound (concat models) ready st'
    | Unresolvable lf st' => Pend (concat models) st' (concat lf) /\ Sound (concat models) ready st' /\ concat lf <> [] /\
                             (forall x, In x (concat lf) -> stuck ready st' x)
    | UnknownObject => False
    | OutOfFuel => True
    end.
  Proof.
    exact (loop_dep (concat models) ND ready ready_mono (S (total models)) models init
             (NoDup_map_inv _ _ ND) (Pend_init models) (Sound_init _ _)).
  Qed.

  Theorem mono_ok : forall models st, NoDup (map xid (concat models)) ->
    cload (mono_ans ready) models = Ok st ->
    forall x, In x (concat models) -> mreach (concat models) ready (xid x) /\ tgt st (xid x) = Some (xtgt x).
  Proof.
    intros models st ND H x Hx. pose proof (mono_loop models ND) as L. rewrite H in L. destruct L as [[I2 I3] HS].
    destruct (tgt st (xid x)) as [t|] eqn:Et; [|destruct (I3 x Hx Et)].
    destruct (HS _ _ Et) as [Hr [y [Hy [Eid Etg]]]]. split; [exact Hr|].
    rewrite (same_id_same_ref _ ND y x Hy Hx Eid) in Etg. subst t. reflexivity.
  Qed.

  Theorem mono_fail : forall models lf st, NoDup (map xid (concat models)) ->
    cload (mono_ans ready) models = Unresolvable lf st ->
    concat lf <> [] /\
    forall x, In x (concat lf) <-> (In x (concat models) /\ ~ mreach (concat models) ready (xid x)).
  Proof.
    intros models lf st ND H. pose proof (mono_loop models ND) as L. rewrite H in L. destruct L as [HP [HS [Hne Hst]]].
    split; [exact Hne|]. intro x.
    pose proof (complete _ ready ready_mono st (concat lf) HP Hst) as Hc. destruct HP as [I2 I3]. split.
    - intro Hx. destruct (I2 x Hx) as [Ha Hn]. split; [exact Ha|]. intro Hr. exact (Hc _ Hr Hn).
    - intros [Ha Hnr]. apply I3; [exact Ha|]. destruct (tgt st (xid x)) as [t|] eqn:Et; [|reflexivity].
      exfalso. apply Hnr. apply (HS _ _ Et).
  Qed.

  Theorem mono_success_iff : forall models, NoDup (map xid (concat models)) ->
    ((exists st, cload (mono_ans ready) models = Ok st) <-> forall x, In x (concat models) -> mreach (concat models) ready (xid x)).
  Proof.
    intros models ND. split.
    - intros [st H] x Hx. apply (mono_ok models st ND H x Hx).
    - intro Hall. destruct (cload (mono_ans ready) models) as [st|lf st| |] eqn:E.
      + exists st. reflexivity.
      + exfalso. destruct (mono_fail models lf st ND E) as [Hne Hiff].
        destruct (concat lf) as [|y l] eqn:El; [congruence|].
        assert (Hy : In y (y :: l)) by (left; reflexivity).
        apply Hiff in Hy as [Hya Hnr]. apply Hnr. apply Hall. exact Hya.
      + exfalso. pose proof (mono_loop models ND) as L. rewrite E in L. exact L.
      + exfalso. exact (cload_terminates _ _ E).
  Qed.
End Mono.

Lemma mreach_ext ready a1 a2 : (forall x, In x a1 <-> In x a2) -> forall i, mreach a1 ready i -> mreach a2 ready i.
Proof.
  intros E i H. induction H as [x S Hx HS IH Hr]. apply (mreach_intro a2 ready x S); [apply E; exact Hx | exact IH | exact Hr].
Qed.

(* the verdict and the stored targets do not depend on how the references are spread over
   the models or in which order the resolver visits them *)
Theorem mono_order_independent ready : monotone ready -> forall m1 m2,
  NoDup (map xid (concat m1)) -> NoDup (map xid (concat m2)) ->
  (forall x, In x (concat m1) <-> In x (concat m2)) ->
  ((exists st, cload (mono_ans ready) m1 = Ok st) <-> (exists st, cload (mono_ans ready) m2 = Ok st)) /\
  (forall st1 st2, cload (mono_ans ready) m1 = Ok st1 -> cload (mono_ans ready) m2 = Ok st2 ->
     forall x, In x (concat m1) -> tgt st1 (xid x) = tgt st2 (xid x)).
Proof.
  intros Hm m1 m2 N1 N2 E. split.
  - rewrite (mono_success_iff ready Hm m1 N1), (mono_success_iff ready Hm m2 N2). split; intros H x Hx.
    + apply (mreach_ext ready (concat m1)); [exact E|]. apply H. apply E. exact Hx.
    + apply (mreach_ext ready (concat m2)); [intro y; symmetry; apply E|]. apply H. apply E. exact Hx.
  - intros st1 st2 H1 H2 x Hx.
    destruct (mono_ok ready Hm m1 st1 N1 H1 x Hx) as [_ ->].
    destruct (mono_ok ready Hm m2 st2 N2 H2 x (proj1 (E x) Hx)) as [_ ->]. reflexivity.
Qed.

(* ---------------------------------------------------------------- dependency tables are an instance *)
Lemma dep_ready_mono : monotone dep_ready.
Proof.
  intros x S S' Hsub H. unfold dep_ready in *. apply andb_true_iff in H as [H1 H2]. rewrite H1. cbn [andb].
  rewrite forallb_forall in *. intros d Hd. apply Hsub. apply H2. exact Hd.
Qed.

Section Table.
  Variable all : list xref.
  (* i can be resolved by some order: it is not "never" and everything it waits for can be *)
  Inductive reach : nat -> Prop :=
  | reach_intro x : In x all -> xnever x = false -> (forall d, In d (xdeps x) -> reach d) -> reach (xid x).

  Lemma reach_mreach i : reach i <-> mreach all dep_ready i.
  Proof.
    split; intro H.
    - induction H as [x Hx Hn Hd IH].
      apply (mreach_intro all dep_ready x (fun i => existsb (Nat.eqb i) (xdeps x))); [exact Hx| |].
      + intros i Hi. apply existsb_exists in Hi as [d [Hd1 Hd2]]. apply Nat.eqb_eq in Hd2. subst i. apply IH. exact Hd1.
      + unfold dep_ready. rewrite Hn. cbn [negb andb]. apply forallb_forall. intros d Hd'.
        apply existsb_exists. exists d. split; [exact Hd' | apply Nat.eqb_refl].
    - induction H as [x S Hx HS IH Hr]. unfold dep_ready in Hr. apply andb_true_iff in Hr as [H1 H2].
      apply reach_intro; [exact Hx | destruct (xnever x); [discriminate | reflexivity] |].
      intros d Hd. apply IH. rewrite forallb_forall in H2. apply H2. exact Hd.
  Qed.
End Table.

(* ================================================================ the theorems, for the model instantiated with
   the facts of the source (load = cload by load_eq) *)
Theorem load_terminates ans models : load ans models <> OutOfFuel.
Proof. rewrite load_eq. apply cload_terminates. Qed.


Theorem monotone_success_iff : forall ready, monotone ready -> forall models, NoDup (map xid (concat models)) ->
  ((exists st, load (mono_ans ready) models = Ok st) <-> forall x, In x (concat models) -> mreach (concat models) ready (xid x)).
Proof. intros ready Hm models. rewrite load_eq. apply mono_success_iff. exact Hm. Qed.

Theorem monotone_result : forall ready, monotone ready -> forall models st, NoDup (map xid (concat models)) ->
  load (mono_ans ready) models = Ok st ->
  forall x, In x (concat models) -> mreach (concat models) ready (xid x) /\ tgt st (xid x) = Some (xtgt x).
Proof. intros ready Hm models st. rewrite load_eq. apply mono_ok. exact Hm. Qed.

Theorem monotone_error_names : forall ready, monotone ready -> forall models lf st, NoDup (map xid (concat models)) ->
  load (mono_ans ready) models = Unresolvable lf st ->
  concat lf <> [] /\
  forall x, In x (concat lf) <-> (In x (concat models) /\ ~ mreach (concat models) ready (xid x)).
Proof. intros ready Hm models lf st. rewrite load_eq. apply mono_fail. exact Hm. Qed.

Theorem monotone_never_unknown : forall ready, monotone ready -> forall models, NoDup (map xid (concat models)) ->
  load (mono_ans ready) models <> UnknownObject.
Proof.
  intros ready Hm models ND E. rewrite load_eq in E. pose proof (mono_loop ready Hm models ND) as L. rewrite E in L. exact L.
Qed.

Theorem monotone_order_independent : forall ready, monotone ready -> forall m1 m2,
  NoDup (map xid (concat m1)) -> NoDup (map xid (concat m2)) ->
  (forall x, In x (concat m1) <-> In x (concat m2)) ->
  ((exists st, load (mono_ans ready) m1 = Ok st) <-> (exists st, load (mono_ans ready) m2 = Ok st)) /\
  (forall st1 st2, load (mono_ans ready) m1 = Ok st1 -> load (mono_ans ready) m2 = Ok st2 ->
     forall x, In x (concat m1) -> tgt st1 (xid x) = tgt st2 (xid x)).
Proof. intros ready Hm m1 m2. rewrite !load_eq. apply mono_order_independent. exact Hm. Qed.

(* dependency tables *)
Theorem fixpoint_ok : forall models st, NoDup (map xid (concat models)) ->
  load dep_ans models = Ok st ->
  forall x, In x (concat models) -> reach (concat models) (xid x) /\ tgt st (xid x) = Some (xtgt x).
Proof.
  intros models st ND H x Hx. destruct (monotone_result dep_ready dep_ready_mono models st ND H x Hx) as [H1 H2].
  split; [apply reach_mreach; exact H1 | exact H2].
Qed.

Theorem fixpoint_fail : forall models lf st, NoDup (map xid (concat models)) ->
  load dep_ans models = Unresolvable lf st ->
  forall x, In x (concat lf) <-> (In x (concat models) /\ ~ reach (concat models) (xid x)).
Proof.
  intros models lf st ND H x. destruct (monotone_error_names dep_ready dep_ready_mono models lf st ND H) as [_ Hiff].
  rewrite Hiff. rewrite reach_mreach. reflexivity.
Qed.

Theorem success_iff : forall models, NoDup (map xid (concat models)) ->
  ((exists st, load dep_ans models = Ok st) <-> forall x, In x (concat models) -> reach (concat models) (xid x)).
Proof.
  intros models ND. rewrite (monotone_success_iff dep_ready dep_ready_mono models ND).
  split; intros H x Hx; apply reach_mreach; apply H; exact Hx.
Qed.

Theorem order_independent : forall m1 m2,
  NoDup (map xid (concat m1)) -> NoDup (map xid (concat m2)) ->
  (forall x, In x (concat m1) <-> In x (concat m2)) ->
  ((exists st, load dep_ans m1 = Ok st) <-> (exists st, load dep_ans m2 = Ok st)) /\
  (forall st1 st2, load dep_ans m1 = Ok st1 -> load dep_ans m2 = Ok st2 ->
     forall x, In x (concat m1) -> tgt st1 (xid x) = tgt st2 (xid x)).
Proof. exact (monotone_order_independent dep_ready dep_ready_mono). Qed.

Lemma table_is_monotone_instance : monotone dep_ready /\ dep_ans = mono_ans dep_ready /\
  forall all i, reach all i <-> mreach all dep_ready i.
Proof. split; [exact dep_ready_mono | split; [reflexivity | exact reach_mreach]]. Qed.

(* a monotone readiness predicate that is not a dependency table: "waits for ANY ONE of" *)
Definition any_ready (x : xref) (S : nat -> bool) : bool :=
  match xdeps x with [] => true | ds => existsb S ds end.
Lemma any_ready_monotone : monotone any_ready.
Proof.
  intros x S S' Hsub H. unfold any_ready in *. destruct (xdeps x) as [|d ds]; [reflexivity|].
  apply existsb_exists in H as [e [H1 H2]]. apply existsb_exists. exists e. split; [exact H1 | apply Hsub; exact H2].
Qed.

(* ================================================================ providers that ask the resolver (snapshot view):
   termination for every such provider *)
Lemma qround_counts ans : forall models st settled st' pends dels c s',
  qround ans models st settled = Some (st', pends, dels, c, s') -> total pends + c = total models /\ dels = pends.
Proof.
  induction models as [|m ms IH]; intros st settled st' pends dels c s' H; cbn [qround] in H.
  - inversion H; subst. split; reflexivity.
  - destruct (step (ans settled) m st) as [[[[st1 np] d] c1]|] eqn:E1; [|discriminate].
    destruct (qround ans ms st1 _) as [[[[[st2 nps] ds] c2] s2]|] eqn:E2; [|discriminate]. inversion H; subst.
    destruct (retry_in_order _ _ _ _ _ _ _ E1) as [Hnp [_ L]]. subst d.
    destruct (IH _ _ _ _ _ _ _ E2) as [L2 Hds]. subst ds.
    unfold total in *. cbn [concat]. rewrite !app_length. split; [lia | reflexivity].
Qed.

Lemma qloop_fuel ans : forall fuel models st settled, total models < fuel -> qloop fuel ans models st settled <> OutOfFuel.
Proof.
  induction fuel as [|f IH]; intros models st settled Hf; [lia|]. cbn [qloop].
  destruct (qround ans models st settled) as [[[[[st' pends] dels] c] s']|] eqn:E; [|discriminate].
  destruct (qround_counts _ _ _ _ _ _ _ _ _ E) as [Hc Hd]. subst dels. rewrite cond_eq, err_eq.
  destruct (Nat.ltb 0 (total pends)) eqn:E1; destruct (Nat.ltb 0 c) eqn:E2; cbn [andb]; try discriminate.
  apply IH. apply Nat.ltb_lt in E2. lia.
Qed.

Theorem qload_terminates ans models : qload ans models <> OutOfFuel.
Proof. unfold qload. apply qloop_fuel. lia. Qed.


(* ================================================================ C09: providers that read the resolvers' pending
   snapshot reach the same least fixpoint.  At every step boundary the snapshot is exactly the set of
   resolved references ([agrees]); during a step it lags behind, which can only delay a resolution. *)
Lemma cstep_frame ans : forall pend st st' d c,
  cstep ans pend st = Some (st', d, c) -> forall i, ~ In i (map xid pend) -> tgt st' i = tgt st i.
Proof.
  induction pend as [|x r IH]; intros st st' d c H i Hi; cbn [cstep] in H.
  - inversion H; subst. reflexivity.
  - cbn [map In] in Hi. destruct (ans x st) as [t| |]; [| |discriminate].
    + destruct (cstep ans r _) as [[[st1 d1] c1]|] eqn:E; [|discriminate]. inversion H; subst.
      rewrite (IH _ _ _ _ E i); [|tauto]. cbn [tgt store bump].
      destruct (Nat.eqb i (xid x)) eqn:Eq; [|reflexivity]. apply Nat.eqb_eq in Eq. exfalso. apply Hi. left. congruence.
    + destruct (cstep ans r _) as [[[st1 d1] c1]|] eqn:E; [|discriminate]. inversion H; subst.
      rewrite (IH _ _ _ _ E i); [|tauto]. reflexivity.
Qed.

Definition agrees (s : nat -> bool) (st : state) : Prop := forall i, s i = is_some (tgt st i).

Lemma commit_agrees ans m st st1 d c s :
  cstep ans m st = Some (st1, d, c) -> agrees s st -> agrees (commit m st1 s) st1.
Proof.
  intros E A i. unfold commit. destruct (existsb (fun x => Nat.eqb i (xid x)) m) eqn:Ex; [reflexivity|].
  rewrite A, (cstep_frame _ _ _ _ _ _ E i); [reflexivity|].
  intro Hin. apply in_map_iff in Hin as [x [Hx1 Hx2]].
  assert (Ht : existsb (fun x => Nat.eqb i (xid x)) m = true).
  { apply existsb_exists. exists x. split; [exact Hx2 | subst i; apply Nat.eqb_refl]. }
  congruence.
Qed.

Section Snap.
  Variable all : list xref.
  Hypothesis ids_unique : NoDup (map xid all).
  Variable ready : xref -> (nat -> bool) -> bool.
  Hypothesis ready_mono : monotone ready.

  Lemma smono_cases s x st :
    (smono_ans ready s x st = Resolved (xtgt x) /\ ready x s = true) \/
    (smono_ans ready s x st = Postponed /\ ready x s = false).
  Proof. unfold smono_ans. destruct (ready x s); [left | right]; split; reflexivity. Qed.

  Lemma ready_ext x (s s' : nat -> bool) : (forall i, s i = s' i) -> ready x s = false -> ready x s' = false.
  Proof.
    intros E H. destruct (ready x s') eqn:R; [|reflexivity]. rewrite <- H. symmetry.
    apply (ready_mono x s'); [|exact R]. intros i Hi. rewrite E. exact Hi.
  Qed.

  (* one step: the snapshot s is fixed *)
  Lemma sstep_dep s (Hs : forall i, s i = true -> mreach all ready i) : forall pend st others st' d c,
    cstep (smono_ans ready s) pend st = Some (st', d, c) -> NoDup (pend ++ others) ->
    Pend all st (pend ++ others) -> Sound all ready st ->
    Pend all st' (d ++ others) /\ Sound all ready st'.
  Proof.
    induction pend as [|x r IH]; intros st others st' d c H ND HP HS; cbn [cstep] in H.
    - inversion H; subst. split; assumption.
    - cbn [app] in ND. inversion ND as [|? ? Hnin ND']; subst.
      destruct HP as [I2 I3]. destruct (I2 x (or_introl eq_refl)) as [Hx Hn].
      destruct (smono_cases s x st) as [[Ea Hready]|[Ea Hst]]; rewrite Ea in H.
      + destruct (cstep (smono_ans ready s) r _) as [[[st1 d1] c1]|] eqn:E; [|discriminate]. inversion H; subst.
        apply (IH _ others _ _ _ E ND').
        * split.
          -- intros y Hy. destruct (I2 y (or_intror Hy)) as [Hya Hyn]. split; [exact Hya|].
             cbn [tgt store bump]. destruct (Nat.eqb (xid y) (xid x)) eqn:Eq; [|exact Hyn].
             apply Nat.eqb_eq in Eq. exfalso. apply Hnin. rewrite <- (same_id_same_ref all ids_unique y x Hya Hx Eq). exact Hy.
          -- intros y Hya Hyn. cbn [tgt store bump] in Hyn.
             destruct (Nat.eqb (xid y) (xid x)) eqn:Eq; [discriminate|].
             destruct (I3 y Hya Hyn) as [Hy|Hy]; [|exact Hy]. subst y. rewrite Nat.eqb_refl in Eq. discriminate.
        * intros i t Hi. cbn [tgt store bump] in Hi. destruct (Nat.eqb i (xid x)) eqn:Eq.
          -- apply Nat.eqb_eq in Eq. subst i. inversion Hi; subst t. split.
             ++ apply (mreach_intro all ready x s); assumption.
             ++ exists x. repeat split; assumption.
          -- apply HS. exact Hi.
      + destruct (cstep (smono_ans ready s) r _) as [[[st1 d1] c1]|] eqn:E; [|discriminate]. inversion H; subst.
        assert (ND3 : NoDup (r ++ x :: others)).
        { apply (Permutation_NoDup (l := x :: r ++ others)); [|exact ND]. apply Permutation_middle. }
        destruct (IH (bump x st) (x :: others) _ _ _ E ND3) as [HP' HS'].
        * apply (Pend_perm all st ((x :: r) ++ others)); [|split; assumption].
          intro y. cbn [app]. rewrite !in_app_iff. cbn [In]. rewrite in_app_iff. tauto.
        * exact HS.
        * split; [|exact HS'].
          apply (Pend_perm all _ (d1 ++ x :: others)); [|exact HP'].
          intro y. cbn [app]. rewrite !in_app_iff. cbn [In]. rewrite in_app_iff. tauto.
  Qed.

  Lemma sstep_some s : forall pend st, cstep (smono_ans ready s) pend st <> None.
  Proof.
    induction pend as [|x r IH]; intro st; cbn [cstep]; [discriminate|].
    destruct (smono_cases s x st) as [[Ea _]|[Ea _]]; rewrite Ea.
    - specialize (IH (store x (xtgt x) (bump x st))). destruct (cstep (smono_ans ready s) r _) as [[[? ?] ?]|]; [discriminate | congruence].
    - specialize (IH (bump x st)). destruct (cstep (smono_ans ready s) r _) as [[[? ?] ?]|]; [discriminate | congruence].
  Qed.

  Lemma sstep_zero s : forall pend st st' d,
    cstep (smono_ans ready s) pend st = Some (st', d, 0) ->
    d = pend /\ (forall i, tgt st' i = tgt st i) /\ (forall x, In x pend -> ready x s = false).
  Proof.
    induction pend as [|x r IH]; intros st st' d H; cbn [cstep] in H.
    - inversion H; subst. repeat split; intros ? [].
    - destruct (smono_cases s x st) as [[Ea _]|[Ea Hst]]; rewrite Ea in H.
      + destruct (cstep (smono_ans ready s) r _) as [[[st1 d1] c1]|]; [|discriminate]. inversion H.
      + destruct (cstep (smono_ans ready s) r _) as [[[st1 d1] c1]|] eqn:E; [|discriminate]. inversion H; subst.
        destruct (IH _ _ _ E) as [Hd [Ht Hs]]. subst d1. split; [reflexivity|]. split.
        * intro i. rewrite Ht. reflexivity.
        * intros y [Hy|Hy]; [subst y; exact Hst | exact (Hs y Hy)].
  Qed.

  Lemma agrees_sound s st : agrees s st -> Sound all ready st -> forall i, s i = true -> mreach all ready i.
  Proof.
    intros A HS i Hi. rewrite A in Hi. destruct (tgt st i) as [t|] eqn:Et; [|discriminate]. apply (HS i t Et).
  Qed.

  Lemma qround_dep : forall models st s others st' pends dels c s',
    qround (smono_ans ready) models st s = Some (st', pends, dels, c, s') ->
    NoDup (concat models ++ others) -> Pend all st (concat models ++ others) -> Sound all ready st -> agrees s st ->
    Pend all st' (concat pends ++ others) /\ NoDup (concat pends ++ others) /\ Sound all ready st' /\ agrees s' st' /\ dels = pends.
  Proof.
    induction models as [|m ms IH]; intros st s others st' pends dels c s' H ND HP HS A; cbn [qround] in H.
    - inversion H; subst. split; [exact HP | split; [exact ND | split; [exact HS | split; [exact A | reflexivity]]]].
    - rewrite step_eq in H. destruct (cstep (smono_ans ready s) m st) as [[[st1 d] c1]|] eqn:E1; cbn [lift_step] in H; [|discriminate].
      destruct (qround (smono_ans ready) ms st1 _) as [[[[[st2 nps] ds] c2] s2]|] eqn:E2; [|discriminate].
      injection H as Hst Hp Hd Hc Hs'; subst st' pends dels c s'.
      cbn [concat] in *. rewrite <- app_assoc in ND, HP.
      destruct (sstep_dep s (agrees_sound s st A HS) m st (concat ms ++ others) _ _ _ E1 ND HP HS) as [HP1 HS1].
      pose proof (step_NoDup (smono_ans ready s) m st (concat ms ++ others) _ _ _ E1 ND) as ND1.
      pose proof (commit_agrees _ _ _ _ _ _ s E1 A) as A1.
      assert (P1 : Permutation (d ++ concat ms ++ others) (concat ms ++ d ++ others)).
      { rewrite !app_assoc. apply Permutation_app_tail. apply Permutation_app_comm. }
      destruct (IH st1 _ (d ++ others) _ _ _ _ _ E2) as [HP2 [ND2 [HS2 [A2 Hds]]]].
      + apply (Permutation_NoDup P1 ND1).
      + apply (Pend_perm all st1 (d ++ concat ms ++ others)); [|exact HP1].
        intro y. split; apply Permutation_in; [exact P1 | apply Permutation_sym; exact P1].
      + exact HS1.
      + exact A1.
      + subst ds.
        assert (P2 : Permutation (concat nps ++ d ++ others) ((d ++ concat nps) ++ others)).
        { rewrite !app_assoc. apply Permutation_app_tail. apply Permutation_app_comm. }
        split; [|split; [|split; [exact HS2 | split; [exact A2 | reflexivity]]]].
        * apply (Pend_perm all st2 (concat nps ++ d ++ others)); [|exact HP2].
          intro y. split; apply Permutation_in; [exact P2 | apply Permutation_sym; exact P2].
        * apply (Permutation_NoDup P2 ND2).
  Qed.

  Lemma qround_some : forall models st s, qround (smono_ans ready) models st s <> None.
  Proof.
    induction models as [|m ms IH]; intros st s; cbn [qround]; [discriminate|].
    rewrite step_eq. destruct (cstep (smono_ans ready s) m st) as [[[st1 d] c1]|] eqn:E1; cbn [lift_step]; [|exfalso; exact (sstep_some _ _ _ E1)].
    specialize (IH st1 (commit m st1 s)). destruct (qround (smono_ans ready) ms st1 _) as [[[[[? ?] ?] ?] ?]|]; [discriminate | congruence].
  Qed.

  Lemma qround_zero : forall models st s st' pends dels s',
    qround (smono_ans ready) models st s = Some (st', pends, dels, 0, s') -> agrees s st ->
    pends = models /\ (forall i, tgt st' i = tgt st i) /\ (forall x, In x (concat models) -> ready x s = false).
  Proof.
    induction models as [|m ms IH]; intros st s st' pends dels s' H A; cbn [qround] in H.
    - inversion H; subst. repeat split; intros ? [].
    - rewrite step_eq in H. destruct (cstep (smono_ans ready s) m st) as [[[st1 d] c1]|] eqn:E1; cbn [lift_step] in H; [|discriminate].
      destruct (qround (smono_ans ready) ms st1 _) as [[[[[st2 nps] ds] c2] s2]|] eqn:E2; [|discriminate].
      injection H as Hst Hp Hd Hc Hs'; subst st' pends dels s'.
      assert (c1 = 0 /\ c2 = 0) as [-> ->] by lia.
      destruct (sstep_zero _ _ _ _ _ E1) as [Hd [Ht Hs]]. subst d.
      pose proof (commit_agrees _ _ _ _ _ _ s E1 A) as A1.
      destruct (IH _ _ _ _ _ _ E2 A1) as [Hnps [Ht2 Hs2]]. subst nps. split; [reflexivity|]. split.
      + intro i. rewrite Ht2, Ht. reflexivity.
      + intros x Hx. cbn [concat] in Hx. apply in_app_iff in Hx as [Hx|Hx]; [apply Hs; exact Hx|].
        apply (ready_ext x (commit m st1 s)); [|apply Hs2; exact Hx].
        intro i. rewrite (A1 i), (A i), Ht. reflexivity.
  Qed.

  Lemma qloop_dep : forall fuel models st s,
    NoDup (concat models) -> Pend all st (concat models) -> Sound all ready st -> agrees s st ->
    match qloop fuel (smono_ans ready) models st s with
    | Ok st' => Pend all st' [] /\ Sound all ready st'
    | Unresolvable lf st' => Pend all st' (concat lf) /\ Sound all ready st' /\ concat lf <> [] /\
                             (forall x, In x (concat lf) -> stuck ready st' x)
    | UnknownObject => False
    | OutOfFuel => True
    end.
  Proof.
    induction fuel as [|f IH]; intros models st s ND HP HS A; cbn [qloop]; [exact I|].
    destruct (qround (smono_ans ready) models st s) as [[[[[st' pends] dels] c] s']|] eqn:E; [|exact (qround_some _ _ _ E)].
    destruct (qround_dep models st s [] _ _ _ _ _ E) as [HP' [ND' [HS' [A' Hd]]]]; rewrite ?app_nil_r; try assumption.
    rewrite app_nil_r in HP', ND'. subst dels. rewrite cond_eq, err_eq.
    destruct (Nat.ltb 0 (total pends)) eqn:E1.
    - destruct (Nat.ltb 0 c) eqn:E2; cbn [andb].
      + apply IH; assumption.
      + apply Nat.ltb_ge in E2. assert (c = 0) by lia. subst c.
        destruct (qround_zero _ _ _ _ _ _ _ E A) as [Hm [Ht Hs]]. subst pends.
        split; [exact HP'|]. split; [exact HS'|]. split.
        * apply Nat.ltb_lt in E1. unfold total in E1. intro Hnil. rewrite Hnil in E1. cbn in E1. lia.
        * intros x Hx. unfold stuck. apply (ready_ext x s); [|apply Hs; exact Hx].
          intro i. unfold resolved_set. rewrite (A i), Ht. reflexivity.
    - cbn [andb]. apply Nat.ltb_ge in E1. unfold total in E1.
      destruct (concat pends) eqn:Ec; [split; assumption | cbn in E1; lia].
  Qed.
End Snap.

Section SnapThm.
  Variable ready : xref -> (nat -> bool) -> bool.
  Hypothesis ready_mono : monotone ready.

  Lemma snap_loop models (ND : NoDup (map xid (concat models))) :
    match qload (smono_ans ready) models with
    | Ok st' => Pend (concat models) st' [] /\ Sound (concat models) ready st'
    | Unresolvable lf st' => Pend (concat models) st' (concat lf) /\ Sound (concat models) ready st' /\ concat lf <> [] /\
                             (forall x, In x (concat lf) -> stuck ready st' x)
    | UnknownObject => False
    | OutOfFuel => True
    end.
  Proof.
    apply (qloop_dep (concat models) ND ready ready_mono (S (total models)) models init (fun _ => false)
             (NoDup_map_inv _ _ ND) (Pend_init models) (Sound_init _ _)).
    intro i. reflexivity.
  Qed.

  Theorem snap_ok : forall models st, NoDup (map xid (concat models)) ->
    qload (smono_ans ready) models = Ok st ->
    forall x, In x (concat models) -> mreach (concat models) ready (xid x) /\ tgt st (xid x) = Some (xtgt x).
  Proof.
    intros models st ND H x Hx. pose proof (snap_loop models ND) as L. rewrite H in L. destruct L as [[I2 I3] HS].
    destruct (tgt st (xid x)) as [t|] eqn:Et; [|destruct (I3 x Hx Et)].
    destruct (HS _ _ Et) as [Hr [y [Hy [Eid Etg]]]]. split; [exact Hr|].
    rewrite (same_id_same_ref _ ND y x Hy Hx Eid) in Etg. subst t. reflexivity.
  Qed.

  Theorem snap_fail : forall models lf st, NoDup (map xid (concat models)) ->
    qload (smono_ans ready) models = Unresolvable lf st ->
    concat lf <> [] /\
    forall x, In x (concat lf) <-> (In x (concat models) /\ ~ mreach (concat models) ready (xid x)).
  Proof.
    intros models lf st ND H. pose proof (snap_loop models ND) as L. rewrite H in L. destruct L as [HP [HS [Hne Hst]]].
    split; [exact Hne|]. intro x.
    pose proof (complete _ ready ready_mono st (concat lf) HP Hst) as Hc. destruct HP as [I2 I3]. split.
    - intro Hx. destruct (I2 x Hx) as [Ha Hn]. split; [exact Ha|]. intro Hr. exact (Hc _ Hr Hn).
    - intros [Ha Hnr]. apply I3; [exact Ha|]. destruct (tgt st (xid x)) as [t|] eqn:Et; [|reflexivity].
      exfalso. apply Hnr. apply (HS _ _ Et).
  Qed.

  Theorem snap_never_unknown : forall models, NoDup (map xid (concat models)) ->
    qload (smono_ans ready) models <> UnknownObject.
  Proof. intros models ND E. pose proof (snap_loop models ND) as L. rewrite E in L. exact L. Qed.

  Theorem snap_success_iff : forall models, NoDup (map xid (concat models)) ->
    ((exists st, qload (smono_ans ready) models = Ok st) <-> forall x, In x (concat models) -> mreach (concat models) ready (xid x)).
  Proof.
    intros models ND. split.
    - intros [st H] x Hx. apply (snap_ok models st ND H x Hx).
    - intro Hall. destruct (qload (smono_ans ready) models) as [st|lf st| |] eqn:E.
      + exists st. reflexivity.
      + exfalso. destruct (snap_fail models lf st ND E) as [Hne Hiff].
        destruct (concat lf) as [|y l] eqn:El; [congruence|].
        assert (Hy : In y (y :: l)) by (left; reflexivity).
        apply Hiff in Hy as [Hya Hnr]. apply Hnr. apply Hall. exact Hya.
      + exfalso. exact (snap_never_unknown models ND E).
      + exfalso. exact (qload_terminates _ _ E).
  Qed.

  (* the snapshot view and the direct view of the resolved set give the same verdict and targets *)
  Theorem snap_same_as_direct : forall models, NoDup (map xid (concat models)) ->
    ((exists st, qload (smono_ans ready) models = Ok st) <-> (exists st, load (mono_ans ready) models = Ok st)) /\
    (forall st1 st2, qload (smono_ans ready) models = Ok st1 -> load (mono_ans ready) models = Ok st2 ->
       forall x, In x (concat models) -> tgt st1 (xid x) = tgt st2 (xid x)).
  Proof.
    intros models ND. split.
    - rewrite (snap_success_iff models ND), (monotone_success_iff ready ready_mono models ND). reflexivity.
    - intros st1 st2 H1 H2 x Hx.
      destruct (snap_ok models st1 ND H1 x Hx) as [_ ->].
      destruct (monotone_result ready ready_mono models st2 ND H2 x Hx) as [_ ->]. reflexivity.
  Qed.
End SnapThm.

Theorem snap_order_independent ready : monotone ready -> forall m1 m2,
  NoDup (map xid (concat m1)) -> NoDup (map xid (concat m2)) ->
  (forall x, In x (concat m1) <-> In x (concat m2)) ->
  ((exists st, qload (smono_ans ready) m1 = Ok st) <-> (exists st, qload (smono_ans ready) m2 = Ok st)) /\
  (forall st1 st2, qload (smono_ans ready) m1 = Ok st1 -> qload (smono_ans ready) m2 = Ok st2 ->
     forall x, In x (concat m1) -> tgt st1 (xid x) = tgt st2 (xid x)).
Proof.
  intros Hm m1 m2 N1 N2 E. split.
  - rewrite (snap_success_iff ready Hm m1 N1), (snap_success_iff ready Hm m2 N2). split; intros H x Hx.
    + apply (mreach_ext ready (concat m1)); [exact E|]. apply H. apply E. exact Hx.
    + apply (mreach_ext ready (concat m2)); [intro y; symmetry; apply E|]. apply H. apply E. exact Hx.
  - intros st1 st2 H1 H2 x Hx.
    destruct (snap_ok ready Hm m1 st1 N1 H1 x Hx) as [_ ->].
    destruct (snap_ok ready Hm m2 st2 N2 H2 x (proj1 (E x) Hx)) as [_ ->]. reflexivity.
Qed.

(* the harness's query-mode provider without delays is the table instance *)
Lemma snap_ans_nodelay s x st : snap_ans (fun _ => 0) s x st = smono_ans dep_ready s x st.
Proof.
  unfold snap_ans, smono_ans, dep_ready. cbn [Nat.ltb Nat.leb]. destruct (xnever x); cbn [negb andb]; reflexivity.
Qed.
