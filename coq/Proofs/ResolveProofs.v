From Coq Require Import Sorting.Sorted Permutation.
From TxV Require Import Core.Base Model.Resolve.

(* ================================================================ generic facts about step / round / loop *)
Lemma step_counts ans : forall pend st st' d c,
  step ans pend st = Some (st', d, c) -> length d + c = length pend /\ incl d pend.
Proof.
  induction pend as [|x r IH]; intros st st' d c H; cbn [step] in H.
  - inversion H; subst. split; [reflexivity | intros ? []].
  - destruct (ans x st) as [t| |]; [| |discriminate].
    + destruct (step ans r _) as [[[st1 d1] c1]|] eqn:E; [|discriminate]. inversion H; subst.
      destruct (IH _ _ _ _ E) as [L I]. cbn [length]. split; [lia|]. intros y Hy. right. apply I. exact Hy.
    + destruct (step ans r _) as [[[st1 d1] c1]|] eqn:E; [|discriminate]. inversion H; subst.
      destruct (IH _ _ _ _ E) as [L I]. cbn [length]. split; [lia|].
      intros y [Hy|Hy]; [left; exact Hy | right; apply I; exact Hy].
Qed.

Lemma round_counts ans : forall models st st' models' c,
  round ans models st = Some (st', models', c) -> total models' + c = total models.
Proof.
  unfold total. induction models as [|m ms IH]; intros st st' models' c H; cbn [round] in H.
  - inversion H; subst. reflexivity.
  - destruct (step ans m st) as [[[st1 d] c1]|] eqn:E1; [|discriminate].
    destruct (round ans ms st1) as [[[st2 ds] c2]|] eqn:E2; [|discriminate]. inversion H; subst.
    cbn [concat]. rewrite !app_length. specialize (IH _ _ _ _ E2).
    destruct (step_counts _ _ _ _ _ _ E1) as [L _]. lia.
Qed.

(* termination: with fuel above the number of pending references the loop never runs dry,
   whatever the provider answers *)
Lemma loop_fuel ans : forall fuel models st, total models < fuel -> loop fuel ans models st <> OutOfFuel.
Proof.
  induction fuel as [|f IH]; intros models st Hf; [lia|]. cbn [loop].
  destruct (round ans models st) as [[[st' models'] c]|] eqn:E; [|discriminate].
  pose proof (round_counts _ _ _ _ _ _ E) as Hc.
  destruct (Nat.ltb 0 (total models')) eqn:E1; destruct (Nat.ltb 0 c) eqn:E2; cbn [andb]; try discriminate.
  apply IH. apply Nat.ltb_lt in E2. lia.
Qed.

Theorem load_terminates ans models : load ans models <> OutOfFuel.
Proof. unfold load. apply loop_fuel. lia. Qed.

(* ================================================================ C08: list attributes keep textual order *)
Section Order.
  Variable all : list xref.
  Hypothesis ids_unique : NoDup (map xid all).
  Definition inslot (s : nat) (x : xref) : bool := (Nat.eqb (xslot x) s && xmany x)%bool.
  Hypothesis slots_sorted : forall s, StronglySorted lt (map xpos (filter (inslot s) all)).

  Definition resolved (st : state) (x : xref) : bool := is_some (tgt st (xid x)).
  Definition val (st : state) (x : xref) : nat := match tgt st (xid x) with Some t => t | None => 0 end.
  Definition entry (st : state) (x : xref) : nat * nat := (xpos x, val st x).
  Definition expected (st : state) (s : nat) : list (nat * nat) :=
    map (entry st) (filter (fun x => (inslot s x && resolved st x)%bool) all).

  Definition Inv (st : state) (pend : list xref) : Prop :=
    (forall s, lists st s = expected st s) /\
    (forall x, In x pend -> In x all /\ tgt st (xid x) = None) /\
    (forall x, In x all -> tgt st (xid x) = None -> In x pend).

  Lemma Inv_perm st p q : (forall x, In x p <-> In x q) -> Inv st p -> Inv st q.
  Proof.
    intros E [I1 [I2 I3]]. split; [exact I1|]. split.
    - intros x Hx. apply I2. apply E. exact Hx.
    - intros x Hx Ht. apply E. apply I3; assumption.
  Qed.

  Lemma same_id_same_ref x y : In x all -> In y all -> xid x = xid y -> x = y.
  Proof.
    clear slots_sorted. revert ids_unique. induction all as [|a l IH]; intros ND Hx Hy E; [destruct Hx|].
    cbn [map] in ND. inversion ND as [|? ? Hn ND']; subst.
    destruct Hx as [Hx|Hx], Hy as [Hy|Hy]; subst.
    - reflexivity.
    - exfalso. apply Hn. rewrite E. apply in_map. exact Hy.
    - exfalso. apply Hn. rewrite <- E. apply in_map. exact Hx.
    - apply IH; assumption.
  Qed.

  Lemma insert_front p t l : (forall q v, In (q, v) l -> p < q) -> insert_pos p t l = (p, t) :: l.
  Proof.
    destruct l as [|[q v] l]; intro H; [reflexivity|]. cbn [insert_pos].
    assert (p < q) as Hpq by (apply (H q v); left; reflexivity).
    apply Nat.ltb_lt in Hpq. rewrite Hpq. reflexivity.
  Qed.

  (* the heart of C08: inserting the newly resolved reference by position gives exactly the
     resolved references of the slot in textual order *)
  Lemma insert_expected st x t s :
    In x all -> tgt st (xid x) = None -> inslot s x = true ->
    insert_pos (xpos x) t (expected st s) = expected (store x t (bump x st)) s.
  Proof.
    intros Hx Hn Hs. unfold expected.
    set (st1 := store x t (bump x st)).
    assert (Hres : forall y, In y all -> resolved st1 y = (resolved st y || Nat.eqb (xid y) (xid x))%bool).
    { intros y _. unfold resolved, st1. cbn [tgt store bump].
      destruct (Nat.eqb (xid y) (xid x)); [rewrite orb_true_r | rewrite orb_false_r]; reflexivity. }
    assert (Hval : forall y, xid y <> xid x -> entry st1 y = entry st y).
    { intros y Hy. unfold entry, val, st1. cbn [tgt store bump].
      apply Nat.eqb_neq in Hy. rewrite Hy. reflexivity. }
    assert (Hvx : entry st1 x = (xpos x, t)).
    { unfold entry, val, st1. cbn [tgt store bump]. rewrite Nat.eqb_refl. reflexivity. }
    clearbody st1.
    pose proof (slots_sorted s) as Hsort. pose proof ids_unique as ND.
    revert Hx Hsort ND Hres. generalize all as l. induction l as [|y l IH]; intros Hx Hsort ND Hres; [destruct Hx|].
    cbn [map] in ND. inversion ND as [|? ? Hny ND']; subst.
    destruct Hx as [Hx|Hx].
    - (* y = x : not yet resolved, now resolved; everything after it in the slot lies further right *)
      subst y. cbn [filter]. rewrite Hs. cbn [andb].
      assert (Hrx : resolved st x = false) by (unfold resolved; rewrite Hn; reflexivity).
      rewrite Hrx. rewrite (Hres x (or_introl eq_refl)), Nat.eqb_refl, orb_true_r. cbn [map]. rewrite Hvx.
      assert (Hsame : forall z, In z l -> xid z <> xid x).
      { intros z Hz E. apply Hny. rewrite <- E. apply in_map. exact Hz. }
      assert (Hf : filter (fun z => (inslot s z && resolved st1 z)%bool) l = filter (fun z => (inslot s z && resolved st z)%bool) l).
      { apply filter_ext_in. intros z Hz. rewrite (Hres z (or_intror Hz)).
        pose proof (Hsame z Hz) as E. apply Nat.eqb_neq in E. rewrite E, orb_false_r. reflexivity. }
      rewrite Hf.
      assert (Hm : map (entry st1) (filter (fun z => (inslot s z && resolved st z)%bool) l)
                   = map (entry st) (filter (fun z => (inslot s z && resolved st z)%bool) l)).
      { apply map_ext_in. intros z Hz. apply filter_In in Hz as [Hz _]. apply Hval. apply Hsame. exact Hz. }
      rewrite Hm. apply insert_front.
      intros q v Hq. apply in_map_iff in Hq as [z [Ez Hz]]. inversion Ez; subst. apply filter_In in Hz as [Hz Hp].
      apply andb_true_iff in Hp as [Hp _].
      cbn [filter] in Hsort. rewrite Hs in Hsort. cbn [map] in Hsort.
      apply StronglySorted_inv in Hsort as [_ Hall]. rewrite Forall_forall in Hall.
      apply Hall. apply in_map. apply filter_In. split; assumption.
    - (* x is further down *)
      assert (Hyx : xid y <> xid x) by (intro E; apply Hny; rewrite E; apply in_map; exact Hx).
      pose proof Hyx as Hyx'. apply Nat.eqb_neq in Hyx'.
      cbn [filter]. rewrite (Hres y (or_introl eq_refl)), Hyx', orb_false_r.
      assert (Hsort' : StronglySorted lt (map xpos (filter (inslot s) l))).
      { cbn [filter] in Hsort. destruct (inslot s y); [cbn [map] in Hsort; apply StronglySorted_inv in Hsort as [H _]; exact H | exact Hsort]. }
      assert (Hres' : forall z, In z l -> resolved st1 z = (resolved st z || Nat.eqb (xid z) (xid x))%bool).
      { intros z Hz. apply Hres. right. exact Hz. }
      destruct (inslot s y && resolved st y)%bool eqn:Hp.
      + cbn [map insert_pos]. rewrite (Hval y Hyx). unfold entry at 1. cbn [insert_pos].
        assert (Hlt : xpos y < xpos x).
        { apply andb_true_iff in Hp as [Hp _]. cbn [filter] in Hsort. rewrite Hp in Hsort. cbn [map] in Hsort.
          apply StronglySorted_inv in Hsort as [_ Hall]. rewrite Forall_forall in Hall.
          apply Hall. apply in_map. apply filter_In. split; assumption. }
        assert (Hnlt : Nat.ltb (xpos x) (xpos y) = false) by (apply Nat.ltb_ge; lia).
        rewrite Hnlt. f_equal. apply IH; assumption.
      + apply IH; assumption.
  Qed.

  (* a reference of another slot (or a scalar) leaves the list untouched *)
  Lemma other_expected st x t s :
    In x all -> tgt st (xid x) = None -> inslot s x = false ->
    expected st s = expected (store x t (bump x st)) s.
  Proof.
    intros Hx Hn Hs. unfold expected.
    assert (Hf : filter (fun z => (inslot s z && resolved (store x t (bump x st)) z)%bool) all
                 = filter (fun z => (inslot s z && resolved st z)%bool) all).
    { apply filter_ext_in. intros z Hz. unfold resolved. cbn [tgt store bump].
      destruct (Nat.eqb (xid z) (xid x)) eqn:E; [|reflexivity].
      apply Nat.eqb_eq in E. rewrite (same_id_same_ref z x Hz Hx E), Hs. reflexivity. }
    rewrite Hf. apply map_ext_in. intros z Hz. apply filter_In in Hz as [Hz Hp].
    unfold entry, val. cbn [tgt store bump].
    destruct (Nat.eqb (xid z) (xid x)) eqn:E; [|reflexivity].
    apply Nat.eqb_eq in E. rewrite (same_id_same_ref z x Hz Hx E), Hs in Hp. discriminate.
  Qed.

  Lemma Inv_store st x t pend :
    Inv st (x :: pend) -> ~ In x pend -> Inv (store x t (bump x st)) pend.
  Proof.
    intros [I1 [I2 I3]] Hnin.
    destruct (I2 x (or_introl eq_refl)) as [Hx Hn].
    split; [|split].
    - intro s. cbn [lists store bump]. rewrite I1.
      destruct (Nat.eqb s (xslot x) && xmany x)%bool eqn:E.
      + apply insert_expected; try assumption. unfold inslot.
        apply andb_true_iff in E as [E1 E2]. apply Nat.eqb_eq in E1. subst s. rewrite Nat.eqb_refl, E2. reflexivity.
      + apply other_expected; try assumption. unfold inslot. rewrite Nat.eqb_sym. exact E.
    - intros y Hy. destruct (I2 y (or_intror Hy)) as [Hya Hyn]. split; [exact Hya|].
      cbn [tgt store bump]. destruct (Nat.eqb (xid y) (xid x)) eqn:E; [|exact Hyn].
      apply Nat.eqb_eq in E. exfalso. apply Hnin. rewrite <- (same_id_same_ref y x Hya Hx E). exact Hy.
    - intros y Hya Hyn. cbn [tgt store bump] in Hyn.
      destruct (Nat.eqb (xid y) (xid x)) eqn:E; [discriminate|].
      destruct (I3 y Hya Hyn) as [Hy|Hy]; [|exact Hy].
      subst y. rewrite Nat.eqb_refl in E. discriminate.
  Qed.

  Lemma Inv_bump st x pend : Inv st pend -> Inv (bump x st) pend.
  Proof. intros [I1 [I2 I3]]. split; [|split]; assumption. Qed.

  Lemma step_Inv ans : forall pend st others st' d c,
    step ans pend st = Some (st', d, c) -> NoDup (pend ++ others) -> Inv st (pend ++ others) -> Inv st' (d ++ others).
  Proof.
    induction pend as [|x r IH]; intros st others st' d c H ND HI; cbn [step] in H.
    - inversion H; subst. exact HI.
    - cbn [app] in ND. inversion ND as [|? ? Hnin ND']; subst.
      destruct (ans x st) as [t| |]; [| |discriminate].
      + destruct (step ans r _) as [[[st1 d1] c1]|] eqn:E; [|discriminate]. inversion H; subst.
        apply (IH _ others _ _ _ E ND'). apply Inv_store; assumption.
      + destruct (step ans r _) as [[[st1 d1] c1]|] eqn:E; [|discriminate]. inversion H; subst.
        pose proof (IH (bump x st) (x :: others) _ _ _ E) as IH'.
        assert (ND3 : NoDup (r ++ x :: others)).
        { apply (Permutation_NoDup (l := x :: r ++ others)); [|exact ND].
          apply Permutation_middle. }
        specialize (IH' ND3).
        assert (HI' : Inv (bump x st) (r ++ x :: others)).
        { apply Inv_bump. apply (Inv_perm st ((x :: r) ++ others)); [|exact HI].
          intro y. cbn [app]. rewrite !in_app_iff. cbn [In]. rewrite in_app_iff. tauto. }
        specialize (IH' HI').
        apply (Inv_perm _ (d1 ++ x :: others)); [|exact IH'].
        intro y. cbn [app]. rewrite !in_app_iff. cbn [In]. rewrite in_app_iff. tauto.
  Qed.

  Lemma step_NoDup ans : forall pend st others st' d c,
    step ans pend st = Some (st', d, c) -> NoDup (pend ++ others) -> NoDup (d ++ others).
  Proof.
    clear. induction pend as [|x r IH]; intros st others st' d c H ND; cbn [step] in H.
    - inversion H; subst. exact ND.
    - cbn [app] in ND. inversion ND as [|? ? Hnin ND']; subst.
      destruct (ans x st) as [t| |]; [| |discriminate].
      + destruct (step ans r _) as [[[st1 d1] c1]|] eqn:E; [|discriminate]. inversion H; subst.
        apply (IH _ _ _ _ _ E ND').
      + destruct (step ans r _) as [[[st1 d1] c1]|] eqn:E; [|discriminate]. inversion H; subst.
        cbn [app]. constructor.
        * intro Hin. apply Hnin. apply in_app_iff in Hin as [Hin|Hin]; apply in_app_iff; [left|right; exact Hin].
          destruct (step_counts _ _ _ _ _ _ E) as [_ I]. apply I. exact Hin.
        * apply (IH _ _ _ _ _ E ND').
  Qed.

  Lemma round_Inv ans : forall models st others st' models' c,
    round ans models st = Some (st', models', c) ->
    NoDup (concat models ++ others) -> Inv st (concat models ++ others) ->
    Inv st' (concat models' ++ others) /\ NoDup (concat models' ++ others).
  Proof.
    induction models as [|m ms IH]; intros st others st' models' c H ND HI; cbn [round] in H.
    - inversion H; subst. split; assumption.
    - destruct (step ans m st) as [[[st1 d] c1]|] eqn:E1; [|discriminate].
      destruct (round ans ms st1) as [[[st2 ds] c2]|] eqn:E2; [|discriminate]. inversion H; subst.
      cbn [concat] in *. rewrite <- app_assoc in ND, HI.
      pose proof (step_Inv ans m st (concat ms ++ others) _ _ _ E1 ND HI) as HI1.
      pose proof (step_NoDup ans m st (concat ms ++ others) _ _ _ E1 ND) as ND1.
      assert (P1 : Permutation (d ++ concat ms ++ others) (concat ms ++ d ++ others)).
      { rewrite !app_assoc. apply Permutation_app_tail. apply Permutation_app_comm. }
      destruct (IH st1 (d ++ others) _ _ _ E2) as [HI2 ND2].
      + apply (Permutation_NoDup P1 ND1).
      + apply (Inv_perm st1 (d ++ concat ms ++ others)); [|exact HI1].
        intro y. split; apply Permutation_in; [exact P1 | apply Permutation_sym; exact P1].
      + assert (P2 : Permutation (concat ds ++ d ++ others) ((d ++ concat ds) ++ others)).
        { rewrite !app_assoc. apply Permutation_app_tail. apply Permutation_app_comm. }
        split.
        * apply (Inv_perm st' (concat ds ++ d ++ others)); [|exact HI2].
          intro y. split; apply Permutation_in; [exact P2 | apply Permutation_sym; exact P2].
        * apply (Permutation_NoDup P2 ND2).
  Qed.

  Lemma loop_Inv ans : forall fuel models st,
    NoDup (concat models) -> Inv st (concat models) ->
    match loop fuel ans models st with
    | Ok st' => Inv st' []
    | Unresolvable lf st' => Inv st' (concat lf) /\ concat lf <> []
    | _ => True
    end.
  Proof.
    induction fuel as [|f IH]; intros models st ND HI; cbn [loop]; [exact I|].
    destruct (round ans models st) as [[[st' models'] c]|] eqn:E; [|exact I].
    destruct (round_Inv ans models st [] _ _ _ E) as [HI' ND']; rewrite ?app_nil_r; try assumption.
    rewrite app_nil_r in HI', ND'.
    destruct (Nat.ltb 0 (total models')) eqn:E1.
    - destruct (Nat.ltb 0 c) eqn:E2; cbn [andb].
      + apply IH; assumption.
      + split; [exact HI'|]. apply Nat.ltb_lt in E1. unfold total in E1. intro Hnil. rewrite Hnil in E1. cbn in E1. lia.
    - cbn [andb]. apply Nat.ltb_ge in E1. unfold total in E1.
      destruct (concat models') eqn:Ec; [exact HI' | cbn in E1; lia].
  Qed.

  Lemma filter_init (l : list xref) s : filter (fun x => (inslot s x && resolved init x)%bool) l = [].
  Proof.
    clear. induction l as [|a l IHl]; [reflexivity|]. cbn [filter]. unfold resolved at 1. cbn [tgt init is_some].
    rewrite andb_false_r. exact IHl.
  Qed.

  Lemma Inv_init models : concat models = all -> Inv init (concat models).
  Proof.
    intro E. rewrite E. split; [|split].
    - intro s. unfold expected. rewrite filter_init. reflexivity.
    - intros x Hx. split; [exact Hx | reflexivity].
    - intros x Hx _. exact Hx.
  Qed.
End Order.

(* For every provider (every postponement schedule) a successful load leaves in each list
   attribute exactly its references' targets, in the textual order of the references. *)
Theorem order_preserved : forall ans models st,
  NoDup (map xid (concat models)) ->
  (forall s, StronglySorted lt (map xpos (filter (inslot s) (concat models)))) ->
  load ans models = Ok st ->
  (forall x, In x (concat models) -> tgt st (xid x) <> None) /\
  (forall s, lists st s = map (entry st) (filter (inslot s) (concat models))).
Proof.
  intros ans models st ND Hs H.
  pose proof (loop_Inv (concat models) ND Hs ans (S (total models)) models init) as L.
  unfold load in H. rewrite H in L.
  destruct L as [I1 [I2 I3]]; [apply (NoDup_map_inv _ _ ND) | apply Inv_init; reflexivity |].
  assert (Hall : forall x, In x (concat models) -> tgt st (xid x) <> None).
  { intros x Hx Hn. apply (I3 x Hx Hn). }
  split; [exact Hall|].
  intro s. rewrite I1. unfold expected. f_equal. apply filter_ext_in. intros x Hx.
  unfold resolved. specialize (Hall x Hx). destruct (tgt st (xid x)); [|congruence]. cbn. apply andb_true_r.
Qed.

(* ================================================================ C09: the table provider reaches the least fixpoint *)
Section Lfp.
  Variable all : list xref.
  Hypothesis ids_unique : NoDup (map xid all).

  (* i can be resolved by some order: it is not "never" and everything it waits for can be *)
  Inductive reach : nat -> Prop :=
  | reach_intro x : In x all -> xnever x = false -> (forall d, In d (xdeps x) -> reach d) -> reach (xid x).

  Definition Pend (st : state) (pend : list xref) : Prop :=
    (forall x, In x pend -> In x all /\ tgt st (xid x) = None) /\
    (forall x, In x all -> tgt st (xid x) = None -> In x pend).
  Definition Sound (st : state) : Prop :=
    forall i t, tgt st i = Some t -> reach i /\ exists x, In x all /\ xid x = i /\ t = xtgt x.
  Definition stuck (T : nat -> option nat) (x : xref) : Prop :=
    xnever x = true \/ exists d, In d (xdeps x) /\ T d = None.

  Lemma Pend_perm st p q : (forall x, In x p <-> In x q) -> Pend st p -> Pend st q.
  Proof.
    intros E [I2 I3]. split.
    - intros x Hx. apply I2. apply E. exact Hx.
    - intros x Hx Ht. apply E. apply I3; assumption.
  Qed.

  Lemma dep_ans_cases x st :
    (dep_ans x st = Resolved (xtgt x) /\ xnever x = false /\ forall d, In d (xdeps x) -> tgt st d <> None) \/
    (dep_ans x st = Postponed /\ stuck (tgt st) x).
  Proof.
    unfold dep_ans, stuck. destruct (xnever x); [right; split; [reflexivity | left; reflexivity]|].
    destruct (forallb _ (xdeps x)) eqn:E.
    - left. split; [reflexivity|]. split; [reflexivity|]. intros d Hd.
      rewrite forallb_forall in E. specialize (E d Hd). destruct (tgt st d); [discriminate | discriminate E].
    - right. split; [reflexivity|]. right.
      assert (H : exists d, In d (xdeps x) /\ is_some (tgt st d) = false).
      { clear - E. induction (xdeps x) as [|d l IH]; [discriminate|]. cbn [forallb] in E.
        apply andb_false_iff in E as [E|E]; [exists d; split; [left; reflexivity | exact E]|].
        destruct (IH E) as [d' [H1 H2]]. exists d'. split; [right; exact H1 | exact H2]. }
      destruct H as [d [H1 H2]]. exists d. split; [exact H1|]. destruct (tgt st d); [discriminate | reflexivity].
  Qed.

  Lemma same_id x y : In x all -> In y all -> xid x = xid y -> x = y.
  Proof. apply same_id_same_ref. exact ids_unique. Qed.

  Lemma step_dep : forall pend st others st' d c,
    step dep_ans pend st = Some (st', d, c) -> NoDup (pend ++ others) -> Pend st (pend ++ others) -> Sound st ->
    Pend st' (d ++ others) /\ Sound st'.
  Proof.
    induction pend as [|x r IH]; intros st others st' d c H ND HP HS; cbn [step] in H.
    - inversion H; subst. split; assumption.
    - cbn [app] in ND. inversion ND as [|? ? Hnin ND']; subst.
      destruct HP as [I2 I3]. destruct (I2 x (or_introl eq_refl)) as [Hx Hn].
      destruct (dep_ans_cases x st) as [[Ea [Hnev Hdeps]]|[Ea Hst]]; rewrite Ea in H.
      + destruct (step dep_ans r _) as [[[st1 d1] c1]|] eqn:E; [|discriminate]. inversion H; subst.
        apply (IH _ others _ _ _ E ND').
        * split.
          -- intros y Hy. destruct (I2 y (or_intror Hy)) as [Hya Hyn]. split; [exact Hya|].
             cbn [tgt store bump]. destruct (Nat.eqb (xid y) (xid x)) eqn:Eq; [|exact Hyn].
             apply Nat.eqb_eq in Eq. exfalso. apply Hnin. rewrite <- (same_id y x Hya Hx Eq). exact Hy.
          -- intros y Hya Hyn. cbn [tgt store bump] in Hyn.
             destruct (Nat.eqb (xid y) (xid x)) eqn:Eq; [discriminate|].
             destruct (I3 y Hya Hyn) as [Hy|Hy]; [|exact Hy]. subst y. rewrite Nat.eqb_refl in Eq. discriminate.
        * intros i t Hi. cbn [tgt store bump] in Hi. destruct (Nat.eqb i (xid x)) eqn:Eq.
          -- apply Nat.eqb_eq in Eq. subst i. inversion Hi; subst t. split.
             ++ apply reach_intro; try assumption. intros dd Hdd. specialize (Hdeps dd Hdd).
                destruct (tgt st dd) as [t'|] eqn:Et; [|congruence]. apply (HS dd t' Et).
             ++ exists x. repeat split; assumption.
          -- apply HS. exact Hi.
      + destruct (step dep_ans r _) as [[[st1 d1] c1]|] eqn:E; [|discriminate]. inversion H; subst.
        assert (ND3 : NoDup (r ++ x :: others)).
        { apply (Permutation_NoDup (l := x :: r ++ others)); [|exact ND]. apply Permutation_middle. }
        destruct (IH (bump x st) (x :: others) _ _ _ E ND3) as [HP' HS'].
        * apply (Pend_perm st ((x :: r) ++ others)); [|split; assumption].
          intro y. cbn [app]. rewrite !in_app_iff. cbn [In]. rewrite in_app_iff. tauto.
        * exact HS.
        * split; [|exact HS'].
          apply (Pend_perm _ (d1 ++ x :: others)); [|exact HP'].
          intro y. cbn [app]. rewrite !in_app_iff. cbn [In]. rewrite in_app_iff. tauto.
  Qed.

  Lemma step_dep_some : forall pend st, step dep_ans pend st <> None.
  Proof.
    induction pend as [|x r IH]; intro st; cbn [step]; [discriminate|].
    destruct (dep_ans_cases x st) as [[Ea _]|[Ea _]]; rewrite Ea.
    - specialize (IH (store x (xtgt x) (bump x st))). destruct (step dep_ans r _) as [[[? ?] ?]|]; [discriminate | congruence].
    - specialize (IH (bump x st)). destruct (step dep_ans r _) as [[[? ?] ?]|]; [discriminate | congruence].
  Qed.

  (* a pass that resolves nothing changes no target and finds every pending reference stuck *)
  Lemma step_zero : forall pend st st' d,
    step dep_ans pend st = Some (st', d, 0) ->
    d = pend /\ (forall i, tgt st' i = tgt st i) /\ (forall x, In x pend -> stuck (tgt st) x).
  Proof.
    induction pend as [|x r IH]; intros st st' d H; cbn [step] in H.
    - inversion H; subst. repeat split; intros ? [].
    - destruct (dep_ans_cases x st) as [[Ea _]|[Ea Hst]]; rewrite Ea in H.
      + destruct (step dep_ans r _) as [[[st1 d1] c1]|]; [|discriminate]. inversion H.
      + destruct (step dep_ans r _) as [[[st1 d1] c1]|] eqn:E; [|discriminate]. inversion H; subst.
        destruct (IH _ _ _ E) as [Hd [Ht Hs]]. subst d1. split; [reflexivity|]. split.
        * intro i. rewrite Ht. reflexivity.
        * intros y [Hy|Hy]; [subst y; exact Hst | apply Hs; exact Hy].
  Qed.

  Lemma round_dep : forall models st others st' models' c,
    round dep_ans models st = Some (st', models', c) ->
    NoDup (concat models ++ others) -> Pend st (concat models ++ others) -> Sound st ->
    Pend st' (concat models' ++ others) /\ NoDup (concat models' ++ others) /\ Sound st'.
  Proof.
    induction models as [|m ms IH]; intros st others st' models' c H ND HP HS; cbn [round] in H.
    - inversion H; subst. split; [assumption | split; assumption].
    - destruct (step dep_ans m st) as [[[st1 d] c1]|] eqn:E1; [|discriminate].
      destruct (round dep_ans ms st1) as [[[st2 ds] c2]|] eqn:E2; [|discriminate]. inversion H; subst.
      cbn [concat] in *. rewrite <- app_assoc in ND, HP.
      destruct (step_dep m st (concat ms ++ others) _ _ _ E1 ND HP HS) as [HP1 HS1].
      pose proof (step_NoDup dep_ans m st (concat ms ++ others) _ _ _ E1 ND) as ND1.
      assert (P1 : Permutation (d ++ concat ms ++ others) (concat ms ++ d ++ others)).
      { rewrite !app_assoc. apply Permutation_app_tail. apply Permutation_app_comm. }
      destruct (IH st1 (d ++ others) _ _ _ E2) as [HP2 [ND2 HS2]].
      + apply (Permutation_NoDup P1 ND1).
      + apply (Pend_perm st1 (d ++ concat ms ++ others)); [|exact HP1].
        intro y. split; apply Permutation_in; [exact P1 | apply Permutation_sym; exact P1].
      + exact HS1.
      + assert (P2 : Permutation (concat ds ++ d ++ others) ((d ++ concat ds) ++ others)).
        { rewrite !app_assoc. apply Permutation_app_tail. apply Permutation_app_comm. }
        split; [|split; [|exact HS2]].
        * apply (Pend_perm st' (concat ds ++ d ++ others)); [|exact HP2].
          intro y. split; apply Permutation_in; [exact P2 | apply Permutation_sym; exact P2].
        * apply (Permutation_NoDup P2 ND2).
  Qed.

  Lemma round_zero : forall models st st' models',
    round dep_ans models st = Some (st', models', 0) ->
    models' = models /\ (forall i, tgt st' i = tgt st i) /\ (forall x, In x (concat models) -> stuck (tgt st) x).
  Proof.
    induction models as [|m ms IH]; intros st st' models' H; cbn [round] in H.
    - inversion H; subst. repeat split; intros ? [].
    - destruct (step dep_ans m st) as [[[st1 d] c1]|] eqn:E1; [|discriminate].
      destruct (round dep_ans ms st1) as [[[st2 ds] c2]|] eqn:E2; [|discriminate]. inversion H; subst.
      assert (c1 = 0 /\ c2 = 0) as [-> ->] by lia.
      destruct (step_zero _ _ _ _ E1) as [Hd [Ht Hs]]. subst d.
      destruct (IH _ _ _ E2) as [Hds [Ht2 Hs2]]. subst ds. split; [reflexivity|]. split.
      + intro i. rewrite Ht2, Ht. reflexivity.
      + intros x Hx. cbn [concat] in Hx. apply in_app_iff in Hx as [Hx|Hx]; [apply Hs; exact Hx|].
        specialize (Hs2 x Hx). destruct Hs2 as [Hn|[dd [H1 H2]]]; [left; exact Hn|].
        right. exists dd. split; [exact H1|]. rewrite <- Ht. exact H2.
  Qed.

  (* once every pending reference is stuck, everything reachable has been resolved *)
  Lemma complete st pend : Pend st pend -> (forall x, In x pend -> stuck (tgt st) x) ->
    forall i, reach i -> tgt st i <> None.
  Proof.
    intros [I2 I3] Hst i Hr. induction Hr as [x Hx Hnev Hd IH].
    intro Hn. specialize (Hst x (I3 x Hx Hn)). destruct Hst as [Hs|[d [H1 H2]]]; [congruence|].
    apply (IH d H1). exact H2.
  Qed.

  Lemma loop_dep : forall fuel models st,
    NoDup (concat models) -> Pend st (concat models) -> Sound st ->
    match loop fuel dep_ans models st with
    | Ok st' => Pend st' [] /\ Sound st'
    | Unresolvable lf st' => Pend st' (concat lf) /\ Sound st' /\ concat lf <> [] /\
                             (forall x, In x (concat lf) -> stuck (tgt st') x)
    | UnknownObject => False
    | OutOfFuel => True
    end.
  Proof.
    induction fuel as [|f IH]; intros models st ND HP HS; cbn [loop]; [exact I|].
    destruct (round dep_ans models st) as [[[st' models'] c]|] eqn:E.
    2:{ exfalso. clear - E. revert st E. induction models as [|m ms IHm]; intros st E; cbn [round] in E; [discriminate|].
        destruct (step dep_ans m st) as [[[st1 d] c1]|] eqn:E1; [|exact (step_dep_some _ _ E1)].
        destruct (round dep_ans ms st1) as [[[? ?] ?]|] eqn:E2; [discriminate | exact (IHm _ E2)]. }
    destruct (round_dep models st [] _ _ _ E) as [HP' [ND' HS']]; rewrite ?app_nil_r; try assumption.
    rewrite app_nil_r in HP', ND'.
    destruct (Nat.ltb 0 (total models')) eqn:E1.
    - destruct (Nat.ltb 0 c) eqn:E2; cbn [andb].
      + apply IH; assumption.
      + apply Nat.ltb_ge in E2. assert (c = 0) by lia. subst c.
        destruct (round_zero _ _ _ _ E) as [Hm [Ht Hs]]. subst models'.
        split; [exact HP'|]. split; [exact HS'|]. split.
        * apply Nat.ltb_lt in E1. unfold total in E1. intro Hnil. rewrite Hnil in E1. cbn in E1. lia.
        * intros x Hx. specialize (Hs x Hx). destruct Hs as [Hn|[dd [H1 H2]]]; [left; exact Hn|].
          right. exists dd. split; [exact H1|]. rewrite Ht. exact H2.
    - cbn [andb]. apply Nat.ltb_ge in E1. unfold total in E1.
      destruct (concat models') eqn:Ec; [split; assumption | cbn in E1; lia].
  Qed.
End Lfp.

Lemma Pend_init models : Pend (concat models) init (concat models).
Proof. split; [intros x Hx; split; [exact Hx | reflexivity] | intros x Hx _; exact Hx]. Qed.

Lemma Sound_init all : Sound all init.
Proof. intros i t H. discriminate. Qed.

Theorem fixpoint_ok : forall models st, NoDup (map xid (concat models)) ->
  load dep_ans models = Ok st ->
  forall x, In x (concat models) -> reach (concat models) (xid x) /\ tgt st (xid x) = Some (xtgt x).
Proof.
  intros models st ND H x Hx.
  pose proof (loop_dep (concat models) ND (S (total models)) models init (NoDup_map_inv _ _ ND) (Pend_init models) (Sound_init _)) as L.
  unfold load in H. rewrite H in L. destruct L as [[I2 I3] HS].
  destruct (tgt st (xid x)) as [t|] eqn:Et; [|destruct (I3 x Hx Et)].
  destruct (HS _ _ Et) as [Hr [y [Hy [Eid Etg]]]]. split; [exact Hr|].
  rewrite (same_id_same_ref _ ND y x Hy Hx Eid) in Etg. subst t. reflexivity.
Qed.

Theorem fixpoint_fail : forall models lf st, NoDup (map xid (concat models)) ->
  load dep_ans models = Unresolvable lf st ->
  forall x, In x (concat lf) <-> (In x (concat models) /\ ~ reach (concat models) (xid x)).
Proof.
  intros models lf st ND H x.
  pose proof (loop_dep (concat models) ND (S (total models)) models init (NoDup_map_inv _ _ ND) (Pend_init models) (Sound_init _)) as L.
  unfold load in H. rewrite H in L. destruct L as [HP [HS [_ Hst]]].
  pose proof (complete _ st (concat lf) HP Hst) as Hc. destruct HP as [I2 I3]. split.
  - intro Hx. destruct (I2 x Hx) as [Ha Hn]. split; [exact Ha|]. intro Hr. exact (Hc _ Hr Hn).
  - intros [Ha Hnr]. apply I3; [exact Ha|]. destruct (tgt st (xid x)) as [t|] eqn:Et; [|reflexivity].
    exfalso. apply Hnr. apply (HS _ _ Et).
Qed.

Theorem success_iff : forall models, NoDup (map xid (concat models)) ->
  ((exists st, load dep_ans models = Ok st) <-> forall x, In x (concat models) -> reach (concat models) (xid x)).
Proof.
  intros models ND. split.
  - intros [st H] x Hx. apply (fixpoint_ok models st ND H x Hx).
  - intro Hall. destruct (load dep_ans models) as [st|lf st| |] eqn:E.
    + exists st. reflexivity.
    + exfalso.
      pose proof (loop_dep (concat models) ND (S (total models)) models init (NoDup_map_inv _ _ ND) (Pend_init models) (Sound_init _)) as L.
      unfold load in E. rewrite E in L. destruct L as [_ [_ [Hne _]]].
      destruct (concat lf) as [|y l] eqn:El; [congruence|].
      assert (Hy : In y (concat lf)) by (rewrite El; left; reflexivity).
      apply (fixpoint_fail models lf st ND E) in Hy as [Hya Hnr]. apply Hnr. apply Hall. exact Hya.
    + exfalso.
      pose proof (loop_dep (concat models) ND (S (total models)) models init (NoDup_map_inv _ _ ND) (Pend_init models) (Sound_init _)) as L.
      unfold load in E. rewrite E in L. exact L.
    + exfalso. exact (load_terminates _ _ E).
Qed.

Lemma reach_ext a1 a2 : (forall x, In x a1 <-> In x a2) -> forall i, reach a1 i -> reach a2 i.
Proof.
  intros E i H. induction H as [x Hx Hn Hd IH]. apply reach_intro; [apply E; exact Hx | exact Hn | exact IH].
Qed.

(* the verdict and the stored targets do not depend on how the references are spread over
   the models or in which order the resolver visits them *)
Theorem order_independent : forall m1 m2,
  NoDup (map xid (concat m1)) -> NoDup (map xid (concat m2)) ->
  (forall x, In x (concat m1) <-> In x (concat m2)) ->
  ((exists st, load dep_ans m1 = Ok st) <-> (exists st, load dep_ans m2 = Ok st)) /\
  (forall st1 st2, load dep_ans m1 = Ok st1 -> load dep_ans m2 = Ok st2 ->
     forall x, In x (concat m1) -> tgt st1 (xid x) = tgt st2 (xid x)).
Proof.
  intros m1 m2 N1 N2 E. split.
  - rewrite (success_iff m1 N1), (success_iff m2 N2). split; intros H x Hx.
    + apply (reach_ext (concat m1)); [exact E|]. apply H. apply E. exact Hx.
    + apply (reach_ext (concat m2)); [intro y; symmetry; apply E|]. apply H. apply E. exact Hx.
  - intros st1 st2 H1 H2 x Hx.
    destruct (fixpoint_ok m1 st1 N1 H1 x Hx) as [_ ->].
    destruct (fixpoint_ok m2 st2 N2 H2 x (proj1 (E x) Hx)) as [_ ->]. reflexivity.
Qed.
