(* Terminal invariant for the interpreter of Model/Peg.v: if every terminal that [term_parse] can
   produce satisfies a (decidable) predicate on (node id, position, length), then so does every
   terminal of every parse result - for every node, state with a sound cache, fuel and both
   memoization settings.  Used by C21 (no terminal of a keyword regex is followed by a word
   character). *)
From TxV Require Import Core.Base Model.PegSyntax Model.Peg Proofs.PegCongr.

Section Inv.
Variable pt : nat -> nat -> nat -> bool.      (* node id, position, length *)

Fixpoint tree_okb (t : tree) : bool :=
  match t with
  | T nid p len _ => pt nid p len
  | NT _ kids => forallb tree_okb kids
  end.

Fixpoint res_okb (r : res) : bool :=
  match r with
  | RNone => true
  | RTree t => tree_okb t
  | RList l => forallb res_okb l
  end.

Definition cres_okb (c : cres) : bool := match c with CNoMatch => true | CRes r => res_okb r end.
Definition cache_okb (m : list ((nat * nat) * (cres * nat))) : bool :=
  forallb (fun e => cres_okb (fst (snd e))) m.

Definition st_ok (s : st) : Prop := cache_okb (cache s) = true.
Definition out_ok (o : out) : Prop :=
  match o with
  | Ok r s => res_okb r = true /\ st_ok s
  | Fail s => st_ok s
  | Abort _ => True
  end.
Notation parser := (nat -> bool -> st -> out) (only parsing).
Definition pinv (rec : parser) : Prop := forall n psq s, st_ok s -> out_ok (rec n psq s).

Lemma flatten_ok r : res_okb r = true -> forallb tree_okb (flatten r) = true.
Proof.
  induction r as [| t | l IH] using res_ind2; intro H; [reflexivity | cbn [flatten forallb]; cbn [res_okb] in H; rewrite H; reflexivity |].
  cbn [flatten]. cbn [res_okb] in H. induction IH as [| x l Hx Hl IHl]; [reflexivity|].
  cbn [forallb] in H. apply andb_true_iff in H as [H1 H2].
  rewrite forallb_app, (Hx H1), (IHl H2). reflexivity.
Qed.

Lemma post_ok nid nd r : res_okb r = true -> res_okb (post nid nd r) = true.
Proof.
  intro H. unfold post.
  destruct (n_suppress nd || head_is_none r)%bool.
  - cbn. rewrite andb_false_r. reflexivity.
  - destruct (n_root nd && truthy r && negb (is_ptnode r))%bool; [|exact H].
    cbn [res_okb tree_okb]. apply flatten_ok, H.
Qed.

Lemma clookup_ok n p m : cache_okb m = true ->
  match clookup n p m with Some (c, _) => cres_okb c = true | None => True end.
Proof.
  induction m as [|[[n' p'] [c np]] m IH]; intro H; [exact I|].
  cbn [cache_okb forallb fst snd] in H. apply andb_true_iff in H as [H1 H2].
  cbn [clookup]. destruct (Nat.eqb n n' && Nat.eqb p p')%bool; [exact H1 | apply IH, H2].
Qed.

(* state bookkeeping: only cput touches the cache *)
Lemma ok_set_pos p s : st_ok s -> st_ok (set_pos p s). Proof. exact (fun H => H). Qed.
Lemma ok_set_skipws b s : st_ok s -> st_ok (set_skipws b s). Proof. exact (fun H => H). Qed.
Lemma ok_set_in_cmt b s : st_ok s -> st_ok (set_in_cmt b s). Proof. exact (fun H => H). Qed.
Lemma ok_set_nm n s : st_ok s -> st_ok (set_nm n s). Proof. exact (fun H => H). Qed.
Lemma ok_set_cpos c s : st_ok s -> st_ok (set_cpos c s). Proof. exact (fun H => H). Qed.
Lemma ok_set_ws w s : st_ok s -> st_ok (set_ws w s). Proof. exact (fun H => H). Qed.
Lemma ok_set_eolterm b s : st_ok s -> st_ok (set_eolterm b s). Proof. exact (fun H => H). Qed.
Lemma ok_reg_fail p s : st_ok s -> st_ok (reg_fail p s).
Proof.
  intro H. unfold reg_fail. destruct (nm s) as [q|]; [|exact H].
  destruct (in_cmt s); [exact H|]. destruct (Nat.ltb q p); exact H.
Qed.
Lemma ok_cput n p c np s : cres_okb c = true -> st_ok s -> st_ok (cput n p (c, np) s).
Proof.
  intros Hc H. unfold st_ok in *. change (cache (cput n p (c, np) s)) with (((n, p), (c, np)) :: cache s).
  cbn [cache_okb forallb fst snd]. rewrite Hc. exact H.
Qed.
Lemma ok_enter_ws nd s : st_ok s -> st_ok (enter_ws nd s).
Proof. intro H. unfold enter_ws. destruct (n_ws nd), (n_skipws nd); exact H. Qed.
Lemma ok_leave_ws nd old s : st_ok s -> st_ok (leave_ws nd old s).
Proof. intro H. unfold leave_ws. destruct (n_ws nd), (n_skipws nd); exact H. Qed.
Lemma ok_enter_eol nd s : st_ok s -> st_ok (enter_eol nd s).
Proof. intro H. unfold enter_eol. destruct (n_eolterm nd); exact H. Qed.
Lemma ok_leave_eol nd old s : st_ok s -> st_ok (leave_eol nd old s).
Proof. intro H. unfold leave_eol. destruct (n_eolterm nd); exact H. Qed.

Ltac ok_tac :=
  repeat match goal with
    | |- st_ok (set_pos _ _) => apply ok_set_pos
    | |- st_ok (set_skipws _ _) => apply ok_set_skipws
    | |- st_ok (set_in_cmt _ _) => apply ok_set_in_cmt
    | |- st_ok (set_nm _ _) => apply ok_set_nm
    | |- st_ok (set_cpos _ _) => apply ok_set_cpos
    | |- st_ok (reg_fail _ _) => apply ok_reg_fail
    | |- st_ok (enter_ws _ _) => apply ok_enter_ws
    | |- st_ok (leave_ws _ _ _) => apply ok_leave_ws
    | |- st_ok (enter_eol _ _) => apply ok_enter_eol
    | |- st_ok (leave_eol _ _ _) => apply ok_leave_eol
    | |- st_ok _ => assumption
    end.

Section Interp.
Variable g : grammar.
Variable input : list N.
Variable orc : nat -> nat -> option nat.
Variable memo : bool.

Lemma ok_maybe_skip_ws s : st_ok s -> st_ok (maybe_skip_ws input s).
Proof. intro H. unfold maybe_skip_ws, do_skip_ws. destruct (skipws s); exact H. Qed.

Lemma ok_nm_raise p s : st_ok s -> out_ok (nm_raise p s).
Proof. intro H. unfold nm_raise. cbn [out_ok]. apply ok_reg_fail, H. Qed.

(* use the hypothesis on the call the goal scrutinises *)
Ltac step Hrec :=
  match goal with
  | |- out_ok (match ?rec ?n ?b ?s with _ => _ end) =>
    let I := fresh "I" in let r := fresh "r" in let s1 := fresh "s1" in
    assert (I : out_ok (rec n b s)) by (apply Hrec; ok_tac);
    destruct (rec n b s) as [r s1 | s1 | ?]; cbn [out_ok] in I
  end.

Lemma cmt_ok rec : pinv rec -> forall cm k s, st_ok s -> out_ok (cmt_loop input rec cm k s).
Proof.
  intros Hrec cm k. induction k as [|k IH]; intros s Hs; cbn [cmt_loop]; [exact I|].
  step Hrec.
  - apply IH. apply ok_maybe_skip_ws, I.
  - split; [reflexivity | exact I].
  - exact Logic.I.
Qed.

Lemma parse_comments_ok rec : pinv rec -> forall k s, st_ok s -> out_ok (parse_comments g input rec k s).
Proof.
  intros Hrec k s Hs. unfold parse_comments. destruct (g_comments g) as [cm|].
  - pose proof (cmt_ok rec Hrec cm k (set_in_cmt true s) Hs) as I.
    destruct (cmt_loop input rec cm k (set_in_cmt true s)) as [r s1|s1|w]; cbn [out_ok] in *.
    + split; [reflexivity | exact (proj2 I)].
    + exact I.
    + exact Logic.I.
  - split; [reflexivity | exact Hs].
Qed.

Lemma match_pre_ok rec : pinv rec -> forall k s, st_ok s -> out_ok (match_pre g input rec k s).
Proof.
  intros Hrec k s Hs. unfold match_pre. cbv zeta.
  assert (Hs1 : st_ok (maybe_skip_ws input s)) by (apply ok_maybe_skip_ws, Hs).
  set (s1 := maybe_skip_ws input s) in *. clearbody s1.
  destruct (if skipws s1 then lookup (pos s1) (cpos s1) else None) as [p'|].
  - split; [reflexivity | exact Hs1].
  - destruct (in_cmt s1); [split; [reflexivity | exact Hs1]|].
    pose proof (parse_comments_ok rec Hrec k s1 Hs1) as I.
    destruct (parse_comments g input rec k s1) as [r s2|s2|w]; cbn [out_ok] in *.
    + split; [reflexivity | exact (proj2 I)].
    + exact I.
    + exact Logic.I.
Qed.

Lemma acc_ok (b : bool) acc r : forallb res_okb acc = true -> res_okb r = true ->
  forallb res_okb (if b then acc ++ [r] else acc) = true.
Proof.
  intros Ha Hr. destruct b; [|exact Ha]. rewrite forallb_app, Ha. cbn. rewrite Hr. reflexivity.
Qed.

Lemma seq_ok rec : pinv rec -> forall psq kids acc s, forallb res_okb acc = true -> st_ok s ->
  out_ok (seq_loop rec psq kids acc s).
Proof.
  intros Hrec psq kids. induction kids as [|c kids IH]; intros acc s Ha Hs; cbn [seq_loop].
  - split; [exact Ha | exact Hs].
  - step Hrec.
    + destruct I as [Ir Is]. apply IH; [apply acc_ok; assumption | exact Is].
    + exact I.
    + exact Logic.I.
Qed.

Lemma choice_ok rec : pinv rec -> forall c_pos kids s, st_ok s -> out_ok (choice_loop rec c_pos kids s).
Proof.
  intros Hrec c_pos kids. induction kids as [|c kids IH]; intros s Hs; cbn [choice_loop].
  - split; [reflexivity | exact Hs].
  - step Hrec.
    + destruct I as [Ir Is]. destruct (is_none r); [apply IH, Is | split; assumption].
    + apply IH. exact I.
    + exact Logic.I.
Qed.

Lemma rep_ok rec : pinv rec -> forall e sep plus k first acc s, forallb res_okb acc = true -> st_ok s ->
  out_ok (rep_loop rec e sep plus k first acc s).
Proof.
  intros Hrec e sep plus k. induction k as [|k IH]; intros first acc s Ha Hs; cbn [rep_loop]; [exact I|].
  assert (Helem : forall acc1 s1 c_pos, forallb res_okb acc1 = true -> st_ok s1 ->
    out_ok (match rec e false s1 with
            | Ok r s2 => if truthy r then rep_loop rec e sep plus k false (acc1 ++ [r]) s2
                         else Ok (RList acc1) s2
            | Fail s2 => if (plus && first)%bool then Fail (set_pos c_pos s2)
                         else Ok (RList acc1) (set_pos c_pos s2)
            | Abort w => Abort w
            end)).
  { intros acc1 s1 c_pos Ha1 Hs1. step Hrec.
    - destruct I as [Ir Is]. destruct (truthy r).
      + apply IH; [exact (acc_ok true acc1 r Ha1 Ir) | exact Is].
      + split; [exact Ha1 | exact Is].
    - destruct (plus && first)%bool; [exact I | split; [exact Ha1 | exact I]].
    - exact Logic.I. }
  destruct sep as [sp|]; [|apply Helem; assumption].
  destruct first; [apply Helem; assumption|].
  step Hrec.
  - destruct I as [Ir Is]. apply Helem; [apply acc_ok; assumption | exact Is].
  - rewrite andb_false_r. split; [exact Ha | exact I].
  - exact Logic.I.
Qed.

Definition ugr_ok (u : ugr) : Prop :=
  match u with
  | UGHit _ r s => res_okb r = true /\ st_ok s
  | UGNone _ s => st_ok s
  | UGAbort _ => True
  end.

Lemma ug_try_ok rec : pinv rec -> forall sep_failed c_loc todo mt s, st_ok s ->
  ugr_ok (ug_try rec sep_failed c_loc todo mt s).
Proof.
  intros Hrec sep_failed c_loc todo. induction todo as [|e rest IH]; intros mt s Hs; cbn [ug_try]; [exact Hs|].
  pose proof (Hrec e false s Hs) as I. destruct (rec e false s) as [r s1|s1|w]; cbn [out_ok] in I.
  - destruct I as [Ir Is]. destruct (truthy r).
    + destruct sep_failed; [apply IH, Is | split; assumption].
    + apply IH, Is.
  - apply IH, I.
  - exact Logic.I.
Qed.

Definition ugo_ok (u : ugo) : Prop :=
  match u with
  | UGDone _ acc s => forallb res_okb acc = true /\ st_ok s
  | UGOAbort _ => True
  end.

Lemma ug_loop_ok rec : pinv rec -> forall sep n todo first sr acc s,
  res_okb sr = true -> forallb res_okb acc = true -> st_ok s ->
  ugo_ok (ug_loop rec sep n todo first sr acc s).
Proof.
  intros Hrec sep n. induction n as [|n IH]; intros todo first sr acc s Hsr Ha Hs.
  - destruct todo; cbn [ug_loop]; [split; assumption | exact I].
  - destruct todo as [|t0 todo]; [cbn [ug_loop]; split; assumption|].
    cbn [ug_loop].
    assert (Hcont : forall sep_failed sr1 s1 c_loc c_loc_sep, res_okb sr1 = true -> st_ok s1 ->
      ugo_ok match ug_try rec sep_failed c_loc (t0 :: todo) true s1 with
             | UGHit e r s2 =>
               ug_loop rec sep n (remove_first e (t0 :: todo)) false sr1
                       ((if truthy sr1 then acc ++ [sr1] else acc) ++ [r]) s2
             | UGNone mt s2 => UGDone mt acc (set_pos c_loc_sep s2)
             | UGAbort w => UGOAbort w
             end).
    { intros sep_failed sr1 s1 c_loc c_loc_sep Hsr1 Hs1.
      pose proof (ug_try_ok rec Hrec sep_failed c_loc (t0 :: todo) true s1 Hs1) as I.
      destruct (ug_try rec sep_failed c_loc (t0 :: todo) true s1) as [e r s2|mt s2|w]; cbn [ugr_ok] in I.
      - destruct I as [Ir Is]. apply IH; [exact Hsr1 | | exact Is].
        rewrite forallb_app, (acc_ok (truthy sr1) acc sr1 Ha Hsr1). cbn. rewrite Ir. reflexivity.
      - split; [exact Ha | exact I].
      - exact Logic.I. }
    destruct sep as [sp|]; [|apply Hcont; assumption].
    destruct first; [apply Hcont; assumption|].
    pose proof (Hrec sp false s Hs) as I. destruct (rec sp false s) as [r s1|s1|w]; cbn [out_ok] in I.
    + destruct I as [Ir Is]. apply Hcont; assumption.
    + apply Hcont; [exact Hsr | exact I].
    + exact Logic.I.
Qed.

Lemma body_ok rec : pinv rec -> forall k nd s, st_ok s -> out_ok (body rec k nd s).
Proof.
  intros Hrec k nd s Hs. unfold body.
  destruct (n_kind nd) as [| | | | | | | | | |t oid|o]; try exact I.
  - pose proof (seq_ok rec Hrec true (n_kids nd) [] (enter_ws nd s) eq_refl (ok_enter_ws nd s Hs)) as I.
    destruct (seq_loop rec true (n_kids nd) [] (enter_ws nd s)) as [r s1|s1|w]; cbn [out_ok] in *.
    + destruct I as [Ir Is]. destruct r as [|t|[|x l]]; (split; [first [reflexivity | exact Ir] | ok_tac]).
    + ok_tac.
    + exact Logic.I.
  - pose proof (choice_ok rec Hrec (pos s) (n_kids nd) (enter_ws nd s) (ok_enter_ws nd s Hs)) as I.
    destruct (choice_loop rec (pos s) (n_kids nd) (enter_ws nd s)) as [r s1|s1|w]; cbn [out_ok] in *.
    + destruct I as [Ir Is]. destruct (is_none r).
      * apply ok_nm_raise. ok_tac.
      * split; [cbn; rewrite Ir; reflexivity | ok_tac].
    + exact I.
    + exact Logic.I.
  - destruct (n_kids nd) as [|e kids]; [exact I|]. cbv beta iota.
    pose proof (Hrec e false s Hs) as I. destruct (rec e false s) as [r s1|s1|w]; cbn [out_ok] in *.
    + destruct I as [Ir Is]. split; [cbn; rewrite Ir; reflexivity | exact Is].
    + split; [reflexivity | ok_tac].
    + exact Logic.I.
  - destruct (n_kids nd) as [|e kids]; [exact I|]. cbv beta iota.
    pose proof (rep_ok rec Hrec e (n_sep nd) false k true [] (enter_eol nd s) eq_refl (ok_enter_eol nd s Hs)) as I.
    destruct (rep_loop rec e (n_sep nd) false k true [] (enter_eol nd s)) as [r s1|s1|w]; cbn [out_ok] in *.
    + destruct I as [Ir Is]. split; [exact Ir | ok_tac].
    + ok_tac.
    + exact Logic.I.
  - destruct (n_kids nd) as [|e kids]; [exact I|]. cbv beta iota.
    pose proof (rep_ok rec Hrec e (n_sep nd) true k true [] (enter_eol nd s) eq_refl (ok_enter_eol nd s Hs)) as I.
    destruct (rep_loop rec e (n_sep nd) true k true [] (enter_eol nd s)) as [r s1|s1|w]; cbn [out_ok] in *.
    + destruct I as [Ir Is]. split; [exact Ir | ok_tac].
    + ok_tac.
    + exact Logic.I.
  - destruct (n_kids nd) as [|e kids]; [exact I|]. cbv beta iota.
    pose proof (ug_loop_ok rec Hrec (n_sep nd) (S (length (e :: kids))) (e :: kids) true RNone []
                           (enter_eol nd s) eq_refl eq_refl (ok_enter_eol nd s Hs)) as I.
    destruct (ug_loop rec (n_sep nd) (S (length (e :: kids))) (e :: kids) true RNone [] (enter_eol nd s))
      as [mt acc s1|w]; cbn [ugo_ok] in *; [|exact Logic.I].
    destruct I as [Ia Is]. destruct mt.
    + split; [destruct acc; [reflexivity | exact Ia] | ok_tac].
    + apply ok_nm_raise. ok_tac.
  - pose proof (seq_ok rec Hrec false (n_kids nd) [] s eq_refl Hs) as I.
    destruct (seq_loop rec false (n_kids nd) [] s) as [r s1|s1|w]; cbn [out_ok] in *.
    + split; [reflexivity | ok_tac; exact (proj2 I)].
    + ok_tac.
    + exact Logic.I.
  - pose proof (seq_ok rec Hrec false (n_kids nd) [] s eq_refl Hs) as I.
    destruct (seq_loop rec false (n_kids nd) [] s) as [r s1|s1|w]; cbn [out_ok] in *.
    + apply ok_nm_raise. ok_tac. exact (proj2 I).
    + split; [reflexivity | ok_tac].
    + exact Logic.I.
  - split; [reflexivity | exact Hs].
Qed.

(* what the terminals produce *)
Hypothesis H_term : forall nid nd psq s r s',
  get_node g nid = Some nd -> term_parse input orc nid (n_kind nd) psq s = Ok r s' -> res_okb r = true.

Lemma term_parse_cache nid k psq s :
  match term_parse input orc nid k psq s with
  | Ok _ s' => cache s' = cache s
  | Fail s' => cache s' = cache s
  | Abort _ => True
  end.
Proof.
  assert (Hrf : forall p, cache (reg_fail p s) = cache s).
  { intro p. unfold reg_fail. destruct (nm s) as [q|]; [|reflexivity].
    destruct (in_cmt s); [reflexivity|]. destruct (Nat.ltb q p); reflexivity. }
  unfold term_parse, nm_raise. cbv zeta.
  destruct k as [| | | | | | | | | |t oid|o]; try exact I.
  - destruct (Nat.eqb (length input) (pos s)); [reflexivity | apply Hrf].
  - destruct (match oid with Some o => _ | None => _ end); [reflexivity | apply Hrf].
  - destruct (orc o (pos s)) as [len|]; [destruct (Nat.eqb len 0); reflexivity | apply Hrf].
Qed.

Theorem parse_ok : forall fuel, pinv (parse g input orc memo fuel).
Proof.
  induction fuel as [|f IH]; intros nid psq s Hs; cbn [parse]; [exact I|].
  destruct (get_node g nid) as [nd|] eqn:En; [|exact I].
  destruct (is_match_kind (n_kind nd)).
  - pose proof (match_pre_ok _ IH f s Hs) as I.
    destruct (match_pre g input (parse g input orc memo f) f s) as [r s1|s1|w]; cbn [out_ok] in *;
      [|exact I | exact Logic.I].
    destruct I as [_ Is].
    pose proof (H_term nid nd psq s1) as Ht. pose proof (term_parse_cache nid (n_kind nd) psq s1) as Hc.
    destruct (term_parse input orc nid (n_kind nd) psq s1) as [r2 s2|s2|w]; cbn [out_ok].
    + split; [destruct (n_suppress nd); [reflexivity | exact (Ht r2 s2 En eq_refl)] | unfold st_ok; rewrite Hc; exact Is].
    + unfold st_ok. rewrite Hc. exact Is.
    + exact Logic.I.
  - destruct memo.
    + pose proof (clookup_ok nid (pos s) (cache s) Hs) as Hl.
      destruct (clookup nid (pos s) (cache s)) as [[[|cr] np]|].
      * cbn [out_ok]. ok_tac.
      * cbn [out_ok]. split; [exact Hl | ok_tac].
      * pose proof (body_ok _ IH f nd s Hs) as I.
        destruct (body (parse g input orc true f) f nd s) as [r s1|s1|w]; cbn [out_ok] in *.
        -- destruct I as [Ir Is]. split; [apply post_ok, Ir | apply ok_cput; [apply post_ok, Ir | exact Is]].
        -- apply ok_cput; [reflexivity | ok_tac].
        -- exact Logic.I.
    + pose proof (body_ok _ IH f nd s Hs) as I.
      destruct (body (parse g input orc false f) f nd s) as [r s1|s1|w]; cbn [out_ok] in *.
      * destruct I as [Ir Is]. split; [apply post_ok, Ir | exact Is].
      * ok_tac.
      * exact Logic.I.
Qed.

Theorem run_ok cfg fuel r :
  run g cfg orc memo fuel input = Parsed r -> res_okb r = true.
Proof.
  unfold run. intro H.
  pose proof (parse_ok fuel (g_top g) false (init_st cfg) eq_refl) as I.
  destruct (parse g input orc memo fuel (g_top g) false (init_st cfg)) as [r' s|s|w]; try discriminate.
  injection H as <-. exact (proj1 I).
Qed.

End Interp.

(* the terminals of a result, as a list *)
Fixpoint tree_terminals (t : tree) : list (nat * nat * nat) :=
  match t with
  | T nid p len _ => [(nid, p, len)]
  | NT _ kids => flat_map tree_terminals kids
  end.
Fixpoint res_terminals (r : res) : list (nat * nat * nat) :=
  match r with
  | RNone => []
  | RTree t => tree_terminals t
  | RList l => flat_map res_terminals l
  end.

Lemma tree_okb_In t : tree_okb t = true -> forall nid p len, In (nid, p, len) (tree_terminals t) -> pt nid p len = true.
Proof.
  induction t as [nid0 p0 len0 sup | nid0 kids IH] using tree_ind2; intros H nid p len Hin.
  - cbn in Hin. destruct Hin as [E|[]]. injection E as <- <- <-. exact H.
  - cbn [tree_okb] in H. cbn [tree_terminals] in Hin.
    induction IH as [| x l Hx Hl IHl]; [destruct Hin|].
    cbn [forallb] in H. apply andb_true_iff in H as [H1 H2].
    cbn [flat_map] in Hin. apply in_app_or in Hin as [Hin|Hin]; [exact (Hx H1 nid p len Hin) | exact (IHl H2 Hin)].
Qed.

Lemma res_okb_In r : res_okb r = true -> forall nid p len, In (nid, p, len) (res_terminals r) -> pt nid p len = true.
Proof.
  induction r as [| t | l IH] using res_ind2; intros H nid p len Hin.
  - destruct Hin.
  - exact (tree_okb_In t H nid p len Hin).
  - cbn [res_okb] in H. cbn [res_terminals] in Hin.
    induction IH as [| x l Hx Hl IHl]; [destruct Hin|].
    cbn [forallb] in H. apply andb_true_iff in H as [H1 H2].
    cbn [flat_map] in Hin. apply in_app_or in Hin as [Hin|Hin]; [exact (Hx H1 nid p len Hin) | exact (IHl H2 Hin)].
Qed.

End Inv.
