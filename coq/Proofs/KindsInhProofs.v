(* C03: completeness of the recorded inheritance lists (_tx_inh_by) under wf_inh. *)
From TxV Require Import Core.Base Model.Kinds Proofs.KindsProofs.
Require Import Lia.

(* ------------------------------------------------------------------ list forms *)
Fixpoint skippable_all (K : nat -> kind) (l : list expr) : bool :=
  match l with [] => true | x :: l' => skippable K x && skippable_all K l' end.
Fixpoint firsts_seq (K : nat -> kind) (l : list expr) : list nat :=
  match l with [] => [] | x :: l' => firsts K x ++ (if skippable K x then firsts_seq K l' else []) end.
Fixpoint firsts_choice (K : nat -> kind) (l : list expr) : list nat :=
  match l with [] => [] | x :: l' => firsts K x ++ firsts_choice K l' end.
Fixpoint seq_ok_seq (K : nat -> kind) (l : list expr) : bool :=
  match l with
  | [] => true
  | x :: l' => seq_ok K x && (if has_nm K x && skippable K x then negb (existsb (has_nm K) l') else true) && seq_ok_seq K l'
  end.
Fixpoint seq_ok_all (K : nat -> kind) (l : list expr) : bool :=
  match l with [] => true | x :: l' => seq_ok K x && seq_ok_all K l' end.

Lemma firsts_Seq K es : firsts K (Seq es) = firsts_seq K es.
Proof. simpl. induction es as [|a es IH]; simpl; [reflexivity | rewrite IH; reflexivity]. Qed.
Lemma firsts_Choice K es : firsts K (Choice es) = firsts_choice K es.
Proof. simpl. induction es as [|a es IH]; simpl; [reflexivity | rewrite IH; reflexivity]. Qed.
Lemma seq_ok_Seq K es : seq_ok K (Seq es) = seq_ok_seq K es.
Proof. simpl. induction es as [|a es IH]; simpl; [reflexivity | rewrite IH; reflexivity]. Qed.
Lemma seq_ok_Choice K es : seq_ok K (Choice es) = seq_ok_all K es.
Proof. simpl. induction es as [|a es IH]; simpl; [reflexivity | rewrite IH; reflexivity]. Qed.

Lemma has_nm_Seq_cons K x l : has_nm K (Seq (x :: l)) = has_nm K x || has_nm K (Seq l).
Proof. unfold has_nm. rewrite !refs_Seq. simpl. apply existsb_app. Qed.
Lemma has_nm_Choice_cons K x l : has_nm K (Choice (x :: l)) = has_nm K x || has_nm K (Choice l).
Proof. unfold has_nm. rewrite !refs_Choice. simpl. apply existsb_app. Qed.
Lemma has_nm_Seq_nil K : has_nm K (Seq []) = false.
Proof. reflexivity. Qed.
Lemma has_nm_Choice_nil K : has_nm K (Choice []) = false.
Proof. reflexivity. Qed.

Lemma existsb_has_nm K l : existsb (has_nm K) l = has_nm K (Seq l).
Proof.
  induction l as [|a l IH]; [reflexivity|]. simpl existsb. rewrite has_nm_Seq_cons, IH. reflexivity.
Qed.

Lemma firsts_nil K : forall e, has_nm K e = false -> firsts K e = [].
Proof.
  induction e as [|r|es IH|es IH|e IH|e IH] using expr_ind'; intro H.
  - reflexivity.
  - unfold has_nm in H. simpl in H. rewrite orb_false_r in H. apply negb_false_iff in H. simpl. rewrite H. reflexivity.
  - rewrite firsts_Seq. induction IH as [|a es Ha _ IHl]; [reflexivity|].
    rewrite has_nm_Seq_cons in H. apply orb_false_iff in H as [H1 H2]. simpl.
    rewrite (Ha H1), (IHl H2). destruct (skippable K a); reflexivity.
  - rewrite firsts_Choice. induction IH as [|a es Ha _ IHl]; [reflexivity|].
    rewrite has_nm_Choice_cons in H. apply orb_false_iff in H as [H1 H2]. simpl.
    rewrite (Ha H1), (IHl H2). reflexivity.
  - simpl. apply IH. exact H.
  - simpl. apply IH. exact H.
Qed.

(* ------------------------------------------------------------------ walks with accurate reads *)
Section Accurate.
Variable K : nat -> kind.
Variable P : st -> Prop.
Variable det : nat -> st -> st.
Variable ok : nat -> Prop.
Variable y : nat.
(* a nested call keeps the invariant, reads the referenced rule's final kind, and does not shrink y's list *)
Hypothesis Hacc : forall c a, ok c -> P a ->
  P (det c a) /\ is_match (types (det c a) c) = is_match (K c) /\
  (forall c', In c' (inh a y) -> In c' (inh (det c a) y)).
Hypothesis Hadd : forall c a, P a -> P (set_inh y (inh a y ++ [c]) a).

Lemma hnm_accurate : forall e s, (forall c, In c (refs e) -> ok c) -> P s ->
  P (snd (hnm det e s)) /\ (has_nm K e = true -> fst (hnm det e s) = true).
Proof.
  induction e as [|r|es IH|es IH|e IH|e IH] using expr_ind'; intros s Hok HP.
  - split; [exact HP | discriminate].
  - simpl. destruct (Hacc r s (Hok r (or_introl eq_refl)) HP) as [A [B _]]. split; [exact A|].
    unfold has_nm. simpl. rewrite orb_false_r, B. auto.
  - rewrite hnm_Seq. rewrite refs_Seq in Hok. revert s Hok HP.
    induction IH as [|a es Ha _ IHl]; intros s Hok HP; [split; [exact HP | discriminate]|].
    simpl. destruct (Ha s (fun c Hc => Hok c (in_or_app _ _ _ (or_introl Hc))) HP) as [A B].
    destruct (hnm det a s) as [b s1]. simpl in A, B. destruct b; [split; [exact A | reflexivity]|].
    destruct (IHl s1 (fun c Hc => Hok c (in_or_app _ _ _ (or_intror Hc))) A) as [A2 B2]. split; [exact A2|].
    rewrite has_nm_Seq_cons. intro H. apply orb_true_iff in H as [H|H]; [specialize (B H); discriminate | apply B2; exact H].
  - rewrite hnm_Choice. rewrite refs_Choice in Hok. revert s Hok HP.
    induction IH as [|a es Ha _ IHl]; intros s Hok HP; [split; [exact HP | discriminate]|].
    simpl. destruct (Ha s (fun c Hc => Hok c (in_or_app _ _ _ (or_introl Hc))) HP) as [A B].
    destruct (hnm det a s) as [b s1]. simpl in A, B. destruct b; [split; [exact A | reflexivity]|].
    destruct (IHl s1 (fun c Hc => Hok c (in_or_app _ _ _ (or_intror Hc))) A) as [A2 B2]. split; [exact A2|].
    rewrite has_nm_Choice_cons. intro H. apply orb_true_iff in H as [H|H]; [specialize (B H); discriminate | apply B2; exact H].
  - simpl. apply IH; assumption.
  - simpl. apply IH; assumption.
Qed.

Definition walk_post (e : expr) (s : st) (r : bool * st) : Prop :=
  P (snd r) /\ (forall c, In c (inh s y) -> In c (inh (snd r) y)) /\
  (seq_ok K e = true -> forall c, In c (firsts K e) -> In c (inh (snd r) y)) /\
  (has_nm K e = false -> fst r = false).

Lemma addr_accurate : forall e s, (forall c, In c (refs e) -> ok c) -> P s -> walk_post e s (addr det y e s).
Proof.
  induction e as [|r|es IH|es IH|e IH|e IH] using expr_ind'; intros s Hok HP.
  - split; [exact HP|]. split; [auto|]. split; [intros _ c []|reflexivity].
  - destruct (Hacc r s (Hok r (or_introl eq_refl)) HP) as [A [B C]]. unfold walk_post. simpl.
    destruct (is_match (K r)) eqn:Er.
    + rewrite B. simpl. split; [exact A|]. split; [exact C|]. split; [intros _ c []|reflexivity].
    + rewrite B. simpl. destruct (mem r (inh (det r s) y)) eqn:M; simpl.
      * split; [exact A|]. split; [exact C|]. split; [|unfold has_nm; simpl; rewrite Er; discriminate].
        intros _ c [<-|[]]. apply mem_In. exact M.
      * split; [apply Hadd; exact A|]. split; [intros c Hc; rewrite upd_same; apply in_or_app; left; apply C; exact Hc|].
        split; [|unfold has_nm; simpl; rewrite Er; discriminate].
        intros _ c [<-|[]]. rewrite upd_same. apply in_or_app. right. left. reflexivity.
  - unfold walk_post. rewrite addr_Seq, firsts_Seq, seq_ok_Seq. rewrite refs_Seq in Hok. revert s Hok HP.
    induction IH as [|a es Ha _ IHl]; intros s Hok HP.
    + simpl. split; [exact HP|]. split; [auto|]. split; [intros _ c []|reflexivity].
    + simpl addr_seq. destruct (Ha s (fun c Hc => Hok c (in_or_app _ _ _ (or_introl Hc))) HP) as [A [G [F N]]].
      destruct (addr det y a s) as [b s1]. simpl in A, G, F, N.
      destruct b.
      * simpl. split; [exact A|]. split; [exact G|]. split.
        -- intros Hs c Hc. apply andb_true_iff in Hs as [Hs _]. apply andb_true_iff in Hs as [Hs1 Hs2].
           apply in_app_or in Hc as [Hc|Hc]; [apply F; assumption|].
           destruct (skippable K a) eqn:Sk; [|destruct Hc].
           destruct (has_nm K a) eqn:Hn; [|specialize (N eq_refl); discriminate].
           simpl in Hs2. apply negb_true_iff in Hs2. rewrite existsb_has_nm in Hs2.
           assert (Z := firsts_nil K (Seq es) Hs2). rewrite firsts_Seq in Z. rewrite Z in Hc. destruct Hc.
        -- rewrite has_nm_Seq_cons. intro H. apply orb_false_iff in H as [H _]. specialize (N H). discriminate.
      * destruct (IHl s1 (fun c Hc => Hok c (in_or_app _ _ _ (or_intror Hc))) A) as [A2 [G2 [F2 N2]]].
        destruct (addr_seq det y es s1) as [b2 s2]. simpl in A2, G2, F2, N2. simpl.
        split; [exact A2|]. split; [intros c Hc; apply G2; apply G; exact Hc|]. split.
        -- intros Hs c Hc. apply andb_true_iff in Hs as [Hs Hs3]. apply andb_true_iff in Hs as [Hs1 Hs2].
           apply in_app_or in Hc as [Hc|Hc]; [apply G2; apply F; assumption|].
           destruct (skippable K a); [apply F2; assumption | destruct Hc].
        -- rewrite has_nm_Seq_cons. intro H. apply orb_false_iff in H as [_ H]. apply N2. exact H.
  - unfold walk_post. rewrite addr_Choice, firsts_Choice, seq_ok_Choice. rewrite refs_Choice in Hok. revert s Hok HP.
    induction IH as [|a es Ha _ IHl]; intros s Hok HP.
    + simpl. split; [exact HP|]. split; [auto|]. split; [intros _ c []|reflexivity].
    + simpl addr_choice. destruct (Ha s (fun c Hc => Hok c (in_or_app _ _ _ (or_introl Hc))) HP) as [A [G [F N]]].
      destruct (addr det y a s) as [b s1]. simpl in A, G, F, N.
      destruct (IHl s1 (fun c Hc => Hok c (in_or_app _ _ _ (or_intror Hc))) A) as [A2 [G2 [F2 N2]]].
      destruct (addr_choice det y es s1) as [b2 s2]. simpl in A2, G2, F2, N2. simpl.
      split; [exact A2|]. split; [intros c Hc; apply G2; apply G; exact Hc|]. split.
      * intros Hs c Hc. apply andb_true_iff in Hs as [Hs1 Hs2].
        apply in_app_or in Hc as [Hc|Hc]; [apply G2; apply F; assumption | apply F2; assumption].
      * rewrite has_nm_Choice_cons. intro H. apply orb_false_iff in H as [H1 H2]. rewrite (N H1), (N2 H2). reflexivity.
  - simpl. apply IH; assumption.
  - simpl. apply IH; assumption.
Qed.
End Accurate.

(* ------------------------------------------------------------------ bookkeeping relations kept by determine *)
Section Aux.
Variable g : list rule.

(* lists only grow; with a set B of rules resolved before: their types are not touched *)
Definition Aux (B : nat -> bool) (a b : st) : Prop :=
  (forall z c, In c (inh a z) -> In c (inh b z)) /\
  ((forall z, B z = true -> resolved a z = true) ->
   (forall z, B z = true -> resolved b z = true) /\ (forall z, B z = true -> types b z = types a z)).

Lemma Aux_refl B a : Aux B a a.
Proof. split; [auto|]. intro H. split; auto. Qed.

Lemma Aux_trans B a b c : Aux B a b -> Aux B b c -> Aux B a c.
Proof.
  intros [I1 F1] [I2 F2]. split; [auto|]. intro H. destruct (F1 H) as [R1 T1]. destruct (F2 R1) as [R2 T2].
  split; [exact R2|]. intros z Hz. rewrite (T2 z Hz). apply T1. exact Hz.
Qed.

Lemma determine_Aux : forall f x s B, (forall z, B z = true -> resolved s z = true) -> Aux B s (determine g f x s).
Proof.
  induction f as [|f IH]; intros x s B HB; [split; [auto | intros _; split; auto]|].
  rewrite determine_S. destruct (resolved s x) eqn:Hres; [apply Aux_refl|].
  assert (HxB : B x = false) by (destruct (B x) eqn:E; [rewrite (HB x E) in Hres; discriminate | reflexivity]).
  assert (Hdet : forall c a, Aux B a (determine g f c a)).
  { intros c a. split.
    - apply (proj1 (IH c a (fun _ => false) (fun z Hz => ltac:(discriminate)))).
    - intro Ha. apply (proj2 (IH c a B Ha)). exact Ha. }
  assert (Hmark : Aux B s (mark x s)).
  { split; [auto|]. intros _. split; [|auto]. intros z Hz. simpl. unfold upd. destruct (Nat.eqb z x); [reflexivity | apply HB; exact Hz]. }
  assert (Hset : forall k a, Aux B a (set_type x k a)).
  { intros k a. split; [auto|]. intro Ha. split; [exact Ha|]. intros z Hz. simpl. unfold upd.
    destruct (Nat.eqb z x) eqn:E; [apply Nat.eqb_eq in E; subst; congruence | reflexivity]. }
  assert (Hinh : forall c a, Aux B a (set_inh x (inh a x ++ [c]) a)).
  { intros c a. split; [|intro Ha; split; auto]. intros z c' Hc. simpl. unfold upd.
    destruct (Nat.eqb z x) eqn:E; [apply Nat.eqb_eq in E; subst; apply in_or_app; left; exact Hc | exact Hc]. }
  eapply Aux_trans; [exact Hmark|]. generalize (mark x s) as s0. intro s0. unfold det_body.
  destruct (r_attrs (rule_of g x)).
  - destruct (kind_eqb (types s0 x) KCommon); [apply Aux_refl | apply Hset].
  - destruct (r_body (rule_of g x)) as [t|e].
    + cbv zeta. apply (Aux_trans B s0 (determine g f t s0)); [apply Hdet|]. generalize (determine g f t s0) as s1. intro s1.
      destruct (negb (is_match (types s1 t)) && negb (kind_eqb (types s1 x) KAbstract)); [|apply Aux_refl].
      eapply Aux_trans; [apply Hset|]. destruct (mem t (inh (set_type x KAbstract s1) x)); [apply Aux_refl | apply Hinh].
    + assert (H1 := hnm_R (Aux B) (Aux_refl B) (Aux_trans B) (determine g f) Hdet e s0).
      destruct (hnm (determine g f) e s0) as [b s1]. simpl in H1. eapply Aux_trans; [exact H1|].
      destruct (b && negb (kind_eqb (types s1 x) KAbstract)); [|apply Aux_refl].
      eapply Aux_trans; [apply Hset|].
      apply (addr_R (Aux B) (Aux_refl B) (Aux_trans B) (determine g f) Hdet x (fun _ => True)
               (fun r a _ _ _ => Hinh r a) e _ (fun _ _ => I)).
Qed.

Lemma determine_inh_mono f x s z c : In c (inh s z) -> In c (inh (determine g f x s) z).
Proof. apply (proj1 (determine_Aux f x s (fun _ => false) (fun z Hz => ltac:(discriminate)))). Qed.

Lemma determine_frozen f x s z : resolved s z = true -> types (determine g f x s) z = types s z.
Proof.
  intro H. apply (proj2 (proj2 (determine_Aux f x s (resolved s) (fun _ Hz => Hz)) (fun _ Hz => Hz))). exact H.
Qed.
End Aux.

(* ------------------------------------------------------------------ the first pass resolves everything, completely *)
Section Main.
Variable g : list rule.
Let n := length g.
Variable K : nat -> kind.
Hypothesis HK : forall x, kind_spec g x (K x).
Variable rank : nat -> nat.
Hypothesis Hwf : wf_inh g K rank.

Lemma K_common x : K x = KCommon <-> r_attrs (rule_of g x) = true.
Proof.
  split; intro H.
  - assert (S := HK x). rewrite H in S. exact S.
  - assert (S := HK x). destruct (K x) eqn:E; simpl in S; [|destruct S as [S _]; congruence | reflexivity].
    exfalso. apply S. apply nm_attrs. exact H.
Qed.

Lemma K_nonmatch x : nonmatch g x <-> K x <> KMatch.
Proof.
  split.
  - intros Hn E. assert (S := HK x). rewrite E in S. exact (S Hn).
  - intro H. assert (S := HK x). destruct (K x) eqn:E; simpl in S; [congruence | | apply nm_attrs; exact S].
    destruct S as [_ [y [Hy Hn]]]. apply (nm_ref g x y Hy Hn).
Qed.

Lemma K_parent x c : r_attrs (rule_of g x) = false -> In c (rule_refs g x) -> K c <> KMatch -> K x = KAbstract.
Proof.
  intros Hat Hc Hn. assert (S := HK x). destruct (K x) eqn:E; simpl in S; [|reflexivity|congruence].
  exfalso. apply S. apply (nm_ref g x c Hc). apply K_nonmatch. exact Hn.
Qed.

Lemma K_abstract_has x : K x = KAbstract ->
  r_attrs (rule_of g x) = false /\ exists c, In c (rule_refs g x) /\ K c <> KMatch.
Proof.
  intro H. assert (S := HK x). rewrite H in S. destruct S as [S1 [c [Hc Hn]]]. split; [exact S1|].
  exists c. split; [exact Hc | apply K_nonmatch; exact Hn].
Qed.

Lemma K_overflow x : n <= x -> K x = KMatch.
Proof.
  intro H. assert (S := HK x). unfold kind_spec, rule_refs in S. rewrite (rule_of_overflow g x H) in S.
  destruct (K x); simpl in S; [reflexivity | destruct S as [_ [c [[] _]]] | discriminate].
Qed.

Definition done (s : st) (z : nat) : Prop :=
  (K z = KCommon -> types s z = KCommon) /\
  (K z = KAbstract -> types s z = KAbstract /\ incl (rule_firsts g K z) (inh s z)).
Definition DA (A : nat -> bool) (s : st) : Prop := forall z, resolved s z = true -> A z = true \/ done s z.
Definition P1 (s : st) : Prop := forall z, resolved s z = false -> types s z = KMatch.
Definition AncR (A : nat -> bool) (y : nat) : Prop :=
  (forall a, A a = true -> r_attrs (rule_of g a) = false) /\
  (K y = KAbstract -> forall a, A a = true -> K a = KAbstract /\ rank y < rank a).
Definition Pre (A : nat -> bool) (c0 : nat) (s : st) : Prop :=
  Inv g s /\ P1 s /\ DA A s /\ unres g s <= c0.

(* y stays resolved and keeps its type *)
Definition Keep (y : nat) (a b : st) : Prop :=
  resolved a y = true -> resolved b y = true /\ types b y = types a y.

Lemma Keep_refl y a : Keep y a a.
Proof. intro H. auto. Qed.
Lemma Keep_trans y a b c : Keep y a b -> Keep y b c -> Keep y a c.
Proof. intros H1 H2 Ha. destruct (H1 Ha) as [Rb Tb]. destruct (H2 Rb) as [Rc Tc]. split; [exact Rc | congruence]. Qed.
Lemma Keep_det y f c a : Keep y a (determine g f c a).
Proof.
  intro H. split; [apply (proj1 (proj1 (determine_Big g f c a))); exact H | apply determine_frozen; exact H].
Qed.
Lemma Keep_inh y x l a : Keep y a (set_inh x l a).
Proof. intro H. auto. Qed.

Lemma done_upd_inh s y l z : z <> y -> done s z -> done (set_inh y l s) z.
Proof. intros Hz [D1 D2]. split; [exact D1|]. intro H. simpl. rewrite (upd_other _ _ _ _ Hz). apply D2. exact H. Qed.

Lemma done_set_type s y k z : z <> y -> done s z -> done (set_type y k s) z.
Proof. intros Hz [D1 D2]. split; simpl; rewrite (upd_other _ _ _ _ Hz); assumption. Qed.

Lemma Pre_set_inh A c0 y c a : A y = true -> Pre A c0 a -> Pre A c0 (set_inh y (inh a y ++ [c]) a).
Proof.
  intros Ay [HI [H1 [HD HU]]]. split; [intro x; apply (HI x)|]. split; [exact H1|]. split; [|exact HU].
  intros z Hz. destruct (Nat.eq_dec z y) as [->|Hne]; [left; exact Ay|].
  destruct (HD z Hz) as [L|R]; [left; exact L | right; apply done_upd_inh; assumption].
Qed.

Lemma Pre_set_abstract A c0 y a :
  A y = true -> resolved a y = true -> Big g a (set_type y KAbstract a) -> Pre A c0 a -> Pre A c0 (set_type y KAbstract a).
Proof.
  intros Ay Ry HB [HI [H1 [HD HU]]]. split; [apply (proj2 HB HI)|]. split; [|split; [|exact HU]].
  - intros z Hz. simpl in Hz |- *. destruct (Nat.eq_dec z y) as [->|Hne]; [congruence|].
    rewrite (upd_other _ _ _ _ Hne). apply H1. exact Hz.
  - intros z Hz. destruct (Nat.eq_dec z y) as [->|Hne]; [left; exact Ay|].
    destruct (HD z Hz) as [L|R]; [left; exact L | right; apply done_set_type; assumption].
Qed.

Lemma DA_close A y a : DA (upd A y true) a -> done a y -> DA A a.
Proof.
  intros HD Hy z Hz. destruct (Nat.eq_dec z y) as [->|Hne]; [right; exact Hy|].
  destruct (HD z Hz) as [L|R]; [left; rewrite (upd_other _ _ _ _ Hne) in L; exact L | right; exact R].
Qed.

Lemma has_nm_of x e : r_body (rule_of g x) = Body e -> K x = KAbstract -> has_nm K e = true.
Proof.
  intros Hb Hx. destruct (K_abstract_has x Hx) as [_ [c [Hc Hn]]]. unfold rule_refs in Hc. rewrite Hb in Hc. simpl in Hc.
  unfold has_nm. apply existsb_exists. exists c. split; [exact Hc|]. apply negb_true_iff. apply is_match_false. exact Hn.
Qed.

Lemma main_step : forall f y s A, unres g s < f -> Inv g s -> P1 s -> AncR A y -> DA A s ->
  Inv g (determine g f y s) /\ P1 (determine g f y s) /\ DA A (determine g f y s) /\
  resolved (determine g f y s) y = true.
Proof.
  induction f as [|f IH]; intros y s A Hu HI H1 HA HD; [lia|].
  assert (HInv' : Inv g (determine g (S f) y s)) by (apply (proj2 (determine_Big g (S f) y s) HI)).
  assert (HRes' : resolved (determine g (S f) y s) y = true) by apply determine_marks.
  split; [exact HInv'|]. cut (P1 (determine g (S f) y s) /\ DA A (determine g (S f) y s)); [intros [X Y]; auto|].
  clear HInv' HRes'. rewrite determine_S. destruct (resolved s y) eqn:Hres; [auto|].
  destruct (Nat.lt_ge_cases y n) as [Hlt|Hge].
  2:{ rewrite (det_body_overflow g f y _ Hge). split.
      - intros z Hz. simpl in Hz |- *. apply H1. unfold upd in Hz. destruct (Nat.eqb z y); [discriminate | exact Hz].
      - intros z Hz. simpl in Hz. unfold upd in Hz. destruct (Nat.eqb z y) eqn:E; [|apply HD; exact Hz].
        apply Nat.eqb_eq in E. subst z. right. split; intro C; rewrite (K_overflow y Hge) in C; discriminate. }
  set (s0 := mark y s). set (A' := upd A y true). set (c0 := unres g s0).
  assert (Hc0 : c0 < f) by (assert (M := unres_mark g y s Hlt Hres); unfold c0, s0; lia).
  assert (Ay : A' y = true) by apply upd_same.
  assert (Ry0 : resolved s0 y = true) by (simpl; apply upd_same).
  assert (Ty0 : types s0 y = KMatch) by (simpl; apply H1; exact Hres).
  assert (HP0 : Pre A' c0 s0).
  { split; [intro x; apply (HI x)|]. split; [|split; [|unfold c0; lia]].
    - intros z Hz. simpl in Hz |- *. apply H1. unfold upd in Hz. destruct (Nat.eqb z y); [discriminate | exact Hz].
    - intros z Hz. destruct (Nat.eq_dec z y) as [->|Hne]; [left; exact Ay|].
      simpl in Hz. rewrite (upd_other _ _ _ _ Hne) in Hz. destruct (HD z Hz) as [L|R]; [left; unfold A'; rewrite (upd_other _ _ _ _ Hne); exact L | right; exact R]. }
  unfold det_body. destruct (r_attrs (rule_of g y)) eqn:Hat.
  - (* common *)
    assert (Ky : K y = KCommon) by (apply K_common; exact Hat).
    assert (Fin : forall a, (a = s0 /\ types s0 y = KCommon) \/ a = set_type y KCommon s0 -> P1 a /\ DA A a).
    { intros a Ha. assert (Ta : types a y = KCommon) by (destruct Ha as [[-> T]| ->]; [exact T | simpl; apply upd_same]).
      assert (Ra : forall z, resolved a z = resolved s0 z) by (destruct Ha as [[-> _]| ->]; reflexivity).
      assert (Oa : forall z, z <> y -> types a z = types s0 z /\ inh a z = inh s0 z).
      { destruct Ha as [[-> _]| ->]; intros z Hz; simpl; [auto | rewrite (upd_other _ _ _ _ Hz); auto]. }
      destruct HP0 as [_ [Q1 [QD _]]]. split.
      - intros z Hz. rewrite Ra in Hz. destruct (Nat.eq_dec z y) as [->|Hne]; [congruence|].
        rewrite (proj1 (Oa z Hne)). apply Q1. exact Hz.
      - apply (DA_close A y).
        + intros z Hz. rewrite Ra in Hz. destruct (Nat.eq_dec z y) as [->|Hne]; [left; exact Ay|].
          destruct (QD z Hz) as [L|[D1 D2]]; [left; exact L|]. right. destruct (Oa z Hne) as [OT OI].
          split; [rewrite OT; exact D1 | rewrite OT, OI; exact D2].
        + split; [intros _; exact Ta | intro C; congruence]. }
    destruct (kind_eqb (types s0 y) KCommon) eqn:E; apply Fin; [left; split; [reflexivity | apply kind_eqb_eq; exact E] | right; reflexivity].
  - (* no assignments *)
    assert (Kyc : K y <> KCommon) by (intro C; apply K_common in C; congruence).
    assert (HAnc : forall c, In c (rule_refs g y) -> AncR A' c).
    { intros c Hc. split.
      - intros a Ha. unfold A', upd in Ha. destruct (Nat.eqb a y) eqn:E; [apply Nat.eqb_eq in E; subst; exact Hat | apply (proj1 HA); exact Ha].
      - intros Kc a Ha. assert (Ky : K y = KAbstract) by (apply (K_parent y c Hat Hc); congruence).
        assert (Rc : rank c < rank y) by (apply (proj1 Hwf y c Ky Hc Kc)).
        unfold A', upd in Ha. destruct (Nat.eqb a y) eqn:E.
        + apply Nat.eqb_eq in E. subst a. auto.
        + destruct (proj2 HA Ky a Ha) as [Ka Ra]. split; [exact Ka | lia]. }
    assert (Hacc : forall c a, In c (rule_refs g y) -> Pre A' c0 a ->
              Pre A' c0 (determine g f c a) /\ is_match (types (determine g f c a) c) = is_match (K c) /\
              (forall c', In c' (inh a y) -> In c' (inh (determine g f c a) y))).
    { intros c a Hc [QI [Q1 [QD QU]]].
      destruct (IH c a A' ltac:(lia) QI Q1 (HAnc c Hc) QD) as [RI [R1 [RD RR]]].
      split; [|split; [|intros c' Hc'; apply determine_inh_mono; exact Hc']].
      - split; [exact RI|]. split; [exact R1|]. split; [exact RD|].
        assert (M := unres_mono g a _ (proj1 (determine_Big g f c a))). lia.
      - destruct (K c) eqn:Kc.
        + destruct (is_match (types (determine g f c a) c)) eqn:E; [reflexivity|]. exfalso.
          assert (Hn := proj2 (proj2 (RI c)) E). apply K_nonmatch in Hn. congruence.
        + destruct (RD c RR) as [L|[_ D2]].
          * destruct (proj2 (HAnc c Hc) Kc c L) as [_ Bad]. lia.
          * rewrite (proj1 (D2 Kc)). reflexivity.
        + destruct (RD c RR) as [L|[D1 _]].
          * assert (F := proj1 (HAnc c Hc) c L). apply K_common in Kc. congruence.
          * rewrite (D1 Kc). reflexivity. }
    assert (Hadd : forall c a, Pre A' c0 a -> Pre A' c0 (set_inh y (inh a y ++ [c]) a)).
    { intros c a. apply Pre_set_inh. exact Ay. }
    destruct (r_body (rule_of g y)) as [t|e] eqn:Hb.
    + (* alias *)
      assert (Ht : In t (rule_refs g y)) by (unfold rule_refs; rewrite Hb; simpl; auto).
      cbv zeta. destruct (Hacc t s0 Ht HP0) as [Q [Acc _]]. destruct (Keep_det y f t s0 Ry0) as [Ry1 Ty1].
      generalize dependent (determine g f t s0). intros s1 Q Acc Ry1 Ty1.
      rewrite Acc, Ty1, Ty0. simpl. rewrite andb_true_r.
      destruct (is_match (K t)) eqn:Kt; simpl.
      * destruct Q as [_ [Q1 [QD _]]]. split; [exact Q1|]. apply (DA_close A y); [exact QD|].
        split; [intro C; congruence|]. intro Ky. exfalso. destruct (K_abstract_has y Ky) as [_ [c [Hc Hn]]].
        unfold rule_refs in Hc. rewrite Hb in Hc. destruct Hc as [<-|[]]. apply is_match_true in Kt. congruence.
      * assert (HB : Big g s1 (set_type y KAbstract s1)).
        { apply Big_set_abstract; [exact Hat | exact Hlt | rewrite Ty1, Ty0; discriminate|].
          exists t. split; [exact Ht | exact Acc]. }
        assert (Q2 := Pre_set_abstract A' c0 y s1 Ay Ry1 HB Q).
        assert (Fin : forall a, Pre A' c0 a -> types a y = KAbstract -> In t (inh a y) -> P1 a /\ DA A a).
        { intros a [_ [Q1 [QD _]]] Ta Ia. split; [exact Q1|]. apply (DA_close A y); [exact QD|].
          split; [intro C; congruence|]. intros _. split; [exact Ta|]. unfold rule_firsts. rewrite Hb, Kt.
          intros c [<-|[]]. exact Ia. }
        destruct (mem t (inh s1 y)) eqn:M.
        -- apply Fin; [exact Q2 | simpl; apply upd_same | simpl; apply mem_In; exact M].
        -- apply Fin; [apply (Hadd t (set_type y KAbstract s1)); exact Q2 | simpl; apply upd_same | simpl; rewrite upd_same; apply in_or_app; right; left; reflexivity].
    + (* own body *)
      assert (Hrr : forall c, In c (refs e) -> In c (rule_refs g y)) by (unfold rule_refs; rewrite Hb; auto).
      destruct (hnm_accurate K (Pre A' c0) (determine g f) (fun c => In c (rule_refs g y)) y Hacc e s0 Hrr HP0) as [Q Hb1].
      assert (Kp := hnm_R (Keep y) (Keep_refl y) (Keep_trans y) (determine g f) (fun c a => Keep_det y f c a) e s0 Ry0).
      assert (Htrue := hnm_true (determine g f) e s0).
      destruct (hnm (determine g f) e s0) as [b s1]. simpl in Q, Hb1, Kp, Htrue. destruct Kp as [Ry1 Ty1].
      assert (Ty1' : types s1 y = KMatch) by (rewrite Ty1; exact Ty0).
      rewrite Ty1'. simpl. rewrite andb_true_r. destruct b.
      * destruct (Htrue eq_refl) as [w [Hw Hwm]].
        assert (HB : Big g s1 (set_type y KAbstract s1)).
        { apply Big_set_abstract; [exact Hat | exact Hlt | rewrite Ty1'; discriminate|]. exists w. split; [apply Hrr; exact Hw | exact Hwm]. }
        assert (Q2 := Pre_set_abstract A' c0 y s1 Ay Ry1 HB Q).
        assert (W := addr_accurate K (Pre A' c0) (determine g f) (fun c => In c (rule_refs g y)) y Hacc Hadd e _ Hrr Q2).
        assert (Kp2 := addr_R (Keep y) (Keep_refl y) (Keep_trans y) (determine g f) (fun c a => Keep_det y f c a) y (fun _ => True)
                         (fun r a _ _ _ => Keep_inh y y _ a) e (set_type y KAbstract s1) (fun _ _ => I) Ry1).
        destruct (addr (determine g f) y e (set_type y KAbstract s1)) as [b3 s3]. simpl in W, Kp2 |- *.
        destruct W as [[_ [Q1 [QD _]]] [_ [F _]]]. destruct Kp2 as [_ Ty3]. split; [exact Q1|].
        apply (DA_close A y); [exact QD|]. split; [intro C; congruence|]. intro Ky. split.
        -- rewrite Ty3. simpl. apply upd_same.
        -- unfold rule_firsts. rewrite Hb. intros c Hc. apply F; [apply (proj2 Hwf y e Ky Hb) | exact Hc].
      * destruct Q as [_ [Q1 [QD _]]]. split; [exact Q1|]. apply (DA_close A y); [exact QD|].
        split; [intro C; congruence|]. intro Ky. specialize (Hb1 (has_nm_of y e Hb Ky)). discriminate.
Qed.

Lemma fold_first_pass : forall l s, Inv g s -> P1 s -> DA (fun _ => false) s ->
  Inv g (fold_left (step g) l s) /\ P1 (fold_left (step g) l s) /\ DA (fun _ => false) (fold_left (step g) l s).
Proof.
  induction l as [|x l IH]; intros s HI H1 HD; [auto|]. simpl. unfold step at 2 4 6.
  assert (Hu : unres g s < S n) by (assert (B := cnt_bound g (fun x => negb (resolved s x))); unfold unres, n; lia).
  assert (HA : AncR (fun _ => false) x) by (split; [intros a C; discriminate | intros _ a C; discriminate]).
  destruct (main_step (S n) x s (fun _ => false) Hu HI H1 HA HD) as [A [B [C _]]].
  apply IH; assumption.
Qed.

Lemma all_done_of s : DA (fun _ => false) s -> (forall x, x < n -> resolved s x = true) -> forall z, done s z.
Proof.
  intros HD HR z. destruct (Nat.lt_ge_cases z n) as [L|G].
  - destruct (HD z (HR z L)) as [C|D]; [discriminate | exact D].
  - split; intro C; rewrite (K_overflow z G) in C; discriminate.
Qed.

Lemma first_pass_done : forall z, done (run_pass g (init)) z.
Proof.
  rewrite run_pass_eq.
  destruct (fold_first_pass (seq 0 n) (reset init)) as [_ [_ HD]].
  - intro x. simpl. repeat split; intro H; discriminate.
  - intros z _. reflexivity.
  - intros z Hz. simpl in Hz. discriminate.
  - apply (all_done_of _ HD). intros x Hx. apply fold_resolved. apply in_seq. unfold n in Hx. lia.
Qed.

Lemma done_stable a b z : Inv g a -> Big g a b -> (forall x c, In c (inh a x) -> In c (inh b x)) ->
  done a z -> done b z.
Proof.
  intros HI [[_ [_ M3]] HB] HM [D1 D2]. destruct (HB HI) as [HIb [HAb _]]. split.
  - intro Kz. specialize (D1 Kz). destruct (HIb z) as [_ [I2 _]].
    assert (Nm : is_match (types b z) = false) by (apply M3; rewrite D1; reflexivity).
    destruct (types b z) eqn:E; [discriminate | | reflexivity].
    apply K_common in Kz. rewrite (I2 eq_refl) in Kz. discriminate.
  - intro Kz. destruct (D2 Kz) as [T I]. split; [apply HAb; exact T|]. intros c Hc. apply HM. apply I. exact Hc.
Qed.

Lemma fold_inh_mono : forall l s x c, In c (inh s x) -> In c (inh (fold_left (step g) l s) x).
Proof.
  induction l as [|y l IH]; intros s x c H; [exact H|]. simpl. apply IH. unfold step. apply determine_inh_mono. exact H.
Qed.

Lemma pass_done a : Inv g a -> (forall z, done a z) -> Inv g (run_pass g a) /\ forall z, done (run_pass g a) z.
Proof.
  intros HI HD. rewrite run_pass_eq. assert (B := fold_Big g (seq 0 n) (reset a)).
  assert (HIr : Inv g (reset a)) by (apply Inv_reset; exact HI).
  split; [apply (proj2 B HIr)|]. intro z. apply (done_stable (reset a)); [exact HIr | exact B | apply fold_inh_mono|].
  destruct (HD z) as [D1 D2]. split; assumption.
Qed.

Lemma loop_done : forall k s s', Inv g s -> loop g k s = Some s' ->
  (forall z, done (run_pass g s) z) -> forall z, done s' z.
Proof.
  induction k as [|k IH]; intros s s' HI HL HD; [discriminate|]. simpl in HL.
  destruct (oof (run_pass g s)); [discriminate|]. destruct (changed (run_pass g s)).
  - assert (HI1 : Inv g (run_pass g s)).
    { rewrite run_pass_eq. apply (proj2 (fold_Big g (seq 0 n) (reset s))). apply Inv_reset. exact HI. }
    apply (IH (run_pass g s) s' HI1 HL). apply (proj2 (pass_done _ HI1 HD)).
  - inversion HL. subst. exact HD.
Qed.

Theorem inh_complete s : determine_types g = Some s -> forall z, done s z.
Proof.
  intro H. unfold determine_types in H. apply (loop_done _ _ _ (Inv_init g) H). exact first_pass_done.
Qed.
End Main.

(* ------------------------------------------------------------------ the completeness half of the isinstance characterisation *)
Theorem isinstance_complete (g : list rule) (rank : nat -> nat) (s : st) :
  determine_types g = Some s -> wf_inh g (types s) rank ->
  forall r k, yields g (types s) r k -> isinstance (length g) (inh s) k (Some r) = Some true.
Proof.
  intros Hs Hwf r k Hy.
  assert (HK : forall x, kind_spec g x (types s x)).
  { destruct (kinds_correct g) as [s0 [E [H _]]]. rewrite Hs in E. inversion E. subst. exact H. }
  assert (HD := inh_complete g (types s) HK rank Hwf s Hs).
  assert (HR : ireach (inh s) r k).
  { induction Hy as [x | x y z Kx Hy _ IH]; [apply ireach_refl|].
    apply (ireach_step (inh s) x y z); [|exact IH]. apply (proj2 (proj2 (HD x) Kx)). exact Hy. }
  destruct (isinstance_correct g) as [s0 [E H]]. rewrite Hs in E. inversion E. subst s0.
  destruct (H k r) as [b [Hb [Hiff _]]]. rewrite Hb. f_equal. apply Hiff. exact HR.
Qed.

(* when, in addition, the first non-match references of every abstract rule are all its non-match
   references, the two bounds meet *)
Definition tight (g : list rule) (K : nat -> kind) : Prop :=
  forall x c, K x = KAbstract -> In c (rule_refs g x) -> K c <> KMatch -> In c (rule_firsts g K x).

Lemma reach_yields g K : tight g K -> forall r k, reach g K r k -> yields g K r k.
Proof.
  intros Ht r k H. induction H as [x | x y z Kx Hy Ky _ IH]; [apply yields_refl|].
  apply (yields_step g K x y z Kx); [apply Ht; assumption | exact IH].
Qed.

Theorem isinstance_iff (g : list rule) (rank : nat -> nat) (s : st) :
  determine_types g = Some s -> wf_inh g (types s) rank -> tight g (types s) ->
  forall r k, isinstance (length g) (inh s) k (Some r) = Some true <-> yields g (types s) r k.
Proof.
  intros Hs Hwf Ht r k. split.
  - intro H. apply (reach_yields g (types s) Ht).
    destruct (isinstance_correct g) as [s0 [E H0]]. rewrite Hs in E. inversion E. subst s0.
    destruct (H0 k r) as [b [Hb [_ Hr]]]. rewrite Hb in H. inversion H. subst b. apply Hr. reflexivity.
  - apply (isinstance_complete g rank s Hs Hwf).
Qed.
