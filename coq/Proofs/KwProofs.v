(* Proofs for C20 (ignore_case) and C21 (autokwd): instances of the terminal simulation of
   Proofs/PegCongr.v plus lemmas about the literal terminals of Model/Kw.v. *)
From TxV Require Import Core.Base Model.PegSyntax Model.Peg Model.KwDefs Gen.SrcKw Model.Kw Proofs.PegCongr.

(* ---------------------------------------------------------------- identity relabelling *)
Notation sid := (fun (_ : nat) (b : bool) => b) (only parsing).

Lemma fcache_id m : fcache sid m = m.
Proof.
  induction m as [|[k [c np]] m IH]; [reflexivity|].
  unfold fcache in *. cbn [map fst snd]. rewrite IH.
  destruct c; cbn [fcr]; rewrite ?fr_id; reflexivity.
Qed.

Lemma fs_id s : fs sid s = s.
Proof. destruct s. unfold fs. simpl. rewrite fcache_id. reflexivity. Qed.

Lemma fo_id o : fo sid o = o.
Proof. destruct o; cbn [fo]; rewrite ?fr_id, ?fs_id; reflexivity. Qed.

(* ---------------------------------------------------------------- small list facts *)
Lemma Forall2_skipn {A B} (R : A -> B -> Prop) l l' :
  Forall2 R l l' -> forall p, Forall2 R (skipn p l) (skipn p l').
Proof.
  induction 1 as [|x y l l' Hxy Hl IH]; intros [|p]; cbn [skipn]; try constructor; auto.
Qed.

Lemma Forall2_len {A B} (R : A -> B -> Prop) l l' : Forall2 R l l' -> length l' = length l.
Proof. induction 1; cbn [length]; congruence. Qed.

Lemma nth_error_skipn' {A} (l : list A) p i : nth_error (skipn p l) i = nth_error l (p + i).
Proof.
  revert l; induction p as [|p IH]; intros l; [reflexivity|].
  destruct l as [|x l]; [destruct i; reflexivity|]. cbn [skipn plus nth_error]. apply IH.
Qed.

(* ---------------------------------------------------------------- terminal congruence, one grammar *)
(* the two texts agree at a position, or neither character belongs to any whitespace set *)
Definition char_ok (U : list N) (a b : N) : Prop := a = b \/ (~ In a U /\ ~ In b U).

Definition oracles_agree (g : grammar) (orc orc' : nat -> nat -> option nat) : Prop :=
  forall nid nd o, get_node g nid = Some nd -> kind_oid (n_kind nd) = Some o ->
                   forall p, orc' o p = orc o p.

Definition exact_agree (g : grammar) (input input' : list N) : Prop :=
  forall nid nd t, get_node g nid = Some nd -> n_kind nd = KStr t None ->
                   forall p, is_prefix t (skipn p input') = is_prefix t (skipn p input).

Lemma skip_agree U w : incl w U -> forall l l', Forall2 (char_ok U) l l' ->
  forall p, skip_ws_from w l' p = skip_ws_from w l p.
Proof.
  intros Hw l l' H. induction H as [|x y l l' Hxy Hl IH]; intros p; cbn [skip_ws_from]; [reflexivity|].
  assert (E : existsb (N.eqb y) w = existsb (N.eqb x) w).
  { destruct Hxy as [->|[Hx Hy]]; [reflexivity|].
    destruct (existsb (N.eqb y) w) eqn:Ey.
    - apply existsb_exists in Ey as [z [Hz Ez]]. apply N.eqb_eq in Ez. subst z.
      exfalso. apply Hy, Hw, Hz.
    - destruct (existsb (N.eqb x) w) eqn:Ex; [|reflexivity].
      apply existsb_exists in Ex as [z [Hz Ez]]. apply N.eqb_eq in Ez. subst z.
      exfalso. apply Hx, Hw, Hz. }
  rewrite E. destruct (existsb (N.eqb x) w); [apply IH | reflexivity].
Qed.

Lemma incl_strip_eol U w : incl w U -> incl (strip_eol w) U.
Proof. intros H x Hx. unfold strip_eol in Hx. apply filter_In in Hx. apply H, Hx. Qed.

Lemma ws_universe_node g cfg nid nd w :
  get_node g nid = Some nd -> n_ws nd = Some w -> incl w (ws_universe g cfg).
Proof.
  intros Hn Hw x Hx. unfold ws_universe. apply in_or_app. right.
  apply in_flat_map. exists nd. split; [eapply nth_error_In; exact Hn | rewrite Hw; exact Hx].
Qed.

Theorem terminal_congruence g cfg orc orc' memo fuel input input' :
  Forall2 (char_ok (ws_universe g cfg)) input input' ->
  oracles_agree g orc orc' ->
  exact_agree g input input' ->
  run g cfg orc' memo fuel input' = run g cfg orc memo fuel input.
Proof.
  intros Hin Hor Hex.
  rewrite (run_sim sid g g input input' orc orc' memo (fun w => incl w (ws_universe g cfg)) cfg fuel).
  - apply foutcome_id.
  - intro nid. destruct (get_node g nid) as [nd|] eqn:En; [|exact I].
    unfold node_sim. destruct (is_match_kind (n_kind nd)) eqn:Em; [|reflexivity].
    split; [reflexivity|]. split; [reflexivity|]. intros psq s. rewrite fs_id, fo_id.
    unfold term_parse. cbv zeta.
    destruct (n_kind nd) as [| | | | | | | | | |t [o|]|o] eqn:Ek; try reflexivity.
    + rewrite (Forall2_len _ _ _ Hin). reflexivity.
    + rewrite (Hor nid nd o En); [reflexivity | rewrite Ek; reflexivity].
    + rewrite (Hex nid nd t En Ek). reflexivity.
    + rewrite (Hor nid nd o En); [reflexivity | rewrite Ek; reflexivity].
  - reflexivity.
  - reflexivity.
  - intros nid nd w Hn Hw. eapply ws_universe_node; eassumption.
  - intros w Hw. apply incl_strip_eol, Hw.
  - intros w p Hw. apply skip_agree with (U := ws_universe g cfg); [exact Hw|].
    apply Forall2_skipn, Hin.
  - unfold ws_universe. apply incl_appl, incl_refl.
Qed.

(* ---------------------------------------------------------------- C20: ignore_case *)
Lemma all_str_icase_exact g input input' : all_str_icase g = true -> exact_agree g input input'.
Proof.
  intros H nid nd t Hn Hk. exfalso. unfold all_str_icase in H. rewrite forallb_forall in H.
  specialize (H nd (nth_error_In _ _ Hn)). rewrite Hk in H. discriminate.
Qed.

Section Case.
Variable lower : N -> N.

Definition case_variant (s s' : list N) : Prop := map lower s' = map lower s.

(* an oracle family (the regex engine as a function of the text) that does not look at case *)
Definition case_blind (O : list N -> nat -> nat -> option nat) (o : nat) : Prop :=
  forall s s', case_variant s s' -> forall p, O s' o p = O s o p.

Theorem icase_invariant g cfg (O : list N -> nat -> nat -> option nat) memo fuel s s' :
  all_str_icase g = true ->
  (forall nid nd o, get_node g nid = Some nd -> kind_oid (n_kind nd) = Some o -> case_blind O o) ->
  case_variant s s' ->
  Forall2 (char_ok (ws_universe g cfg)) s s' ->
  run g cfg (O s') memo fuel s' = run g cfg (O s) memo fuel s.
Proof.
  intros Hall Hblind Hcv Hws. apply terminal_congruence; [exact Hws | | apply all_str_icase_exact, Hall].
  intros nid nd o Hn Ho p. exact (Hblind nid nd o Hn Ho s s' Hcv p).
Qed.

(* the modelled ignore_case terminals are case blind *)
Lemma case_variant_skipn s s' p : case_variant s s' -> case_variant (skipn p s) (skipn p s').
Proof. unfold case_variant. intro H. rewrite <- !skipn_map, H. reflexivity. Qed.

Lemma lit_prefix_blind t : forall s s', case_variant s s' ->
  lit_prefix lower true t s' = lit_prefix lower true t s.
Proof.
  induction t as [|x t IH]; intros s s' H; [reflexivity|].
  unfold case_variant in H. destruct s as [|a s], s' as [|b s']; try discriminate; [reflexivity|].
  cbn [map] in H. injection H as Hab Hs. cbn [lit_prefix ceq]. rewrite Hab, (IH s s' Hs). reflexivity.
Qed.

Theorem str_match_blind t s s' p : case_variant s s' ->
  str_match lower true t s' p = str_match lower true t s p.
Proof.
  intro H. unfold str_match. rewrite (lit_prefix_blind t _ _ (case_variant_skipn s s' p H)). reflexivity.
Qed.

Variable wordc : N -> bool.
Definition word_lower : Prop := forall a b, lower a = lower b -> wordc a = wordc b.

Lemma word_at_blind s s' q : word_lower -> case_variant s s' -> word_at wordc s' q = word_at wordc s q.
Proof.
  intros Hw H. unfold word_at. unfold case_variant in H.
  assert (E : nth_error (map lower s') q = nth_error (map lower s) q) by (rewrite H; reflexivity).
  rewrite !nth_error_map in E.
  destruct (nth_error s' q) as [b|], (nth_error s q) as [a|]; cbn in E; try discriminate; [|reflexivity].
  injection E as E. apply Hw, E.
Qed.

Theorem kw_match_blind t s s' p : word_lower -> case_variant s s' ->
  kw_match wordc lower true t s' p = kw_match wordc lower true t s p.
Proof.
  intros Hw H. unfold kw_match, boundary, word_before.
  rewrite (lit_prefix_blind t _ _ (case_variant_skipn s s' p H)), (word_at_blind s s' _ Hw H).
  destruct (p + length t) as [|q]; [reflexivity|]. rewrite (word_at_blind s s' q Hw H). reflexivity.
Qed.

(* values: the text of a regex terminal is the slice of the input at its position *)
Definition slice (s : list N) (p len : nat) : list N := firstn len (skipn p s).

Lemma slice_case_variant s s' p len : case_variant s s' -> case_variant (slice s p len) (slice s' p len).
Proof.
  intro H. unfold slice, case_variant. rewrite <- !firstn_map, <- !skipn_map.
  unfold case_variant in H. rewrite H. reflexivity.
Qed.

End Case.

Lemma slice_unchanged s s' p len :
  (forall i, p <= i < p + len -> nth_error s' i = nth_error s i) -> slice s' p len = slice s p len.
Proof.
  unfold slice. revert s s' p. induction len as [|len IH]; intros s s' p H; [reflexivity|].
  assert (H0 : nth_error s' p = nth_error s p) by (apply H; lia).
  rewrite <- (Nat.add_0_r p) in H0 at 1. rewrite <- (Nat.add_0_r p) in H0 at 2.
  rewrite <- !nth_error_skipn' in H0.
  assert (IH' : firstn len (skipn (S p) s') = firstn len (skipn (S p) s)) by (apply IH; intros i Hi; apply H; lia).
  assert (Ht : forall (l : list N), skipn (S p) l = tl (skipn p l)).
  { clear. induction p as [|p IHp]; intros [|x l]; try reflexivity. cbn [skipn] in *. rewrite <- IHp. reflexivity. }
  rewrite !Ht in IH'.
  destruct (skipn p s') as [|a r'], (skipn p s) as [|b r]; cbn [nth_error] in H0; try discriminate.
  - reflexivity.
  - injection H0 as ->. cbn [firstn tl] in *. rewrite IH'. reflexivity.
Qed.

(* what textX builds under ignore_case=True: every literal terminal carries the flag *)
Lemma compile_lit_icase wordc digitc autokwd t :
  src_kw_icase = IcMM -> src_str_icase = IcMM ->
  spec_icase (compile_lit wordc digitc autokwd true t) = true.
Proof.
  intros H1 H2. unfold compile_lit. rewrite H1, H2.
  destruct (_ && _)%bool; reflexivity.
Qed.

Lemma compile_regex_icase pat : src_re_icase = IcMM -> spec_icase (compile_regex true pat) = true.
Proof. intro H. unfold compile_regex. rewrite H. reflexivity. Qed.

(* ---------------------------------------------------------------- C21: keyword-like literals *)
Section Kw.
Variable wordc : N -> bool.
Variable digitc : N -> bool.
Variable lower : N -> N.

Lemma word_run_all r : word_run wordc r = length r <-> forallb wordc r = true.
Proof.
  induction r as [|c r IH]; cbn [word_run length forallb]; [tauto|].
  destruct (wordc c); cbn [andb].
  - rewrite <- IH. split; [intro H; injection H as H; exact H | intro H; rewrite H; reflexivity].
  - split; discriminate.
Qed.

Theorem kw_like_spec t :
  kw_like wordc digitc t = true <->
  exists c r, t = c :: r /\ digitc c = false /\ wordc c = true /\ forallb wordc r = true.
Proof.
  unfold kw_like, kw_regex_end. destruct t as [|c r].
  - split; [discriminate | intros [c [r [H _]]]; discriminate].
  - destruct (digitc c) eqn:Ed; cbn [negb andb].
    + split; [discriminate | intros [c' [r' [H [Hd _]]]]; injection H as -> ->; congruence].
    + destruct (wordc c) eqn:Ew.
      * cbn [length]. rewrite Nat.eqb_eq. split.
        -- intro H. injection H as H. apply word_run_all in H. exists c, r. auto.
        -- intros [c' [r' [H [_ [_ Hr]]]]]. injection H as -> ->. f_equal. apply word_run_all, Hr.
      * split; [discriminate | intros [c' [r' [H [_ [Hw _]]]]]; injection H as -> ->; congruence].
Qed.

Lemma kw_like_all_word t : kw_like wordc digitc t = true -> forallb wordc t = true /\ t <> [].
Proof.
  intro H. apply kw_like_spec in H as [c [r [-> [_ [Hc Hr]]]]]. cbn [forallb]. rewrite Hc, Hr.
  split; [reflexivity | discriminate].
Qed.

(* the word classification does not depend on case (needed only with ignore_case) *)
Definition word_ok (icase : bool) : Prop :=
  icase = true -> forall a b, lower a = lower b -> wordc a = wordc b.

Lemma ceq_word icase x y : word_ok icase -> ceq lower icase x y = true -> wordc y = wordc x.
Proof.
  intros Hw H. unfold ceq in H. destruct icase.
  - apply N.eqb_eq in H. symmetry. apply Hw; [reflexivity | exact H].
  - apply N.eqb_eq in H. subst. reflexivity.
Qed.

Lemma lit_prefix_last icase : word_ok icase -> forall t s, lit_prefix lower icase t s = true ->
  forallb wordc t = true -> forall i, i < length t ->
  match nth_error s i with Some y => wordc y = true | None => False end.
Proof.
  intros Hw t. induction t as [|x t IH]; intros s H Hall i Hi; [cbn in Hi; lia|].
  destruct s as [|y s]; [discriminate|]. cbn [lit_prefix] in H. apply andb_true_iff in H as [Hxy Ht].
  cbn [forallb] in Hall. apply andb_true_iff in Hall as [Hx Hall].
  destruct i as [|i]; cbn [nth_error].
  - rewrite (ceq_word icase x y Hw Hxy). exact Hx.
  - apply IH; [exact Ht | exact Hall | cbn [length] in Hi; lia].
Qed.

Lemma kw_word_before icase t input p :
  word_ok icase -> kw_like wordc digitc t = true ->
  lit_prefix lower icase t (skipn p input) = true ->
  word_before wordc input (p + length t) = true.
Proof.
  intros Hw Hk Hp. destruct (kw_like_all_word t Hk) as [Hall Hne].
  destruct t as [|c r]; [congruence|]. cbn [length]. rewrite Nat.add_succ_r. cbn [word_before].
  pose proof (lit_prefix_last icase Hw (c :: r) (skipn p input) Hp Hall (length r)) as H.
  rewrite nth_error_skipn' in H. unfold word_at.
  destruct (nth_error input (p + length r)); [apply H; cbn [length]; lia | exfalso; apply H; cbn [length]; lia].
Qed.

Theorem kw_match_char icase t input p :
  word_ok icase -> kw_like wordc digitc t = true ->
  kw_match wordc lower icase t input p =
  if (lit_prefix lower icase t (skipn p input) && negb (word_at wordc input (p + length t)))%bool
  then Some (length t) else None.
Proof.
  intros Hw Hk. unfold kw_match, boundary.
  destruct (lit_prefix lower icase t (skipn p input)) eqn:Hp; [|reflexivity].
  rewrite (kw_word_before icase t input p Hw Hk Hp). cbn [andb xorb].
  destruct (word_at wordc input (p + length t)); reflexivity.
Qed.

Theorem kw_boundary icase t input p :
  word_ok icase -> kw_like wordc digitc t = true ->
  word_at wordc input (p + length t) = true ->
  kw_match wordc lower icase t input p = None.
Proof.
  intros Hw Hk Hn. rewrite (kw_match_char icase t input p Hw Hk), Hn, andb_false_r. reflexivity.
Qed.

Theorem kw_match_length icase t input p len :
  kw_match wordc lower icase t input p = Some len -> len = length t.
Proof. unfold kw_match. destruct (_ && _)%bool; [intro H; injection H as <-; reflexivity | discriminate]. Qed.

Lemma lit_prefix_false t s : lit_prefix lower false t s = is_prefix t s.
Proof.
  revert s; induction t as [|x t IH]; intros [|y s]; try reflexivity.
  cbn [lit_prefix is_prefix ceq]. rewrite IH. reflexivity.
Qed.

(* what textX builds for a literal *)
Theorem compile_lit_kw icase t :
  src_kw_guard_is_autokwd = true -> src_kw_full_span = true ->
  compile_lit wordc digitc true icase t =
  if kw_like wordc digitc t
  then TRegex (src_kw_prefix ++ t ++ src_kw_suffix) (icase_of src_kw_icase icase) t
  else TStr t (icase_of src_str_icase icase).
Proof. intros H1 H2. unfold compile_lit. rewrite H1, H2. reflexivity. Qed.

Theorem compile_lit_plain icase t :
  src_kw_guard_is_autokwd = true ->
  compile_lit wordc digitc false icase t = TStr t (icase_of src_str_icase icase).
Proof. intros H1. unfold compile_lit. rewrite H1. reflexivity. Qed.

Theorem compile_lit_other icase t :
  src_kw_guard_is_autokwd = true -> src_kw_full_span = true ->
  kw_like wordc digitc t = false ->
  compile_lit wordc digitc true icase t = compile_lit wordc digitc false icase t.
Proof.
  intros H1 H2 Hk. rewrite (compile_lit_kw icase t H1 H2), (compile_lit_plain icase t H1), Hk. reflexivity.
Qed.

End Kw.

(* ---------------------------------------------------------------- C21: the two parser models *)
(* node nid is a StrMatch in the plain table and a RegExMatch in the autokwd table *)
Definition kwnode (g g' : grammar) (nid : nat) : bool :=
  match get_node g nid, get_node g' nid with
  | Some nd, Some nd' =>
    match n_kind nd, n_kind nd' with KStr _ _, KRegex _ => true | _, _ => false end
  | _, _ => false
  end.

(* Terminal.suppress: a StrMatch inside a Sequence is marked, a RegExMatch never is *)
Definition kw_supf (g g' : grammar) (nid : nat) (sup : bool) : bool :=
  if kwnode g g' nid then false else sup.

Definition plain_str_match (input : list N) (orc : nat -> nat -> option nat) (t : list N)
           (oid : option nat) (p : nat) : bool :=
  match oid with
  | None => is_prefix t (skipn p input)
  | Some o => match orc o p with Some _ => true | None => false end
  end.

Definition kind_rel (input : list N) (orc orc' : nat -> nat -> option nat) (k k' : kind) : Prop :=
  match k, k' with
  | KEOF, KEOF => True
  | KStr t None, KStr t' None => t' = t
  | KStr t (Some o), KStr t' (Some o') => t' = t /\ forall p, orc' o' p = orc o p
  | KRegex o, KRegex o' => forall p, orc' o' p = orc o p
  | KStr t oid, KRegex o' =>
    t <> [] /\ forall p, orc' o' p = if plain_str_match input orc t oid p then Some (length t) else None
  | _, _ => False
  end.

Definition node_rel (input : list N) (orc orc' : nat -> nat -> option nat) (nd nd' : node) : Prop :=
  if is_match_kind (n_kind nd)
  then n_suppress nd' = n_suppress nd /\ kind_rel input orc orc' (n_kind nd) (n_kind nd')
  else nd' = nd.

Definition tables_rel (g g' : grammar) (input : list N) (orc orc' : nat -> nat -> option nat) : Prop :=
  (forall nid,
      match get_node g nid, get_node g' nid with
      | None, None => True
      | Some nd, Some nd' => node_rel input orc orc' nd nd'
      | _, _ => False
      end) /\ g_comments g' = g_comments g /\ g_top g' = g_top g.

Theorem autokwd_sim g g' cfg orc orc' memo fuel input :
  tables_rel g g' input orc orc' ->
  run g' cfg orc' memo fuel input = foutcome (kw_supf g g') (run g cfg orc memo fuel input).
Proof.
  intros [Hn [Hc Ht]].
  apply (run_sim (kw_supf g g') g g' input input orc orc' memo (fun _ => True) cfg fuel);
    try solve [auto].
  intro nid. specialize (Hn nid).
  destruct (get_node g nid) as [nd|] eqn:En, (get_node g' nid) as [nd'|] eqn:En'; try exact Hn.
  unfold node_rel in Hn. unfold node_sim. destruct (is_match_kind (n_kind nd)) eqn:Em; [|exact Hn].
  destruct Hn as [Hsup Hk].
  assert (Hsf : forall b, kw_supf g g' nid b =
                          match n_kind nd, n_kind nd' with KStr _ _, KRegex _ => false | _, _ => b end).
  { intro b. unfold kw_supf, kwnode. rewrite En, En'.
    destruct (n_kind nd), (n_kind nd'); reflexivity. }
  unfold kind_rel in Hk.
  destruct (n_kind nd) as [| | | | | | | | | |t oid|o] eqn:Ek; try discriminate;
    destruct (n_kind nd') as [| | | | | | | | | |t' oid'|o'] eqn:Ek';
    try solve [contradiction | destruct oid; contradiction];
    (split; [reflexivity|]); (split; [exact Hsup|]); intros psq s;
    unfold term_parse; cbv zeta; autorewrite with fsdb.
  - (* EOF *)
    destruct (Nat.eqb (length input) (pos s)); [|reflexivity].
    cbn [fo fr ft]. rewrite Hsf. reflexivity.
  - (* StrMatch / StrMatch *)
    destruct oid as [o|], oid' as [o'|]; try contradiction.
    + destruct Hk as [-> Ho]. rewrite Ho.
      destruct (orc o (pos s)); [|reflexivity]. cbn [fo fr ft]. rewrite Hsf. reflexivity.
    + subst t'. destruct (is_prefix t (skipn (pos s) input)); [|reflexivity].
      cbn [fo fr ft]. rewrite Hsf. reflexivity.
  - (* StrMatch / keyword RegExMatch *)
    destruct oid as [o|]; destruct Hk as [Hne Ho]; rewrite Ho; unfold plain_str_match;
      assert (Hl : Nat.eqb (length t) 0 = false) by (destruct t; [congruence | reflexivity]).
    + destruct (orc o (pos s)); [|reflexivity]. rewrite Hl. cbn [fo fr ft]. rewrite Hsf. reflexivity.
    + destruct (is_prefix t (skipn (pos s) input)); [|reflexivity].
      rewrite Hl. cbn [fo fr ft]. rewrite Hsf. reflexivity.
  - (* RegExMatch / RegExMatch *)
    rewrite Hk. destruct (orc o (pos s)) as [len|]; [|reflexivity].
    destruct (Nat.eqb len 0); [reflexivity|]. cbn [fo fr ft]. rewrite Hsf. reflexivity.
Qed.

(* the same, from the behaviour of the keyword regex and the absence of glued keywords *)
Section KwRel.
Variable wordc : N -> bool.
Variable digitc : N -> bool.
Variable lower : N -> N.

Definition kw_kind_spec (input : list N) (orc orc' : nat -> nat -> option nat) (k k' : kind) : Prop :=
  match k, k' with
  | KEOF, KEOF => True
  | KStr t None, KStr t' None => t' = t
  | KStr t (Some o), KStr t' (Some o') => t' = t /\ forall p, orc' o' p = orc o p
  | KRegex o, KRegex o' => forall p, orc' o' p = orc o p
  | KStr t oid, KRegex o' =>
    kw_like wordc digitc t = true /\
    (forall p, orc' o' p = kw_match wordc lower (oid_icase oid) t input p) /\
    match oid with
    | Some o => forall p, orc o p = str_match lower true t input p
    | None => True
    end
  | _, _ => False
  end.

Definition kw_tables_spec (g g' : grammar) (input : list N) (orc orc' : nat -> nat -> option nat) : Prop :=
  (forall nid,
      match get_node g nid, get_node g' nid with
      | None, None => True
      | Some nd, Some nd' =>
        if is_match_kind (n_kind nd)
        then n_suppress nd' = n_suppress nd /\ kw_kind_spec input orc orc' (n_kind nd) (n_kind nd')
        else nd' = nd
      | _, _ => False
      end) /\ g_comments g' = g_comments g /\ g_top g' = g_top g.

Definition no_glued_keyword (g : grammar) (input : list N) : Prop :=
  forall nid nd t oid, get_node g nid = Some nd -> n_kind nd = KStr t oid ->
    kw_like wordc digitc t = true ->
    forall p, lit_prefix lower (oid_icase oid) t (skipn p input) = true ->
              word_at wordc input (p + length t) = false.

Theorem autokwd_same_model g g' cfg orc orc' memo fuel input :
  (forall a b, lower a = lower b -> wordc a = wordc b) ->
  kw_tables_spec g g' input orc orc' ->
  no_glued_keyword g input ->
  run g' cfg orc' memo fuel input = foutcome (kw_supf g g') (run g cfg orc memo fuel input).
Proof.
  intros Hwl [Hn [Hc Ht]] Hglue. apply autokwd_sim. split; [|split; assumption].
  intro nid. specialize (Hn nid).
  destruct (get_node g nid) as [nd|] eqn:En, (get_node g' nid) as [nd'|] eqn:En'; try exact Hn.
  unfold node_rel. destruct (is_match_kind (n_kind nd)) eqn:Em; [|exact Hn].
  destruct Hn as [Hsup Hk]. split; [exact Hsup|].
  unfold kw_kind_spec in Hk. unfold kind_rel.
  destruct (n_kind nd) as [| | | | | | | | | |t oid|o] eqn:Ek; try discriminate;
    destruct (n_kind nd') as [| | | | | | | | | |t' oid'|o'] eqn:Ek';
    try solve [exact Hk | contradiction | destruct oid; contradiction].
  assert (Hok : forall ic, word_ok wordc lower ic) by (intros ic _; exact Hwl).
  destruct oid as [o|]; destruct Hk as [Hkw [Ho' Ho]];
    (split; [exact (proj2 (kw_like_all_word wordc digitc t Hkw))|]); intro p;
    rewrite Ho', (kw_match_char wordc digitc lower _ t input p (Hok _) Hkw); unfold plain_str_match.
  - rewrite Ho. unfold str_match. cbn [oid_icase].
    destruct (lit_prefix lower true t (skipn p input)) eqn:Hp; [|reflexivity].
    rewrite (Hglue nid nd t (Some o) En Ek Hkw p Hp). reflexivity.
  - cbn [oid_icase]. rewrite <- (lit_prefix_false lower).
    destruct (lit_prefix lower false t (skipn p input)) eqn:Hp; [|reflexivity].
    rewrite (Hglue nid nd t None En Ek Hkw p Hp). reflexivity.
Qed.

End KwRel.
