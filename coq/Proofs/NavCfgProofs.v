(* C05 — the parameterised navigation functions (Model/NavCfg.v): the standard instance is
   Model/Nav.v; the instance read from the source (Gen/SrcNavBody.v) is the standard one; the
   other alternatives break the property (witnesses). *)
From TxV Require Import Core.Base Model.Nav Model.NavCfg Gen.SrcNavBody Proofs.NavProofs.

Section Std.
  Variable truthy : obj -> bool.
  Variable eqv : obj -> obj -> bool.

  Lemma passes_std sf v : passes truthy sf (NotNone, true) v = sf v.
  Proof. reflexivity. Qed.

  Lemma elems_std (F1 F2 : obj -> state -> state) sf vs :
    Forall (fun v => forall st, F1 v st = F2 v st) vs ->
    forall st, follow_elems_cfg std_gc_cfg truthy F1 sf vs st = follow_elems F2 sf vs st.
  Proof.
    induction 1 as [|v vs Hv Hvs IH]; intro st; simpl; [reflexivity|].
    rewrite passes_std, Hv. apply IH.
  Qed.

  Lemma attrs_std (F1 F2 : obj -> state -> state) sf slots :
    Forall (fun mvs : ameta * list obj => Forall (fun v => forall st, F1 v st = F2 v st) (snd mvs)) slots ->
    forall st, follow_attrs_cfg std_gc_cfg truthy F1 sf slots st = follow_attrs F2 sf slots st.
  Proof.
    induction 1 as [|[m vs] slots Hm Hs IH]; intro st; simpl; [reflexivity|].
    simpl in Hm. destruct (acont m); [|apply IH].
    destruct (amany m).
    - rewrite (elems_std F1 F2 sf vs Hm). apply IH.
    - destruct vs as [|v vs']; [apply IH|]. inversion Hm as [|v0 l0 Hv _]; subst.
      rewrite passes_std, Hv. apply IH.
  Qed.

  Lemma follow_cfg_std sel sf cf : forall o st,
    follow_cfg std_gc_cfg truthy eqv sel sf cf o st = follow sel sf cf o st.
  Proof.
    induction o as [k t|t|id c slots IH] using obj_ind'; intro st; try reflexivity.
  Qed.

  Lemma get_children_cfg_std sel root cf sf :
    get_children_cfg std_gc_cfg truthy eqv sel root cf sf = get_children sel root cf sf.
  Proof. unfold get_children_cfg, get_children. cbn [g_root_sf std_gc_cfg andb]. rewrite follow_cfg_std. reflexivity. Qed.
End Std.

Lemma get_model_cfg_std lt truthy_id h : lt <> LTruthy ->
  forall fuel p, get_model_cfg lt truthy_id h fuel p = get_model h fuel p.
Proof.
  intros Hlt. induction fuel as [|f IH]; intro p; [reflexivity|]. simpl.
  destruct (lookup p h) as [ho|]; [|reflexivity]. destruct (hparent ho) as [[q|]|]; try reflexivity.
  destruct lt; try apply IH. congruence.
Qed.

Lemma pot_cfg_std h typ : forall fuel p, pot_cfg false h fuel typ p = get_parent_of_type h fuel typ p.
Proof.
  induction fuel as [|f IH]; intro p; [reflexivity|]. simpl.
  destruct (lookup p h) as [ho|]; [|reflexivity]. destruct (hparent ho) as [[q|]|]; try reflexivity.
  destruct (lookup q h) as [hq|]; [|reflexivity]. destruct (str_eqb (hcls hq) typ); [reflexivity | apply IH].
Qed.

(* ---- the instance read from textx/model.py ---- *)
Lemma src_gc_cfg_std : src_gc_cfg = std_gc_cfg.
Proof. reflexivity. Qed.
Lemma src_gm_loop_std : src_gm_loop <> LTruthy.
Proof. discriminate. Qed.
Lemma src_pot_std : src_pot_test_start = false.
Proof. reflexivity. Qed.

Theorem src_children truthy eqv sel sf cf root :
  NoDup (map obj_id (walk sf cf root)) ->
  get_children_cfg src_gc_cfg truthy eqv sel root cf sf = filter sel (walk sf cf root).
Proof. intro H. rewrite src_gc_cfg_std, get_children_cfg_std. apply get_children_walk. exact H. Qed.

Theorem src_get_model truthy_id root o fuel :
  uniq root -> no_parent_attr root = true -> In o (nodes root) -> length (nodes root) <= fuel ->
  get_model_cfg src_gm_loop truthy_id (heap_of root) fuel (obj_id o) = GObj (obj_id root).
Proof.
  intros. rewrite (get_model_cfg_std _ _ _ src_gm_loop_std). apply get_model_every_object; assumption.
Qed.

Theorem src_parent_of_type root o :
  uniq root -> no_parent_attr root = true -> In o (nodes root) ->
  exists l, up_chain o l /\ last l o = root /\
    forall typ fuel, length (nodes root) <= fuel ->
      pot_cfg src_pot_test_start (heap_of root) fuel typ (obj_id o) = pres_of (find (cls_is typ) l).
Proof.
  intros Hu Hn Ho. destruct (parent_of_type_every_object root o Hu Hn Ho) as [l [H1 [H2 H3]]].
  exists l. repeat split; try assumption. intros typ fuel Hf. rewrite src_pot_std, pot_cfg_std. apply H3. exact Hf.
Qed.

(* ---- the alternatives are not harmless ---- *)
Definition truthy_cfg : gc_cfg :=
  {| g_seen := SeenId; g_pre := WhenNotCf; g_post := WhenCf;
     g_single := (Truthy, true); g_elem := (NotNone, true); g_root_sf := false |}.

Lemma truthy_single_breaks :
  exists truthy root, uniq root /\
    get_children_cfg truthy_cfg truthy (fun _ _ => false) (fun _ => true) root false (fun _ => true)
    <> filter (fun _ => true) (walk (fun _ => true) false root).
Proof.
  exists (fun o => negb (N.eqb (obj_id o) 2)), ex_tree. split; [apply uniq_b_sound; vm_compute; reflexivity|].
  vm_compute. discriminate.
Qed.

Lemma test_start_breaks :
  exists root typ, uniq root /\ no_parent_attr root = true /\
    pot_cfg true (heap_of root) 6 typ 4 = PFound 4 /\ get_parent_of_type (heap_of root) 6 typ 4 = PNone.
Proof.
  exists ex_tree, [65]%N. split; [apply uniq_b_sound; vm_compute; reflexivity|]. vm_compute. repeat split.
Qed.
