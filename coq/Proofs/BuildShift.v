(* C22 - model construction (Model/Build.v, read-only import) commutes with the position shift of an
   insertion: building the shifted parse tree on the mutated input gives the object graph of the
   original, with _tx_position moved by phi and _tx_position_end by phie and nothing else changed. *)
From TxV Require Import Core.Base Model.PegSyntax Model.Peg Model.Build Model.PegWsDefs Model.BuildShiftDefs
     Proofs.BuildProofs Proofs.PegWs.
Require Import Lia.

Section Shift.
Variables k n : nat.
Notation sv := (shift_val k n).
Notation sht := (shift_tree k n).
Notation ph := (phi k n).
Notation phe := (phie k n).

Definition shift_vals (l : list (list N * value)) : list (list N * value) :=
  (fix go (l : list (list N * value)) : list (list N * value) :=
     match l with [] => [] | (a, x) :: l' => (a, sv x) :: go l' end) l.
Definition shift_cur (c : cur) : cur :=
  mkCur (c_cls c) (c_meta c) (ph (c_pos c)) (phe (c_end c)) (shift_vals (c_vals c)).
Definition shift_top (t : option cur) : option cur := option_map shift_cur t.

Lemma sv_obj cls p e attrs : sv (VObj cls p e attrs) = VObj cls (ph p) (phe e) (shift_vals attrs).
Proof. reflexivity. Qed.

(* ---------------------------------------------------------------- values *)
Lemma str_nonempty_sv : forall v, str_nonempty (sv v) = str_nonempty v.
Proof.
  fix IH 1. intros [| | | | |r ps|r x|cls p e attrs|nm p cl|l]; simpl; try reflexivity.
  - induction ps as [|x ps IHp]; simpl; [reflexivity|]. rewrite IH, IHp. reflexivity.
  - apply IH.
Qed.

Lemma val_truthy_sv : forall v, val_truthy (sv v) = val_truthy v.
Proof.
  fix IH 1. intros [| | | | |r ps|r x|cls p e attrs|nm p cl|l]; simpl; try reflexivity.
  - induction ps as [|x ps IHp]; simpl; [reflexivity|]. rewrite str_nonempty_sv, IHp. reflexivity.
  - apply IH.
  - destruct l; reflexivity.
Qed.

Lemma is_vlist_sv v : is_vlist (sv v) = is_vlist v.
Proof. destruct v; reflexivity. Qed.

Lemma get_val_shift a l : get_val a (shift_vals l) = option_map sv (get_val a l).
Proof.
  induction l as [|[b x] l IH]; simpl; [reflexivity|]. destruct (str_eqb a b); [reflexivity | exact IH].
Qed.

Lemma set_val_shift a v l : set_val a (sv v) (shift_vals l) = shift_vals (set_val a v l).
Proof.
  induction l as [|[b x] l IH]; simpl; [reflexivity|].
  destruct (str_eqb a b); simpl; [reflexivity|]. f_equal. exact IH.
Qed.

Lemma cur_set_shift a v c : cur_set a (sv v) (shift_cur c) = shift_cur (cur_set a v c).
Proof. unfold cur_set, shift_cur. simpl. rewrite set_val_shift. reflexivity. Qed.

Lemma name_ok_shift l : name_ok (shift_vals l) = name_ok l.
Proof.
  unfold name_ok. rewrite get_val_shift. destruct (get_val s_name l) as [[| | | | | | | | |[|x vs]]|]; reflexivity.
Qed.

Lemma many_ok_shift meta l : many_ok meta (shift_vals l) = many_ok meta l.
Proof.
  unfold many_ok. induction meta as [|ma meta IH]; simpl; [reflexivity|]. rewrite IH. f_equal.
  destruct (a_mult ma); try reflexivity;
    (destruct (a_cont ma); [|reflexivity]; rewrite get_val_shift;
     destruct (get_val (a_name ma) l) as [[]|]; reflexivity).
Qed.

End Shift.

(* ================================================================ trees and the two inputs *)
Section Trees.
Variable g : grammar.
Variable mm : list ninfo.
Variables a ins b : list N.
Variables grp grp' : nat -> nat -> option (nat * nat).
Variable auto : bool.
Let k := length a.
Let n := length ins.
Notation s0 := (a ++ b).
Notation s1 := (a ++ ins ++ b).
Notation sv := (shift_val k n).
Notation sht := (shift_tree k n).
Notation ph := (phi k n).
Notation phe := (phie k n).
Notation stop := (shift_top k n).
(* use_regexp_group = False (the default): the group oracle is not consulted *)
Notation pn := (pnode g mm s0 grp auto false).
Notation pn' := (pnode g mm s1 grp' auto false).

Definition spair (r : bres (value * option cur)) : bres (value * option cur) :=
  map_bres (fun vt => (sv (fst vt), stop (snd vt))) r.

Lemma slice_shift p len : p + len <= k \/ k <= p -> slice s1 (ph p) len = slice s0 p len.
Proof.
  unfold slice, phi. fold k n. intros [H|H].
  - destruct (Nat.ltb_spec p k) as [Hlt|Hge].
    + rewrite !skipn_app_le by (fold k; lia). rewrite !firstn_app, skipn_length. fold k.
      replace (len - (k - p)) with 0 by lia. reflexivity.
    + assert (len = 0) by lia. subst len. reflexivity.
  - destruct (Nat.ltb_spec p k) as [Hlt|Hge]; [lia|].
    assert (E1 : skipn p s0 = skipn (p - k) b) by (apply skipn_app_ge; fold k; lia).
    assert (E2 : skipn (p + n) s1 = skipn (p - k) b).
    { rewrite skipn_app_ge by (fold k; lia). fold k. rewrite skipn_app_ge by (fold n; lia). fold n. f_equal. lia. }
    rewrite E1, E2. reflexivity.
Qed.

Lemma fits_T nid p len s : fits k (T nid p len s) = true -> ~ (len = 0 /\ p = k) /\ (p + len <= k \/ k <= p).
Proof.
  simpl. intro H. apply andb_true_iff in H as [H2 H1]. apply negb_true_iff in H1. split.
  - intros [-> ->]. rewrite !Nat.eqb_refl in H1. discriminate.
  - apply orb_true_iff in H2 as [H2|H2]; [right; apply Nat.leb_le, H2 | left; apply Nat.leb_le, H2].
Qed.

Lemma fits_NT nid kids : fits k (NT nid kids) = true -> (kids <> [] \/ 0 < k) /\ Forall (fun x => fits k x = true) kids.
Proof.
  simpl. intro H. apply andb_true_iff in H as [H1 H2]. split.
  - apply orb_true_iff in H1 as [H1|H1]; [left; destruct kids; discriminate | right; apply Nat.ltb_lt, H1].
  - apply Forall_forall. rewrite forallb_forall in H2. exact H2.
Qed.

Lemma tpos_sht : forall t, fits k t = true -> tpos (sht t) = ph (tpos t).
Proof.
  apply (tree_ind2 (fun t => fits k t = true -> tpos (sht t) = ph (tpos t))).
  - reflexivity.
  - intros nid kids IH Hf. destruct (fits_NT _ _ Hf) as [Hne Hall].
    destruct kids as [|x kids].
    + destruct Hne as [Hne|Hk]; [contradiction|]. simpl. unfold phi. destruct (Nat.ltb_spec 0 k); [reflexivity | lia].
    + simpl. inversion IH; subst. inversion Hall; subst. auto.
Qed.

Lemma tend_sht : forall t, fits k t = true -> tend (sht t) = phe (tend t).
Proof.
  apply (tree_ind2 (fun t => fits k t = true -> tend (sht t) = phe (tend t))).
  - intros nid p len s Hf. destruct (fits_T _ _ _ _ Hf) as [Hl Hp]. simpl. unfold phi, phie.
    destruct (Nat.ltb_spec p k), (Nat.leb_spec (p + len) k); lia.
  - intros nid kids IH Hf. destruct (fits_NT _ _ Hf) as [Hne Hall].
    destruct kids as [|x kids]; [reflexivity|]. clear Hne Hf.
    revert x IH Hall. induction kids as [|y kids IHk]; intros x IH Hall.
    + rewrite tend_single. change (sht (NT nid [x])) with (NT nid [sht x]). rewrite tend_single.
      inversion IH; subst. inversion Hall; subst. auto.
    + change (sht (NT nid (x :: y :: kids))) with (NT nid (sht x :: sht y :: map sht kids)).
      rewrite !tend_cons. inversion IH; subst. inversion Hall; subst.
      apply (IHk y); assumption.
Qed.

Lemma tree_nid_sht t : tree_nid (sht t) = tree_nid t.
Proof. destruct t; reflexivity. Qed.

Lemma term_text_shift nid p len : p + len <= k \/ k <= p ->
  term_text g s1 nid (ph p) len = term_text g s0 nid p len.
Proof.
  intro H. unfold term_text. destruct (get_node g nid) as [nd|]; [|reflexivity].
  destruct (n_kind nd); try reflexivity. apply slice_shift, H.
Qed.

Lemma tree_text_sht t : fits k t = true -> tree_text g s1 (sht t) = tree_text g s0 t.
Proof.
  destruct t as [nid p len s|nid kids]; [|reflexivity]. intro Hf.
  destruct (fits_T _ _ _ _ Hf) as [_ Hp]. simpl. apply term_text_shift, Hp.
Qed.

(* ---------------------------------------------------------------- process_match *)
Lemma pmatch_sht : forall t, fits k t = true ->
  pmatch g s1 (sht t) = map_bres sv (pmatch g s0 t).
Proof.
  apply (tree_ind2 (fun t => fits k t = true -> pmatch g s1 (sht t) = map_bres sv (pmatch g s0 t))).
  - intros nid p len s Hf. destruct (fits_T _ _ _ _ Hf) as [_ Hp]. simpl. rewrite term_text_shift by exact Hp. reflexivity.
  - intros nid kids IH Hf. destruct (fits_NT _ _ Hf) as [Hne Hall].
    change (sht (NT nid kids)) with (NT nid (map sht kids)). cbn [pmatch].
    destruct (is_base5 (rule_of g nid)); [reflexivity|].
    destruct kids as [|x rest]; [reflexivity|]. cbn [map].
    inversion IH as [|x0 l0 IHx IHrest]; subst. inversion Hall as [|x1 l1 Hx Hrest]; subst.
    destruct rest as [|y rest].
    + cbn [map]. rewrite (IHx Hx). destruct (pmatch g s0 x); reflexivity.
    + cbn [map].
      assert (Hgo : forall l, Forall (fun t => fits k t = true -> pmatch g s1 (sht t) = map_bres sv (pmatch g s0 t)) l ->
                     Forall (fun t => fits k t = true) l ->
        (fix go (l : list tree) : bres (list value) :=
           match l with
           | [] => BOk []
           | x :: l' => match pmatch g s1 x with
                        | BOk v => match go l' with BOk vs => BOk (v :: vs) | BErr e => BErr e end
                        | BErr e => BErr e
                        end
           end) (map sht l) =
        map_bres (map sv)
          ((fix go (l : list tree) : bres (list value) :=
             match l with
             | [] => BOk []
             | x :: l' => match pmatch g s0 x with
                          | BOk v => match go l' with BOk vs => BOk (v :: vs) | BErr e => BErr e end
                          | BErr e => BErr e
                          end
             end) l)).
      { induction l as [|z l IHl]; intros HI HF; [reflexivity|]. inversion HI; subst. inversion HF; subst.
        cbn [map]. rewrite (H1 H3). destruct (pmatch g s0 z); [|reflexivity]. simpl.
        rewrite (IHl H2 H4). match goal with |- context [map_bres _ ?X] => destruct X end; reflexivity. }
      specialize (Hgo (x :: y :: rest) IH Hall). cbn [map] in Hgo. rewrite Hgo.
      match goal with |- context [map_bres (map sv) ?X] => destruct X end; reflexivity.
Qed.


(* ---------------------------------------------------------------- the loops of Build.v *)
Definition Pt (t : tree) : Prop := fits k t = true -> forall top, pn' (sht t) (stop top) = spair (pn t top).

Lemma each_loop_sht l : Forall Pt l -> Forall (fun t => fits k t = true) l -> forall top,
  each_loop pn' (map sht l) (stop top) = map_bres stop (each_loop pn l top).
Proof.
  induction l as [|x l IH]; intros HP HF top; [reflexivity|]. inversion HP; subst. inversion HF; subst.
  cbn [map each_loop]. rewrite (H1 H3 top). destruct (pn x top) as [[v top1]|e]; [|reflexivity]. simpl. apply IH; assumption.
Qed.

Lemma is_sep_of_sht asg t : is_sep_of g asg (sht t) = is_sep_of g asg t.
Proof. unfold is_sep_of. rewrite tree_nid_sht. reflexivity. Qed.

Lemma lst_loop_sht asg at_ refcls l : Forall Pt l -> Forall (fun t => fits k t = true) l -> forall top,
  lst_loop pn' (is_sep_of g asg) at_ refcls (map sht l) (stop top) =
  map_bres stop (lst_loop pn (is_sep_of g asg) at_ refcls l top).
Proof.
  induction l as [|x l IH]; intros HP HF top; [reflexivity|]. inversion HP; subst. inversion HF; subst.
  cbn [map lst_loop]. rewrite is_sep_of_sht. destruct (is_sep_of g asg x); [apply IH; assumption|].
  rewrite (H1 H3 top). destruct (pn x top) as [[v0 top1]|e]; [|reflexivity]. simpl.
  rewrite (tpos_sht x H3).
  set (v := match refcls with Some cl => VRef v0 (tpos x) cl | None => v0 end).
  replace (match refcls with Some cl => VRef (sv v0) (ph (tpos x)) cl | None => sv v0 end) with (sv v)
    by (unfold v; destruct refcls; reflexivity).
  destruct top1 as [c1|]; [|reflexivity]. simpl.
  rewrite get_val_shift. destruct (get_val at_ (c_vals c1)) as [[| | | | | | | | |vs]|]; try reflexivity; simpl.
  - change (VList [sv v]) with (sv (VList [v])). rewrite cur_set_shift. apply (IH H2 H4 (Some _)).
  - change (VList (map sv vs ++ [sv v])) with (VList (map sv vs ++ map sv [v])). rewrite <- map_app.
    change (VList (map sv (vs ++ [v]))) with (sv (VList (vs ++ [v]))). rewrite cur_set_shift. apply (IH H2 H4 (Some _)).
Qed.

Lemma first_nonmatch_sht kind_of l : Forall Pt l -> Forall (fun t => fits k t = true) l -> forall top,
  first_nonmatch pn' kind_of (map sht l) (stop top) = option_map spair (first_nonmatch pn kind_of l top).
Proof.
  induction l as [|x l IH]; intros HP HF top; [reflexivity|]. inversion HP; subst. inversion HF; subst.
  destruct x as [nid p len s|xn kids]; [simpl; apply IH; assumption|].
  cbn [map first_nonmatch shift_tree].
  destruct (kind_of xn) as [[|]|]; [|apply IH; assumption|reflexivity].
  cbn [option_map]. f_equal. apply (H1 H3 top).
Qed.

Lemma first_nt_sht has_cls l : Forall Pt l -> Forall (fun t => fits k t = true) l -> forall top,
  first_nt pn' has_cls (map sht l) (stop top) = option_map spair (first_nt pn has_cls l top).
Proof.
  induction l as [|x l IH]; intros HP HF top; [reflexivity|]. inversion HP; subst. inversion HF; subst.
  destruct x as [nid p len s|xn kids]; [simpl; apply IH; assumption|].
  cbn [map first_nt shift_tree option_map]. f_equal. destruct (has_cls xn); [apply (H1 H3 top) | reflexivity].
Qed.

Lemma init_attrs_shift l : shift_vals k n (init_attrs auto l) = init_attrs auto l.
Proof.
  induction l as [|x l IH]; [reflexivity|]. unfold init_attrs in *. simpl. rewrite IH. f_equal. f_equal.
  unfold init_attr. destruct (a_mult x); try reflexivity;
    (destruct (is_base_type (a_cls x)); [destruct auto; [reflexivity | destruct (a_bool x); reflexivity] | reflexivity]).
Qed.

Lemma concat_text_sht l : Forall (fun t => fits k t = true) l ->
  List.concat (map (tree_text g s1) (map sht l)) = List.concat (map (tree_text g s0) l).
Proof.
  induction 1 as [|x l Hx Hl IH]; [reflexivity|]. simpl. rewrite tree_text_sht by exact Hx. rewrite IH. reflexivity.
Qed.

(* ---------------------------------------------------------------- process_node *)
Lemma pnode_sht : forall t, Pt t.
Proof.
  apply (tree_ind2 Pt).
  - intros nid p len s Hf top. destruct (fits_T _ _ _ _ Hf) as [_ Hp].
    change (sht (T nid p len s)) with (T nid (ph p) len s). cbn [pnode]. unfold term_value.
    rewrite term_text_shift by exact Hp. reflexivity.
  - intros nid kids IH Hf top. destruct (fits_NT _ _ Hf) as [Hne Hall].
    change (sht (NT nid kids)) with (NT nid (map sht kids)). cbn [pnode].
    destruct (info mm nid) as [at_ op|rk cls attrs|r gs|] eqn:EI; try reflexivity.
    + (* assignment *)
      destruct top as [c|]; [|reflexivity]. simpl stop. cbn [shift_cur c_meta c_vals].
      destruct (find_attr at_ (c_meta c)) as [ma|]; [|reflexivity].
      destruct op; try reflexivity.
      * (* = *)
        rewrite get_val_shift. destruct (get_val at_ (c_vals c)) as [av|]; [|reflexivity]. simpl option_map.
        cbv beta iota. rewrite val_truthy_sv, is_vlist_sv. destruct (val_truthy av && negb (is_vlist av))%bool; [reflexivity|].
        destruct kids as [|x rest]; [reflexivity|]. cbn [map].
        inversion IH; subst. inversion Hall; subst.
        change (Some (shift_cur k n c)) with (stop (Some c)). rewrite (H1 H3 (Some c)).
        destruct (pn x (Some c)) as [[v0 top1]|e]; [|reflexivity]. simpl.
        rewrite (tpos_sht x H3).
        set (v := if (a_ref ma && negb (a_cont ma))%bool then VRef v0 (tpos x) (a_cls ma) else v0).
        replace (if (a_ref ma && negb (a_cont ma))%bool then VRef (sv v0) (ph (tpos x)) (a_cls ma) else sv v0) with (sv v)
          by (unfold v; destruct (a_ref ma && negb (a_cont ma))%bool; reflexivity).
        destruct top1 as [c1|]; [|reflexivity]. simpl.
        destruct av as [| | | | | | | | |l]; simpl; try (rewrite cur_set_shift; reflexivity).
        change (VList (map sv l ++ [sv v])) with (VList (map sv l ++ map sv [v])). rewrite <- map_app.
        change (VList (map sv (l ++ [v]))) with (sv (VList (l ++ [v]))). rewrite cur_set_shift. reflexivity.
      * (* ?= *)
        simpl. change (VBool true) with (sv (VBool true)). rewrite cur_set_shift. reflexivity.
      * (* += *= *)
        change (Some (shift_cur k n c)) with (stop (Some c)).
        rewrite (lst_loop_sht nid at_ (if (a_ref ma && negb (a_cont ma))%bool then Some (a_cls ma) else None) kids IH Hall (Some c)).
        destruct (lst_loop pn (is_sep_of g nid) at_ (if (a_ref ma && negb (a_cont ma))%bool then Some (a_cls ma) else None) kids (Some c)); reflexivity.
    + destruct rk.
      * (* common rule *)
        set (t := NT nid kids) in *.
        assert (E0 : Some (mkCur cls attrs (tpos (NT nid (map sht kids))) (tend (NT nid (map sht kids))) (init_attrs auto attrs))
                     = stop (Some (mkCur cls attrs (tpos t) (tend t) (init_attrs auto attrs)))).
        { simpl stop. unfold shift_cur. cbn [c_cls c_meta c_pos c_end c_vals].
          change (NT nid (map sht kids)) with (sht t). rewrite tpos_sht, tend_sht by exact Hf.
          rewrite init_attrs_shift. reflexivity. }
        rewrite E0. rewrite (each_loop_sht kids IH Hall).
        destruct (each_loop pn kids (Some (mkCur cls attrs (tpos t) (tend t) (init_attrs auto attrs)))) as [[c1|]|e];
          try reflexivity.
        simpl. rewrite name_ok_shift, many_ok_shift.
        destruct (name_ok (c_vals c1)); [|reflexivity]. destruct (many_ok (c_meta c1) (c_vals c1)); reflexivity.
      * (* abstract rule *)
        destruct kids as [|x rest]; [reflexivity|].
        destruct rest as [|y rest].
        -- cbn [map]. inversion IH; subst. inversion Hall; subst. apply (H1 H3 top).
        -- change (map sht (x :: y :: rest)) with (sht x :: sht y :: map sht rest).
           change (sht x :: sht y :: map sht rest) with (map sht (x :: y :: rest)).
           rewrite (first_nonmatch_sht (nonmatch_class mm) (x :: y :: rest) IH Hall top).
           destruct (first_nonmatch pn (nonmatch_class mm) (x :: y :: rest) top) as [r0|]; [reflexivity|].
           simpl option_map.
           rewrite (first_nt_sht (has_class mm) (x :: y :: rest) IH Hall top).
           destruct (first_nt pn (has_class mm) (x :: y :: rest) top) as [r0|]; [reflexivity|].
           simpl option_map. rewrite (concat_text_sht (x :: y :: rest) Hall). reflexivity.
      * (* match rule *)
        change (NT nid (map sht kids)) with (sht (NT nid kids)).
        rewrite (pmatch_sht (NT nid kids) Hf). destruct (pmatch g s0 (NT nid kids)); reflexivity.
Qed.

Theorem build_sht r : fits_res k r = true ->
  build g mm s1 grp' auto false (shift_res k n r) = map_bres sv (build g mm s0 grp auto false r).
Proof.
  intro Hf. destruct r as [|[nid p len s|nid kids]|l]; try reflexivity.
  destruct kids as [|t rest]; [reflexivity|]. simpl in Hf. simpl.
  pose proof (pnode_sht t Hf None) as H. simpl stop in H. rewrite H.
  destruct (pn t None) as [[v top]|e]; reflexivity.
Qed.

End Trees.

(* ---------------------------------------------------------------- apart from positions *)
Lemma erase_shift k n : forall v, erase_val (shift_val k n v) = erase_val v.
Proof.
  fix IH 1. intros [| | | | |r ps|r x|cls p e attrs|nm p cl|l]; simpl; try reflexivity.
  - f_equal. induction ps as [|x ps IHp]; simpl; [reflexivity|]. rewrite IH, IHp. reflexivity.
  - f_equal. apply IH.
  - f_equal. induction attrs as [|[a0 x] attrs IHa]; simpl; [reflexivity|]. rewrite IH, IHa. reflexivity.
  - f_equal. apply IH.
  - f_equal. induction l as [|x l IHl]; simpl; [reflexivity|]. rewrite IH, IHl. reflexivity.
Qed.

(* ================================================================ C22: the model is unchanged *)
From TxV Require Import Proofs.PegWsSim Proofs.PegCmtSim.

Definition models_shifted (k n : nat) (m m' : bres value) : Prop := m' = map_bres (shift_val k n) m.

Lemma models_shifted_erase k n m m' :
  models_shifted k n m m' -> map_bres erase_val m' = map_bres erase_val m.
Proof. intros ->. destruct m; simpl; [rewrite erase_shift|]; reflexivity. Qed.

Theorem ws_model_unchanged g mm cfg orc orc' grp grp' auto fuel a ins b r :
  ins_wf g cfg ins = true ->
  shift_okb g (a ++ b) orc (a ++ ins ++ b) orc' (length a) (length ins) = true ->
  run g cfg orc false fuel (a ++ b) = Parsed r ->
  fits_res (length a) r = true ->
  exists r', run g cfg orc' false fuel (a ++ ins ++ b) = Parsed r' /\
             models_shifted (length a) (length ins)
               (build g mm (a ++ b) grp auto false r) (build g mm (a ++ ins ++ b) grp' auto false r').
Proof.
  intros Hw Hs E Hf. exists (shift_res (length a) (length ins) r).
  split; [apply (ws_insert_accepts g cfg orc orc' fuel a ins b r Hw Hs E)|].
  apply build_sht, Hf.
Qed.

Theorem comment_model_unchanged g mm cfg orc orc' grp grp' auto fuel a w1 c w2 b r :
  cmt_wf g cfg = true ->
  cmt_ins_okb g cfg orc' a w1 c w2 = true ->
  shift_okb g (a ++ b) orc (a ++ (w1 ++ c ++ w2) ++ b) orc' (length a) (length (w1 ++ c ++ w2)) = true ->
  run g cfg orc false fuel (a ++ b) = Parsed r ->
  not_aborted (run g cfg orc' false fuel (a ++ (w1 ++ c ++ w2) ++ b)) ->
  fits_res (length a) r = true ->
  exists r', run g cfg orc' false fuel (a ++ (w1 ++ c ++ w2) ++ b) = Parsed r' /\
             models_shifted (length a) (length (w1 ++ c ++ w2))
               (build g mm (a ++ b) grp auto false r) (build g mm (a ++ (w1 ++ c ++ w2) ++ b) grp' auto false r').
Proof.
  intros Hw Hi Hs E Hna Hf.
  assert (Hna0 : not_aborted (run g cfg orc false fuel (a ++ b))) by (rewrite E; exact I).
  pose proof (comment_insert_invariant g cfg orc orc' fuel a w1 c w2 b Hw Hi Hs Hna0 Hna) as H.
  rewrite E in H. destruct (run g cfg orc' false fuel (a ++ (w1 ++ c ++ w2) ++ b)) as [r'|p|w]; simpl in H; try contradiction.
  exists r'. split; [reflexivity|]. subst r'. apply build_sht, Hf.
Qed.
