From TxV Require Import Core.Base Gen.SrcResolve Model.Resolve.

(* ================================================================ C08: the retry queue keeps the textual order.
   This file depends on exactly two facts of Gen/SrcResolve.v (read from textx/model.py): a
   Postponed reference is put back at the END of parser._crossrefs and of delayed_crossrefs
   (append, not insert(0, ...)).  Proved directly on step of Model/Resolve.v. *)
Lemma fact_requeue : postponed_requeued_at_front = false. Proof. reflexivity. Qed.
Lemma fact_report : postponed_reported_at_front = false. Proof. reflexivity. Qed.

Lemma carry_requeue x d : carry postponed_requeued_at_front x d = x :: d.
Proof. unfold carry. rewrite fact_requeue. reflexivity. Qed.
Lemma carry_report x d : carry postponed_reported_at_front x d = x :: d.
Proof. unfold carry. rewrite fact_report. reflexivity. Qed.

Opaque carry counted.

Inductive sub {A} : list A -> list A -> Prop :=
| sub_nil : sub [] []
| sub_keep x l l' : sub l l' -> sub (x :: l) (x :: l')
| sub_drop x l l' : sub l l' -> sub l (x :: l').

(* a Postponed reference keeps its place: the new pending list is the delayed list and it is the
   old pending list with the resolved references removed, nothing reordered *)
Theorem retry_order ans : forall pend st st' np d c,
  step ans pend st = Some (st', np, d, c) -> np = d /\ sub np pend.
Proof.
  induction pend as [|x r IH]; intros st st' np d c H; cbn [step] in H.
  - injection H as Hst Hnp Hd Hc; subst. split; [reflexivity | constructor].
  - destruct (ans x st) as [t| |]; [| |discriminate].
    + destruct (step ans r _) as [[[[st1 np1] d1] c1]|] eqn:E; [|discriminate].
      injection H as Hst Hnp Hd Hc; subst st' np d c.
      destruct (IH _ _ _ _ _ E) as [E1 S1]. split; [exact E1 | apply sub_drop; exact S1].
    + destruct (step ans r _) as [[[[st1 np1] d1] c1]|] eqn:E; [|discriminate].
      injection H as Hst Hnp Hd Hc; subst st' np d c.
      destruct (IH _ _ _ _ _ E) as [E1 S1]. rewrite carry_requeue, carry_report.
      split; [rewrite E1; reflexivity | apply sub_keep; exact S1].
Qed.

Transparent carry counted.
