(* Composition of the parse-level results of C20 / C21 with model construction (Model/Build.v, read
   only): a simulation for [pnode] / [pmatch] / [build].

   Two worlds (grammar table, text, group oracle) with the same metamodel table, whose nodes have the
   same rule names and separators and whose TERMINALS OCCURRING IN THE TREE have related values,
   build related object graphs from trees that are equal up to the Terminal.suppress relabelling:
   same classes, attribute names, positions, list shapes, the same errors; string values related by
   [vrel]: equal, or - for texts that are not converted by a base type (INT FLOAT STRICTFLOAT BOOL
   STRING) - equal up to the letter case ([lo]). *)
From TxV Require Import Core.Base Model.PegSyntax Model.Peg Model.Build Proofs.PegCongr Proofs.PegInv.

(* ---------------------------------------------------------------- induction on values *)
Section ValueInd.
Variable P : value -> Prop.
Hypothesis HNone : P VNone.
Hypothesis HBool : forall b, P (VBool b).
Hypothesis HDefault : forall t, P (VDefault t).
Hypothesis HStr : forall s, P (VStr s).
Hypothesis HTerm : forall r t, P (VTerm r t).
Hypothesis HJoin : forall r ps, Forall P ps -> P (VJoin r ps).
Hypothesis HConv : forall r x, P x -> P (VConv r x).
Hypothesis HObj : forall c p e a, Forall (fun kv => P (snd kv)) a -> P (VObj c p e a).
Hypothesis HRef : forall nm p cl, P nm -> P (VRef nm p cl).
Hypothesis HList : forall l, Forall P l -> P (VList l).
Fixpoint value_ind2 (v : value) : P v :=
  match v with
  | VNone => HNone
  | VBool b => HBool b
  | VDefault t => HDefault t
  | VStr s => HStr s
  | VTerm r t => HTerm r t
  | VJoin r ps => HJoin r ps ((fix go (l : list value) : Forall P l :=
                                 match l with [] => Forall_nil P | x :: l' => Forall_cons x (value_ind2 x) (go l') end) ps)
  | VConv r x => HConv r x (value_ind2 x)
  | VObj c p e a =>
    HObj c p e a ((fix go (l : list (list N * value)) : Forall (fun kv => P (snd kv)) l :=
                     match l with
                     | [] => Forall_nil _
                     | (k, x) :: l' => @Forall_cons _ (fun kv => P (snd kv)) (k, x) l' (value_ind2 x) (go l')
                     end) a)
  | VRef nm p cl => HRef nm p cl (value_ind2 nm)
  | VList l => HList l ((fix go (l : list value) : Forall P l :=
                           match l with [] => Forall_nil P | x :: l' => Forall_cons x (value_ind2 x) (go l') end) l)
  end.
End ValueInd.

Section ListRel.
Context {A B : Type}.
Variable R : A -> B -> Prop.
Fixpoint list_rel (l : list A) (l' : list B) : Prop :=
  match l, l' with
  | [], [] => True
  | x :: l1, y :: l1' => R x y /\ list_rel l1 l1'
  | _, _ => False
  end.
End ListRel.

Lemma list_rel_app {A B} (R : A -> B -> Prop) l1 l1' l2 l2' :
  list_rel R l1 l1' -> list_rel R l2 l2' -> list_rel R (l1 ++ l2) (l1' ++ l2').
Proof.
  revert l1'; induction l1 as [|x l1 IH]; intros [|y l1'] H1 H2; try contradiction; [exact H2|].
  destruct H1 as [Hxy H1]. split; [exact Hxy | apply IH; assumption].
Qed.

Lemma list_rel_nil_iff {A B} (R : A -> B -> Prop) l l' : list_rel R l l' -> (l = [] <-> l' = []).
Proof. destruct l, l'; cbn; intro H; try contradiction; split; congruence. Qed.

(* ---------------------------------------------------------------- the relation on values *)
Section Rel.
Variable lo : N -> N.

Definition cv (s s' : list N) : Prop := map lo s' = map lo s.
(* texts of a terminal of rule [r] *)
Definition trel (r t t' : list N) : Prop := t' = t \/ (is_base5 r = false /\ cv t t').

Fixpoint vrel (v v' : value) {struct v} : Prop :=
  match v, v' with
  | VNone, VNone => True
  | VBool b, VBool b' => b' = b
  | VDefault t, VDefault t' => t' = t
  | VStr s, VStr s' => cv s s'
  | VTerm r t, VTerm r' t' => r' = r /\ trel r t t'
  | VJoin r ps, VJoin r' ps' => r' = r /\ list_rel (fun x y => vrel x y) ps ps'
  | VConv r x, VConv r' x' => r' = r /\ vrel x x'
  | VObj c p e a, VObj c' p' e' a' =>
    c' = c /\ p' = p /\ e' = e /\
    list_rel (fun kv kv' => fst kv' = fst kv /\ vrel (snd kv) (snd kv')) a a'
  | VRef nm p cl, VRef nm' p' cl' => vrel nm nm' /\ p' = p /\ cl' = cl
  | VList l, VList l' => list_rel (fun x y => vrel x y) l l'
  | _, _ => False
  end.

Lemma cv_refl s : cv s s. Proof. reflexivity. Qed.
Lemma cv_nonempty s s' : cv s s' -> nonempty s' = nonempty s.
Proof. unfold cv. destruct s, s'; cbn; intro H; try discriminate; reflexivity. Qed.
Lemma cv_app a a' b b' : cv a a' -> cv b b' -> cv (a ++ b) (a' ++ b').
Proof. unfold cv. intros H1 H2. rewrite !map_app, H1, H2. reflexivity. Qed.
Lemma trel_cv r t t' : trel r t t' -> cv t t'.
Proof. intros [->|[_ H]]; [apply cv_refl | exact H]. Qed.

Lemma not_base5 r : is_base5 r = false ->
  str_eqb r s_INT = false /\ str_eqb r s_FLOAT = false /\ str_eqb r s_STRICTFLOAT = false /\
  str_eqb r s_BOOL = false /\ str_eqb r s_STRING = false.
Proof.
  unfold is_base5, mem_str. cbn [existsb]. intro H.
  repeat (apply orb_false_iff in H as [? H]). repeat split; assumption.
Qed.

Lemma term_truthy_rel r t t' : trel r t t' ->
  term_truthy r t' = term_truthy r t /\ term_str_nonempty r t' = term_str_nonempty r t.
Proof.
  intros [->|[Hb Hc]]; [split; reflexivity|].
  destruct (not_base5 r Hb) as [H1 [H2 [H3 [H4 H5]]]].
  unfold term_truthy, term_str_nonempty. rewrite H1, H2, H3, H4, H5, Hb. cbn [orb].
  rewrite (cv_nonempty t t' Hc). split; reflexivity.
Qed.

Lemma vrel_truthy : forall v v', vrel v v' ->
  val_truthy v' = val_truthy v /\ str_nonempty v' = str_nonempty v.
Proof.
  induction v as [| b | t | s | r t | r ps IH | r x IH | c p e a IH | nm p cl IH | l IH] using value_ind2;
    intros v' H; destruct v'; try contradiction; cbn [vrel] in H.
  - split; reflexivity.
  - subst. split; reflexivity.
  - split; reflexivity.
  - cbn [val_truthy str_nonempty]. rewrite (cv_nonempty _ _ H). split; reflexivity.
  - destruct H as [-> H]. cbn [val_truthy str_nonempty]. exact (term_truthy_rel _ _ _ H).
  - destruct H as [-> H]. cbn [val_truthy str_nonempty].
    assert (E : forall ps', list_rel vrel ps ps' ->
                (fix go (l : list value) : bool := match l with [] => false | x :: l' => str_nonempty x || go l' end) ps'
              = (fix go (l : list value) : bool := match l with [] => false | x :: l' => str_nonempty x || go l' end) ps).
    { clear H. induction IH as [| x l Hx Hl IHl]; intros [|y l'] Hr; try contradiction; [reflexivity|].
      destruct Hr as [Hxy Hr]. rewrite (proj2 (Hx y Hxy)), (IHl l' Hr). reflexivity. }
    rewrite (E _ H). split; reflexivity.
  - destruct H as [-> H]. cbn [val_truthy str_nonempty]. exact (IH _ H).
  - split; reflexivity.
  - split; reflexivity.
  - cbn [val_truthy str_nonempty]. destruct l, l0; try contradiction; split; reflexivity.
Qed.

Lemma vrel_is_vlist v v' : vrel v v' -> is_vlist v' = is_vlist v.
Proof. destruct v, v'; cbn; intro H; try contradiction; reflexivity. Qed.

(* ---- objects under construction *)
Definition kvrel (kv kv' : list N * value) : Prop := fst kv' = fst kv /\ vrel (snd kv) (snd kv').
Definition vals_rel := list_rel kvrel.
Definition crel (c c' : cur) : Prop :=
  c_cls c' = c_cls c /\ c_meta c' = c_meta c /\ c_pos c' = c_pos c /\ c_end c' = c_end c /\
  vals_rel (c_vals c) (c_vals c').
Definition orel (o o' : option cur) : Prop :=
  match o, o' with
  | None, None => True
  | Some c, Some c' => crel c c'
  | _, _ => False
  end.

Lemma get_val_rel a l l' : vals_rel l l' ->
  match get_val a l, get_val a l' with
  | Some v, Some v' => vrel v v'
  | None, None => True
  | _, _ => False
  end.
Proof.
  revert l'; induction l as [|[k v] l IH]; intros [|[k' v'] l'] H; try contradiction; [exact I|].
  destruct H as [[Hk Hv] H]. cbn [fst snd] in Hk, Hv. subst k'. cbn [get_val].
  destruct (str_eqb a k); [exact Hv | apply IH, H].
Qed.

Lemma set_val_rel a v v' l l' : vrel v v' -> vals_rel l l' -> vals_rel (set_val a v l) (set_val a v' l').
Proof.
  intro Hv. revert l'; induction l as [|[k w] l IH]; intros [|[k' w'] l'] H; try contradiction.
  - cbn. split; [split; [reflexivity | exact Hv] | exact I].
  - destruct H as [[Hk Hw] H]. cbn [fst snd] in Hk, Hw. subst k'. cbn [set_val].
    destruct (str_eqb a k).
    + split; [split; [reflexivity | exact Hv] | exact H].
    + split; [split; [reflexivity | exact Hw] | apply IH, H].
Qed.

Lemma cur_set_rel a v v' c c' : vrel v v' -> crel c c' -> crel (cur_set a v c) (cur_set a v' c').
Proof.
  intros Hv [H1 [H2 [H3 [H4 H5]]]]. unfold crel, cur_set. cbn [c_cls c_meta c_pos c_end c_vals].
  repeat split; try assumption. apply set_val_rel; assumption.
Qed.

Lemma find_attr_same a l : find_attr a l = find_attr a l. Proof. reflexivity. Qed.

Lemma name_ok_rel l l' : vals_rel l l' -> name_ok l' = name_ok l.
Proof.
  intro H. unfold name_ok. pose proof (get_val_rel s_name l l' H) as Hg.
  destruct (get_val s_name l) as [v|], (get_val s_name l') as [v'|]; try contradiction; [|reflexivity].
  destruct v, v'; try contradiction; try reflexivity. cbn [vrel] in Hg.
  destruct l0, l1; try contradiction; reflexivity.
Qed.

Lemma forallb_ext' {A} (f f' : A -> bool) l : (forall x, f x = f' x) -> forallb f l = forallb f' l.
Proof. intro H. induction l as [|x l IH]; [reflexivity|]. cbn [forallb]. rewrite H, IH. reflexivity. Qed.

Lemma many_ok_rel meta l l' : vals_rel l l' -> many_ok meta l' = many_ok meta l.
Proof.
  intro H. unfold many_ok. apply forallb_ext'. intro ma.
  destruct (a_mult ma); try reflexivity; (destruct (a_cont ma); [|reflexivity]);
    pose proof (get_val_rel (a_name ma) l l' H) as Hg;
    destruct (get_val (a_name ma) l) as [v|], (get_val (a_name ma) l') as [v'|]; try contradiction; try reflexivity;
    destruct v, v'; try contradiction; reflexivity.
Qed.

(* ---- results *)
Definition rrel (x x' : bres (value * option cur)) : Prop :=
  match x, x' with
  | BOk (v, o), BOk (v', o') => vrel v v' /\ orel o o'
  | BErr e, BErr e' => e' = e
  | _, _ => False
  end.
Definition orrel (x x' : bres (option cur)) : Prop :=
  match x, x' with
  | BOk o, BOk o' => orel o o'
  | BErr e, BErr e' => e' = e
  | _, _ => False
  end.
Definition vbrel (x x' : bres value) : Prop :=
  match x, x' with
  | BOk v, BOk v' => vrel v v'
  | BErr e, BErr e' => e' = e
  | _, _ => False
  end.

(* ---------------------------------------------------------------- the simulation *)
Section Sim.
Variable supf : nat -> bool -> bool.
Variables g g' : grammar.
Variable mm : list ninfo.
Variables input input' : list N.
Variables grp grp' : nat -> nat -> option (nat * nat).
Variables auto ug : bool.

Notation ftt := (ft supf).

Hypothesis G_rule : forall nid, rule_of g' nid = rule_of g nid.
Hypothesis G_sep : forall asg t, is_sep_of g' asg (ftt t) = is_sep_of g asg t.

Definition term_ok (nid p len : nat) : Prop :=
  vbrel (term_value g mm input grp ug nid p len) (term_value g' mm input' grp' ug nid p len) /\
  trel (rule_of g nid) (term_text g input nid p len) (term_text g' input' nid p len).
Definition tgood (t : tree) : Prop :=
  forall nid p len, In (nid, p, len) (tree_terminals t) -> term_ok nid p len.

Lemma tgood_kid nid kids k : tgood (NT nid kids) -> In k kids -> tgood k.
Proof.
  intros H Hk n p l Hin. apply H. cbn [tree_terminals]. apply in_flat_map. exists k. split; assumption.
Qed.

Lemma tree_nid_ft t : tree_nid (ftt t) = tree_nid t.
Proof. destruct t; reflexivity. Qed.

Ltac destr1 H := match type of H with match ?A with _ => _ end => destruct A end.
Ltac destr2 H := destr1 H; destr1 H.

(* ---- process_match *)
Lemma pmatch_rel : forall t, tgood t -> vbrel (pmatch g input t) (pmatch g' input' (ftt t)).
Proof.
  induction t as [nid p len sup | nid kids IH] using tree_ind2; intro Hg.
  - cbn [ft pmatch vbrel vrel]. split; [apply G_rule|].
    exact (proj2 (Hg nid p len (or_introl eq_refl))).
  - cbn [ft pmatch]. rewrite G_rule. destruct (is_base5 (rule_of g nid)); [reflexivity|].
    assert (Hgo : forall l, Forall (fun t => tgood t -> vbrel (pmatch g input t) (pmatch g' input' (ftt t))) l ->
                            (forall k, In k l -> tgood k) ->
       match (fix go (l : list tree) : bres (list value) :=
                match l with
                | [] => BOk []
                | x :: l' => match pmatch g input x with
                             | BOk v => match go l' with BOk vs => BOk (v :: vs) | BErr e => BErr e end
                             | BErr e => BErr e
                             end
                end) l,
             (fix go (l : list tree) : bres (list value) :=
                match l with
                | [] => BOk []
                | x :: l' => match pmatch g' input' x with
                             | BOk v => match go l' with BOk vs => BOk (v :: vs) | BErr e => BErr e end
                             | BErr e => BErr e
                             end
                end) (map ftt l) with
       | BOk vs, BOk vs' => list_rel vrel vs vs'
       | BErr e, BErr e' => e' = e
       | _, _ => False
       end).
    { intros l Hl. induction Hl as [| x l Hx Hl IHl]; intro Hk; [exact I|].
      cbn [map]. pose proof (Hx (Hk x (or_introl eq_refl))) as Hx'.
      destruct (pmatch g input x) as [v|e], (pmatch g' input' (ftt x)) as [v'|e']; cbn [vbrel] in Hx'; try contradiction;
        [|exact Hx'].
      pose proof (IHl (fun k H => Hk k (or_intror H))) as Hr.
      destr2 Hr; try contradiction; [split; assumption | exact Hr]. }
    destruct kids as [|k [|k2 rest]]; cbn [map].
    + reflexivity.
    + inversion IH as [|? ? Hk _]; subst.
      pose proof (Hk (tgood_kid nid [k] k Hg (or_introl eq_refl))) as Hk'.
      destruct (pmatch g input k) as [v|e], (pmatch g' input' (ftt k)) as [v'|e']; cbn [vbrel] in *; try contradiction;
        [split; [reflexivity | exact Hk'] | exact Hk'].
    + pose proof (Hgo (k :: k2 :: rest) IH (fun x Hx => tgood_kid nid _ x Hg Hx)) as Hr. cbn [map] in Hr.
      destr2 Hr; try contradiction; cbn [vbrel vrel]; [split; [reflexivity | exact Hr] | exact Hr].
Qed.

Lemma tpos_ft t : tpos (ftt t) = tpos t.
Proof.
  induction t as [n p len sup | n kids IH] using tree_ind2; [reflexivity|].
  cbn [ft tpos]. destruct kids as [|k kids]; [reflexivity|]. cbn [map]. inversion IH; subst. assumption.
Qed.

(* ---- the loops, for related recursive calls *)
Section Loops.
Variables rec rec' : tree -> option cur -> bres (value * option cur).
Definition rec_rel (t : tree) : Prop := forall top top', orel top top' -> rrel (rec t top) (rec' (ftt t) top').

Lemma each_rel l : (forall k, In k l -> rec_rel k) -> forall top top', orel top top' ->
  orrel (each_loop rec l top) (each_loop rec' (map ftt l) top').
Proof.
  induction l as [|k l IH]; intros Hr top top' Ho; cbn [map each_loop]; [exact Ho|].
  pose proof (Hr k (or_introl eq_refl) top top' Ho) as Hk.
  destruct (rec k top) as [[v o]|e], (rec' (ftt k) top') as [[v' o']|e']; cbn [rrel] in Hk; try contradiction.
  - apply IH; [intros x Hx; apply Hr; right; exact Hx | exact (proj2 Hk)].
  - exact Hk.
Qed.

Lemma lst_rel is_sep is_sep' a refcls l :
  (forall k, is_sep' (ftt k) = is_sep k) -> (forall k, In k l -> rec_rel k) ->
  forall top top', orel top top' ->
  orrel (lst_loop rec is_sep a refcls l top) (lst_loop rec' is_sep' a refcls (map ftt l) top').
Proof.
  intro Hsep. induction l as [|k l IH]; intros Hr top top' Ho; cbn [map lst_loop]; [exact Ho|].
  rewrite Hsep. assert (Hr' : forall x, In x l -> rec_rel x) by (intros x Hx; apply Hr; right; exact Hx).
  destruct (is_sep k); [apply IH; assumption|].
  pose proof (Hr k (or_introl eq_refl) top top' Ho) as Hk.
  destruct (rec k top) as [[v0 o]|e], (rec' (ftt k) top') as [[v0' o']|e']; cbn [rrel] in Hk; try contradiction;
    [|exact Hk].
  destruct Hk as [Hv0 Ho1]. cbv zeta. rewrite tpos_ft.
  assert (Hv : vrel (match refcls with Some cl => VRef v0 (tpos k) cl | None => v0 end)
                    (match refcls with Some cl => VRef v0' (tpos k) cl | None => v0' end)).
  { destruct refcls; [cbn [vrel]; repeat split; exact Hv0 | exact Hv0]. }
  set (v := match refcls with Some cl => VRef v0 (tpos k) cl | None => v0 end) in *.
  set (v' := match refcls with Some cl => VRef v0' (tpos k) cl | None => v0' end) in *.
  clearbody v v'.
  destruct o as [c1|], o' as [c1'|]; cbn [orel] in Ho1; try contradiction; [|reflexivity].
  pose proof (get_val_rel a _ _ (proj2 (proj2 (proj2 (proj2 Ho1))))) as Hg.
  destruct (get_val a (c_vals c1)) as [w|], (get_val a (c_vals c1')) as [w'|]; try contradiction; [|reflexivity].
  destruct w, w'; try contradiction; try reflexivity; cbn [vrel] in Hg.
  - apply IH; [exact Hr'|]. cbn [orel]. apply cur_set_rel; [|exact Ho1]. cbn [vrel list_rel]. split; [exact Hv | exact I].
  - apply IH; [exact Hr'|]. cbn [orel]. apply cur_set_rel; [|exact Ho1]. cbn [vrel].
    apply list_rel_app; [exact Hg | split; [exact Hv | exact I]].
Qed.

Lemma first_nonmatch_rel kind_of l : (forall k, In k l -> rec_rel k) -> forall top top', orel top top' ->
  match first_nonmatch rec kind_of l top, first_nonmatch rec' kind_of (map ftt l) top' with
  | Some r, Some r' => rrel r r'
  | None, None => True
  | _, _ => False
  end.
Proof.
  induction l as [|x l IH]; intros Hr top top' Ho; cbn [map first_nonmatch]; [exact I|].
  assert (Hr' : forall k, In k l -> rec_rel k) by (intros k Hk; apply Hr; right; exact Hk).
  destruct x as [n p len sup|xn kids].
  - cbn [ft]. apply IH; assumption.
  - change (ftt (NT xn kids)) with (NT xn (map ftt kids)). cbv beta iota.
    destruct (kind_of xn) as [[|]|].
    + exact (Hr (NT xn kids) (or_introl eq_refl) top top' Ho).
    + apply IH; assumption.
    + reflexivity.
Qed.

Lemma first_nt_rel has_cls l : (forall k, In k l -> rec_rel k) -> forall top top', orel top top' ->
  match first_nt rec has_cls l top, first_nt rec' has_cls (map ftt l) top' with
  | Some r, Some r' => rrel r r'
  | None, None => True
  | _, _ => False
  end.
Proof.
  induction l as [|x l IH]; intros Hr top top' Ho; cbn [map first_nt]; [exact I|].
  destruct x as [n p len sup|xn kids].
  - cbn [ft]. apply IH; [intros k Hk; apply Hr; right; exact Hk | exact Ho].
  - change (ftt (NT xn kids)) with (NT xn (map ftt kids)). cbv beta iota.
    destruct (has_cls xn); [exact (Hr (NT xn kids) (or_introl eq_refl) top top' Ho) | reflexivity].
Qed.
End Loops.

Lemma init_attrs_rel l : vals_rel (init_attrs auto l) (init_attrs auto l).
Proof.
  induction l as [|a l IH]; [exact I|]. cbn [init_attrs map]. split; [|exact IH].
  split; [reflexivity|]. cbn [snd]. unfold init_attr.
  destruct (a_mult a); try exact I;
    (destruct (is_base_type (a_cls a)); [destruct auto; [reflexivity | destruct (a_bool a); reflexivity] | exact I]).
Qed.

Lemma tree_text_cv kids : (forall k, In k kids -> tgood k) ->
  cv (List.concat (map (tree_text g input) kids)) (List.concat (map (tree_text g' input') (map ftt kids))).
Proof.
  induction kids as [|k kids IH]; intro H; [reflexivity|].
  cbn [map List.concat]. apply cv_app; [|apply IH; intros x Hx; apply H; right; exact Hx].
  destruct k as [n p len sup|n ks]; [|reflexivity].
  cbn [ft tree_text]. apply (trel_cv (rule_of g n)).
  exact (proj2 (H (T n p len sup) (or_introl eq_refl) n p len (or_introl eq_refl))).
Qed.

Lemma tend_ft t : tend (ftt t) = tend t.
Proof.
  induction t as [n p len sup | n kids IH] using tree_ind2; [reflexivity|].
  cbn [ft tend].
  assert (E : (fix lastend (l : list tree) : option nat :=
                 match l with [] => None | k :: l' => match lastend l' with Some e => Some e | None => Some (tend k) end end) (map ftt kids)
            = (fix lastend (l : list tree) : option nat :=
                 match l with [] => None | k :: l' => match lastend l' with Some e => Some e | None => Some (tend k) end end) kids).
  { induction IH as [| x l Hx Hl IHl]; [reflexivity|]. cbn [map]. rewrite IHl, Hx. reflexivity. }
  rewrite E. reflexivity.
Qed.

(* ---- process_node *)
Theorem pnode_rel : forall t, tgood t -> forall top top', orel top top' ->
  rrel (pnode g mm input grp auto ug t top) (pnode g' mm input' grp' auto ug (ftt t) top').
Proof.
  induction t as [nid p len sup | nid kids IH] using tree_ind2; intros Hg top top' Ho.
  - cbn [ft pnode]. pose proof (proj1 (Hg nid p len (or_introl eq_refl))) as Ht.
    destruct (term_value g mm input grp ug nid p len) as [v|e],
             (term_value g' mm input' grp' ug nid p len) as [v'|e']; cbn [vbrel] in Ht; try contradiction;
      [split; assumption | exact Ht].
  - assert (Hrec : forall k, In k kids ->
               rec_rel (pnode g mm input grp auto ug) (pnode g' mm input' grp' auto ug) k).
    { intros k Hk top1 top1' Ho1. rewrite Forall_forall in IH.
      exact (IH k Hk (tgood_kid nid kids k Hg Hk) top1 top1' Ho1). }
    change (ftt (NT nid kids)) with (NT nid (map ftt kids)).
    cbn [pnode]. destruct (info mm nid) as [a op | k cls attrs | r gr |].
    + (* assignment *)
      destruct top as [c|], top' as [c'|]; cbn [orel] in Ho; try contradiction; [|reflexivity].
      destruct Ho as [H1 [H2 [H3 [H4 H5]]]]. rewrite H2.
      destruct (find_attr a (c_meta c)) as [ma|]; [|reflexivity].
      assert (Hc : crel c c') by (repeat split; assumption).
      destruct op.
      * (* plain *)
        pose proof (get_val_rel a _ _ H5) as Hav.
        destruct (get_val a (c_vals c)) as [av|], (get_val a (c_vals c')) as [av'|]; try contradiction; [|reflexivity].
        rewrite (proj1 (vrel_truthy _ _ Hav)), (vrel_is_vlist _ _ Hav).
        destruct (val_truthy av && negb (is_vlist av))%bool; [reflexivity|].
        destruct kids as [|k kids]; [reflexivity|]. cbn [map].
        pose proof (Hrec k (or_introl eq_refl) (Some c) (Some c') Hc) as Hk.
        destruct (pnode g mm input grp auto ug k (Some c)) as [[v o]|e],
                 (pnode g' mm input' grp' auto ug (ftt k) (Some c')) as [[v' o']|e']; cbn [rrel] in Hk; try contradiction;
          [|exact Hk].
        destruct Hk as [Hv0 Ho1]. cbv zeta. rewrite tpos_ft.
        assert (Hv : vrel (if (a_ref ma && negb (a_cont ma))%bool then VRef v (tpos k) (a_cls ma) else v)
                          (if (a_ref ma && negb (a_cont ma))%bool then VRef v' (tpos k) (a_cls ma) else v')).
        { destruct (a_ref ma && negb (a_cont ma))%bool; [cbn [vrel]; repeat split; exact Hv0 | exact Hv0]. }
        set (w := if (a_ref ma && negb (a_cont ma))%bool then VRef v (tpos k) (a_cls ma) else v) in *.
        set (w' := if (a_ref ma && negb (a_cont ma))%bool then VRef v' (tpos k) (a_cls ma) else v') in *.
        clearbody w w'. clear Hv0.
        destruct o as [c1|], o' as [c1'|]; cbn [orel] in Ho1; try contradiction; [|reflexivity].
        destruct av, av'; try contradiction;
          try (cbn [rrel]; split; [exact I | cbn [orel]; apply cur_set_rel; assumption]).
        cbn [rrel]. split; [exact I|]. cbn [orel]. apply cur_set_rel; [|exact Ho1].
        cbn [vrel] in *. apply list_rel_app; [exact Hav | split; [exact Hv | exact I]].
      * (* optional *)
        cbn [rrel]. split; [exact I|]. cbn [orel]. apply cur_set_rel; [reflexivity | exact Hc].
      * (* list *)
        pose proof (lst_rel (pnode g mm input grp auto ug) (pnode g' mm input' grp' auto ug)
                            (is_sep_of g nid) (is_sep_of g' nid) a
                            (if (a_ref ma && negb (a_cont ma))%bool then Some (a_cls ma) else None) kids
                            (G_sep nid) Hrec (Some c) (Some c') Hc) as Hl.
        destruct (lst_loop (pnode g mm input grp auto ug) (is_sep_of g nid) a _ kids (Some c)) as [o|e],
                 (lst_loop (pnode g' mm input' grp' auto ug) (is_sep_of g' nid) a _ (map ftt kids) (Some c')) as [o'|e'];
          cbn [orrel] in Hl; try contradiction; [split; [exact I | exact Hl] | exact Hl].
      * reflexivity.
    + destruct k.
      * (* common rule *)
        rewrite <- (tpos_ft (NT nid kids)), <- (tend_ft (NT nid kids)).
        change (ftt (NT nid kids)) with (NT nid (map ftt kids)).
        set (c0 := mkCur cls attrs (tpos (NT nid (map ftt kids))) (tend (NT nid (map ftt kids))) (init_attrs auto attrs)).
        assert (Hc0 : crel c0 c0) by (unfold c0, crel; cbn; repeat split; apply init_attrs_rel).
        pose proof (each_rel (pnode g mm input grp auto ug) (pnode g' mm input' grp' auto ug) kids Hrec
                             (Some c0) (Some c0) Hc0) as He.
        destruct (each_loop (pnode g mm input grp auto ug) kids (Some c0)) as [o|e],
                 (each_loop (pnode g' mm input' grp' auto ug) (map ftt kids) (Some c0)) as [o'|e'];
          cbn [orrel] in He; try contradiction; [|exact He].
        destruct o as [c1|], o' as [c1'|]; cbn [orel] in He; try contradiction; [|reflexivity].
        destruct He as [H1 [H2 [H3 [H4 H5]]]].
        rewrite (name_ok_rel _ _ H5), H2, (many_ok_rel (c_meta c1) _ _ H5).
        destruct (name_ok (c_vals c1)); [|reflexivity].
        destruct (many_ok (c_meta c1) (c_vals c1)); [|reflexivity].
        cbn [rrel vrel]. split; [|exact Ho]. repeat split; assumption.
      * (* abstract rule *)
        destruct kids as [|k [|k2 rest]]; cbn [map].
        -- reflexivity.
        -- exact (Hrec k (or_introl eq_refl) top top' Ho).
        -- pose proof (first_nonmatch_rel (pnode g mm input grp auto ug) (pnode g' mm input' grp' auto ug)
                                          (nonmatch_class mm) (k :: k2 :: rest) Hrec top top' Ho) as H1.
           cbn [map] in H1.
           destruct (first_nonmatch (pnode g mm input grp auto ug) (nonmatch_class mm) (k :: k2 :: rest) top) as [r|],
                    (first_nonmatch (pnode g' mm input' grp' auto ug) (nonmatch_class mm) (ftt k :: ftt k2 :: map ftt rest) top') as [r'|];
             try contradiction; [exact H1|].
           pose proof (first_nt_rel (pnode g mm input grp auto ug) (pnode g' mm input' grp' auto ug)
                                    (has_class mm) (k :: k2 :: rest) Hrec top top' Ho) as H2.
           cbn [map] in H2.
           destruct (first_nt (pnode g mm input grp auto ug) (has_class mm) (k :: k2 :: rest) top) as [r|],
                    (first_nt (pnode g' mm input' grp' auto ug) (has_class mm) (ftt k :: ftt k2 :: map ftt rest) top') as [r'|];
             try contradiction; [exact H2|].
           cbn [rrel vrel]. split; [|exact Ho].
           apply (tree_text_cv (k :: k2 :: rest)). intros x Hx. exact (tgood_kid nid _ x Hg Hx).
      * (* match rule *)
        pose proof (pmatch_rel (NT nid kids) Hg) as Hm.
        change (ftt (NT nid kids)) with (NT nid (map ftt kids)) in Hm.
        destruct (pmatch g input (NT nid kids)) as [v|e], (pmatch g' input' (NT nid (map ftt kids))) as [v'|e'];
          cbn [vbrel] in Hm; try contradiction; [split; assumption | exact Hm].
    + reflexivity.
    + reflexivity.
Qed.

Theorem build_rel r : (forall nid p len, In (nid, p, len) (res_terminals r) -> term_ok nid p len) ->
  vbrel (build g mm input grp auto ug r) (build g' mm input' grp' auto ug (fr supf r)).
Proof.
  intro H. unfold build. destruct r as [|[n p len sup|n [|t kids]]|l]; try reflexivity.
  cbn [fr ft map].
  assert (Hg : tgood t).
  { intros a b c Hin. apply H. cbn [res_terminals tree_terminals flat_map]. apply in_or_app. left. exact Hin. }
  pose proof (pnode_rel t Hg None None I) as Hp.
  destruct (pnode g mm input grp auto ug t None) as [[v o]|e],
           (pnode g' mm input' grp' auto ug (ftt t) None) as [[v' o']|e']; cbn [rrel] in Hp; try contradiction;
    [exact (proj1 Hp) | exact Hp].
Qed.

End Sim.
End Rel.

(* with the identity as case folding the relation is equality *)
Lemma list_rel_eq {A} (R : A -> A -> Prop) l : Forall (fun x => forall y, R x y -> y = x) l ->
  forall l', list_rel R l l' -> l' = l.
Proof.
  induction 1 as [| x l Hx Hl IH]; intros [|y l'] H; try contradiction; [reflexivity|].
  destruct H as [Hxy H]. rewrite (Hx y Hxy), (IH l' H). reflexivity.
Qed.

Lemma vrel_id_eq : forall v v', vrel (fun c => c) v v' -> v' = v.
Proof.
  induction v as [| b | t | s | r t | r ps IH | r x IH | c p e a IH | nm p cl IH | l IH] using value_ind2;
    intros v' H; destruct v'; try contradiction; cbn [vrel] in H.
  - reflexivity.
  - congruence.
  - congruence.
  - unfold cv in H. rewrite !map_id in H. congruence.
  - destruct H as [-> [->|[_ H]]]; [reflexivity|]. unfold cv in H. rewrite !map_id in H. congruence.
  - destruct H as [-> H]. rewrite (list_rel_eq _ ps IH _ H). reflexivity.
  - destruct H as [-> H]. rewrite (IH _ H). reflexivity.
  - destruct H as [-> [-> [-> H]]]. f_equal.
    apply (list_rel_eq (kvrel (fun c => c)) a); [|exact H].
    rewrite Forall_forall in *. intros [k x] Hin [k' y] [Hk Hv]. cbn [fst snd] in *.
    rewrite Hk, (IH (k, x) Hin y Hv). reflexivity.
  - destruct H as [H [-> ->]]. rewrite (IH _ H). reflexivity.
  - rewrite (list_rel_eq _ l IH _ H). reflexivity.
Qed.

Lemma vbrel_id_eq x x' : vbrel (fun c => c) x x' -> x' = x.
Proof.
  destruct x as [v|e], x' as [v'|e']; cbn; intro H; try contradiction; [rewrite (vrel_id_eq _ _ H) | rewrite H]; reflexivity.
Qed.
