(* C22 - the tree condition [fits] of the model-level theorems derived from hypotheses on the grammar table
   and the oracle only, with the terminal invariant of the whole interpreter (Proofs/PegInv.v, C20/C21's,
   read-only): every terminal of an accepted parse satisfies a predicate that every terminal match satisfies. *)
From TxV Require Import Core.Base Model.PegSyntax Model.Peg Model.Build Model.PegWsDefs Model.BuildShiftDefs
     Proofs.BuildProofs Proofs.PegInv Proofs.PegWs Proofs.PegWsSim Proofs.PegCmtSim Proofs.BuildShift.
Require Import Lia.

Section Fits.
Variable g : grammar.
Variables a ins b : list N.
Variables orc orc' : nat -> nat -> option nat.
Let k := length a.

Definition ptk (nid p len : nat) : bool :=
  ((Nat.leb k p || Nat.leb (p + len) k) && negb (Nat.eqb len 0 && Nat.eqb p k))%bool.

Hypothesis Hok : shift_okb g (a ++ b) orc (a ++ ins ++ b) orc' (length a) (length ins) = true.
Hypothesis Hlit : no_empty_lit g = true.
Hypothesis Hb : b <> [].

Lemma k_lt : k < length (a ++ b).
Proof. rewrite app_length. fold k. destruct b; [contradiction | simpl; lia]. Qed.

Lemma ptk_of_match kd p len :
  tok a ins b orc orc' kd -> tmatch (a ++ b) orc kd p = Some len -> 0 < len -> ptk 0 p len = true.
Proof.
  intros Ht E Hl. unfold ptk.
  replace (Nat.eqb len 0) with false by (symmetry; apply Nat.eqb_neq; lia). simpl. rewrite andb_true_r.
  destruct (Nat.leb_spec k p) as [H|H]; [reflexivity|]. simpl. apply Nat.leb_le.
  assert (Hp : p <= length (a ++ b)) by (pose proof k_lt; lia).
  destruct (tok_spec a ins b orc orc' kd p Ht Hp) as [_ Hs]. destruct (Hs len E) as [_ Hs2]. apply Hs2. exact H.
Qed.

Lemma term_ok nid nd psq x r x' :
  get_node g nid = Some nd -> term_parse (a ++ b) orc nid (n_kind nd) psq x = Ok r x' -> res_okb ptk r = true.
Proof.
  intros EN E.
  assert (Hin : In nd (g_nodes g)) by (unfold get_node in EN; eapply nth_error_In; exact EN).
  assert (Ht : is_match_kind (n_kind nd) = true -> tok a ins b orc orc' (n_kind nd)).
  { intro EM. unfold shift_okb in Hok. rewrite forallb_forall in Hok. specialize (Hok nd Hin). rewrite EM in Hok. exact Hok. }
  assert (Hl : match n_kind nd with KStr [] _ => False | _ => True end).
  { unfold no_empty_lit in Hlit. rewrite forallb_forall in Hlit. specialize (Hlit nd Hin).
    destruct (n_kind nd) as [| | | | | | | | | |[|c0 t] o|o]; try exact I. discriminate. }
  destruct (n_kind nd) as [| | | | | | | | | |t [o|]|o] eqn:EK; simpl in E; try discriminate.
  - (* EOF: at the end of the input, right of k *)
    destruct (Nat.eqb (length (a ++ b)) (pos x)) eqn:EQ; [|discriminate]. injection E as <- _.
    apply Nat.eqb_eq in EQ. pose proof k_lt as Hk. simpl. unfold ptk.
    replace (Nat.leb k (pos x)) with true by (symmetry; apply Nat.leb_le; lia).
    replace (Nat.eqb (pos x) k) with false by (symmetry; apply Nat.eqb_neq; lia). rewrite andb_false_r. reflexivity.
  - destruct (orc o (pos x)) as [l|] eqn:EO; [|discriminate]. injection E as <- _. simpl.
    apply (ptk_of_match (KStr t (Some o))); [apply Ht; reflexivity | simpl; rewrite EO; reflexivity|].
    destruct t; [contradiction | simpl; lia].
  - destruct (is_prefix t (skipn (pos x) (a ++ b))) eqn:EP; [|discriminate]. injection E as <- _. simpl.
    apply (ptk_of_match (KStr t None)); [apply Ht; reflexivity | simpl; rewrite EP; reflexivity|].
    destruct t; [contradiction | simpl; lia].
  - destruct (orc o (pos x)) as [l|] eqn:EO; [|discriminate]. destruct (Nat.eqb l 0) eqn:E0.
    + injection E as <- _. reflexivity.
    + injection E as <- _. simpl. apply (ptk_of_match (KRegex o)); [apply Ht; reflexivity | simpl; exact EO|].
      apply Nat.eqb_neq in E0. lia.
Qed.

Lemma okb_fits : 0 < k -> forall t, tree_okb ptk t = true -> fits k t = true.
Proof.
  intro Hk. apply (tree_ind2 (fun t => tree_okb ptk t = true -> fits k t = true)).
  - intros nid p len s H. exact H.
  - intros nid kids IH H. simpl in *. replace (Nat.ltb 0 k) with true by (symmetry; apply Nat.ltb_lt, Hk).
    rewrite orb_true_r. simpl. rewrite forallb_forall in *. rewrite Forall_forall in IH. intros x Hx. apply IH; auto.
Qed.

(* every accepted parse of the original input satisfies the tree condition, for either memo setting *)
Theorem fits_of_run cfg memo fuel r :
  a <> [] -> run g cfg orc memo fuel (a ++ b) = Parsed r -> fits_res (length a) r = true.
Proof.
  intros Ha E.
  assert (Hk : 0 < k) by (unfold k; destruct a; [contradiction | simpl; lia]).
  pose proof (run_ok ptk g (a ++ b) orc memo term_ok cfg fuel r E) as H.
  destruct r as [|[nid p len s|nid kids]|l]; try reflexivity.
  destruct kids as [|t rest]; [reflexivity|]. simpl in H. apply andb_true_iff in H as [H _].
  simpl. apply okb_fits; assumption.
Qed.

End Fits.

(* ================================================================ C22_model_unchanged: hypotheses on the grammar
   table and the oracle only (insertion strictly inside the input) *)
Theorem ws_model_unchanged_table g mm cfg orc orc' grp grp' auto fuel a ins b r :
  ins_wf g cfg ins = true ->
  shift_okb g (a ++ b) orc (a ++ ins ++ b) orc' (length a) (length ins) = true ->
  no_empty_lit g = true -> a <> [] -> b <> [] ->
  run g cfg orc false fuel (a ++ b) = Parsed r ->
  exists r', run g cfg orc' false fuel (a ++ ins ++ b) = Parsed r' /\
             models_shifted (length a) (length ins)
               (build g mm (a ++ b) grp auto false r) (build g mm (a ++ ins ++ b) grp' auto false r').
Proof.
  intros Hw Hs Hl Ha Hb E.
  apply (ws_model_unchanged g mm cfg orc orc' grp grp' auto fuel a ins b r Hw Hs E).
  exact (fits_of_run g a ins b orc orc' Hs Hl Hb cfg false fuel r Ha E).
Qed.

Theorem comment_model_unchanged_table g mm cfg orc orc' grp grp' auto fuel a w1 c w2 b r :
  cmt_wf g cfg = true ->
  cmt_ins_okb g cfg orc' a w1 c w2 = true ->
  shift_okb g (a ++ b) orc (a ++ (w1 ++ c ++ w2) ++ b) orc' (length a) (length (w1 ++ c ++ w2)) = true ->
  no_empty_lit g = true -> a <> [] -> b <> [] ->
  run g cfg orc false fuel (a ++ b) = Parsed r ->
  not_aborted (run g cfg orc' false fuel (a ++ (w1 ++ c ++ w2) ++ b)) ->
  exists r', run g cfg orc' false fuel (a ++ (w1 ++ c ++ w2) ++ b) = Parsed r' /\
             models_shifted (length a) (length (w1 ++ c ++ w2))
               (build g mm (a ++ b) grp auto false r) (build g mm (a ++ (w1 ++ c ++ w2) ++ b) grp' auto false r').
Proof.
  intros Hw Hi Hs Hl Ha Hb E Hna.
  apply (comment_model_unchanged g mm cfg orc orc' grp grp' auto fuel a w1 c w2 b r Hw Hi Hs E Hna).
  exact (fits_of_run g a (w1 ++ c ++ w2) b orc orc' Hs Hl Hb cfg false fuel r Ha E).
Qed.
