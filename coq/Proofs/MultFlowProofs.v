(* C02 — value flow: traces of assignment events against maxcount, and the builder on such traces. *)
From Coq Require Import Permutation Lia.
From TxV Require Import Core.Base Model.MultBase Gen.SrcMult Model.Mult Proofs.MultProofs.

(* ---------------------------------------------------------------- unfolding the nested parts of `emits` *)
Fixpoint emits_seq (l : list body) (t : list ev) : Prop :=
  match l with
  | [] => t = []
  | x :: r => exists t1 t2, t = t1 ++ t2 /\ emits x t1 /\ emits_seq r t2
  end.

Fixpoint emits_each (l : list body) (ts : list (list ev)) : Prop :=
  match l, ts with
  | [], [] => True
  | x :: r, t1 :: tr => emits x t1 /\ emits_each r tr
  | _, _ => False
  end.

Lemma emits_BSeq l t : emits (BSeq l) t <-> emits_seq l t.
Proof.
  revert t. induction l as [|x l IH]; intro t; [reflexivity|].
  change (emits (BSeq (x :: l)) t) with (exists t1 t2, t = t1 ++ t2 /\ emits x t1 /\ emits (BSeq l) t2).
  cbn [emits_seq]. split; intros [t1 [t2 [E [H1 H2]]]]; exists t1, t2; (split; [exact E | split; [exact H1 | apply IH; exact H2]]).
Qed.

Lemma emits_BAlt l t : emits (BAlt l) t <-> exists x, In x l /\ emits x t.
Proof.
  induction l as [|x l IH].
  - split; [intros [] | intros [x [[] _]]].
  - change (emits (BAlt (x :: l)) t) with (emits x t \/ emits (BAlt l) t). rewrite IH. split.
    + intros [H | [y [Hy H]]]; [exists x; split; [left; reflexivity | exact H] | exists y; split; [right; exact Hy | exact H]].
    + intros [y [[<- | Hy] H]]; [left; exact H | right; exists y; split; assumption].
Qed.

Lemma emits_each_eq l ts :
  (fix go (l : list body) (ts : list (list ev)) : Prop :=
     match l, ts with
     | [], [] => True
     | x :: r, t1 :: tr => emits x t1 /\ go r tr
     | _, _ => False
     end) l ts <-> emits_each l ts.
Proof.
  revert ts. induction l as [|x l IH]; intros [|t1 tr]; cbn [emits_each]; try reflexivity.
  all: split; intros [H1 H2]; (split; [exact H1 | apply IH; exact H2]).
Qed.

Lemma emits_BUnord l t :
  emits (BUnord l) t <-> exists ts ts', Permutation ts ts' /\ t = concat ts' /\ emits_each l ts.
Proof.
  cbn [emits]. split; intros [ts [ts' [P [E H]]]]; exists ts, ts'; (split; [exact P | split; [exact E | apply emits_each_eq; exact H]]).
Qed.

(* ---------------------------------------------------------------- weights *)
Lemma weight_app a t1 t2 : weight a (t1 ++ t2) = weight a t1 + weight a t2.
Proof.
  unfold weight. rewrite map_app. apply list_sum_app.
Qed.

Lemma weight_concat a ts : weight a (concat ts) = list_sum (map (weight a) ts).
Proof.
  induction ts as [|t ts IH]; cbn [concat map list_sum fold_right]; [reflexivity|].
  rewrite weight_app, IH. reflexivity.
Qed.

Lemma list_sum_perm l l' : Permutation l l' -> list_sum l = list_sum l'.
Proof. induction 1; cbn [list_sum fold_right] in *; unfold list_sum in *; lia. Qed.

Lemma weight_concat_perm a ts ts' : Permutation ts ts' -> weight a (concat ts) = weight a (concat ts').
Proof. intro P. rewrite !weight_concat. apply list_sum_perm, Permutation_map, P. Qed.

Lemma list_sum_zero l : (forall n, In n l -> n = 0) -> list_sum l = 0.
Proof.
  induction l as [|n l IH]; intro H; cbn [list_sum fold_right]; [reflexivity|].
  rewrite (H n (or_introl eq_refl)). unfold list_sum in IH. rewrite IH; [reflexivity | intros k Hk; apply H; right; exact Hk].
Qed.

Section Flow.
  Variable a : nat.

  (* the events a body can emit for a never weigh more than maxcount *)
  Lemma emits_weight b : forall t, emits b t -> cap2 (weight a t) <= maxcount a b.
  Proof.
    induction b as [|a' op|l IH|l IH|x IH|x IH|x IH|l IH] using body_ind'; intros t H.
    - cbn [emits] in H. subst t. cbn. lia.
    - cbn [emits] in H. destruct H as [[e [-> [Ha [Ho _]]]] | ->]; [|cbn; lia].
      unfold weight, ev_weight. cbn [map list_sum fold_right maxcount]. rewrite Ha, Ho.
      destruct (Nat.eqb a a'); [destruct op; cbn; lia | cbn; lia].
    - apply (proj1 (emits_BSeq _ _)) in H. cbn [maxcount].
      revert t H. induction IH as [|x l Hx Hl IHl]; intros t H; cbn [emits_seq] in H.
      + subst t. cbn. lia.
      + destruct H as [t1 [t2 [-> [H1 H2]]]]. specialize (Hx _ H1). specialize (IHl _ H2).
        rewrite weight_app. cbn [map list_sum fold_right]. unfold cap2, list_sum in *. lia.
    - apply (proj1 (emits_BAlt _ _)) in H as [x [Hin H]]. cbn [maxcount].
      rewrite Forall_forall in IH. specialize (IH x Hin t H).
      destruct (le_lt_dec 1 (cap2 (weight a t))) as [L|L]; [|lia].
      apply list_max_ge; [exact L|]. exists (maxcount a x). split; [apply in_map; exact Hin | exact IH].
    - cbn [emits] in H. cbn [maxcount]. destruct H as [-> | H]; [cbn; lia | apply IH, H].
    - cbn [emits] in H. cbn [maxcount]. destruct H as [ts [-> HF]].
      destruct (maxcount a x) eqn:E; [|apply cap2_le2].
      rewrite weight_concat, list_sum_zero; [cbn; lia|].
      intros n Hn. apply in_map_iff in Hn as [ti [<- Hti]]. rewrite Forall_forall in HF.
      specialize (IH _ (HF _ Hti)). unfold cap2 in IH. lia.
    - cbn [emits] in H. cbn [maxcount]. destruct H as [ts [_ [-> HF]]].
      destruct (maxcount a x) eqn:E; [|apply cap2_le2].
      rewrite weight_concat, list_sum_zero; [cbn; lia|].
      intros n Hn. apply in_map_iff in Hn as [ti [<- Hti]]. rewrite Forall_forall in HF.
      specialize (IH _ (HF _ Hti)). unfold cap2 in IH. lia.
    - apply (proj1 (emits_BUnord _ _)) in H as [ts [ts' [P [-> H]]]]. cbn [maxcount].
      rewrite <- (weight_concat_perm a ts ts' P). clear P ts'.
      revert ts H. induction IH as [|x l Hx Hl IHl]; intros [|t1 tr] H; cbn [emits_each] in H; try contradiction.
      + cbn. lia.
      + destruct H as [H1 H2]. specialize (Hx _ H1). specialize (IHl _ H2).
        cbn [concat]. rewrite weight_app. cbn [map list_sum fold_right]. unfold cap2, list_sum in *. lia.
  Qed.
End Flow.

(* every emitted event is a well-formed match of one of the body's assignments *)
Lemma emits_events b : forall t, emits b t -> Forall (fun e => In (ev_attr e, ev_op e) (asgs b) /\ ev_ok e) t.
Proof.
  induction b as [|a' op|l IH|l IH|x IH|x IH|x IH|l IH] using body_ind'; intros t H.
  - cbn [emits] in H. subst t. constructor.
  - cbn [emits] in H. destruct H as [[e [-> [Ha [Ho Hok]]]] | ->]; [|constructor].
    constructor; [|constructor]. cbn [asgs]. split; [left; rewrite Ha, Ho; reflexivity | exact Hok].
  - apply (proj1 (emits_BSeq _ _)) in H. cbn [asgs].
    revert t H. induction IH as [|x l Hx Hl IHl]; intros t H; cbn [emits_seq] in H.
    + subst t. constructor.
    + destruct H as [t1 [t2 [-> [H1 H2]]]]. cbn [flat_map]. apply Forall_app. split.
      * eapply Forall_impl; [|apply Hx, H1]. intros e [Hin Hok]. split; [apply in_or_app; left; exact Hin | exact Hok].
      * eapply Forall_impl; [|apply IHl, H2]. intros e [Hin Hok]. split; [apply in_or_app; right; exact Hin | exact Hok].
  - apply (proj1 (emits_BAlt _ _)) in H as [x [Hin H]]. cbn [asgs].
    rewrite Forall_forall in IH. eapply Forall_impl; [|apply (IH x Hin), H].
    intros e [He Hok]. split; [apply in_flat_map; exists x; split; assumption | exact Hok].
  - cbn [emits] in H. cbn [asgs]. destruct H as [-> | H]; [constructor | apply IH, H].
  - cbn [emits] in H. cbn [asgs]. destruct H as [ts [-> HF]].
    apply Forall_concat. eapply Forall_impl; [|exact HF]. intros ti Hti. apply IH, Hti.
  - cbn [emits] in H. cbn [asgs]. destruct H as [ts [_ [-> HF]]].
    apply Forall_concat. eapply Forall_impl; [|exact HF]. intros ti Hti. apply IH, Hti.
  - apply (proj1 (emits_BUnord _ _)) in H as [ts [ts' [P [-> H]]]]. cbn [asgs].
    assert (K : Forall (fun e => In (ev_attr e, ev_op e) (flat_map asgs l) /\ ev_ok e) (concat ts)).
    { clear P. revert ts H. induction IH as [|x l Hx Hl IHl]; intros [|t1 tr] H; cbn [emits_each] in H; try contradiction.
      - constructor.
      - destruct H as [H1 H2]. cbn [concat flat_map]. apply Forall_app. split.
        + eapply Forall_impl; [|apply Hx, H1]. intros e [Hin Hok]. split; [apply in_or_app; left; exact Hin | exact Hok].
        + eapply Forall_impl; [|apply IHl, H2]. intros e [Hin Hok]. split; [apply in_or_app; right; exact Hin | exact Hok]. }
    rewrite Forall_forall in K |- *. intros e He. apply K.
    apply in_concat in He as [ti [Hti He]]. apply in_concat. exists ti. split; [|exact He].
    eapply Permutation_in; [apply Permutation_sym, P | exact Hti].
Qed.

Lemma in_ops_of a op b : In (a, op) (asgs b) -> In op (ops_of a b).
Proof.
  unfold ops_of. intro H. apply in_map_iff. exists (a, op). split; [reflexivity|].
  apply filter_In. split; [exact H | cbn; apply Nat.eqb_refl].
Qed.

(* ---------------------------------------------------------------- the builder *)
Section Build.
  Variable a : nat.

  Definition for_a (e : ev) : bool := Nat.eqb a (ev_attr e).

  Lemma build_weight0 t cur : weight a t = 0 -> build a cur t = Ok cur /\ values_of a t = [].
  Proof.
    revert cur. induction t as [|e t IH]; intros cur H; [split; reflexivity|].
    unfold weight in H. cbn [map list_sum fold_right] in H. fold (list_sum (map (ev_weight a) t)) in H. fold (weight a t) in H.
    assert (H0 : ev_weight a e = 0) by lia. assert (Ht : weight a t = 0) by lia.
    unfold ev_weight in H0. cbn [build values_of flat_map]. destruct (Nat.eqb a (ev_attr e)).
    - destruct (ev_op e); discriminate.
    - cbn [app]. apply IH, Ht.
  Qed.

  (* a single-valued attribute: at most one event, a `=` or a `?=`; it is stored, nothing is lost *)
  Lemma build_scalar t d :
    truthy d = false -> weight a t <= 1 -> Forall ev_ok t ->
    length (values_of a t) <= 1 /\
    build a (AScalar d) t = Ok (AScalar (match values_of a t with [] => d | v :: _ => v end)).
  Proof.
    intros Hd. induction t as [|e t IH]; intros Hw Hok; [split; [cbn; lia | reflexivity]|].
    inversion Hok as [|e' t' He Hokt]; subst e' t'.
    unfold weight in Hw. cbn [map list_sum fold_right] in Hw. fold (list_sum (map (ev_weight a) t)) in Hw. fold (weight a t) in Hw.
    cbn [build values_of flat_map]. fold (values_of a t). unfold ev_weight in Hw. destruct (Nat.eqb a (ev_attr e)) eqn:E.
    - unfold ev_ok in He. unfold assign, ev_values. destruct (ev_op e) eqn:Eo; try lia.
      + (* = *) destruct He as [v Hv]. rewrite Hv, Hd.
        destruct (build_weight0 t (AScalar v)) as [B V]; [lia|].
        rewrite B, V. split; [cbn; lia | reflexivity].
      + (* ?= *) destruct (build_weight0 t (AScalar (SBool true))) as [B V]; [lia|].
        rewrite B, V. split; [cbn; lia | reflexivity].
    - cbn [app]. apply IH; [lia | exact Hokt].
  Qed.

  (* a list attribute without `?=` events: every matched value is appended, in order *)
  Lemma build_list t l :
    Forall (fun e => for_a e = true -> ev_op e <> OpBool) t -> Forall ev_ok t ->
    build a (AList l) t = Ok (AList (l ++ values_of a t)).
  Proof.
    revert l. induction t as [|e t IH]; intros l Hnb Hok; cbn [build values_of flat_map].
    - rewrite app_nil_r. reflexivity.
    - fold (values_of a t). inversion Hnb as [|e1 t1 Hb Hnbt]; subst e1 t1. inversion Hok as [|e2 t2 He Hokt]; subst e2 t2.
      unfold for_a in Hb. destruct (Nat.eqb a (ev_attr e)) eqn:E.
      + specialize (Hb eq_refl). unfold ev_ok in He. unfold assign, ev_values.
        destruct (ev_op e) eqn:Eo; [| contradiction | |].
        * destruct He as [v Hv]. rewrite Hv. rewrite IH by assumption. rewrite <- app_assoc. reflexivity.
        * destruct (ev_vals e) as [|v vs] eqn:Ev.
          -- cbn [app]. apply IH; assumption.
          -- rewrite IH by assumption. rewrite <- app_assoc. reflexivity.
        * destruct (ev_vals e) as [|v vs] eqn:Ev.
          -- cbn [app]. apply IH; assumption.
          -- rewrite IH by assumption. rewrite <- app_assoc. reflexivity.
      + cbn [app]. apply IH; assumption.
  Qed.
End Build.

(* ---------------------------------------------------------------- the value-flow theorem *)
Lemma rejected_is_list m : mult_mem m src_bool_rejected_mults = is_list m.
Proof. destruct m; reflexivity. Qed.

Lemma grammar_ok_bool_many b : grammar_ok b = true -> bool_many b = false.
Proof.
  unfold grammar_ok, grammar_error. destruct (bool_reuse [] (asgs b)); [discriminate|].
  destruct (bool_in_rep b src_walk_init); [discriminate|]. destruct (bool_many b); [discriminate | reflexivity].
Qed.

Lemma list_attr_not_bool b a :
  grammar_ok b = true -> is_list (infer b a) = true -> ~ In OpBool (ops_of a b).
Proof.
  intros Hg Hl Hin. apply grammar_ok_bool_many in Hg. unfold bool_many in Hg.
  assert (Ha : In a (attrs_of b)).
  { unfold ops_of in Hin. apply in_map_iff in Hin as [[a' op] [_ Hf]]. apply filter_In in Hf as [Hf E].
    cbn [fst] in E. apply Nat.eqb_eq in E. subst a'. unfold attrs_of. apply in_map_iff. exists (a, op). split; [reflexivity | exact Hf]. }
  assert (K : existsb (fun a0 => is_bool_attr a0 b && mult_mem (infer b a0) src_bool_rejected_mults) (attrs_of b) = true).
  { apply existsb_exists. exists a. split; [exact Ha|]. rewrite rejected_is_list, Hl, andb_true_r.
    unfold is_bool_attr. apply existsb_exists. exists OpBool. split; [exact Hin | reflexivity]. }
  rewrite K in Hg. discriminate.
Qed.

Theorem values_in_order b a t d :
  grammar_ok b = true -> emits b t -> truthy d = false ->
  build a (init_val (infer b a) d) t
  = Ok (if is_list (infer b a) then AList (values_of a t)
        else AScalar (match values_of a t with [] => d | v :: _ => v end))
  /\ (is_list (infer b a) = false -> length (values_of a t) <= 1).
Proof.
  intros Hg He Hd. pose proof (emits_events b t He) as Hev.
  assert (Hok : Forall ev_ok t) by (eapply Forall_impl; [|exact Hev]; intros e [_ H]; exact H).
  unfold init_val. destruct (is_list (infer b a)) eqn:El.
  - split; [|discriminate]. change (values_of a t) with ([] ++ values_of a t). apply build_list; [|exact Hok].
    eapply Forall_impl; [|exact Hev]. intros e [Hin _] Hfa Hb. unfold for_a in Hfa. apply Nat.eqb_eq in Hfa.
    apply (list_attr_not_bool b a Hg El). rewrite <- Hb. apply in_ops_of. rewrite Hfa. exact Hin.
  - assert (Hm : maxcount a b <= 1).
    { destruct (le_lt_dec 2 (maxcount a b)) as [L|L]; [|lia]. apply infer_list_iff in L. congruence. }
    pose proof (emits_weight a b t He) as Hw. assert (Hw1 : weight a t <= 1) by (unfold cap2 in Hw; lia).
    destruct (build_scalar a t d Hd Hw1 Hok) as [B1 B2]. split; [exact B2 | intros _; exact B1].
Qed.

Theorem no_mult_assign_error b a t d :
  grammar_ok b = true -> emits b t -> truthy d = false ->
  build a (init_val (infer b a) d) t <> MultipleAssignments /\ build a (init_val (infer b a) d) t <> Crash.
Proof.
  intros Hg He Hd. destruct (values_in_order b a t d Hg He Hd) as [H _]. rewrite H. split; discriminate.
Qed.

Theorem no_silent_overwrite b a t d :
  grammar_ok b = true -> emits b t -> truthy d = false -> 2 <= length (values_of a t) ->
  build a (init_val (infer b a) d) t = Ok (AList (values_of a t)).
Proof.
  intros Hg He Hd Hn. destruct (values_in_order b a t d Hg He Hd) as [H1 H2].
  destruct (is_list (infer b a)); [exact H1 | specialize (H2 eq_refl); lia].
Qed.

(* ---------------------------------------------------------------- the witness of the pre-repair defect *)
Definition witness_body := BSeq [BAlt [BAsg 0 OpPlain; BAsg 1 OpPlain]; BAsg 0 OpPlain].
Definition witness_trace (z : Z) := [Ev 0 OpPlain [SInt z]; Ev 0 OpPlain [SInt 2]].

Lemma witness_emits z : emits witness_body (witness_trace z).
Proof.
  unfold witness_body, witness_trace. apply emits_BSeq. cbn [emits_seq].
  exists [Ev 0 OpPlain [SInt z]], [Ev 0 OpPlain [SInt 2]]. split; [reflexivity|]. split.
  - apply emits_BAlt. exists (BAsg 0 OpPlain). split; [left; reflexivity|].
    left. eexists. repeat split. exists (SInt z). reflexivity.
  - exists [Ev 0 OpPlain [SInt 2]], []. split; [reflexivity|]. split; [|reflexivity].
    left. eexists. repeat split. exists (SInt 2). reflexivity.
Qed.

Lemma prefix_inference_refuted : exists b a, 2 <= maxcount a b /\ is_list (infer_prefix b a) = false.
Proof. exists witness_body, 0. split; [vm_compute; lia | vm_compute; reflexivity]. Qed.

Lemma prefix_value_flow_refuted :
  grammar_ok witness_body = true /\ emits witness_body (witness_trace 1) /\ emits witness_body (witness_trace 0)
  /\ build 0 (init_val (infer_prefix witness_body 0) (SInt 0)) (witness_trace 1) = MultipleAssignments
  /\ build 0 (init_val (infer_prefix witness_body 0) (SInt 0)) (witness_trace 0) = Ok (AScalar (SInt 2)).
Proof.
  split; [vm_compute; reflexivity|]. split; [apply witness_emits|]. split; [apply witness_emits|].
  split; vm_compute; reflexivity.
Qed.

Lemma nonvacuous_values :
  grammar_ok witness_body = true /\ emits witness_body (witness_trace 0) /\ truthy (SInt 0) = false
  /\ build 0 (init_val (infer witness_body 0) (SInt 0)) (witness_trace 0) = Ok (AList [SInt 0; SInt 2]).
Proof.
  split; [vm_compute; reflexivity|]. split; [apply witness_emits|]. split; vm_compute; reflexivity.
Qed.

Lemma nonvacuous_list :
  is_list (infer witness_body 0) = true
  /\ is_list (infer witness_body 1) = false
  /\ is_list (infer (BAlt [BAsg 0 OpPlain; BSeq [BTok; BAsg 0 OpPlain]]) 0) = false
  /\ is_list (infer (BUnord [BOpt (BAsg 0 OpPlain); BAsg 0 OpPlain]) 0) = true.
Proof. vm_compute. repeat split; reflexivity. Qed.
