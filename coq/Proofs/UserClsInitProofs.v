(* Every user object is initialised at most once, and exactly once in a load that finishes. *)
From TxV Require Import Core.Base Model.UserCls Proofs.UserClsProofs.
Require Import Lia Permutation.

Lemma nodup_app_r {A} (a b : list A) : NoDup (a ++ b) -> NoDup b.
Proof. induction a as [|x a IH]; cbn [app]; intro H; [exact H | inversion H; subst; apply IH; assumption]. Qed.

Lemma nodup_app_disj {A} (a b : list A) x : NoDup (a ++ b) -> In x a -> In x b -> False.
Proof.
  induction a as [|y a IH]; cbn [app]; intros H Ha Hb; [destruct Ha|].
  inversion H as [|? ? Hn Hnd]; subst. destruct Ha as [E|Ha].
  - subst. apply Hn. apply in_app_iff. right. exact Hb.
  - apply IH; assumption.
Qed.

Lemma perm_move {A} (x : A) a b c d : Permutation ((a ++ b) ++ c ++ x :: d) (((x :: a) ++ b) ++ c ++ d).
Proof.
  cbn [app]. rewrite <- !app_assoc. apply Permutation_sym.
  replace (a ++ b ++ c ++ x :: d) with ((a ++ b ++ c) ++ x :: d) by (rewrite <- !app_assoc; reflexivity).
  replace (x :: a ++ b ++ c ++ d) with (x :: (a ++ b ++ c) ++ d) by (rewrite <- !app_assoc; reflexivity).
  apply Permutation_middle.
Qed.

Lemma perm_move2 {A} (x : A) a b c d : Permutation (((a ++ b) ++ c) ++ x :: d) ((((x :: a) ++ b) ++ c) ++ d).
Proof. rewrite <- (app_assoc (a ++ b)), <- (app_assoc ((x :: a) ++ b)). apply perm_move. Qed.

Section InitOnce.
  Variable rep res : list (list N).
  Notation step := (step rep res).
  Notation run := (run rep res).
  Notation fail_ctx := (fail_ctx res).

  (* objects that still wait for their __init__ *)
  Definition fpend (f : frame) : list nat := f_ostack f ++ f_inst f.
  Definition cpend (c : ctx) : list nat := phase_cur (c_phase c) ++ flat_map fpend (c_frames c).
  Definition pend (cs : list ctx) : list nat := flat_map cpend cs.
  (* objects whose __init__ has been called, newest first *)
  Definition inited (l : list event) : list nat :=
    flat_map (fun e => match e_kind e with KInit _ o => [o] | _ => [] end) l.
  Definition allp (cs : list ctx) (l : list event) : list nat := pend cs ++ inited l.

  Definition jinv' (cs : list ctx) (l : list event) (n : nat) : Prop :=
    NoDup (allp cs l) /\ Forall (fun x => x < n) (allp cs l).
  Definition jinv (s : state) : Prop := jinv' (s_ctxs s) (s_log s) (s_next s).

  Lemma jinv_perm cs l n cs' l' n' :
    Permutation (allp cs' l') (allp cs l) -> n <= n' -> jinv' cs l n -> jinv' cs' l' n'.
  Proof.
    intros P Hn [ND B]. split.
    - apply (Permutation_NoDup (Permutation_sym P)). exact ND.
    - apply (Permutation_Forall (Permutation_sym P)). apply (Forall_impl _ (P:=fun x => x < n)); [intros; lia | exact B].
  Qed.

  Lemma jinv_drop cs l n A cs' l' n' :
    allp cs l = A ++ allp cs' l' -> n <= n' -> jinv' cs l n -> jinv' cs' l' n'.
  Proof.
    intros E Hn [ND B]. rewrite E in ND, B. split.
    - apply nodup_app_r in ND. exact ND.
    - apply Forall_app in B as [_ B]. apply (Forall_impl _ (P:=fun x => x < n)); [intros; lia | exact B].
  Qed.

  Lemma jinv_fresh cs l n cs' l' :
    Permutation (allp cs' l') (n :: allp cs l) -> jinv' cs l n -> jinv' cs' l' (S n).
  Proof.
    intros P [ND B]. split.
    - apply (Permutation_NoDup (Permutation_sym P)). constructor; [|exact ND].
      intro Hin. rewrite Forall_forall in B. specialize (B n Hin). lia.
    - apply (Permutation_Forall (Permutation_sym P)). constructor; [lia|].
      apply (Forall_impl _ (P:=fun x => x < n)); [intros; lia | exact B].
  Qed.

  Lemma inited_cons_other e l : (forall c o, e_kind e <> KInit c o) -> inited (e :: l) = inited l.
  Proof.
    intro H. unfold inited. cbn [flat_map]. destruct (e_kind e) eqn:E; try reflexivity.
    exfalso. apply (H c o). reflexivity.
  Qed.

  Lemma jinv_fail_ctx s c rest :
    jinv' (c :: rest) (s_log s) (s_next s) -> jinv (fail_ctx s c rest).
  Proof.
    intro H. unfold jinv, UserCls.fail_ctx. cbn [s_ctxs s_log s_next].
    apply (jinv_drop (c :: rest) (s_log s) (s_next s) (cpend c)); [|lia|exact H].
    unfold allp, pend. cbn [flat_map]. rewrite inited_cons_other by (cbn; discriminate).
    rewrite app_assoc. reflexivity.
  Qed.

  Lemma step_jinv s o : jinv s -> jinv (step s o).
  Proof.
    intro H. destruct o as [main glob syn_ok| | | | |ok|ok| |]; unfold UserCls.step.
    - (* Begin *)
      set (newc := {| c_id := s_next s; c_global := glob; c_frames := []; c_phase := Loading;
                      c_mids := []; c_objs := []; c_trace := [] |}).
      assert (Hc : jinv' (if main then newc :: s_ctxs s else s_ctxs s) (s_log s) (s_next s)).
      { destruct main; [|exact H]. exact H. }
      destruct (if main then newc :: s_ctxs s else s_ctxs s) as [|c rest] eqn:E; [exact H|].
      destruct (c_phase c) eqn:Eph; try exact H.
      destruct syn_ok.
      + unfold jinv. cbn [s_ctxs s_log s_next].
        apply (jinv_perm (c :: rest) (s_log s) (s_next s)); [|lia|exact Hc].
        unfold allp, pend. cbn [flat_map]. unfold cpend at 1 3. cbn [c_phase c_frames phase_cur].
        rewrite Eph. cbn [phase_cur]. rewrite flat_map_app. cbn [flat_map fpend new_frame f_ostack f_inst app].
        rewrite !app_nil_r. apply Permutation_refl.
      + apply jinv_fail_ctx. cbn [s_log s_next].
        apply (jinv_perm (c :: rest) (s_log s) (s_next s)); [|lia|exact Hc].
        unfold allp. rewrite (inited_cons_other) by (cbn; discriminate). apply Permutation_refl.
    - (* Alloc *)
      destruct (s_ctxs s) as [|c rest] eqn:E; [exact H|].
      destruct (c_phase c) eqn:Eph; try exact H.
      destruct (last_frame (c_frames c)) as [f|] eqn:El; [|exact H].
      apply last_frame_some in El as [pre Epre].
      unfold jinv in *. cbn [s_ctxs s_log s_next]. rewrite E in H.
      apply (jinv_fresh (c :: rest) (s_log s)); [|exact H].
      unfold allp. rewrite inited_cons_other by (cbn; discriminate).
      unfold pend. cbn [flat_map]. unfold cpend at 1 3. cbn [c_phase c_frames phase_cur]. rewrite Eph. cbn [phase_cur app].
      rewrite Epre, on_last_app, !flat_map_app. cbn [flat_map]. unfold fpend at 2 4. cbn [alloc_frame f_ostack f_inst].
      repeat rewrite <- app_assoc. cbn [app]. apply Permutation_sym, Permutation_middle.
    - (* Complete *)
      destruct (s_ctxs s) as [|c rest] eqn:E; [exact H|].
      destruct (c_phase c) eqn:Eph; try exact H.
      unfold jinv in *. cbn [set_ctxs s_ctxs s_log s_next]. rewrite E in H.
      apply (jinv_perm (c :: rest) (s_log s) (s_next s)); [|lia|exact H].
      unfold allp, pend. cbn [flat_map]. unfold cpend at 1 3. cbn [c_phase c_frames phase_cur]. rewrite Eph. cbn [phase_cur app].
      destruct (c_frames c) as [|f0 pre] using rev_ind; [apply Permutation_refl|].
      rewrite on_last_app, !flat_map_app. cbn [flat_map]. unfold fpend at 2 4.
      unfold complete_frame. destruct (f_ostack f0) as [|y st] eqn:Eos; [rewrite Eos; apply Permutation_refl|].
      cbn [f_ostack f_inst]. repeat rewrite <- app_assoc. apply Permutation_app_head. cbn [app].
      rewrite !app_assoc. repeat rewrite <- (app_assoc (st ++ f_inst f0)).
      cbn [app]. apply Permutation_sym. rewrite <- !app_assoc.
      change (y :: st ++ f_inst f0 ++ flat_map cpend rest ++ inited (s_log s))
        with (y :: (st ++ f_inst f0 ++ flat_map cpend rest ++ inited (s_log s))).
      rewrite (app_assoc st (f_inst f0)). rewrite (app_assoc st (f_inst f0) (y :: _)).
      apply Permutation_middle.
    - (* ResolveOk *)
      destruct (s_ctxs s) as [|c rest] eqn:E; [exact H|].
      destruct (c_phase c) eqn:Eph; try exact H.
      unfold jinv in *. cbn [s_ctxs s_log s_next]. rewrite E in H.
      apply (jinv_perm (c :: rest) (s_log s) (s_next s)); [|lia|exact H].
      unfold allp. rewrite inited_cons_other by (cbn; discriminate).
      unfold pend. cbn [flat_map]. unfold cpend at 1 3. cbn [c_phase c_frames phase_cur]. rewrite Eph. apply Permutation_refl.
    - (* EndModel *)
      destruct (s_ctxs s) as [|c rest] eqn:E; [exact H|].
      destruct (c_phase c) as [|[|? ?]|] eqn:Eph; try exact H.
      destruct (c_frames c) as [|f fs] eqn:Efr; [exact H|].
      destruct (f_ostack f) eqn:Eos; [|exact H].
      unfold jinv in *. cbn [s_ctxs s_log s_next]. rewrite E in H.
      apply (jinv_perm (c :: rest) (s_log s) (s_next s)); [|lia|exact H].
      unfold allp, pend. cbn [flat_map]. unfold cpend at 1 3. cbn [c_phase c_frames phase_cur]. rewrite Eph, Efr.
      cbn [phase_cur flat_map app]. unfold fpend at 2. rewrite Eos. cbn [app]. apply Permutation_refl.
    - (* Init *)
      destruct (s_ctxs s) as [|c rest] eqn:E; [exact H|].
      destruct (c_phase c) as [|[|x cur]|] eqn:Eph; try exact H.
      unfold jinv in H. rewrite E in H.
      match goal with |- jinv (if ok then ?a else ?b) => assert (Ha : jinv a) end.
      { unfold jinv. cbn [s_ctxs s_log s_next].
        apply (jinv_perm (c :: rest) (s_log s) (s_next s)); [|lia|exact H].
        unfold allp, pend. cbn [flat_map]. unfold cpend at 1 3. cbn [c_phase c_frames phase_cur]. rewrite Eph. cbn [phase_cur].
        change (inited (ev (KInit (c_id c) x) (cls_pop x (s_cls s)) :: s_log s)) with (x :: inited (s_log s)).
        apply perm_move2. }
      destruct ok; [exact Ha|]. apply jinv_fail_ctx. exact Ha.
    - (* Proc *)
      destruct (s_ctxs s) as [|c rest] eqn:E; [exact H|].
      unfold jinv in H. rewrite E in H.
      assert (Ha : (c_phase c = Ending [] \/ c_phase c = Processing) ->
        jinv' ({| c_id := c_id c; c_global := c_global c; c_frames := c_frames c; c_phase := Processing;
                  c_mids := c_mids c; c_objs := c_objs c; c_trace := KProc (c_id c) :: c_trace c |} :: rest)
              (ev (KProc (c_id c)) (s_cls s) :: s_log s) (s_next s)).
      { intro Hph. apply (jinv_perm (c :: rest) (s_log s) (s_next s)); [|lia|exact H].
        unfold allp. rewrite inited_cons_other by (cbn; discriminate).
        unfold pend. cbn [flat_map]. unfold cpend at 1 3. cbn [c_phase c_frames phase_cur].
        destruct Hph as [Ep|Ep]; rewrite Ep; apply Permutation_refl. }
      destruct (c_phase c) as [|[|? ?]|] eqn:Eph; try (unfold jinv; rewrite E; exact H).
      + destruct (c_frames c) eqn:Efr; [|unfold jinv; rewrite E; exact H].
        destruct ok; [apply Ha; left; reflexivity|]. apply jinv_fail_ctx. apply Ha. left; reflexivity.
      + destruct (c_frames c) eqn:Efr; [|unfold jinv; rewrite E; exact H].
        destruct ok; [apply Ha; right; reflexivity|]. apply jinv_fail_ctx. apply Ha. right; reflexivity.
    - (* Fail *)
      destruct (s_ctxs s) as [|c rest] eqn:E; [exact H|].
      apply jinv_fail_ctx. unfold jinv in H. rewrite E in H. exact H.
    - (* Finish *)
      destruct (s_ctxs s) as [|c rest] eqn:E; [exact H|].
      unfold jinv in H. rewrite E in H.
      assert (Ha : (c_phase c = Ending [] \/ c_phase c = Processing) -> c_frames c = [] ->
        jinv' rest (ev (KFinish (c_id c)) (s_cls s) :: s_log s) (s_next s)).
      { intros Hph Efr. apply (jinv_perm (c :: rest) (s_log s) (s_next s)); [|lia|exact H].
        unfold allp. rewrite inited_cons_other by (cbn; discriminate).
        unfold pend. cbn [flat_map].
        assert (Ec : cpend c = []) by (unfold cpend; rewrite Efr; destruct Hph as [Ep|Ep]; rewrite Ep; reflexivity).
        rewrite Ec. apply Permutation_refl. }
      destruct (c_phase c) as [|[|? ?]|] eqn:Eph; try (unfold jinv; rewrite E; exact H).
      + destruct (c_frames c) eqn:Efr; [|unfold jinv; rewrite E; exact H].
        apply Ha; [left; reflexivity | reflexivity].
      + destruct (c_frames c) eqn:Efr; [|unfold jinv; rewrite E; exact H].
        apply Ha; [right; reflexivity | reflexivity].
  Qed.
End InitOnce.

Section AllInitialised.
  Variable rep res : list (list N).
  Notation step := (step rep res).
  Notation fail_ctx := (fail_ctx res).

  (* every object a running load has allocated is pending or has been initialised *)
  Definition kctx (l : list event) (c : ctx) : Prop :=
    forall x, In x (c_objs c) -> In x (cpend c) \/ In x (inited l).
  Definition kinv (s : state) : Prop := Forall (kctx (s_log s)) (s_ctxs s).

  Lemma inited_mono e l x : In x (inited l) -> In x (inited (e :: l)).
  Proof. unfold inited. cbn [flat_map]. intro H. apply in_app_iff. right. exact H. Qed.

  Lemma k_weaken l l' cs : (forall x, In x (inited l) -> In x (inited l')) -> Forall (kctx l) cs -> Forall (kctx l') cs.
  Proof.
    intros Hm H. apply Forall_forall. intros c Hc x Hx. rewrite Forall_forall in H.
    destruct (H c Hc x Hx) as [Hp|Hi]; [left; exact Hp | right; apply Hm; exact Hi].
  Qed.

  Lemma kinv_fail s c rest : Forall (kctx (s_log s)) (c :: rest) -> kinv (fail_ctx s c rest).
  Proof.
    intro H. unfold kinv, UserCls.fail_ctx. cbn [s_ctxs s_log]. inversion H as [|? ? _ Hr]; subst.
    apply (k_weaken (s_log s)); [intros x; apply inited_mono | exact Hr].
  Qed.

  Lemma cpend_of c ph fs : c_phase c = ph -> c_frames c = fs -> cpend c = phase_cur ph ++ flat_map fpend fs.
  Proof. intros E1 E2. unfold cpend. rewrite E1, E2. reflexivity. Qed.

  (* the head context changes, the log may grow *)
  Lemma k_head l l' c c' rest :
    (forall x, In x (inited l) -> In x (inited l')) ->
    (forall x, In x (c_objs c') -> (In x (c_objs c) /\ (In x (cpend c) -> In x (cpend c') \/ In x (inited l')))
                                   \/ In x (cpend c') \/ In x (inited l')) ->
    Forall (kctx l) (c :: rest) -> Forall (kctx l') (c' :: rest).
  Proof.
    intros Hm Hh H. inversion H as [|? ? Hc Hr]; subst. constructor; [|apply (k_weaken l); assumption].
    intros x Hx. destruct (Hh x Hx) as [[Ho Hp]|Hd]; [|exact Hd].
    destruct (Hc x Ho) as [Hp'|Hi]; [apply Hp; exact Hp' | right; apply Hm; exact Hi].
  Qed.

  Lemma step_kinv s o : kinv s -> kinv (step s o).
  Proof.
    unfold kinv. intro H. destruct o as [main glob syn_ok| | | | |ok|ok| |]; unfold UserCls.step.
    - (* Begin *)
      set (newc := {| c_id := s_next s; c_global := glob; c_frames := []; c_phase := Loading;
                      c_mids := []; c_objs := []; c_trace := [] |}).
      assert (Hc : Forall (kctx (s_log s)) (if main then newc :: s_ctxs s else s_ctxs s)).
      { destruct main; [|exact H]. constructor; [intros x []|exact H]. }
      destruct (if main then newc :: s_ctxs s else s_ctxs s) as [|c rest] eqn:E; [exact H|].
      destruct (c_phase c) eqn:Eph; try exact H.
      destruct syn_ok.
      + cbn [s_ctxs s_log]. apply (k_head (s_log s) _ c); [auto| |exact Hc].
        intros x Hx. left. split; [exact Hx|]. intro Hp. left.
        unfold cpend; cbn [c_phase c_frames phase_cur].
        rewrite (cpend_of c Loading (c_frames c) Eph eq_refl) in Hp.
        cbn [phase_cur app] in *. rewrite flat_map_app, in_app_iff. left. exact Hp.
      + apply kinv_fail. cbn [s_log]. apply (k_weaken (s_log s)); [intros x; apply inited_mono | exact Hc].
    - (* Alloc *)
      destruct (s_ctxs s) as [|c rest] eqn:E; [rewrite E; exact H|].
      destruct (c_phase c) eqn:Eph; try (rewrite E; exact H).
      destruct (last_frame (c_frames c)) as [f|] eqn:El; [|rewrite E; exact H].
      apply last_frame_some in El as [pre Epre].
      cbn [s_ctxs s_log]. apply (k_head (s_log s) _ c); [intros x; apply inited_mono| |exact H].
      intros x Hx. cbn [c_objs] in Hx. apply in_app_iff in Hx as [Hx|[Hx|[]]].
      + left. split; [exact Hx|]. intro Hp. left.
        rewrite (cpend_of c Loading (c_frames c) Eph eq_refl), Epre, flat_map_app in Hp. cbn [phase_cur app flat_map] in Hp.
        unfold fpend at 2 in Hp.
        unfold cpend. cbn [c_phase c_frames phase_cur app]. rewrite Epre, on_last_app, flat_map_app. cbn [flat_map].
        unfold fpend at 2. cbn [alloc_frame f_ostack f_inst]. rewrite !in_app_iff in *. cbn [In] in *. repeat rewrite in_app_iff in *. tauto.
      + right. left. subst x.
        unfold cpend. cbn [c_phase c_frames phase_cur app]. rewrite Epre, on_last_app, flat_map_app. cbn [flat_map].
        unfold fpend at 2. cbn [alloc_frame f_ostack f_inst]. rewrite !in_app_iff. cbn [In]. tauto.
    - (* Complete *)
      destruct (s_ctxs s) as [|c rest] eqn:E; [rewrite E; exact H|].
      destruct (c_phase c) eqn:Eph; try (rewrite E; exact H).
      cbn [set_ctxs s_ctxs s_log]. apply (k_head (s_log s) _ c); [auto| |exact H].
      intros x Hx. left. split; [exact Hx|]. intro Hp. left.
      unfold cpend; cbn [c_phase c_frames phase_cur].
      rewrite (cpend_of c Loading (c_frames c) Eph eq_refl) in Hp. cbn [phase_cur app] in *.
      destruct (c_frames c) as [|f0 pre] using rev_ind; [exact Hp|].
      rewrite on_last_app. rewrite flat_map_app in *. cbn [flat_map] in *. unfold fpend at 2. unfold fpend at 2 in Hp.
      unfold complete_frame. destruct (f_ostack f0) as [|y st] eqn:Eos; [rewrite Eos; exact Hp|].
      cbn [f_ostack f_inst]. rewrite !in_app_iff in *. cbn [In] in *. tauto.
    - (* ResolveOk *)
      destruct (s_ctxs s) as [|c rest] eqn:E; [rewrite E; exact H|].
      destruct (c_phase c) eqn:Eph; try (rewrite E; exact H).
      cbn [s_ctxs s_log]. apply (k_head (s_log s) _ c); [intros x; apply inited_mono| |exact H].
      intros x Hx. left. split; [exact Hx|]. intro Hp. left.
      unfold cpend; cbn [c_phase c_frames phase_cur].
      rewrite (cpend_of c Loading (c_frames c) Eph eq_refl) in Hp. exact Hp.
    - (* EndModel *)
      destruct (s_ctxs s) as [|c rest] eqn:E; [rewrite E; exact H|].
      destruct (c_phase c) as [|[|? ?]|] eqn:Eph; try (rewrite E; exact H).
      destruct (c_frames c) as [|f fs] eqn:Efr; [rewrite E; exact H|].
      destruct (f_ostack f) eqn:Eos; [|rewrite E; exact H].
      cbn [s_ctxs s_log]. apply (k_head (s_log s) _ c); [auto| |exact H].
      intros x Hx. left. split; [exact Hx|]. intro Hp. left.
      unfold cpend; cbn [c_phase c_frames phase_cur].
      rewrite (cpend_of c (Ending []) (f :: fs) Eph Efr) in Hp. cbn [phase_cur app flat_map] in *.
      unfold fpend at 1 in Hp. rewrite Eos in Hp. exact Hp.
    - (* Init *)
      destruct (s_ctxs s) as [|c rest] eqn:E; [rewrite E; exact H|].
      destruct (c_phase c) as [|[|x cur]|] eqn:Eph; try (rewrite E; exact H).
      match goal with |- Forall _ (s_ctxs (if ok then ?a else ?b)) => assert (Ha : Forall (kctx (s_log a)) (s_ctxs a)) end.
      { cbn [s_ctxs s_log]. apply (k_head (s_log s) _ c); [intros y; apply inited_mono| |exact H].
        intros y Hy. left. split; [exact Hy|]. intro Hp.
        unfold cpend; cbn [c_phase c_frames phase_cur].
        rewrite (cpend_of c (Ending (x :: cur)) (c_frames c) Eph eq_refl) in Hp. cbn [phase_cur app] in *.
        destruct Hp as [Hp|Hp]; [right; subst y; unfold inited; cbn; left; reflexivity | left; exact Hp]. }
      destruct ok.
      + match goal with |- Forall (kctx (s_log ?a)) (s_ctxs ?a) => exact Ha end.
      + apply kinv_fail. exact Ha.
    - (* Proc *)
      destruct (s_ctxs s) as [|c rest] eqn:E; [rewrite E; exact H|].
      assert (Ha : (c_phase c = Ending [] \/ c_phase c = Processing) ->
        Forall (kctx (ev (KProc (c_id c)) (s_cls s) :: s_log s))
          ({| c_id := c_id c; c_global := c_global c; c_frames := c_frames c; c_phase := Processing;
              c_mids := c_mids c; c_objs := c_objs c; c_trace := KProc (c_id c) :: c_trace c |} :: rest)).
      { intro Hph. apply (k_head (s_log s) _ c); [intros y; apply inited_mono| |exact H].
        intros y Hy. left. split; [exact Hy|]. intro Hp. left.
        unfold cpend; cbn [c_phase c_frames phase_cur]. unfold cpend in Hp.
        destruct Hph as [Ep|Ep]; rewrite Ep in Hp; exact Hp. }
      destruct (c_phase c) as [|[|? ?]|] eqn:Eph; try (rewrite E; exact H).
      + destruct (c_frames c) eqn:Efr; [|rewrite E; exact H].
        destruct ok; [apply Ha; left; reflexivity|]. apply kinv_fail. apply Ha. left; reflexivity.
      + destruct (c_frames c) eqn:Efr; [|rewrite E; exact H].
        destruct ok; [apply Ha; right; reflexivity|]. apply kinv_fail. apply Ha. right; reflexivity.
    - (* Fail *)
      destruct (s_ctxs s) as [|c rest] eqn:E; [rewrite E; exact H|].
      apply kinv_fail. exact H.
    - (* Finish *)
      destruct (s_ctxs s) as [|c rest] eqn:E; [rewrite E; exact H|].
      inversion H as [|? ? _ Hr]; subst.
      assert (Ha : Forall (kctx (ev (KFinish (c_id c)) (s_cls s) :: s_log s)) rest).
      { apply (k_weaken (s_log s)); [intros y; apply inited_mono | exact Hr]. }
      destruct (c_phase c) as [|[|? ?]|]; try (rewrite E; exact H);
        (destruct (c_frames c); [cbn [s_ctxs s_log]; exact Ha | rewrite E; exact H]).
  Qed.
End AllInitialised.

Section InitOnceTheorems.
  Variable rep res : list (list N).

  Lemma run_jinv ops : forall s, jinv s -> jinv (run rep res s ops).
  Proof.
    induction ops as [|o ops IH]; intros s H; [exact H|]. cbn [run fold_left].
    apply IH. apply step_jinv. exact H.
  Qed.

  Lemma jinv_init d0 : jinv (init d0).
  Proof. unfold jinv, jinv', init, allp. cbn. split; constructor. Qed.

  (* no object is initialised twice, in any history; an initialised object is not pending *)
  Theorem init_at_most_once d0 ops :
    let s := run rep res (init d0) ops in
    NoDup (inited (s_log s)) /\ (forall x, In x (inited (s_log s)) -> ~ In x (pend (s_ctxs s))).
  Proof.
    intro s. destruct (run_jinv ops _ (jinv_init d0)) as [ND _]. fold s in ND. unfold allp in ND. split.
    - apply nodup_app_r in ND. exact ND.
    - intros x Hi Hp. exact (nodup_app_disj _ _ x ND Hp Hi).
  Qed.

  Lemma run_kinv ops : forall s, kinv s -> kinv (run rep res s ops).
  Proof.
    induction ops as [|o ops IH]; intros s H; [exact H|]. cbn [run fold_left].
    apply IH. apply step_kinv. exact H.
  Qed.

  (* when a load can finish (its models are ended, nothing is pending), every user object it has
     allocated has been initialised - by init_at_most_once exactly once *)
  Theorem all_initialised_at_finish d0 ops c rest :
    let s := run rep res (init d0) ops in
    s_ctxs s = c :: rest -> c_frames c = [] -> (c_phase c = Ending [] \/ c_phase c = Processing) ->
    forall x, In x (c_objs c) -> In x (inited (s_log s)).
  Proof.
    intros s E Efr Hph x Hx.
    assert (K : kinv s) by (apply run_kinv; unfold kinv, init; cbn; constructor).
    unfold kinv in K. rewrite E in K. inversion K as [|? ? Hc _]; subst.
    destruct (Hc x Hx) as [Hp|Hi]; [|exact Hi].
    unfold cpend in Hp. rewrite Efr in Hp. destruct Hph as [Ep|Ep]; rewrite Ep in Hp; destruct Hp.
  Qed.
End InitOnceTheorems.
