(* The traversal of model_export (ExportWalk.export) writes exactly one node statement for every object
   reachable through attributes: projection onto object numbers, then the invariants of the depth-first visit
   with its processed set. *)
From TxV Require Import Core.Base Model.ExportDefs Gen.SrcExport Model.Export Model.ExportWalk.

Lemma mem_nat_In k l : existsb (Nat.eqb k) l = true <-> In k l.
Proof.
  rewrite existsb_exists. split.
  - intros [x [Hx E]]. apply Nat.eqb_eq in E. subst. exact Hx.
  - intro H. exists k. split; [exact H | apply Nat.eqb_refl].
Qed.

Lemma mem_nat_notIn k l : existsb (Nat.eqb k) l = false <-> ~ In k l.
Proof.
  split; intro H.
  - intro Hin. apply mem_nat_In in Hin. congruence.
  - destruct (existsb (Nat.eqb k) l) eqn:E; [apply mem_nat_In in E; contradiction | reflexivity].
Qed.

(* ---------------------------------------------------------------- projection of export onto visit *)
Section Proj.
  Variable st : list obj.
  Definition proj (acc : wacc) : list nat * list nat := (snd acc, node_ids (fst acc)).

  Lemma node_ids_app a b : node_ids (a ++ b) = node_ids a ++ node_ids b.
  Proof. unfold node_ids. apply flat_map_app. Qed.

  Lemma proj_put_none acc t : proj (put acc (None, t)) = proj acc.
  Proof. unfold proj, put. cbn [fst snd]. rewrite node_ids_app. cbn. rewrite app_nil_r. reflexivity. Qed.

  Lemma proj_put_some acc k t : proj (put acc (Some k, t)) = (snd acc, node_ids (fst acc) ++ [k]).
  Proof. unfold proj, put. cbn [fst snd]. rewrite node_ids_app. reflexivity. Qed.

  Lemma all_prim_no_objs l : forallb is_prim_item l = true -> item_objs l = [].
  Proof.
    induction l as [|i l IH]; intro H; [reflexivity|].
    cbn [forallb] in H. apply andb_true_iff in H as [Hi Hl].
    destruct i; cbn in Hi; try discriminate. cbn. apply IH, Hl.
  Qed.

  Section Step.
    Variables (rec : nat -> wacc -> wacc) (vrec : nat -> list nat * list nat -> list nat * list nat).
    Hypothesis rec_proj : forall j acc, proj (rec j acc) = vrec j (proj acc).

    Lemma items_proj k a l : forall acc idx,
      proj (fst (fold_left (items_step rec k a) l (acc, idx))) = fold_left (fun sn j => vrec j sn) (item_objs l) (proj acc).
    Proof.
      induction l as [|i l IH]; intros acc idx; [reflexivity|].
      cbn [fold_left]. destruct i as [|p|j]; cbn [items_step item_objs flat_map app].
      - apply IH.
      - rewrite IH, proj_put_none. reflexivity.
      - rewrite IH. cbn [fold_left]. rewrite rec_proj, proj_put_none. reflexivity.
    Qed.

    Lemma attr_proj k a s :
      proj (fst (attr_step rec k s a)) = fold_left (fun sn j => vrec j sn) (attr_targets a) (proj (fst s)).
    Proof.
      destruct s as [acc [name attrs]]. unfold attr_step, attr_targets. cbn [fst].
      destruct (a_val a) as [|p|j|l].
      - reflexivity.
      - destruct (a_list a); [reflexivity|]. destruct (str_eqb (a_name a) name_attr); reflexivity.
      - destruct (a_list a); [reflexivity|]. cbn [fst fold_left]. rewrite rec_proj, proj_put_none. reflexivity.
      - destruct (a_list a); [|reflexivity].
        destruct (forallb is_prim_item l) eqn:E.
        + rewrite (all_prim_no_objs l E). reflexivity.
        + cbn [fst]. apply items_proj.
    Qed.

    Lemma attrs_proj k attrs : forall s,
      proj (fst (fold_left (attr_step rec k) attrs s)) =
      fold_left (fun sn j => vrec j sn) (flat_map attr_targets attrs) (proj (fst s)).
    Proof.
      induction attrs as [|a attrs IH]; intro s; [reflexivity|].
      cbn [fold_left flat_map]. rewrite fold_left_app, IH, attr_proj. reflexivity.
    Qed.
  End Step.

  Lemma export_visit fuel : forall k acc, proj (export st fuel k acc) = visit st fuel k (proj acc).
  Proof.
    induction fuel as [|f IH]; intros k acc; [reflexivity|].
    cbn [export visit]. change (fst (proj acc)) with (snd acc).
    destruct (existsb (Nat.eqb k) (snd acc)); [reflexivity|].
    destruct (nth_error st k) as [o|]; [|reflexivity].
    pose proof (attrs_proj (export st f) (visit st f) IH k (o_attrs o) ((fst acc, k :: snd acc), ([], []))) as H.
    destruct (fold_left (attr_step (export st f) k) (o_attrs o) ((fst acc, k :: snd acc), ([], []))) as [acc1 [name attrs]].
    cbn [fst] in H. rewrite proj_put_some.
    unfold targets. change (proj (fst acc, k :: snd acc)) with (k :: snd acc, node_ids (fst acc)) in H.
    change (snd (proj acc)) with (node_ids (fst acc)).
    rewrite <- H. reflexivity.
  Qed.
End Proj.

(* ---------------------------------------------------------------- the depth-first visit *)
Lemma NoDup_snoc {X : Type} (l : list X) (x : X) : NoDup l -> ~ In x l -> NoDup (l ++ [x]).
Proof.
  induction l as [|y l IH]; intros Hl Hx; cbn.
  - constructor; [intros [] | constructor].
  - inversion Hl as [|y' l' Hy Hl']; subst. constructor.
    + intro Hin. apply in_app_or in Hin as [Hin|[E|[]]]; [contradiction|]. subst. apply Hx. left. reflexivity.
    + apply IH; [exact Hl' | intro Hin; apply Hx; right; exact Hin].
Qed.

Section Dfs.
  Variable st : list obj.
  Notation n := (length st).
  Notation snp := (list nat * list nat)%type.

  Definition closed (sn : snp) : Prop :=
    forall x o j, In x (snd sn) -> nth_error st x = Some o -> In j (targets o) -> j < n -> In j (fst sn).
  Definition Inv (sn : snp) : Prop :=
    NoDup (fst sn) /\ (forall x, In x (fst sn) -> x < n) /\ NoDup (snd sn) /\ incl (snd sn) (fst sn) /\ closed sn.
  Definition Post (a b : snp) : Prop :=
    Inv b /\ incl (fst a) (fst b)
    /\ (exists new, snd b = snd a ++ new /\ forall x, In x new -> ~ In x (fst a))
    /\ (forall x, In x (fst b) -> In x (fst a) \/ In x (snd b)).

  Lemma Post_refl (a : snp) : Inv a -> Post a a.
  Proof.
    intro Ha. split; [exact Ha|]. split; [apply incl_refl|]. split.
    - exists []. split; [symmetry; apply app_nil_r | intros x []].
    - intros x Hx. left. exact Hx.
  Qed.

  Lemma Post_trans (a b c : snp) : Post a b -> Post b c -> Post a c.
  Proof.
    intros [Hb [Iab [[n1 [E1 D1]] S1]]] [Hc [Ibc [[n2 [E2 D2]] S2]]].
    split; [exact Hc|]. split; [eapply incl_tran; eassumption|]. split.
    - exists (n1 ++ n2). split; [rewrite E2, E1, app_assoc; reflexivity|].
      intros x Hx Hin. apply in_app_or in Hx as [Hx|Hx]; [apply (D1 x Hx Hin) | apply (D2 x Hx), Iab, Hin].
    - intros x Hx. destruct (S2 x Hx) as [Hb'|Hc']; [|right; exact Hc'].
      destruct (S1 x Hb') as [Ha'|Hb'']; [left; exact Ha'|]. right. rewrite E2. apply in_or_app. left. exact Hb''.
  Qed.

  Lemma seen_bounded sn : Inv sn -> length (fst sn) <= n.
  Proof.
    intros [Hnd [Hb _]]. rewrite <- (seq_length n 0). apply NoDup_incl_length; [exact Hnd|].
    intros x Hx. apply in_seq. split; [apply Nat.le_0_l | cbn; apply Hb, Hx].
  Qed.

  Lemma seen_grows (a b : snp) : Inv a -> incl (fst a) (fst b) -> length (fst a) <= length (fst b).
  Proof. intros [Hnd _] Hi. apply NoDup_incl_length; assumption. Qed.

  Definition Spec (fuel : nat) : Prop :=
    forall k sn, Inv sn -> n + 1 <= fuel + length (fst sn) ->
      Post sn (visit st fuel k sn) /\ (k < n -> In k (fst (visit st fuel k sn))).

  Lemma fold_spec f : Spec f -> forall ts sn, Inv sn -> n + 1 <= f + length (fst sn) ->
    Post sn (fold_left (fun sn j => visit st f j sn) ts sn)
    /\ (forall j, In j ts -> j < n -> In j (fst (fold_left (fun sn j => visit st f j sn) ts sn))).
  Proof.
    intro Hf. induction ts as [|j ts IH]; intros sn Hi Hfuel.
    - split; [apply Post_refl, Hi | intros j []].
    - cbn [fold_left]. destruct (Hf j sn Hi Hfuel) as [P1 Hj].
      assert (Hi1 : Inv (visit st f j sn)) by apply P1.
      assert (Hinc : incl (fst sn) (fst (visit st f j sn))) by apply P1.
      assert (Hfuel1 : n + 1 <= f + length (fst (visit st f j sn))).
      { pose proof (seen_grows sn (visit st f j sn) Hi Hinc). lia. }
      destruct (IH (visit st f j sn) Hi1 Hfuel1) as [P2 Hts].
      split; [eapply Post_trans; eassumption|].
      intros j' [E|Hin] Hlt; [subst j'|apply Hts; assumption].
      destruct P2 as [_ [I2 _]]. apply I2, Hj, Hlt.
  Qed.

  Lemma visit_spec fuel : Spec fuel.
  Proof.
    induction fuel as [|f IH]; intros k sn Hi Hfuel.
    - pose proof (seen_bounded sn Hi). lia.
    - cbn [visit]. destruct (existsb (Nat.eqb k) (fst sn)) eqn:Ek.
      + split; [apply Post_refl, Hi | intros _; apply mem_nat_In, Ek].
      + apply mem_nat_notIn in Ek.
        destruct (nth_error st k) as [o|] eqn:Eo.
        * assert (Hk : k < n) by (apply nth_error_Some; congruence).
          destruct Hi as [Hnd [Hb [Hndn [Hinc Hcl]]]].
          set (sn1 := (k :: fst sn, snd sn)).
          assert (Hi1 : Inv sn1).
          { unfold sn1. split; [constructor; assumption|]. split.
            - intros x [E|Hx]; [subst; exact Hk | apply Hb, Hx].
            - split; [exact Hndn|]. split; [intros x Hx; right; apply Hinc, Hx|].
              intros x o' j Hx Ho' Hj Hlt. right. apply (Hcl x o' j Hx Ho' Hj Hlt). }
          assert (Hfuel1 : n + 1 <= f + length (fst sn1)) by (unfold sn1; cbn [fst length]; lia).
          destruct (fold_spec f IH (targets o) sn1 Hi1 Hfuel1) as [P Ht].
          set (snf := fold_left (fun sn j => visit st f j sn) (targets o) sn1) in *.
          destruct P as [[Hnd' [Hb' [Hndn' [Hinc' Hcl']]]] [I1 [[new [En Dn]] S1]]].
          assert (Hkin : In k (fst snf)) by (apply I1; left; reflexivity).
          assert (Hknot : ~ In k (snd snf)).
          { rewrite En. intro Hin. apply in_app_or in Hin as [Hin|Hin].
            - apply Ek, Hinc, Hin.
            - apply (Dn k Hin). left. reflexivity. }
          split; [|intros _; exact Hkin].
          split; [|split; [|split]].
          -- cbn [fst snd]. split; [exact Hnd'|]. split; [exact Hb'|]. split; [apply NoDup_snoc; assumption|]. split.
             ++ intros x Hx. apply in_app_or in Hx as [Hx|[E|[]]]; [apply Hinc', Hx | subst; exact Hkin].
             ++ intros x o' j Hx Ho' Hj Hlt. cbn [fst snd] in *. apply in_app_or in Hx as [Hx|[E|[]]].
                ** apply (Hcl' x o' j Hx Ho' Hj Hlt).
                ** subst x. rewrite Eo in Ho'. inversion Ho'; subst o'. apply Ht; assumption.
          -- cbn [fst]. intros x Hx. apply I1. right. exact Hx.
          -- cbn [snd]. exists (new ++ [k]). split; [rewrite En, app_assoc; reflexivity|].
             intros x Hx Hin. apply in_app_or in Hx as [Hx|[E|[]]].
             ++ apply (Dn x Hx). right. exact Hin.
             ++ subst x. apply Ek, Hin.
          -- cbn [fst snd]. intros x Hx. destruct (S1 x Hx) as [[E|Hs]|Hn].
             ++ subst x. right. apply in_or_app. right. left. reflexivity.
             ++ left. exact Hs.
             ++ right. apply in_or_app. left. exact Hn.
        * split; [apply Post_refl, Hi|]. intro Hk. apply nth_error_None in Eo. lia.
  Qed.

  (* everything put into the processed set satisfies a property that holds of the start and follows edges *)
  Lemma visit_P (P : nat -> Prop) (Hedge : forall x j, P x -> edge st x j -> P j) fuel :
    forall k sn, (forall x, In x (fst sn) -> P x) -> (k < n -> P k) ->
    forall x, In x (fst (visit st fuel k sn)) -> P x.
  Proof.
    induction fuel as [|f IH]; intros k sn Hs Hk; [exact Hs|].
    cbn [visit]. destruct (existsb (Nat.eqb k) (fst sn)); [exact Hs|].
    destruct (nth_error st k) as [o|] eqn:Eo; [|exact Hs].
    assert (Hkn : k < n) by (apply nth_error_Some; congruence).
    cbn [fst].
    assert (Hgen : forall ts sn0, (forall j, In j ts -> In j (targets o)) -> (forall x, In x (fst sn0) -> P x) ->
              forall x, In x (fst (fold_left (fun sn j => visit st f j sn) ts sn0)) -> P x).
    { induction ts as [|j ts IHts]; intros sn0 Hsub Hs0; [exact Hs0|].
      cbn [fold_left]. apply IHts; [intros j' Hj'; apply Hsub; right; exact Hj'|].
      apply IH; [exact Hs0|]. intro Hj. apply (Hedge k j (Hk Hkn)).
      exists o. split; [exact Eo|]. split; [apply Hsub; left; reflexivity | exact Hj]. }
    apply Hgen; [intros j Hj; exact Hj|].
    intros x [E|Hx]; [subst; apply Hk, Hkn | apply Hs, Hx].
  Qed.

  Theorem visit_exact root : root < n ->
    let nodes := snd (visit st (S n) root ([], [])) in
    NoDup nodes /\ forall k, In k nodes <-> reach st root k.
  Proof.
    intro Hr. cbn zeta.
    assert (Hi0 : Inv ([], [])).
    { split; [constructor|]. split; [intros x []|]. split; [constructor|]. split; [intros x []|]. intros x o j []. }
    destruct (visit_spec (S n) root ([], []) Hi0) as [[[Hnd [Hb [Hndn [Hinc Hcl]]]] [_ [_ S1]]] Hroot]; [cbn; lia|].
    set (sn := visit st (S n) root ([], [])) in *.
    assert (Hsn : forall x, In x (fst sn) -> In x (snd sn)) by (intros x Hx; destruct (S1 x Hx) as [[]|H]; exact H).
    split; [exact Hndn|]. intro k. split.
    - intro Hk. apply (visit_P (reach st root)) with (fuel := S n) (k := root) (sn := ([], [])).
      + intros x j Hx He. eapply reach_step; eassumption.
      + intros x [].
      + intros _. constructor.
      + apply Hinc, Hk.
    - intro Hre. induction Hre as [|j l Hj IHj He].
      + apply Hsn, Hroot, Hr.
      + destruct He as [o [Ho [Hl Hlt]]]. apply Hsn. apply (Hcl j o l IHj Ho Hl Hlt).
  Qed.
End Dfs.

(* the statement about the traversal model itself *)
Theorem export_nodes_exact st root : root < length st ->
  NoDup (node_ids (export_stmts st root)) /\ forall k, In k (node_ids (export_stmts st root)) <-> reach st root k.
Proof.
  intro Hr. unfold export_stmts.
  pose proof (export_visit st (S (length st)) root ([], [])) as H.
  change (proj ([], [])) with (@nil nat, @nil nat) in H.
  assert (E : node_ids (fst (export st (S (length st)) root ([], []))) = snd (visit st (S (length st)) root ([], []))).
  { rewrite <- H. reflexivity. }
  rewrite E. apply (visit_exact st root Hr).
Qed.

(* ---------------------------------------------------------------- the repository path *)
Definition reach_any (st : list obj) (roots : list nat) (k : nat) : Prop := exists r, In r roots /\ reach st r k.

Section RepoProofs.
  Variable st : list obj.
  Notation n := (length st).

  Lemma node_ids_none (l : list stmt) : (forall s, In s l -> fst s = None) -> node_ids l = [].
  Proof.
    induction l as [|s l IH]; intro H; [reflexivity|].
    cbn [node_ids flat_map]. rewrite (H s (or_introl eq_refl)). cbn [app]. apply IH. intros s' Hs'. apply H. right. exact Hs'.
  Qed.

  Lemma subgraph_none k fn s : In s (subgraph_stmts st k fn) -> fst s = None.
  Proof.
    unfold subgraph_stmts. cbn [app]. intros [E|[E|H]]; [subst; reflexivity | subst; reflexivity|].
    apply in_app_or in H as [H|[E|[]]]; [|subst; reflexivity].
    apply in_map_iff in H as [j [E _]]. subst. reflexivity.
  Qed.

  Lemma repo_visit (roots : list (nat * list N)) : forall acc,
    proj (fold_left (fun acc r => export st (S n) (fst r) (fst acc ++ subgraph_stmts st (fst r) (snd r), snd acc)) roots acc)
    = fold_left (fun sn r => visit st (S n) r sn) (map fst roots) (proj acc).
  Proof.
    induction roots as [|[k fn] roots IH]; intro acc; [reflexivity|].
    cbn [fold_left map fst snd]. rewrite IH, export_visit. f_equal. f_equal.
    unfold proj. cbn [fst snd]. rewrite node_ids_app, (node_ids_none _ (subgraph_none k fn)), app_nil_r. reflexivity.
  Qed.

  Lemma fold_P (P : nat -> Prop) (Hedge : forall x j, P x -> edge st x j -> P j) fuel (ts : list nat) :
    forall sn, (forall x, In x (fst sn) -> P x) -> (forall j, In j ts -> j < n -> P j) ->
    forall x, In x (fst (fold_left (fun sn r => visit st fuel r sn) ts sn)) -> P x.
  Proof.
    induction ts as [|j ts IH]; intros sn Hs Ht; [exact Hs|].
    cbn [fold_left]. apply IH; [|intros j' Hj'; apply Ht; right; exact Hj'].
    apply (visit_P st P Hedge fuel j sn Hs). apply Ht. left. reflexivity.
  Qed.

  Theorem repo_exact (roots : list nat) : (forall r, In r roots -> r < n) ->
    let nodes := snd (fold_left (fun sn r => visit st (S n) r sn) roots ([], [])) in
    NoDup nodes /\ forall k, In k nodes <-> reach_any st roots k.
  Proof.
    intro Hr. cbn zeta.
    assert (Hi0 : Inv st ([], [])).
    { split; [constructor|]. split; [intros x []|]. split; [constructor|]. split; [intros x []|]. intros x o j []. }
    destruct (fold_spec st (S n) (visit_spec st (S n)) roots ([], []) Hi0) as [[[Hnd [Hb [Hndn [Hinc Hcl]]]] [_ [_ S1]]] Hroots]; [cbn; lia|].
    set (sn := fold_left (fun sn r => visit st (S n) r sn) roots ([], [])) in *.
    assert (Hsn : forall x, In x (fst sn) -> In x (snd sn)) by (intros x Hx; destruct (S1 x Hx) as [[]|H]; exact H).
    split; [exact Hndn|]. intro k. split.
    - intro Hk. apply (fold_P (reach_any st roots)) with (fuel := S n) (ts := roots) (sn := ([], [])).
      + intros x j [r [Hin Hx]] He. exists r. split; [exact Hin | eapply reach_step; eassumption].
      + intros x [].
      + intros j Hj _. exists j. split; [exact Hj | constructor].
      + apply Hinc, Hk.
    - intros [r [Hin Hre]]. induction Hre as [|j l Hj IHj He].
      + apply Hsn, Hroots; [exact Hin | apply Hr, Hin].
      + destruct He as [o [Ho [Hl Hlt]]]. apply Hsn. apply (Hcl j o l IHj Ho Hl Hlt).
  Qed.
End RepoProofs.

Theorem export_repo_nodes_exact st roots : (forall r, In r (map fst roots) -> r < length st) ->
  NoDup (node_ids (fst (export_repo st roots)))
  /\ forall k, In k (node_ids (fst (export_repo st roots))) <-> reach_any st (map fst roots) k.
Proof.
  intro Hr. unfold export_repo.
  pose proof (repo_visit st roots ([], [])) as H. change (proj ([], [])) with (@nil nat, @nil nat) in H.
  assert (E : node_ids (fst (fold_left (fun acc r => export st (S (length st)) (fst r) (fst acc ++ subgraph_stmts st (fst r) (snd r), snd acc)) roots ([], [])))
              = snd (fold_left (fun sn r => visit st (S (length st)) r sn) (map fst roots) ([], []))).
  { rewrite <- H. reflexivity. }
  rewrite E. apply (repo_exact st (map fst roots) Hr).
Qed.
