(* Shared basics: characters are code points (N), strings are lists of them. *)
From Coq Require Export List NArith ZArith Bool Arith Lia.
Export ListNotations.
Notation char := N (only parsing).
Notation str := (list N) (only parsing).

Definition str_eqb (a b : list N) : bool :=
  (fix go (a b : list N) : bool :=
     match a, b with
     | [], [] => true
     | x :: a', y :: b' => N.eqb x y && go a' b'
     | _, _ => false
     end) a b.

Lemma str_eqb_eq a b : str_eqb a b = true <-> a = b.
Proof.
  revert b; induction a as [|x a IH]; intros [|y b]; simpl; split; intro H;
    try reflexivity; try discriminate.
  - apply andb_true_iff in H as [H1 H2]. apply N.eqb_eq in H1. apply IH in H2. congruence.
  - inversion H; subst. apply andb_true_iff; split; [apply N.eqb_refl | apply IH; reflexivity].
Qed.

Lemma str_eqb_refl a : str_eqb a a = true.
Proof. apply str_eqb_eq; reflexivity. Qed.

Lemma str_eqb_neq a b : str_eqb a b = false <-> a <> b.
Proof.
  split; intro H.
  - intro E. apply str_eqb_eq in E. congruence.
  - destruct (str_eqb a b) eqn:E; [apply str_eqb_eq in E; contradiction | reflexivity].
Qed.

Definition mem_str (x : list N) (l : list (list N)) : bool := existsb (str_eqb x) l.

Lemma mem_str_In x l : mem_str x l = true <-> In x l.
Proof.
  unfold mem_str. rewrite existsb_exists. split.
  - intros [y [Hy E]]. apply str_eqb_eq in E. subst; assumption.
  - intro H. exists x. split; [assumption | apply str_eqb_refl].
Qed.

Fixpoint is_prefix (p s : list N) : bool :=
  match p, s with
  | [], _ => true
  | x :: p', y :: s' => N.eqb x y && is_prefix p' s'
  | _ :: _, [] => false
  end.

Lemma is_prefix_app p s : is_prefix p (p ++ s) = true.
Proof. induction p as [|x p IH]; simpl; [reflexivity|]. rewrite N.eqb_refl, IH. reflexivity. Qed.

Lemma is_prefix_spec p s : is_prefix p s = true <-> exists r, s = p ++ r.
Proof.
  revert s; induction p as [|x p IH]; intros s; simpl.
  - split; [intros _; exists s; reflexivity | reflexivity].
  - destruct s as [|y s]; [split; [discriminate | intros [r H]; discriminate]|].
    rewrite andb_true_iff, N.eqb_eq, IH. split.
    + intros [-> [r ->]]. exists r. reflexivity.
    + intros [r H]. inversion H; subst. split; [reflexivity | exists r; reflexivity].
Qed.
