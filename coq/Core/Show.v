(* Printing of model results as printable-ASCII Coq strings, mirrored by tools/vt canon_text. *)
From Coq Require Import DecimalString.
From Coq Require Export String.
From TxV Require Import Core.Base.
Open Scope string_scope.

Definition show_N (n : N) : string := NilZero.string_of_uint (N.to_uint n).
Definition show_nat (n : nat) : string := NilZero.string_of_uint (Nat.to_uint n).
Definition show_Z (z : Z) : string := NilZero.string_of_int (Z.to_int z).
Definition show_bool (b : bool) : string := if b then "T" else "F".

Definition show_char (c : N) : string :=
  if (N.leb 32 c && N.ltb c 127 && negb (N.eqb c 92) && negb (N.eqb c 34))%bool
  then String (Ascii.ascii_of_N c) EmptyString
  else "\" ++ show_N c ++ ";".

Fixpoint show_str (s : list N) : string :=
  match s with
  | [] => ""
  | c :: s' => show_char c ++ show_str s'
  end.

Fixpoint sjoin (sep : string) (l : list string) : string :=
  match l with
  | [] => ""
  | [x] => x
  | x :: l' => x ++ sep ++ sjoin sep l'
  end.

Definition show_list {A} (f : A -> string) (l : list A) : string :=
  "[" ++ sjoin "," (map f l) ++ "]".

Definition show_opt {A} (f : A -> string) (o : option A) : string :=
  match o with None => "None" | Some x => f x end.
