(* C23 — invalid grammars are always reported as textX errors.

   `front c o user fuel g` is the outcome of metamodel_from_str(text, classes=user) when the grammar-language
   parser did `g` on the text (returned a parse tree, or raised an exception of a given type), for the
   regex / escape / language-registry oracles `o` (each answers with the TYPE of the exception raised, if
   any) and Python recursion budget `fuel`.  `src_cfg` (Gen/SrcFront.v) is regenerated from textx/lang.py
   and textx/metamodel.py on every run: the except clauses of every try statement involved (the class names
   they catch, whether their body can raise by itself, what they raise), the accepted rule parameters, the
   presence of the guards. *)
From TxV Require Import Core.Base Gen.SrcFront Model.FrontDefs Model.Front Proofs.FrontProofs.
From TxV Require Model.Kinds.

(* Every crash source of the modelled front-end is guarded in the current source; in particular the handler of
   visit_re_match catches Exception (not just re.error), the handlers of visit_str_match catch IndexError and
   UnicodeDecodeError, language_from_str catches NoMatch, _resolve_cls and __contains__ catch KeyError. *)
Theorem C23_source_guards : cfg_safe src_cfg = true.
Proof. exact (eq_refl true). Qed.
Print Assumptions C23_source_guards.

(* The property.  Hypotheses: the world outside textX raises only what the handlers are written for
   (oracle_wf: re.compile raises Exception subclasses, the escape decoding IndexError/UnicodeDecodeError, the
   registry TextXErrors); the parser raises nothing but NoMatch (parse_wf); no import statement (the documented
   exception); the recursion budget exceeds the number of rules. *)
Theorem C23_total : forall (o : oracles) (user : list (list N)) (fuel : nat) (g : ginput) (k : list N),
  oracle_wf o -> parse_wf g -> has_import g = false -> fuel > nrules g -> front src_cfg o user fuel g <> Crash k.
Proof. exact (fun o user fuel g k => front_never_crashes src_cfg o user fuel g k C23_source_guards). Qed.
Print Assumptions C23_total.

Theorem C23_total_any_guarded_source : forall (c : cfg) (o : oracles) (user : list (list N)) (fuel : nat) (g : ginput) (k : list N),
  cfg_safe c = true -> oracle_wf o -> parse_wf g -> has_import g = false -> fuel > nrules g ->
  front c o user fuel g <> Crash k.
Proof. exact (fun c o user fuel g k => front_never_crashes c o user fuel g k). Qed.
Print Assumptions C23_total_any_guarded_source.

(* For EVERY recursion budget: the only non-TextX exception is RecursionError, and only when the budget does not
   exceed the number of rules (the alias-resolution part of known finding interp-recursion-limit, made exact). *)
Theorem C23_only_recursion_beyond_budget : forall (o : oracles) (user : list (list N)) (fuel : nat) (g : ginput) (k : list N),
  oracle_wf o -> parse_wf g -> has_import g = false ->
  front src_cfg o user fuel g = Crash k -> k = n_RecursionError /\ fuel <= nrules g.
Proof. exact (fun o user fuel g k => front_crash_only_recursion src_cfg o user fuel g k C23_source_guards). Qed.
Print Assumptions C23_only_recursion_beyond_budget.

(* The budget is irrelevant beyond the number of rules: the repaired resolution terminates. *)
Theorem C23_resolution_terminates : forall (o : oracles) (user : list (list N)) (g : ginput) (f1 f2 : nat),
  f1 > nrules g -> f2 > nrules g -> front src_cfg o user f1 g = front src_cfg o user f2 g.
Proof. exact (fun o user g f1 f2 => front_fuel_irrelevant src_cfg o user g f1 f2 C23_source_guards). Qed.
Print Assumptions C23_resolution_terminates.

(* _determine_rule_types: the multi-pass rule-kind fixpoint (C03's model Model/Kinds.v, run on the translation
   `to_kinds` of the resolved grammar) ends for every grammar, so this phase raises nothing. *)
Theorem C23_rule_kind_fixpoint_terminates : forall (c : cfg) (t : tree), rule_kinds_fixpoint c t = Ok.
Proof. exact rule_kinds_fixpoint_ok. Qed.
Print Assumptions C23_rule_kind_fixpoint_terminates.

(* the translation is meaningful:  A: B | C;  B: x=INT;  C: 'c';  ->  A abstract, B common, C match *)
Example C23_rule_kinds_example :
  exists s, Kinds.determine_types (to_kinds src_cfg t_kinds) = Some s /\
            map (Kinds.types s) [0; 1; 2] = [Kinds.KAbstract; Kinds.KCommon; Kinds.KMatch].
Proof. eexists. split; [vm_compute; reflexivity | reflexivity]. Qed.
Print Assumptions C23_rule_kinds_example.

(* The order in which _resolve_rule_refs / _resolve_cls_refs reach the references (not transcribed: a depth-first
   walk over mutable nodes) cannot change the CLASS of the outcome (Ok / TextXError / other exception): any list
   with the same elements gives the same class as the model's textual order. *)
Theorem C23_rule_reference_order_irrelevant : forall (o : oracles) (fuel : nat) (t : tree) (refs : list (list N)),
  oracle_wf o -> fuel > length (t_rules t) -> (forall n, In n refs <-> In n (all_refs (t_rules t))) ->
  class_of (resolve_in_order src_cfg o fuel t refs) = class_of (resolve_rule_refs src_cfg o fuel t).
Proof. exact (fun o fuel t refs => resolve_order_irrelevant src_cfg o fuel t refs C23_source_guards). Qed.
Print Assumptions C23_rule_reference_order_irrelevant.

Theorem C23_class_reference_order_irrelevant : forall (o : oracles) (t : tree) (types : list (list N)),
  oracle_wf o -> (forall n, In n types <-> In n (map snd (flat_map attrs_rule (effective (t_rules t))))) ->
  class_of (resolve_cls_in_order src_cfg o t types) = class_of (resolve_cls_refs src_cfg o t).
Proof. exact (fun o t types => resolve_cls_order_irrelevant src_cfg o t types C23_source_guards). Qed.
Print Assumptions C23_class_reference_order_irrelevant.

(* ... which is false for the pinned code: `A: C B; B: B;` — undefined rule first: TextXError, alias cycle first:
   RecursionError (the real traversal reports the undefined rule). *)
Theorem C23_order_irrelevant_refuted_pinned : exists (t : tree) (refs : list (list N)),
  (forall n, In n refs <-> In n (all_refs (t_rules t))) /\
  class_of (resolve_in_order pinned_cfg all_ok 9 t refs) <> class_of (resolve_rule_refs pinned_cfg all_ok 9 t).
Proof.
  exists t_undef_cycle, [nB; nC]. split.
  - intro n. vm_compute. tauto.
  - vm_compute. discriminate.
Qed.
Print Assumptions C23_order_irrelevant_refuted_pinned.

(* The alias-cycle repair is conservative: with the guard removed from the current source facts, rule-reference
   resolution either exhausts the recursion budget or gives exactly the outcome of the current source. *)
Theorem C23_alias_repair_conservative : forall (o : oracles) (fuel : nat) (t : tree),
  resolve_rule_refs (with_alias_guard src_cfg None) o fuel t = Crash n_RecursionError
  \/ resolve_rule_refs (with_alias_guard src_cfg None) o fuel t = resolve_rule_refs src_cfg o fuel t.
Proof. exact (fun o fuel t => alias_repair_conservative src_cfg _ o fuel t eq_refl). Qed.
Print Assumptions C23_alias_repair_conservative.

Theorem C23_guard_rejects_only_divergence : forall (o : oracles) (t : tree) (fuel : nat) (n : list N),
  follow pinned_cfg o t fuel [] n <> Crash n_RecursionError ->
  forall fuel', fuel' >= fuel ->
    follow pinned_cfg o t fuel' [] n = follow (with_alias_guard pinned_cfg (Some CSemantic)) o t fuel' [] n.
Proof. exact (fun o t => unguarded_never_recovers pinned_cfg o t CSemantic eq_refl). Qed.
Print Assumptions C23_guard_rejects_only_divergence.

(* ---- witnesses: the grammars and oracles are defined in Proofs/FrontProofs.v (section Witnesses) *)

(* Non-vacuity: the hypotheses are satisfiable and these inputs are TextX errors with the current source. *)
Example C23_nonvacuous :
  oracle_wf overflow_regex /\
  front src_cfg bad_regex [] 5 g_regex = TxErr CSyntax WRegex /\
  front src_cfg overflow_regex [] 5 g_regex = TxErr CSyntax WRegex /\
  front src_cfg all_ok [] 5 g_ws = TxErr CSyntax WWsParam /\
  front src_cfg all_ok [] 5 g_ugroup = Ok /\
  front src_cfg all_ok [] 5 g_self = TxErr CSemantic WRuleRef /\
  front src_cfg all_ok [] 5 g_cycle = TxErr CSemantic WRuleRef /\
  front src_cfg bad_escape [] 5 g_escape = TxErr CSyntax WEscape /\
  front src_cfg textx_lang [] 5 g_textx = TxErr CSemantic WClsRef /\
  front src_cfg all_ok [] 5 (GParseRaises exc_nomatch) = TxErr CSyntax WParse /\
  front src_cfg lang_found [] 5 g_qualified_alias = Ok /\
  front src_cfg lang_unregistered [] 5 g_qualified_alias = TxErr CRegistration WRegistration /\
  front src_cfg all_ok [] 5 g_unknown_ns = TxErr CSemantic WRuleRef /\
  front src_cfg all_ok [] 5 g_boolmany = TxErr CSemantic WBoolMany /\
  front src_cfg all_ok [nB] 5 g_plain = TxErr CSemantic WUserUnused /\
  front src_cfg all_ok [nA] 5 g_plain = TxErr CSemantic WUserRedef.
Proof. split; [exact overflow_regex_wf | vm_compute; repeat split; reflexivity]. Qed.
Print Assumptions C23_nonvacuous.

(* The hypotheses of C23_total are needed. *)
Theorem C23_import_is_the_documented_exception : front src_cfg all_ok [] 5 g_import = Crash n_AssertionError.
Proof. vm_compute. reflexivity. Qed.
Print Assumptions C23_import_is_the_documented_exception.

(* parse_wf: a parser that raises RecursionError (80 nested brackets) is not caught by `except NoMatch`
   (known finding interp-recursion-limit, replayed: corpus/C23/deep_nesting.tx) *)
Theorem C23_refuted_parser_recursion : front src_cfg all_ok [] 5 (GParseRaises exc_recursion) = Crash n_RecursionError.
Proof. vm_compute. reflexivity. Qed.
Print Assumptions C23_refuted_parser_recursion.

(* the budget: a chain of alias rules longer than the budget *)
Theorem C23_refuted_budget_exhausted : front src_cfg all_ok [] 1 g_self_chain = Crash n_RecursionError.
Proof. vm_compute. reflexivity. Qed.
Print Assumptions C23_refuted_budget_exhausted.

(* The handler of visit_re_match must catch Exception: with `except re.error` (seeded change C23b) a regex whose
   compilation raises OverflowError (`/a{99999999999}/`) leaves metamodel_from_str as OverflowError. *)
Theorem C23_refuted_regex_handler_narrowed : exists o g, oracle_wf o /\ has_import g = false /\
  front (with_re_clauses src_cfg [{| cl_types := [n_error]; cl_action := ARaise None CSyntax |}]) o [] 5 g = Crash n_OverflowError.
Proof. exists overflow_regex, g_regex. split; [exact overflow_regex_wf | vm_compute; split; reflexivity]. Qed.
Print Assumptions C23_refuted_regex_handler_narrowed.

(* The code as pinned (pinned_cfg = the facts extracted from the source before the repairs) violates the
   property; one witness per crash source.  Each was replayed on the pinned implementation. *)
Theorem C23_refuted_pinned_regex : exists o g, has_import g = false /\ front pinned_cfg o [] 5 g = Crash n_TypeError.
Proof. exists bad_regex, g_regex. vm_compute. split; reflexivity. Qed.
Print Assumptions C23_refuted_pinned_regex.

Theorem C23_refuted_pinned_ws_param : exists o g, has_import g = false /\ front pinned_cfg o [] 5 g = Crash n_TypeError.
Proof. exists all_ok, g_ws. vm_compute. split; reflexivity. Qed.
Print Assumptions C23_refuted_pinned_ws_param.

Theorem C23_refuted_pinned_unordered_group : exists o g, has_import g = false /\ front pinned_cfg o [] 5 g = Crash n_AttributeError.
Proof. exists all_ok, g_ugroup. vm_compute. split; reflexivity. Qed.
Print Assumptions C23_refuted_pinned_unordered_group.

(* for EVERY recursion budget *)
Theorem C23_refuted_pinned_alias_cycle : exists o g, has_import g = false /\ forall fuel, front pinned_cfg o [] fuel g = Crash n_RecursionError.
Proof. exists all_ok, g_self. exact (conj eq_refl pinned_self_alias_crashes). Qed.
Print Assumptions C23_refuted_pinned_alias_cycle.

Theorem C23_refuted_pinned_two_rule_cycle : exists o g, has_import g = false /\ front pinned_cfg o [] 1000 g = Crash n_RecursionError.
Proof. exists all_ok, g_cycle. vm_compute. split; reflexivity. Qed.
Print Assumptions C23_refuted_pinned_two_rule_cycle.

Theorem C23_refuted_pinned_escape : exists o g, has_import g = false /\ front pinned_cfg o [] 5 g = Crash n_UnicodeDecodeError.
Proof. exists bad_escape, g_escape. vm_compute. split; reflexivity. Qed.
Print Assumptions C23_refuted_pinned_escape.

Theorem C23_refuted_pinned_textx_reference : exists o g, has_import g = false /\ front pinned_cfg o [] 5 g = Crash n_TypeError.
Proof. exists textx_lang, g_textx. vm_compute. split; reflexivity. Qed.
Print Assumptions C23_refuted_pinned_textx_reference.

(* Rule references may be fully qualified names.  Two further crash sources, guarded in the current source: *)
(* (a) an alias of a rule of a referenced language, when _determine_rule_type looks the target class up by its
       unqualified rule_name instead of taking rule._tx_class (the code before fix 017cc2e): KeyError *)
Theorem C23_refuted_qualified_alias_lookup : exists o g, has_import g = false /\
  front (with_ruletype_by_class src_cfg false) o [] 5 g = Crash n_KeyError.
Proof. exists lang_found, g_qualified_alias. vm_compute. split; reflexivity. Qed.
Print Assumptions C23_refuted_qualified_alias_lookup.

(* (b) a qualified rule reference with an unknown namespace, when `rule_name in metamodel` has no except clause
       for the KeyError of the namespace lookup (seeded change C23) *)
Theorem C23_refuted_contains_without_keyerror_handler : exists o g, has_import g = false /\
  front (with_contains src_cfg []) o [] 5 g = Crash n_KeyError.
Proof. exists all_ok, g_unknown_ns. vm_compute. split; reflexivity. Qed.
Print Assumptions C23_refuted_contains_without_keyerror_handler.
