(* C23 — invalid grammars are always reported as textX errors.

   `front c o fuel g` is the outcome of metamodel_from_str on a grammar text whose parse by the
   grammar-language parser is `g` (a parse tree, or a syntax failure), for the regex / escape /
   language-registry oracles `o` and Python recursion budget `fuel`.  `src_cfg` (Gen/SrcFront.v) is
   regenerated from textx/lang.py and textx/metamodel.py on every run: which exceptions each
   try/except catches and what it raises, the accepted rule parameters, the presence of the guards. *)
From TxV Require Import Core.Base Gen.SrcFront Model.FrontDefs Model.Front Proofs.FrontProofs.

(* Every crash source of the modelled front-end is guarded in the current source. *)
Theorem C23_source_guards : cfg_safe src_cfg = true.
Proof. exact (eq_refl true). Qed.
Print Assumptions C23_source_guards.

(* The property: for every parse result, every oracle and every recursion budget larger than the
   number of rules, the outcome is Ok or a TextXError — never another exception.  The documented
   exception (an import statement in a grammar given as a string) is the hypothesis. *)
Theorem C23_total : forall (o : oracles) (fuel : nat) (g : ginput) (k : crash),
  has_import g = false -> fuel > nrules g -> front src_cfg o fuel g <> Crash k.
Proof. exact (fun o fuel g k => front_never_crashes src_cfg o fuel g k C23_source_guards). Qed.
Print Assumptions C23_total.

(* ... and it holds for any source whose extracted facts show all guards, whatever classes it raises. *)
Theorem C23_total_any_guarded_source : forall (c : cfg) (o : oracles) (fuel : nat) (g : ginput) (k : crash),
  cfg_safe c = true -> has_import g = false -> fuel > nrules g -> front c o fuel g <> Crash k.
Proof. exact (fun c o fuel g k => front_never_crashes c o fuel g k). Qed.
Print Assumptions C23_total_any_guarded_source.

(* The budget is irrelevant beyond the number of rules: the repaired resolution terminates. *)
Theorem C23_resolution_terminates : forall (o : oracles) (g : ginput) (f1 f2 : nat),
  f1 > nrules g -> f2 > nrules g -> front src_cfg o f1 g = front src_cfg o f2 g.
Proof. exact (fun o g f1 f2 => front_fuel_irrelevant src_cfg o g f1 f2 C23_source_guards). Qed.
Print Assumptions C23_resolution_terminates.

(* ---- witnesses *)
(* The alias-cycle repair is conservative: with the guard removed from the current source facts, rule-reference
   resolution either exhausts the recursion budget or gives exactly the outcome of the current source. *)
Theorem C23_alias_repair_conservative : forall (o : oracles) (fuel : nat) (t : tree),
  resolve_rule_refs (with_alias_guard src_cfg None) o fuel t = Crash KRecursion
  \/ resolve_rule_refs (with_alias_guard src_cfg None) o fuel t = resolve_rule_refs src_cfg o fuel t.
Proof. exact (fun o fuel t => alias_repair_conservative src_cfg _ o fuel t eq_refl). Qed.
Print Assumptions C23_alias_repair_conservative.

(* ... and a reference that the unguarded code resolves with some budget is resolved identically, for every larger
   budget, by the guarded code: the guard rejects only what never terminated. *)
Theorem C23_guard_rejects_only_divergence : forall (o : oracles) (t : tree) (fuel : nat) (n : list N),
  follow pinned_cfg o t fuel [] n <> Crash KRecursion ->
  forall fuel', fuel' >= fuel ->
    follow pinned_cfg o t fuel' [] n = follow (with_alias_guard pinned_cfg (Some CSemantic)) o t fuel' [] n.
Proof. exact (fun o t => unguarded_never_recovers pinned_cfg o t CSemantic eq_refl). Qed.
Print Assumptions C23_guard_rejects_only_divergence.

(* ---- witnesses: the grammars and oracles are defined in Proofs/FrontProofs.v (section Witnesses) *)

(* Non-vacuity: the same inputs are TextX errors with the current source, for any admissible budget. *)
Example C23_nonvacuous :
  front src_cfg bad_regex 5 g_regex = TxErr CSyntax WRegex /\
  front src_cfg all_ok 5 g_ws = TxErr CSyntax WWsParam /\
  front src_cfg all_ok 5 g_ugroup = Ok /\
  front src_cfg all_ok 5 g_self = TxErr CSemantic WRuleRef /\
  front src_cfg all_ok 5 g_cycle = TxErr CSemantic WRuleRef /\
  front src_cfg bad_escape 5 g_escape = TxErr CSyntax WEscape /\
  front src_cfg textx_lang 5 g_textx = TxErr CSemantic WClsRef /\
  front src_cfg all_ok 5 GSyntaxError = TxErr CSyntax WParse /\
  front src_cfg lang_found 5 g_qualified_alias = Ok /\
  front src_cfg all_ok 5 g_unknown_ns = TxErr CSemantic WRuleRef /\
  front src_cfg all_ok 5 g_boolmany = TxErr CSemantic WBoolMany.
Proof. vm_compute. repeat split; reflexivity. Qed.
Print Assumptions C23_nonvacuous.

(* The hypothesis of C23_total is needed: the documented exception. *)
Theorem C23_import_is_the_documented_exception : front src_cfg all_ok 5 g_import = Crash KAssertion.
Proof. vm_compute. reflexivity. Qed.
Print Assumptions C23_import_is_the_documented_exception.

(* The code as pinned (pinned_cfg = the facts extracted from the source before the repairs) violates the
   property; one witness per crash source.  Each was replayed on the pinned implementation. *)
Theorem C23_refuted_pinned_regex : exists o g, has_import g = false /\ front pinned_cfg o 5 g = Crash KType.
Proof. exists bad_regex, g_regex. vm_compute. split; reflexivity. Qed.
Print Assumptions C23_refuted_pinned_regex.

Theorem C23_refuted_pinned_ws_param : exists o g, has_import g = false /\ front pinned_cfg o 5 g = Crash KType.
Proof. exists all_ok, g_ws. vm_compute. split; reflexivity. Qed.
Print Assumptions C23_refuted_pinned_ws_param.

Theorem C23_refuted_pinned_unordered_group : exists o g, has_import g = false /\ front pinned_cfg o 5 g = Crash KAttribute.
Proof. exists all_ok, g_ugroup. vm_compute. split; reflexivity. Qed.
Print Assumptions C23_refuted_pinned_unordered_group.

(* for EVERY recursion budget *)
Theorem C23_refuted_pinned_alias_cycle : exists o g, has_import g = false /\ forall fuel, front pinned_cfg o fuel g = Crash KRecursion.
Proof. exists all_ok, g_self. exact (conj eq_refl pinned_self_alias_crashes). Qed.
Print Assumptions C23_refuted_pinned_alias_cycle.

Theorem C23_refuted_pinned_two_rule_cycle : exists o g, has_import g = false /\ front pinned_cfg o 1000 g = Crash KRecursion.
Proof. exists all_ok, g_cycle. vm_compute. split; reflexivity. Qed.
Print Assumptions C23_refuted_pinned_two_rule_cycle.

Theorem C23_refuted_pinned_escape : exists o g, has_import g = false /\ front pinned_cfg o 5 g = Crash KUnicode.
Proof. exists bad_escape, g_escape. vm_compute. split; reflexivity. Qed.
Print Assumptions C23_refuted_pinned_escape.

Theorem C23_refuted_pinned_textx_reference : exists o g, has_import g = false /\ front pinned_cfg o 5 g = Crash KType.
Proof. exists textx_lang, g_textx. vm_compute. split; reflexivity. Qed.
Print Assumptions C23_refuted_pinned_textx_reference.

(* Rule references may be fully qualified names.  Two further crash sources, guarded in the current source: *)
(* (a) an alias of a rule of a referenced language, when _determine_rule_type looks the target class up by its
       unqualified rule_name instead of taking rule._tx_class (the code before fix 97c0ef9): KeyError *)
Theorem C23_refuted_qualified_alias_lookup : exists o g, has_import g = false /\
  front (with_ruletype_by_class src_cfg false) o 5 g = Crash KKey.
Proof. exists lang_found, g_qualified_alias. vm_compute. split; reflexivity. Qed.
Print Assumptions C23_refuted_qualified_alias_lookup.

(* (b) a qualified rule reference with an unknown namespace, when `rule_name in metamodel` does not catch the
       KeyError of the namespace lookup *)
Theorem C23_refuted_contains_without_keyerror_handler : exists o g, has_import g = false /\
  front (with_contains src_cfg false) o 5 g = Crash KKey.
Proof. exists all_ok, g_unknown_ns. vm_compute. split; reflexivity. Qed.
Print Assumptions C23_refuted_contains_without_keyerror_handler.
