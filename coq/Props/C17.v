(* C17 — multi-file models load each file once and share element identity.

   Model: Model/Repo.v (load_main = metamodel.model_from_file over a file system whose import
   statements are already expanded to file indices; any import graph: cycles, diamonds, self
   imports).  `Stable` (Proofs/RepoProofs.v) is the well-formedness of the state between two
   top-level loads; it holds initially and after every history (C17_histories_well_formed). *)
From TxV Require Import Core.Base Model.RepoDefs Gen.SrcRepo Model.Repo Proofs.RepoProofs Proofs.RepoMLProofs.

(* Every top-level load, for every file system and import graph, finishes within its fuel
   |files|+1 (the fuel bound is proved, not assumed) and opens no file twice - whether the load
   succeeds or fails.  Only hypothesis: all_models has no duplicate keys (it may hold models of files that
   no longer exist and the invented names of string-loaded models; fk counts the registered files only). *)
Theorem C17_loaded_once : forall fs c f s,
  NoDup (map fst (allm (begin_op c s))) ->
  fst (load_main fs c f s) <> inl EFuel /\ NoDup (reads (snd (load_main fs c f s))).
Proof. exact load_main_once. Qed.
Print Assumptions C17_loaded_once.

(* the same for a main model loaded from a string, and without any hypothesis at every point of every history *)
Theorem C17_loaded_once_string_main : forall fs c fc s,
  NoDup (map fst (allm (begin_op c s))) ->
  fst (load_str fs c fc s) <> inl EFuel /\ NoDup (reads (snd (load_str fs c fc s))).
Proof. exact load_str_once. Qed.
Print Assumptions C17_loaded_once_string_main.

Theorem C17_loaded_once_in_every_history : forall c builtins fs0 ops,
  let s := run_hist c fs0 (init_state builtins) ops in
  (forall fs f, fst (load_main fs c f s) <> inl EFuel /\ NoDup (reads (snd (load_main fs c f s)))) /\
  (forall fs fc, fst (load_str fs c fc s) <> inl EFuel /\ NoDup (reads (snd (load_str fs c fc s)))).
Proof. exact once_in_history. Qed.
Print Assumptions C17_loaded_once_in_every_history.

(* non-vacuity: a 3-cycle with a self import and a diamond edge loads fine, each file read once *)
Example C17_loaded_once_witness :
  let fs := [mkFile [[1]; [0]] [100%N] [101%N] false false false;
             mkFile [[2; 0]] [101%N] [102%N] false false false;
             mkFile [[0]; [2]] [102%N] [100%N] false false false] in
  let c := init_cfg false false [] in
  NoDup (map fst (allm (begin_op c (init_state [])))) /\
  fst (load_main fs c 0 (init_state [])) = inr 0 /\ reads (snd (load_main fs c 0 (init_state []))) = [0; 1; 2].
Proof. cbn zeta. split; [constructor|]. vm_compute. split; reflexivity. Qed.
Print Assumptions C17_loaded_once_witness.

(* With a global repository a repeated load of a cached file returns the cached model, opens
   nothing and leaves the repository as it was; the model processors are NOT run again on it (fact
   model_processors_on_cached = false, translated from internal_model_from_file). *)
Theorem C17_global_cache : forall fs c f s m,
  cglobal c = true -> dget f (allm s) = Some m ->
  fst (load_main fs c f s) = inr m /\ reads (snd (load_main fs c f s)) = [] /\ allm (snd (load_main fs c f s)) = allm s.
Proof. exact cached_load_returns_cached. Qed.
Print Assumptions C17_global_cache.

Example C17_global_cache_witness :
  let fs := [mkFile [[1]] [100%N] [101%N] false false false; mkFile [[0]] [101%N] [100%N] false false false] in
  let c := init_cfg true false [] in
  let s := snd (load_main fs c 0 (init_state [])) in
  dget 1 (allm s) = Some 1 /\ fst (load_main fs c 1 s) = inr 1.
Proof. vm_compute. repeat split; reflexivity. Qed.
Print Assumptions C17_global_cache_witness.

(* After every history of loads (successful or failing) and file rewrites, from the initial state:
   all_models maps each file to exactly one model, no model is registered under two files, and
   the model registered for a file is a model of that file - the single instance every importer
   is handed (load_model takes local models from all_models only). *)
Theorem C17_histories_well_formed : forall c builtins fs ops,
  let s := run_hist c fs (init_state builtins) ops in
  NoDup (map fst (allm s)) /\ NoDup (map snd (allm s)) /\
  (forall k v, In (k, v) (allm s) -> exists mi, nth_error (heap s) v = Some mi /\ mfile mi = k).
Proof. exact hist_single_model_per_file. Qed.
Print Assumptions C17_histories_well_formed.

(* Lookup order (re-proved against the order translated from ImportURI.__call__ / the RREL
   start list): the own model, then the local models in the order they were imported, then
   the builtin models. *)
Theorem C17_lookup_order : forall c s x n,
  resolve_name c s x n = first_some (lookup_in s n) ([x] ++ map snd (local_of x s) ++ cbuiltins c).
Proof. exact resolve_name_order. Qed.
Print Assumptions C17_lookup_order.

Theorem C17_lookup_own_first : forall c s x n t, lookup_in s n x = Some t -> resolve_name c s x n = Some t.
Proof. exact lookup_own. Qed.
Print Assumptions C17_lookup_own_first.

Theorem C17_lookup_first_import_wins : forall c s x n l1 y l2 t,
  lookup_in s n x = None -> map snd (local_of x s) = l1 ++ y :: l2 ->
  (forall z, In z l1 -> lookup_in s n z = None) -> lookup_in s n y = Some t ->
  resolve_name c s x n = Some t.
Proof. exact lookup_local. Qed.
Print Assumptions C17_lookup_first_import_wins.

Theorem C17_lookup_builtins_last : forall c s x n,
  lookup_in s n x = None -> (forall z, In z (map snd (local_of x s)) -> lookup_in s n z = None) ->
  resolve_name c s x n = first_some (lookup_in s n) (cbuiltins c).
Proof. exact lookup_builtin. Qed.
Print Assumptions C17_lookup_builtins_last.

(* shared names: own beats import, first import beats second, builtin only as a last resort *)
Example C17_lookup_order_witness :
  let fs := [mkFile [[1]; [2]] [100%N] [100%N; 101%N; 102%N; 103%N] false false false;
             mkFile [] [101%N; 100%N] [] false false false;
             mkFile [] [101%N; 102%N; 103%N] [] false false false] in
  let b := [mkFile [] [103%N; 104%N] [] false false false] in
  let s := snd (load_main fs (init_cfg false false b) 0 (init_state b)) in
  dget 1 (targets s) = Some [Some (1, 0); Some (2, 0); Some (3, 1); Some (3, 2)].
Proof. vm_compute. reflexivity. Qed.
Print Assumptions C17_lookup_order_witness.

(* Identity of reference targets.  At every point of every history (loads that succeed or fail, file
   rewrites) a successful load leaves every model x of the result (get_included_models) such that whatever a
   name n resolves to from x - this is what the resolution loop stores in the reference - is an element
   named n of: x itself, a builtin model, or THE model registered in all_models for the target's own file.
   With C17_histories_well_formed (one model per file) this is "every reference to an element of file f
   points into the single model of f". *)
Theorem C17_identity : forall c builtins fs0 ops fs f m s' x n t i,
  let s := run_hist c fs0 (init_state builtins) ops in
  load_main fs c f s = (inr m, s') -> In x (included m s') -> resolve_name c s' x n = Some (t, i) ->
  (t = x \/ In t (cbuiltins c) \/ dget (file_of t s') (allm s') = Some t) /\
  exists fc, cont_of t s' = Some fc /\ nth_error (felems fc) i = Some n.
Proof. exact identity_in_history. Qed.
Print Assumptions C17_identity.

(* the same for a main model loaded from a string (registered under an invented name by the GlobalRepo providers);
   histories (run_hist) contain file loads, string loads and rewrites *)
Theorem C17_identity_string_main : forall c builtins fs0 ops fs fc m s' x n t i,
  let s := run_hist c fs0 (init_state builtins) ops in
  load_str fs c fc s = (inr m, s') -> In x (included m s') -> resolve_name c s' x n = Some (t, i) ->
  t = x \/ In t (cbuiltins c) \/ dget (file_of t s') (allm s') = Some t.
Proof. exact identity_in_history_str. Qed.
Print Assumptions C17_identity_string_main.

(* the same for any well-formed state whose registered models' local models are registered *)
Theorem C17_identity_any_state : forall fs c f s m s' x n t i,
  Stable s -> LocReg s -> load_main fs c f s = (inr m, s') ->
  In x (included m s') -> resolve_name c s' x n = Some (t, i) ->
  t = x \/ In t (cbuiltins c) \/ dget (file_of t s') (allm s') = Some t.
Proof. exact identity_after_load. Qed.
Print Assumptions C17_identity_any_state.

(* two targets in registered models of the same file are in the same model object *)
Theorem C17_same_file_same_model : forall s t1 t2,
  dget (file_of t1 s) (allm s) = Some t1 -> dget (file_of t2 s) (allm s) = Some t2 ->
  file_of t1 s = file_of t2 s -> t1 = t2.
Proof. exact registered_same_file_same_model. Qed.
Print Assumptions C17_same_file_same_model.

(* every local_models entry of every model of a successful load's result is the all_models entry of that file *)
Theorem C17_local_models_are_registered : forall fs c f s m s',
  Stable s -> LocReg s -> load_main fs c f s = (inr m, s') ->
  forall x g t, In (g, t) (local_of x s') -> (In x (map snd (allm s')) \/ x = m) -> dget g (allm s') = Some t.
Proof. exact load_main_ok_registered. Qed.
Print Assumptions C17_local_models_are_registered.

(* non-vacuity: diamond 0 -> {1, 2}, 1 -> 2, 2 -> 0 (cycle): both references to e102 (from 0 and from 1)
   resolve into model 2, the registered model of file 2 *)
Example C17_identity_witness :
  let fs := [mkFile [[1]; [2]] [100%N] [102%N] false false false;
             mkFile [[2]] [101%N] [102%N] false false false;
             mkFile [[0]] [102%N] [100%N] false false false] in
  let c := init_cfg true false [] in
  let r := load_main fs c 0 (run_hist c fs (init_state []) []) in
  fst r = inr 0 /\ included 0 (snd r) = [0; 1; 2] /\
  resolve_name c (snd r) 0 102%N = Some (2, 0) /\ resolve_name c (snd r) 1 102%N = Some (2, 0) /\
  dget (file_of 2 (snd r)) (allm (snd r)) = Some 2.
Proof. vm_compute. repeat split; reflexivity. Qed.
Print Assumptions C17_identity_witness.

(* SEVERAL REGISTERED LANGUAGES (Model/Repo.v: load_main_x with the external cache of the other languages' global
   repositories, ml_load).  Read-once holds for every external cache; the single-language loader is the special
   case without external cache.  Identity does NOT extend to separate per-language global repositories: *)
Theorem C17_loaded_once_across_languages : forall x xvals fs c f s,
  NoDup (map fst (allm (begin_op c s))) ->
  fst (load_main_x x xvals fs c f s) <> inl EFuel /\ NoDup (reads (snd (load_main_x x xvals fs c f s))).
Proof. exact load_main_x_once. Qed.
Print Assumptions C17_loaded_once_across_languages.

Theorem C17_single_language_is_no_external_cache : forall fs c f s,
  load_main_x (fun _ => None) [] fs c f s = load_main fs c f s.
Proof. exact load_main_x_none. Qed.
Print Assumptions C17_single_language_is_no_external_cache.

(* a file cached in the global repository of its own language is not read again when a model of another language
   imports it, and the importer is handed that very model *)
Theorem C17_external_cache_is_used : forall x ld m g s m',
  dhas g (local_of m s) = false -> dget g (allm s) = None -> x g = Some m' ->
  load_model (with_ext x ld) m g s = (None, set_local m g m' (set_all g m' s)).
Proof. exact load_model_ext_hit. Qed.
Print Assumptions C17_external_cache_is_used.

(* refuted (known finding separate-global-repositories, replayed on the implementation by corpus/C17/
   ml_cycle_separate_repos.json): two languages with separate global repositories, a.model <-> b.typ; b.typ loaded first
   (its repository then holds an instance of a.model), then a.model: the result contains the cached b.typ, whose
   reference to e0 points into the FIRST a.model instance, not into the model registered for a.model *)
Theorem C17_identity_separate_repositories_refuted :
  exists fs mc ms f m s' repos' x n t i,
    ml_load fs mc f ms = (inr m, (s', repos')) /\ In x (included m s') /\
    resolve_name (mkCfg true false [] false) s' x n = Some (t, i) /\ t <> x /\ dget (file_of t s') (allm s') <> Some t.
Proof.
  set (fs := [mkFile [[1]] [100%N] [101%N] false false false; mkFile [[0]] [101%N] [100%N] false false false]).
  set (mc := mkML [true; true] [0; 1]).
  exists fs, mc, (snd (ml_load fs mc 1 (init_state [], []))), 0.
  eexists. eexists. eexists. exists 0, 100%N, 1, 0.
  split; [vm_compute; reflexivity|]. vm_compute. repeat split; auto; try discriminate.
Qed.
Print Assumptions C17_identity_separate_repositories_refuted.

(* Identity for several languages, in the form that holds (MStable = well-formedness of the machine state, invariant
   over every history: C18_several_languages_state_invariant): every name looked up from a model CREATED by the load
   resolves into the model itself or into THE model registered in the importer's all_models for the target's file -
   wherever that model came from (parsed now, cached in the importer's repository, taken from another language's). *)
Theorem C17_identity_several_languages : forall fs mc f s repos m s' repos' y n t i,
  MStable (s, repos) -> ml_load fs mc f (s, repos) = (inr m, (s', repos')) ->
  length (heap s) <= y -> resolve_name (mkCfg (lglob mc (lang mc f)) false [] false) s' y n = Some (t, i) ->
  t = y \/ dget (file_of t s') (allm s') = Some t.
Proof. exact ml_identity_created. Qed.
Print Assumptions C17_identity_several_languages.

Theorem C17_local_models_several_languages : forall x xvals fs c f s m s',
  Stable s -> XOK (length (heap s)) x (begin_op c s) ->
  load_main_x x xvals fs c f s = (inr m, s') ->
  forall y g t, In (g, t) (local_of y s') -> length (heap s) <= y -> dget g (allm s') = Some t.
Proof. exact load_main_x_created_registered. Qed.
Print Assumptions C17_local_models_several_languages.

(* For a model that existed before the load (cached in the importer's repository or taken from another language's
   repository) the boundary is the refuted case: IF each of its local models is registered in the importer's repository
   or held by the other repositories (decidable on the state; false exactly for a model whose import closure contains
   a file that the other repository loaded for itself and that this load has to parse again, as in
   C17_identity_separate_repositories_refuted), THEN after the load it is still that very model, registered in the
   result or held by the cache. The classifier of the known finding is the negation for models of another repository. *)
Theorem C17_cached_models_keep_their_imports : forall x xvals fs c f s m s' y g t,
  Stable s -> XOK (length (heap s)) x (begin_op c s) ->
  load_main_x x xvals fs c f s = (inr m, s') ->
  y < length (heap s) -> In (g, t) (local_of y s') ->
  (dget g (allm (begin_op c s)) = Some t \/ x g = Some t) ->
  In (g, t) (local_of y s) /\ (dget g (allm s') = Some t \/ x g = Some t).
Proof. exact load_main_x_cached_locals. Qed.
Print Assumptions C17_cached_models_keep_their_imports.

(* non-vacuity: a.model (language 0) imports b.typ (language 1, cached by an earlier direct load) and c.model; the
   references of the new a.model resolve into the registered models: the cached b.typ and the new c.model *)
Example C17_identity_several_languages_witness :
  let fs := [mkFile [[1]; [2]] [100%N] [101%N; 102%N] false false false;
             mkFile [] [101%N] [] false false false;
             mkFile [] [102%N] [] false false false] in
  let mc := mkML [true; true] [0; 1; 0] in
  let ms := snd (ml_load fs mc 1 (init_state [], [])) in
  let r := ml_load fs mc 0 ms in
  MStable ms /\ fst r = inr 1 /\ length (heap (fst ms)) = 1 /\
  resolve_name (mkCfg true false [] false) (fst (snd r)) 1 101%N = Some (0, 0) /\
  resolve_name (mkCfg true false [] false) (fst (snd r)) 1 102%N = Some (2, 0) /\
  allm (fst (snd r)) = [(0, 1); (1, 0); (2, 2)] /\ reads (fst (snd r)) = [0; 2].
Proof.
  cbn zeta. split; [apply (ml_load_stable _ _ 1 (init_state [], [])), MStable_init|]. vm_compute. repeat split; reflexivity.
Qed.
Print Assumptions C17_identity_several_languages_witness.

(* NAMES DEFINED TWICE IN ONE FILE.  The search stops at the first model (own, imports in order, builtins) that has
   the name.  With PlainName inside (cunique) a name that this model defines more than once is refused - the load
   fails with 'name ... is not unique' reported for the referencing file; with FQN or RREL inside the FIRST element
   of that name is taken. *)
Theorem C17_plainname_duplicate_refused : forall c s x n ns t i,
  cunique c = true -> resolve_name c s x n = Some (t, i) -> dup_in s n t = true -> resolve_refs c s x (n :: ns) = None.
Proof. exact resolve_refs_duplicate_refused. Qed.
Print Assumptions C17_plainname_duplicate_refused.

Theorem C17_first_element_taken : forall c s x n t i,
  resolve_name c s x n = Some (t, i) ->
  exists fc, cont_of t s = Some fc /\ nth_error (felems fc) i = Some n /\ forall j, j < i -> nth_error (felems fc) j <> Some n.
Proof. exact resolve_name_first_occurrence. Qed.
Print Assumptions C17_first_element_taken.

Theorem C17_unique_or_fqn_resolves : forall c s x n ns tg,
  (cunique c = false \/ dup_in s n (fst tg) = false) -> resolve_name c s x n = Some tg ->
  resolve_refs c s x (n :: ns) = option_map (cons (Some tg)) (resolve_refs c s x ns).
Proof. exact resolve_refs_first_taken. Qed.
Print Assumptions C17_unique_or_fqn_resolves.

(* b defines e101 twice: FQN resolves a's reference to the first one, PlainName refuses the load (error in file 0) *)
Example C17_duplicates_witness :
  let fs := [mkFile [[1]] [100%N] [101%N] false false false; mkFile [] [101%N; 102%N; 101%N] [] false false false] in
  fst (load_main fs (init_cfg_u false false false []) 0 (init_state [])) = inr 0 /\
  dget 0 (targets (snd (load_main fs (init_cfg_u false false false []) 0 (init_state [])))) = Some [Some (1, 0)] /\
  fst (load_main fs (init_cfg_u true false false []) 0 (init_state [])) = inl (EUnres 0).
Proof. vm_compute. repeat split; reflexivity. Qed.
Print Assumptions C17_duplicates_witness.
