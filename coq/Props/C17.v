(* C17 — multi-file models load each file once and share element identity. *)
From TxV Require Import Core.Base Model.RepoDefs Gen.SrcRepo Model.Repo Proofs.RepoProofs.

Theorem C17_global_cache : forall fs c f s m,
  cglobal c = true -> dget f (allm s) = Some m -> flag_of fmp m s = false ->
  fst (load_main fs c f s) = inr m /\ reads (snd (load_main fs c f s)) = [] /\ allm (snd (load_main fs c f s)) = allm s.
Proof. exact cached_load_returns_cached. Qed.
Print Assumptions C17_global_cache.
