(* C20 - ignore_case makes grammar literals case-insensitive.

   Setting: tools/pegdump.py dumps the parser model that textX built with ignore_case=True into a
   [grammar] table; regex terminals and ignore_case StrMatches are answered by an oracle
   (Python's re / str.lower on the concrete text).  Model/Peg.v interprets the table.
   All statements below are for EVERY table, text, oracle, fuel and both memoization settings. *)
From TxV Require Import Core.Base Model.PegSyntax Model.Peg Model.Build Model.KwDefs Gen.SrcKw Model.Kw
     Proofs.PegCongr Proofs.KwProofs Proofs.PegInv Proofs.KwCheckProofs Proofs.KwBuild Proofs.KwModel Proofs.KwModel2 Proofs.KwWitness Proofs.KwStatements.

(* (1) What visit_str_match / visit_re_match of the CURRENT source construct under ignore_case=True:
   every string literal (plain or keyword-like under autokwd) and every user regex gets the flag.
   Depends on Gen/SrcKw.v (regenerated from textx/lang.py on every run). *)
Theorem C20_compile : forall wordc digitc autokwd t pat,
  spec_icase (compile_lit wordc digitc autokwd true t) = true /\
  spec_icase (compile_regex true pat) = true.
Proof. exact stmt_C20_compile. Qed.
Print Assumptions C20_compile.

(* (2) Terminal congruence: two texts on which every terminal of the table answers alike at every
   position, and which differ only at characters that belong to no whitespace set of the
   grammar, are parsed identically: same acceptance, same tree (rule nodes, positions, lengths),
   same error position. *)
Theorem C20_terminal_congruence : forall g cfg orc orc' memo fuel input input',
  Forall2 (char_ok (ws_universe g cfg)) input input' ->
  oracles_agree g orc orc' ->
  exact_agree g input input' ->
  run g cfg orc' memo fuel input' = run g cfg orc memo fuel input.
Proof. exact terminal_congruence. Qed.
Print Assumptions C20_terminal_congruence.

(* (3) The property: if the table has no case-sensitive StrMatch (decidable, checked on every dumped
   ignore_case table), the oracle of each of its terminals does not look at letter case, and s'
   is a case variant of s (not touching whitespace characters), the outcome is the same. *)
Theorem C20_invariant : forall lower g cfg (O : list N -> nat -> nat -> option nat) memo fuel s s',
  all_str_icase g = true ->
  (forall nid nd o, get_node g nid = Some nd -> kind_oid (n_kind nd) = Some o -> case_blind lower O o) ->
  case_variant lower s s' ->
  Forall2 (char_ok (ws_universe g cfg)) s s' ->
  run g cfg (O s') memo fuel s' = run g cfg (O s) memo fuel s.
Proof. exact icase_invariant. Qed.
Print Assumptions C20_invariant.

(* (3') The decidable instance check the harness evaluates on every (original, variant) pair is sound:
   when it says [true] for the dumped table, the two oracle tables computed by Python and the two
   texts, the two parses coincide (for every fuel and memoization setting). *)
Theorem C20_check_sound : forall lower g cfg tbl tbl' s s' memo fuel,
  c20_hyp_b lower g cfg tbl tbl' s s' = true ->
  run g cfg (orc_of tbl') memo fuel s' = run g cfg (orc_of tbl) memo fuel s.
Proof. exact c20_hyp_sound. Qed.
Print Assumptions C20_check_sound.

(* (4) The two literal terminals textX itself defines are case blind under ignore_case:
   StrMatch (lowered comparison) and the keyword regex <literal>\b (given that \w does not
   depend on case). *)
Theorem C20_literals_case_blind : forall lower wordc t s s' p,
  case_variant lower s s' ->
  str_match lower true t s' p = str_match lower true t s p /\
  (word_lower lower wordc -> kw_match wordc lower true t s' p = kw_match wordc lower true t s p).
Proof. exact stmt_C20_literals_case_blind. Qed.
Print Assumptions C20_literals_case_blind.

(* (5) Values: a regex terminal (ID, user regex, keyword regex) yields the slice of the text at its
   (unchanged) position and length: the slice of the variant is the variant of the slice, and
   is identical when no character inside it was changed. *)
Theorem C20_values_keep_case : forall lower s s' p len,
  case_variant lower s s' ->
  case_variant lower (slice s p len) (slice s' p len) /\
  ((forall i, p <= i < p + len -> nth_error s' i = nth_error s i) -> slice s' p len = slice s p len).
Proof. exact stmt_C20_values_keep_case. Qed.
Print Assumptions C20_values_keep_case.

(* (5') The property at the level of the constructed model (Model/Build.v = textx/model.py
   parse_tree_to_objgraph on the dumped metamodel table [mm], validated by the C01/C06 correspondence):
   under the hypotheses of (3), if the original is accepted with tree [r] and no changed letter lies inside
   a match that a base type converts (INT FLOAT STRICTFLOAT BOOL STRING), then the variant is accepted with
   the same tree and the two object graphs are related by [vrel lower]: same classes, attribute names,
   positions, list shapes, the same error if construction fails; every string value is identical or - when it
   is (built from) an input slice of a regex terminal - equal up to letter case, i.e. it keeps the case it was
   written in; StrMatch values are the grammar's text in both.  (use_regexp_group=False.) *)
Theorem C20_model_structure : forall lower g cfg (O : list N -> nat -> nat -> option nat) memo fuel s s' mm grp grp' auto r,
  all_str_icase g = true ->
  (forall nid nd o, get_node g nid = Some nd -> kind_oid (n_kind nd) = Some o -> case_blind lower O o) ->
  case_variant lower s s' ->
  Forall2 (char_ok (ws_universe g cfg)) s s' ->
  run g cfg (O s) memo fuel s = Parsed r ->
  base_matches_unchanged g s s' r ->
  run g cfg (O s') memo fuel s' = Parsed r /\
  vbrel lower (build g mm s grp auto false r) (build g mm s' grp' auto false r).
Proof. exact icase_model_structure. Qed.
Print Assumptions C20_model_structure.

(* (5'') The same for any use_regexp_group setting: the value of a regex terminal with exactly one group is the
   slice of group(1), read from the group oracle; group spans are positions, so the oracle is the same for both
   texts, and group(1) of a base-type match (BOOL) must not have been re-cased either. *)
Theorem C20_model_structure_grp : forall lower g cfg (O : list N -> nat -> nat -> option nat) memo fuel s s' mm grp grp' auto ug r,
  all_str_icase g = true ->
  (forall nid nd o, get_node g nid = Some nd -> kind_oid (n_kind nd) = Some o -> case_blind lower O o) ->
  case_variant lower s s' ->
  Forall2 (char_ok (ws_universe g cfg)) s s' ->
  run g cfg (O s) memo fuel s = Parsed r ->
  base_matches_unchanged g s s' r ->
  (forall o p, grp' o p = grp o p) ->
  base_groups_unchanged g grp s s' r ->
  run g cfg (O s') memo fuel s' = Parsed r /\
  vbrel lower (build g mm s grp auto ug r) (build g mm s' grp' auto ug r).
Proof. exact icase_model_structure_grp. Qed.
Print Assumptions C20_model_structure_grp.

Example C20_model_structure_nonvacuous :
  exists r v,
    run g_begin cfg_default (orc_of tbl_begin) false 50 in_begin1 = Parsed r /\
    base_matches_unchanged g_begin in_begin1 in_begin2 r /\
    build g_begin mm_begin in_begin1 no_grp true false r = BOk v /\
    build g_begin mm_begin in_begin2 no_grp true false r = BOk v /\
    v = VObj [77;111;100;101;108]%N 0 11 [([110;97;109;101]%N, VTerm [73;68]%N [120]%N)].
Proof. exact stmt_C20_model_structure_nonvacuous. Qed.
Print Assumptions C20_model_structure_nonvacuous.

(* (6) Outside the hypothesis of (3) the statement fails: BOOL is a built-in whose regex is case
   sensitive whatever ignore_case says.  `Model: b=BOOL | 'true' x=ID;` accepts "TRUE a" through
   the literal and rejects its case variant "true a" (tables dumped from the real parser;
   replayed on the implementation by the check: corpus/C20/bool.json). *)
Theorem C20_refuted_case_sensitive_builtin :
  exists g cfg tbl tbl' s s',
    all_str_icase g = true /\ case_variant ascii_lower s s' /\
    accepted (run g cfg (orc_of tbl) false 50 s) = true /\
    run g cfg (orc_of tbl') false 50 s' = SyntaxErr 5.
Proof. exact stmt_C20_refuted_case_sensitive_builtin. Qed.
Print Assumptions C20_refuted_case_sensitive_builtin.

(* non-vacuity of (2)/(3): `Model: 'begin' name=ID 'end';`, "begin x end" vs "BEGIN x End" *)
Example C20_nonvacuous :
  in_begin1 <> in_begin2 /\
  run g_begin cfg_default (orc_of tbl_begin) false 50 in_begin2
  = run g_begin cfg_default (orc_of tbl_begin) false 50 in_begin1 /\
  accepted (run g_begin cfg_default (orc_of tbl_begin) false 50 in_begin1) = true.
Proof. exact stmt_C20_nonvacuous. Qed.
Print Assumptions C20_nonvacuous.

Example C20_check_nonvacuous :
  c20_hyp_b ascii_lower g_begin cfg_default tbl_begin tbl_begin in_begin1 in_begin2 = true.
Proof. exact stmt_C20_check_nonvacuous. Qed.
Print Assumptions C20_check_nonvacuous.

Example C20_literals_nonvacuous :
  str_match ascii_lower true [105;102]%N [73;70;32;120]%N 0 = Some 2 /\
  str_match ascii_lower false [105;102]%N [73;70;32;120]%N 0 = None /\
  kw_match ascii_word ascii_lower true [105;102]%N [73;70;32;120]%N 0 = Some 2 /\
  kw_match ascii_word ascii_lower true [105;102]%N [73;70;120]%N 0 = None.
Proof. exact stmt_C20_literals_nonvacuous. Qed.
Print Assumptions C20_literals_nonvacuous.
