(* C07 — default reference resolution finds the unique matching object.

   Model/Plain.v transcribes PlainName.__call__ (multi_metamodel_support branch: get_children over the
   model root with the selector hasattr(name) /\ name == obj_name /\ textx_isinstance), textx_isinstance
   (the visit-each-class-once search over _tx_inh_by, as repaired), and the builtins fallback /
   "Unknown object" error of resolve_one_step.  The dispatch on the number of matches, the selector
   conjuncts and the error texts are regenerated from the source into Gen/SrcPlain.v on every run.

   Specification side (Proofs/PlainProofs.v):
     Conforms classes dc t   some class reachable from the target t over inheritance edges passes a direct
                             test (is named OBJECT / is the class of the object)
     at_path root p d        d is the object reached from the model root along the child indices p
     Cand classes root n t p d   := at_path root p d /\ name d = n /\ Conforms classes (class d) t
     NoCand / UniqueCand p / ManyCand : no / exactly one (at path p) / at least two distinct candidates
     BuiltinOk classes b n t := metamodel.builtins has an entry n whose type conforms to t            *)
From TxV Require Import Core.Base Model.PlainDefs Gen.SrcPlain Model.Plain Proofs.PlainProofs Proofs.PlainBridge.
From TxV Require Gen.SrcNav Model.Kinds Model.Nav Model.NavSrc Proofs.NavSrcProofs.

(* textx_isinstance terminates (no out-of-fuel) on every class table whose _tx_inh_by entries are classes
   of the table -- cyclic inheritance graphs included -- and decides declarative conformance. *)
Theorem C07_conforms_total : forall classes dc t,
  wf_classes classes = true -> conforms_opt classes dc t <> None.
Proof. intros classes dc t H. exact (conforms_opt_total classes dc H t). Qed.
Print Assumptions C07_conforms_total.

Theorem C07_conforms : forall classes dc t,
  wf_classes classes = true -> (conforms classes dc t = true <-> Conforms classes dc t).
Proof. intros classes dc t H. exact (conforms_spec classes dc H t). Qed.
Print Assumptions C07_conforms.

(* the list PlainName gets from get_children is exactly the candidate set, each object once *)
Theorem C07_candidates : forall classes root n t,
  wf_classes classes = true ->
  (forall p d, In (p, d) (candidates classes root n t) <-> Cand classes root n t p d) /\
  NoDup (map fst (candidates classes root n t)).
Proof.
  intros classes root n t H. split.
  - intros p d. exact (candidates_spec classes H root n t p d).
  - exact (collect_NoDup (selector classes n t) root).
Qed.
Print Assumptions C07_candidates.

(* one of the three situations always holds *)
Theorem C07_trichotomy : forall classes root n t,
  wf_classes classes = true ->
  (exists p, UniqueCand classes root n t p) \/ ManyCand classes root n t \/ NoCand classes root n t.
Proof. intros classes root n t H. exact (cand_trichotomy classes H root n t). Qed.
Print Assumptions C07_trichotomy.

(* the case analysis of the property, for every class table, model, builtins dictionary and reference *)
Theorem C07_resolve : forall classes root b r,
  wf_classes classes = true ->
  match resolve_ref classes root b r with
  | Resolved p => UniqueCand classes root (rname r) (rcls r) p
  | Builtin k => k = rname r /\ NoCand classes root (rname r) (rcls r) /\ BuiltinOk classes b (rname r) (rcls r)
  | ErrNotUnique n => n = rname r /\ ManyCand classes root (rname r) (rcls r)
  | ErrUnknown n t => n = rname r /\ t = rcls r /\ NoCand classes root (rname r) (rcls r)
                      /\ ~ BuiltinOk classes b (rname r) (rcls r)
  | ErrIndex => False
  end.
Proof. intros classes root b r H. exact (resolve_ref_cases classes H root b r). Qed.
Print Assumptions C07_resolve.

Theorem C07_resolved_iff : forall classes root b r p,
  wf_classes classes = true ->
  (resolve_ref classes root b r = Resolved p <-> UniqueCand classes root (rname r) (rcls r) p).
Proof. intros classes root b r p H. exact (resolved_iff classes H root b r p). Qed.
Print Assumptions C07_resolved_iff.

Theorem C07_builtin_iff : forall classes root b r k,
  wf_classes classes = true ->
  (resolve_ref classes root b r = Builtin k <->
   k = rname r /\ NoCand classes root (rname r) (rcls r) /\ BuiltinOk classes b (rname r) (rcls r)).
Proof. intros classes root b r k H. exact (builtin_iff classes H root b r k). Qed.
Print Assumptions C07_builtin_iff.

Theorem C07_unknown_iff : forall classes root b r n t,
  wf_classes classes = true ->
  (resolve_ref classes root b r = ErrUnknown n t <->
   n = rname r /\ t = rcls r /\ NoCand classes root (rname r) (rcls r) /\ ~ BuiltinOk classes b (rname r) (rcls r)).
Proof. intros classes root b r n t H. exact (unknown_iff classes H root b r n t). Qed.
Print Assumptions C07_unknown_iff.

Theorem C07_not_unique_iff : forall classes root b r n,
  wf_classes classes = true ->
  (resolve_ref classes root b r = ErrNotUnique n <-> n = rname r /\ ManyCand classes root (rname r) (rcls r)).
Proof. intros classes root b r n H. exact (not_unique_iff classes H root b r n). Qed.
Print Assumptions C07_not_unique_iff.

(* loading resolves the references in textual order: it succeeds iff every reference resolves, and
   otherwise fails with the error of the first reference that does not *)
Theorem C07_load_ok : forall classes root b rs ts,
  load classes root b rs = LoadOk ts <->
  Forall (fun r => is_error (resolve_ref classes root b r) = false) rs /\
  ts = map (resolve_ref classes root b) rs.
Proof. intros classes root b rs ts. exact (load_from_ok classes root b rs 0 [] ts). Qed.
Print Assumptions C07_load_ok.

Theorem C07_load_err : forall classes root b rs j e,
  load classes root b rs = LoadErr j e <->
  exists pre r post, rs = pre ++ r :: post /\ j = length pre /\
    Forall (fun r => is_error (resolve_ref classes root b r) = false) pre /\
    resolve_ref classes root b r = e /\ is_error e = true.
Proof. intros classes root b rs j e. exact (load_from_err classes root b rs 0 [] j e). Qed.
Print Assumptions C07_load_err.

(* the error texts built from the translated f-strings: 'Unknown object "<name>" of class "<cls>"' with
   err_type "Unknown object", and 'name <name> is not unique.' without err_type *)
Theorem C07_unknown_text : forall classes n t,
  error_text classes (ErrUnknown n t) =
  ([85;110;107;110;111;119;110;32;111;98;106;101;99;116;32]%N ++ q34 ++ n ++ q34 ++
   [32;111;102;32;99;108;97;115;115;32]%N ++ q34 ++ class_name classes t ++ q34,
   Some [85;110;107;110;111;119;110;32;111;98;106;101;99;116]%N).
Proof. exact unknown_text. Qed.
Print Assumptions C07_unknown_text.

Theorem C07_not_unique_text : forall classes n,
  error_text classes (ErrNotUnique n) =
  ([110;97;109;101;32]%N ++ n ++ [32;105;115;32;110;111;116;32;117;110;105;113;117;101;46]%N, None).
Proof. exact notunique_text. Qed.
Print Assumptions C07_not_unique_text.

(* ---- non-vacuity: a well-formed class table with a cyclic inheritance graph
        0 OBJECT, 1 K0, 2 K1, 3 A0 with _tx_inh_by [K0; A0]   (A0: K0 | '(' A0 ')';)
        model: root(class 4, unnamed) { K1 "y"; K0 "y"; K0 "z"; K1 "w" { K0 "w"; K0 "w" } } *)
Definition ex_classes : list cls :=
  [ {| cname := [79;66;74;69;67;84]%N; cinh := []; cpy := [] |}; {| cname := [75;48]%N; cinh := []; cpy := [] |};
    {| cname := [75;49]%N; cinh := []; cpy := [] |}; {| cname := [65;48]%N; cinh := [1; 3]%nat; cpy := [] |};
    {| cname := [77]%N; cinh := []; cpy := [] |} ].
Definition ex_root : node :=
  Node 4 NoName [ Node 2 (NameStr [121]%N) []; Node 1 (NameStr [121]%N) []; Node 1 (NameStr [122]%N) [];
                  Node 2 (NameStr [119]%N) [ Node 1 (NameStr [119]%N) []; Node 1 (NameStr [119]%N) [] ] ].
Definition ex_builtins : builtins := [([108]%N, [1%nat]); ([122;122]%N, [2%nat])].

Example C07_nonvacuous :
  wf_classes ex_classes = true /\
  (* "y" of class A0: K1 "y" is skipped (the search over the cyclic graph terminates), K0 "y" is found *)
  resolve_ref ex_classes ex_root ex_builtins {| rname := [121]%N; rcls := 3 |} = Resolved [1]%nat /\
  (* "w" of class A0: two nested K0 objects *)
  resolve_ref ex_classes ex_root ex_builtins {| rname := [119]%N; rcls := 3 |} = ErrNotUnique [119]%N /\
  (* "l": no object, conforming builtin *)
  resolve_ref ex_classes ex_root ex_builtins {| rname := [108]%N; rcls := 3 |} = Builtin [108]%N /\
  (* "zz": no object, builtin of the unrelated class K1 *)
  resolve_ref ex_classes ex_root ex_builtins {| rname := [122;122]%N; rcls := 3 |} = ErrUnknown [122;122]%N 3 /\
  (* OBJECT accepts every class; two objects are called "y" *)
  resolve_ref ex_classes ex_root ex_builtins {| rname := [121]%N; rcls := 0 |} = ErrNotUnique [121]%N /\
  load ex_classes ex_root ex_builtins
    [ {| rname := [121]%N; rcls := 3 |}; {| rname := [108]%N; rcls := 1 |}; {| rname := [113]%N; rcls := 2 |};
      {| rname := [119]%N; rcls := 3 |} ] = LoadErr 2 (ErrUnknown [113]%N 2).
Proof. vm_compute. repeat split. Qed.
Print Assumptions C07_nonvacuous.

(* ---- several loaded models: PlainName searches only the model that contains the referring object
        (the translated root of the search is get_model(obj); C05_get_model: that is the root of the
        containment tree the object is in).  The outcome is a function of that model alone, and a same-named,
        type-conforming object of another loaded (imported) model is NOT a candidate. *)
Theorem C07_same_model_only : forall classes world world' i b r,
  nth i world empty_model = nth i world' empty_model ->
  resolve_in classes world i b r = resolve_in classes world' i b r.
Proof. exact same_model_only. Qed.
Print Assumptions C07_same_model_only.

Theorem C07_imported_not_candidate : forall classes world i j b r p d,
  wf_classes classes = true -> j <> i ->
  Cand classes (nth j world empty_model) (rname r) (rcls r) p d ->
  NoCand classes (nth i world empty_model) (rname r) (rcls r) ->
  (forall q, resolve_in classes world i b r <> Resolved q) /\
  (resolve_in classes world i b r = Builtin (rname r) \/
   resolve_in classes world i b r = ErrUnknown (rname r) (rcls r)).
Proof. exact imported_not_candidate. Qed.
Print Assumptions C07_imported_not_candidate.

Example C07_imported_nonvacuous :
  (* model 0 refers to "z" of class K0; only model 1 (ex_root) has a K0 named "z" *)
  let world := [Node 4 NoName [Node 2 (NameStr [114]%N) []]; ex_root] in
  Cand ex_classes (nth 1 world empty_model) [122]%N 1 [2]%nat (Node 1 (NameStr [122]%N) []) /\
  resolve_in ex_classes world 0 ex_builtins {| rname := [122]%N; rcls := 1 |} = ErrUnknown [122]%N 1 /\
  resolve_in ex_classes world 1 ex_builtins {| rname := [122]%N; rcls := 1 |} = Resolved [2]%nat.
Proof.
  split; [|split; reflexivity].
  split; [cbn; eapply AtKid; [reflexivity | apply AtHere]|].
  split; [reflexivity|]. exists 1. split; [apply ReachRefl | reflexivity].
Qed.
Print Assumptions C07_imported_nonvacuous.

(* ---- bridges to the models of the neighbouring properties (imported read-only) *)

(* C03's model of _determine_rule_types (Model/Kinds.v, tied to textx/lang.py by kinds_tr.py): for EVERY grammar
   the computation ends in a state s; the class table whose inheritance lists are the recorded _tx_inh_by
   (inh s) is well-formed in the sense of the theorems above, and PlainName's type test on it is C03's
   textx_isinstance (targets other than OBJECT: classes textX created itself; OBJECT: always true). *)
Theorem C07_kinds_bridge : forall (g : list Kinds.rule) (names : nat -> list N),
  (forall i, names i <> OBJECT_name) ->
  exists s, Kinds.determine_types g = Some s /\
    wf_classes (table_of (length g) names (Kinds.inh s)) = true /\
    (forall i, i < length g -> Plain.inh (table_of (length g) names (Kinds.inh s)) i = Kinds.inh s i) /\
    (forall k t, t < length g ->
       Kinds.isinstance (length g) (Kinds.inh s) k (Some t)
       = Some (conforms (table_of (length g) names (Kinds.inh s)) [k] t)) /\
    (forall k, Kinds.isinstance (length g) (Kinds.inh s) k None = Some true).
Proof. exact kinds_bridge. Qed.
Print Assumptions C07_kinds_bridge.

(* C05's model of get_children (Model/Nav.v: attribute slots in _tx_attrs order, attr.cont, single / many
   multiplicities, the collected_ids set; tied to textx/model.py by nav_tr.py): reading a C05 object tree as a
   C07 tree (children = the model objects held by containment slots, in slot order; class and name through any
   labelling functions), Plain.collect returns exactly what get_children(selector, root) returns, in the same
   order, for every selector and every tree whose objects have distinct identities. *)
Theorem C07_get_children_bridge :
  forall (cix : list N -> nat) (nmf : list (Nav.ameta * list Nav.obj) -> nameval) sel root,
  Nav.is_node root = true -> Nav.uniq root ->
  map snd (collect sel (abs cix nmf root))
  = map (abs cix nmf) (Nav.get_children (fun x => sel (abs cix nmf x)) root false (fun _ => true)).
Proof. exact nav_bridge. Qed.
Print Assumptions C07_get_children_bridge.

(* the two facts of get_children the tree reading relies on, regenerated from textx/model.py (Gen/SrcNav.v):
   the descent is guarded by `attr.cont`; the single-value branch is taken for MULT_ONE and MULT_OPTIONAL *)
Theorem C07_get_children_src :
  SrcNav.src_single_mults = [NavSrc.s_mult_one; NavSrc.s_mult_optional] /\ SrcNav.src_follow_guard = NavSrc.s_attr_cont.
Proof. exact NavSrcProofs.src_children_facts. Qed.
Print Assumptions C07_get_children_src.

(* non-vacuity of the bridges.  Grammar  X: C | Y;  Y: '(' X ')' | D;  C, D, E common  (cyclic _tx_inh_by):
   the recorded lists, and the type test through the C07 table.  Object tree: a root with a contained list
   [a; "text"; b{c}] and a reference slot: children a, b (and c below b); the reference is not followed. *)
Example C07_bridges_nonvacuous :
  (let g := [ {| Kinds.r_attrs := false; Kinds.r_body := Kinds.Body (Kinds.Choice [Kinds.Ref 2; Kinds.Ref 1]) |};
              {| Kinds.r_attrs := false; Kinds.r_body := Kinds.Body (Kinds.Choice [Kinds.Seq [Kinds.Term; Kinds.Ref 0; Kinds.Term]; Kinds.Ref 3]) |};
              {| Kinds.r_attrs := true; Kinds.r_body := Kinds.Body Kinds.Term |};
              {| Kinds.r_attrs := true; Kinds.r_body := Kinds.Body Kinds.Term |};
              {| Kinds.r_attrs := true; Kinds.r_body := Kinds.Body Kinds.Term |} ] in
   exists s, Kinds.determine_types g = Some s /\
     map (cinh) (table_of 5 (fun _ => []) (Kinds.inh s)) = [[2; 1]; [0; 3]; []; []; []] /\
     map (fun k => conforms (table_of 5 (fun _ => []) (Kinds.inh s)) [k] 0) [2; 3; 4] = [true; true; false]) /\
  (let cont := {| Nav.aname := [107]%N; Nav.acont := true; Nav.amany := true |} in
   let rf := {| Nav.aname := [114]%N; Nav.acont := false; Nav.amany := false |} in
   let c := Nav.Node 4 [67]%N [] in
   let a := Nav.Node 2 [65]%N [] in
   let b := Nav.Node 3 [66]%N [(cont, [c])] in
   let root := Nav.Node 1 [82]%N [(cont, [a; Nav.Prim 0 [120]%N; b]); (rf, [Nav.Ref 4])] in
   Nav.is_node root = true /\ NoDup (map Nav.obj_id (Nav.nodes root)) /\
   map (fun pn => fst pn) (collect (fun _ => true) (abs (fun c => length c) (fun _ => NoName) root))
   = [[]; [0]; [1]; [1; 0]]%nat).
Proof.
  split.
  - eexists. split; [vm_compute; reflexivity | split; reflexivity].
  - split; [reflexivity|]. split; [|reflexivity].
    vm_compute. repeat constructor; simpl; intuition discriminate.
Qed.
Print Assumptions C07_bridges_nonvacuous.
