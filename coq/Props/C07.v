(* C07 — default reference resolution finds the unique matching object. *)
From TxV Require Import Core.Base Model.PlainDefs Gen.SrcPlain Model.Plain Proofs.PlainProofs.

Theorem C07_dispatch : forall cands,
  dispatch plain_dispatch cands =
  match cands with [] => PNone | [pn] => POne (fst pn) | _ :: _ :: _ => PNotUnique end.
Proof. exact dispatch_spec. Qed.
Print Assumptions C07_dispatch.
