(* C24 - the self-hosted textX grammar (textx.tx) agrees with the grammar compiler (lang.py). *)
From TxV Require Import Core.Base Model.PegSyntax Model.Peg Model.PegEquiv Gen.SrcLangPeg Gen.SrcTxPeg.

(* Per-run obligation on the two LIVE parser models dumped from the source under test:
   every differing pair of parsing expressions is one of the committed accepted differences
   (known findings / undecidable notation differences); the dumps share one oracle numbering,
   labels are unambiguous, and neither parser memoizes. *)
Theorem C24_diffs :
  incl_b (diff_labels lang_labels tx_labels
            (peg_equiv_diffs (seeds_of lang_labels tx_labels textx_seeds) lang_grammar tx_grammar))
         textx_accepted_diffs = true
  /\ lang_oracles = tx_oracles
  /\ nodup_b lang_labels = true /\ nodup_b tx_labels = true
  /\ length lang_labels = length (g_nodes lang_grammar) /\ length tx_labels = length (g_nodes tx_grammar)
  /\ lang_memoization = false /\ tx_memoization = false
  /\ lang_config = tx_config.
Proof. vm_compute. repeat split. Qed.
Print Assumptions C24_diffs.
