(* C24 - the self-hosted textX grammar (textx.tx) agrees with the grammar compiler (lang.py).

   Full statement: for every text, the parser built from textx/textx.tx accepts it iff the grammar
   compiler's parser (textx/lang.py textx_model) does.  Both parsers are dumped per run into
   Gen/SrcLangPeg.v / Gen/SrcTxPeg.v and interpreted by the Arpeggio model Model/Peg.v; regular
   expressions are oracles shared by pattern text.

   What is proved here:
   - C24_check_sound / C24_rel_sound: the boolean checker Model/PegEquiv.v is sound against the
     interpreter model for EVERY pair of grammar tables, input, oracle, parser configuration and fuel
     (memoization off, which is how both parsers are built - checked in C24_diffs);
   - C24_diffs: on the current source every differing pair is an accepted one;
   - C24_textx_modulo_accepted: hence the two live parser models accept the same texts (and report the
     same error position) PROVIDED the accepted pairs are semantically related - which is false for
     the FINDING pairs (known findings) and unproved for the NOTATION pairs (see Model/PegEquiv.v,
     covered by the differential correspondence of tools/props/c24.py).  The unconditional
     statement for the textX pair is therefore NOT proved (it is false: 4 known findings). *)
From TxV Require Import Core.Base Model.PegSyntax Model.Peg Gen.SrcLangPeg Gen.SrcTxPeg
  Proofs.PegProofs Proofs.PegMemo Model.PegEquiv Proofs.PegEquivProofs Proofs.PegEquivAccProofs
  Proofs.PegEquivTextxProofs.

(* Soundness of the checker: no differing pair => same acceptance and same syntax-error position, for
   all inputs, configurations, all oracles satisfying the explicit hypothesis that the regular expressions
   listed in [ne] never match the empty string (ne = [] : no hypothesis), and all fuels for which neither
   run runs out of fuel. *)
Theorem C24_check_sound : forall ne seeds g1 g2,
  peg_equiv_diffs ne seeds g1 g2 = [] ->
  forall input orc cfg f1 f2, orc_nonempty ne orc ->
  run g1 cfg orc false f1 input <> Aborted 0 -> run g2 cfg orc false f2 input <> Aborted 0 ->
  accepts (run g1 cfg orc false f1 input) = accepts (run g2 cfg orc false f2 input)
  /\ (forall p, run g1 cfg orc false f1 input = SyntaxErr p <-> run g2 cfg orc false f2 input = SyntaxErr p).
Proof. exact diffs_sound_accepts. Qed.
Print Assumptions C24_check_sound.

(* Memoization on: for grammars in the class of C19's theorem (Proofs/PegMemo.v, ctx_constant) the same holds
   for the memoized interpreter.  The two textX tables are NOT in that class (they have a comment model):
   C24_textx_memo_class below records it, so memoization=True stays uncovered for the textX pair. *)
Theorem C24_check_sound_memo : forall ne seeds g1 g2,
  PegProofs.ctx_constant g1 = true -> PegProofs.ctx_constant g2 = true ->
  peg_equiv_diffs ne seeds g1 g2 = [] ->
  forall input orc cfg f1 f2, orc_nonempty ne orc ->
  PegMemo.not_aborted (run g1 cfg orc false f1 input) -> PegMemo.not_aborted (run g2 cfg orc false f2 input) ->
  accepts (run g1 cfg orc true f1 input) = accepts (run g2 cfg orc true f2 input)
  /\ (forall p, run g1 cfg orc true f1 input = SyntaxErr p <-> run g2 cfg orc true f2 input = SyntaxErr p).
Proof. exact diffs_sound_memo. Qed.
Print Assumptions C24_check_sound_memo.

Example C24_textx_memo_class :
  PegProofs.ctx_constant lang_grammar = false /\ PegProofs.ctx_constant tx_grammar = false.
Proof. exact textx_not_ctx_constant. Qed.
Print Assumptions C24_textx_memo_class.

(* Relative form, for ANY set R of node pairs: pairs that fail the local check may instead be assumed
   semantically related (sem_ok: related interpreter outcomes for all fuels, flags and states). *)
Theorem C24_rel_sound : forall g1 g2 ne R input orc,
  orc_nonempty ne orc ->
  frame_ok g1 g2 R = true ->
  (forall p, In p R -> local_ok g1 g2 ne false [] R p = true \/ sem_ok g1 g2 ne input orc p) ->
  forall cfg f1 f2, outcome_rel (run g1 cfg orc false f1 input) (run g2 cfg orc false f2 input).
Proof. exact rel_sound. Qed.
Print Assumptions C24_rel_sound.

(* Per-run obligation on the two LIVE parser models dumped from the source under test:
   every differing pair of parsing expressions is one of the committed accepted differences
   (known findings / undecidable notation differences); the dumps share one oracle numbering,
   labels are unambiguous, neither parser memoizes, same parser configuration. *)
Theorem C24_diffs :
  incl_b (diff_labels lang_labels tx_labels
            (peg_equiv_diffs textx_ne (seeds_of lang_labels tx_labels textx_seeds) lang_grammar tx_grammar))
         textx_accepted_diffs = true
  /\ lang_oracles = tx_oracles
  /\ nodup_b lang_labels = true /\ nodup_b tx_labels = true
  /\ length lang_labels = length (g_nodes lang_grammar) /\ length tx_labels = length (g_nodes tx_grammar)
  /\ lang_memoization = false /\ tx_memoization = false
  /\ lang_config = tx_config.
Proof. vm_compute. repeat split. Qed.
Print Assumptions C24_diffs.

(* The textX instance, modulo the accepted pairs, under the oracle hypothesis that `\w+` never matches empty
   (checked by the harness on every oracle table it builds). *)
Theorem C24_textx_modulo_accepted : forall input orc,
  orc_nonempty textx_ne orc ->
  (forall p, In p textx_R -> accepted_pair p = true -> sem_ok lang_grammar tx_grammar textx_ne input orc p) ->
  forall cfg f1 f2,
  outcome_rel (run lang_grammar cfg orc false f1 input) (run tx_grammar cfg orc false f2 input).
Proof. exact textx_modulo_accepted. Qed.
Print Assumptions C24_textx_modulo_accepted.

(* Non-vacuity: a grammar and its textX-style wrapped form pass the check (and are run on an accepted and
   a rejected input); changing one terminal is reported and does change acceptance. *)
Example C24_nonvacuous_equal :
  peg_equiv_diffs [] [] g_plain g_wrapped = [] /\
  accepts (run g_plain cfg0 no_orc false 50 [97; 32; 120; 120]%N) = true /\
  accepts (run g_wrapped cfg0 no_orc false 50 [97; 32; 120; 120]%N) = true /\
  accepts (run g_plain cfg0 no_orc false 50 [97; 121]%N) = false /\
  accepts (run g_wrapped cfg0 no_orc false 50 [97; 121]%N) = false.
Proof. exact witness_equal. Qed.
Print Assumptions C24_nonvacuous_equal.

Example C24_nonvacuous_different :
  peg_equiv_diffs [] [] g_plain g_other <> [] /\
  accepts (run g_plain cfg0 no_orc false 50 [97; 121]%N) = false /\
  accepts (run g_other cfg0 no_orc false 50 [97; 121]%N) = true.
Proof. exact witness_different. Qed.
Print Assumptions C24_nonvacuous_different.

(* `'[' 'x' (',' 'x')* ']'` vs `'[' 'x'+[','] ']'` and `'x' (',' 'x')*` vs `'x'+[',']` pass the check *)
Example C24_nonvacuous_separator :
  peg_equiv_diffs [] [] g_sep1 g_sep2 = [] /\ peg_equiv_diffs [] [] g_sep3 g_sep4 = [] /\
  accepts (run g_sep1 cfg0 no_orc false 60 [91; 120; 44; 32; 120; 93]%N) = true /\
  accepts (run g_sep2 cfg0 no_orc false 60 [91; 120; 44; 32; 120; 93]%N) = true /\
  accepts (run g_sep1 cfg0 no_orc false 60 [91; 120; 44; 93]%N) = false /\
  accepts (run g_sep2 cfg0 no_orc false 60 [91; 120; 44; 93]%N) = false /\
  accepts (run g_sep3 cfg0 no_orc false 60 [120; 44; 120; 44; 120]%N) = true /\
  accepts (run g_sep4 cfg0 no_orc false 60 [120; 44; 120; 44; 120]%N) = true.
Proof. exact witness_sep. Qed.
Print Assumptions C24_nonvacuous_separator.

Example C24_nonvacuous_swapped :
  peg_equiv_diffs [] [] g_wrapped g_plain = [] /\ peg_equiv_diffs [] [] g_other g_plain <> [].
Proof. exact witness_swapped. Qed.
Print Assumptions C24_nonvacuous_swapped.

Example C24_nonvacuous_memo :
  PegProofs.ctx_constant g_sep1 = true /\ PegProofs.ctx_constant g_sep2 = true /\
  accepts (run g_sep1 cfg0 no_orc true 60 [91; 120; 44; 32; 120; 93]%N) = true /\
  accepts (run g_sep2 cfg0 no_orc true 60 [91; 120; 44; 32; 120; 93]%N) = true.
Proof. exact witness_memo. Qed.
Print Assumptions C24_nonvacuous_memo.

(* the traversal of the textX pair covers 160+ pairs of parsing expressions, 13 of them accepted differences *)
Example C24_textx_pairs :
  frame_ok lang_grammar tx_grammar textx_R = true /\
  forallb (fun p => local_ok lang_grammar tx_grammar textx_ne false [] textx_R p || accepted_pair p) textx_R = true /\
  140 <= length textx_R /\ length (filter accepted_pair textx_R) <= 13.
Proof. vm_compute. repeat split; repeat constructor. Qed.
Print Assumptions C24_textx_pairs.

(* ---------------------------------------------------------------- ACCEPTANCE ONLY (the property's statement)
   The weak mode of the checker also sees through differences that only change the failure bookkeeping
   (parser.nm): an ordered choice of two regex matches against one regex match, under the explicit oracle
   hypothesis orc_alts (the single regex matches like the first alternative where that matches, else like
   the second) and non-emptiness.  The simulation relates states up to nm; the conclusion is equal
   acceptance (error positions are covered by C24_check_sound above, in strong mode).  Parser
   configurations with skipws on (the rule relies on the comment-position cache). *)
Theorem C24_check_sound_acc : forall ne alts seeds g1 g2,
  peg_equiv_diffs_acc ne alts seeds g1 g2 = [] ->
  forall input orc, orc_nonempty ne orc -> orc_alts alts orc ->
  forall cfg f1 f2, c_skipws cfg = true ->
  run g1 cfg orc false f1 input <> Aborted 0 -> run g2 cfg orc false f2 input <> Aborted 0 ->
  accepts (run g1 cfg orc false f1 input) = accepts (run g2 cfg orc false f2 input).
Proof. exact diffs_sound_acc. Qed.
Print Assumptions C24_check_sound_acc.

Theorem C24_rel_sound_acc : forall g1 g2 ne alts R input orc,
  orc_nonempty ne orc -> orc_alts alts orc ->
  frame_ok g1 g2 R = true ->
  (forall p, In p R -> local_ok g1 g2 ne true alts R p = true \/ sem_okW g1 g2 ne input orc p) ->
  forall cfg f1 f2, c_skipws cfg = true ->
  outcome_acc (run g1 cfg orc false f1 input) (run g2 cfg orc false f2 input).
Proof. exact rel_sound_acc. Qed.
Print Assumptions C24_rel_sound_acc.

(* per run: in weak mode the differing pairs of the two live models are within the 10 accepted ones
   (8 behind the four known findings, rrel_sequence, rrel_path.0) *)
Theorem C24_diffs_acc :
  incl_b (diff_labels lang_labels tx_labels
            (peg_equiv_diffs_acc textx_ne textx_alts (seeds_of lang_labels tx_labels textx_seeds) lang_grammar tx_grammar))
         textx_accepted_diffs_acc = true
  /\ length textx_accepted_diffs_acc = 10 /\ c_skipws lang_config = true
  /\ length textx_alts = length textx_alt_patterns.
Proof. vm_compute. repeat split. Qed.
Print Assumptions C24_diffs_acc.

(* the two live parser models accept the same texts, for every oracle satisfying the two checked hypotheses,
   PROVIDED the 10 accepted pairs are related (false for the 8 finding pairs, open for the 2 RREL notation pairs) *)
Theorem C24_textx_accepts_modulo_accepted : forall input orc,
  orc_nonempty textx_ne orc -> orc_alts textx_alts orc ->
  (forall p, In p textx_R -> accepted_pair_acc p = true -> sem_okW lang_grammar tx_grammar textx_ne input orc p) ->
  forall f1 f2,
  run lang_grammar lang_config orc false f1 input <> Aborted 0 ->
  run tx_grammar tx_config orc false f2 input <> Aborted 0 ->
  accepts (run lang_grammar lang_config orc false f1 input) = accepts (run tx_grammar tx_config orc false f2 input).
Proof. exact textx_accepts_modulo_accepted. Qed.
Print Assumptions C24_textx_accepts_modulo_accepted.

(* non-vacuity of the two oracle hypotheses and of the weak rule; the strong mode refuses the same pair *)
Example C24_nonvacuous_alts :
  orc_nonempty [0; 1] orc_ex /\ orc_alts [(0, 1, 2)] orc_ex /\
  peg_equiv_diffs_acc [0; 1] [(0, 1, 2)] [] g_c1 g_c2 = [] /\
  peg_equiv_diffs [0; 1] [] g_c1 g_c2 <> [] /\
  accepts (run g_c1 cfg0 orc_ex false 30 [98]%N) = true /\ accepts (run g_c2 cfg0 orc_ex false 30 [98]%N) = true /\
  accepts (run g_c1 cfg0 orc_ex false 30 [98; 98]%N) = false /\ accepts (run g_c2 cfg0 orc_ex false 30 [98; 98]%N) = false.
Proof. exact witness_alts. Qed.
Print Assumptions C24_nonvacuous_alts.

(* why `(x sep)* x` vs `x+[sep]` (the two RREL pairs) stays an accepted pair: the two forms differ AS NODES
   (on "x," the first fails, the second succeeds having consumed "x"), although the grammars around them agree *)
Example C24_tail_form_differs :
  peg_equiv_diffs_acc [] [] [] g_t1 g_t2 <> [] /\
  is_fail (parse g_t1 [120; 44]%N no_orc false 40 1 false (init_st cfg0)) = true /\
  ok_pos (parse g_t2 [120; 44]%N no_orc false 40 1 false (init_st cfg0)) = Some 1 /\
  accepts (run g_t1 cfg0 no_orc false 40 [120; 44]%N) = false /\ accepts (run g_t2 cfg0 no_orc false 40 [120; 44]%N) = false /\
  accepts (run g_t1 cfg0 no_orc false 40 [120; 44; 120]%N) = true /\ accepts (run g_t2 cfg0 no_orc false 40 [120; 44; 120]%N) = true.
Proof. exact tail_form_differs. Qed.
Print Assumptions C24_tail_form_differs.

(* the mirrored rule: one regex against a choice of two regexes of the second grammar, one of them wrapped *)
Example C24_nonvacuous_alts_r :
  peg_equiv_diffs_acc [0; 1] [(0, 1, 2)] [] g_c2 g_c3 = [] /\
  peg_equiv_diffs [0; 1] [] g_c2 g_c3 <> [] /\
  accepts (run g_c2 cfg0 orc_ex false 30 [98]%N) = true /\ accepts (run g_c3 cfg0 orc_ex false 30 [98]%N) = true /\
  accepts (run g_c2 cfg0 orc_ex false 30 [98; 98]%N) = false /\ accepts (run g_c3 cfg0 orc_ex false 30 [98; 98]%N) = false.
Proof. exact witness_alts_r. Qed.
Print Assumptions C24_nonvacuous_alts_r.
