(* C05 — containment links and the model navigation API are consistent.
   Model: Model/Nav.v (transcription of textx/model.py get_model, get_parent_of_type, get_children,
   get_children_of_type and of the `parent` assignment of process_node).  Hypotheses:
     uniq root            the model objects of the containment tree have distinct identities (Python id())
     no_parent_attr root  no grammar attribute is called `parent` (outside: known finding, see *_refuted) *)
From TxV Require Import Core.Base Gen.SrcNav Gen.SrcNavBody Model.Nav Model.NavSrc Model.NavCfg Model.NavParent Proofs.NavProofs Proofs.NavSrcProofs Proofs.NavCfgProofs Proofs.NavParentProofs.

(* Tie to the source (Gen/SrcNav.v is regenerated from textx/model.py on every run): the entry of
   parser._inst_stack that process_node assigns to `parent` is the top of the stack — the instance
   that was being built when this node was entered — and nothing when the stack is empty; the
   assignment happens after the children were processed and the node was popped; and the model's
   parent assignment is that function. *)
Theorem C05_src_parent :
  (forall top rest, src_parent_of_stack (top :: rest) = Some top) /\
  src_parent_of_stack [] = None /\
  (src_parent_tuple_index = src_stack_entry_inst_pos /\ src_parent_guard_nonempty = true /\ src_parent_after_pop = true) /\
  (forall stack slots, find_slot s_parent slots = None ->
     parent_attr stack slots = option_map PObj (src_parent_of_stack stack)).
Proof.
  split; [exact src_parent_top|]. split; [exact src_parent_empty|].
  split; [exact src_stack_facts | exact parent_attr_src].
Qed.
Print Assumptions C05_src_parent.

(* get_children descends only under `attr.cont`, and takes the single-value branch exactly for
   MULT_ONE and MULT_OPTIONAL (the two facts the model's follow_attrs transcribes). *)
Theorem C05_src_children :
  src_single_mults = [s_mult_one; s_mult_optional] /\ src_follow_guard = s_attr_cont.
Proof. exact src_children_facts. Qed.
Print Assumptions C05_src_children.

(* Tie of the function bodies (Gen/SrcNavBody.v is regenerated on every run): nav_tr.py matches the
   text of get_model / get_parent_of_type / get_children / get_children_of_type against the text the
   model transcribes and reports which alternative the source uses where the model hard-codes a
   choice (identity test on collected_ids, when the element is collected, `is not None` vs truth
   value in the single-valued and list branches, should_follow on the start object, loop test of
   get_model, whether get_parent_of_type tests the start object).  Model/NavCfg.v is the model with
   those choices as parameters; the main statements hold for the instance found in the source, for
   every truth-value and equality function of user objects. *)
Theorem C05_src_children_body : forall truthy eqv sel sf cf root,
  NoDup (map obj_id (walk sf cf root)) ->
  get_children_cfg src_gc_cfg truthy eqv sel root cf sf = filter sel (walk sf cf root).
Proof. exact src_children. Qed.
Print Assumptions C05_src_children_body.

Theorem C05_src_get_model_body : forall truthy_id root o fuel,
  uniq root -> no_parent_attr root = true -> In o (nodes root) -> length (nodes root) <= fuel ->
  get_model_cfg src_gm_loop truthy_id (heap_of root) fuel (obj_id o) = GObj (obj_id root).
Proof. exact src_get_model. Qed.
Print Assumptions C05_src_get_model_body.

Theorem C05_src_parent_of_type_body : forall root o,
  uniq root -> no_parent_attr root = true -> In o (nodes root) ->
  exists l, up_chain o l /\ last l o = root /\
    forall typ fuel, length (nodes root) <= fuel ->
      pot_cfg src_pot_test_start (heap_of root) fuel typ (obj_id o) = pres_of (find (cls_is typ) l).
Proof. exact src_parent_of_type. Qed.
Print Assumptions C05_src_parent_of_type_body.

(* the alternatives are not harmless: a truth-value test in the single-valued branch loses a falsy
   contained object; testing the start object makes get_parent_of_type return the object itself *)
Theorem C05_truthy_single_refuted :
  exists truthy root, uniq root /\
    get_children_cfg truthy_cfg truthy (fun _ _ => false) (fun _ => true) root false (fun _ => true)
    <> filter (fun _ => true) (walk (fun _ => true) false root).
Proof. exact truthy_single_breaks. Qed.
Print Assumptions C05_truthy_single_refuted.

Theorem C05_parent_of_type_test_start_refuted :
  exists root typ, uniq root /\ no_parent_attr root = true /\
    pot_cfg true (heap_of root) 6 typ 4 = PFound 4 /\ get_parent_of_type (heap_of root) 6 typ 4 = PNone.
Proof. exact test_start_breaks. Qed.
Print Assumptions C05_parent_of_type_test_start_refuted.

(* The root has no parent; every object held by a containment attribute of an object of the
   tree has exactly that object as its parent. *)
Theorem C05_parent : forall root,
  is_node root = true -> uniq root -> no_parent_attr root = true ->
  lookup (obj_id root) (heap_of root) = Some {| hcls := obj_cls root; hparent := None |} /\
  forall p c, In p (nodes root) -> cont_child p c ->
    lookup (obj_id c) (heap_of root) = Some {| hcls := obj_cls c; hparent := Some (PObj (obj_id p)) |}.
Proof. exact parent_links. Qed.
Print Assumptions C05_parent.

(* get_model returns the root for every object of the tree (the loop ends within size-many steps). *)
Theorem C05_get_model : forall root o fuel,
  uniq root -> no_parent_attr root = true -> In o (nodes root) -> length (nodes root) <= fuel ->
  get_model (heap_of root) fuel (obj_id o) = GObj (obj_id root).
Proof. exact get_model_every_object. Qed.
Print Assumptions C05_get_model.

(* get_parent_of_type returns the nearest object of the chain of containers [l] of o (nearest
   first, ending in the root) whose class name is typ, and None if there is none. *)
Theorem C05_parent_of_type : forall root o,
  uniq root -> no_parent_attr root = true -> In o (nodes root) ->
  exists l, up_chain o l /\ last l o = root /\
    forall typ fuel, length (nodes root) <= fuel ->
      get_parent_of_type (heap_of root) fuel typ (obj_id o) = pres_of (find (cls_is typ) l).
Proof. exact parent_of_type_every_object. Qed.
Print Assumptions C05_parent_of_type.

(* get_children = the selected objects of the pre-order (children_first: post-order) walk of the
   containment tree pruned by should_follow, for every selector and should_follow, from every
   start object whose walked objects have distinct identities. *)
Theorem C05_children : forall sel sf cf root,
  NoDup (map obj_id (walk sf cf root)) ->
  get_children sel root cf sf = filter sel (walk sf cf root).
Proof. exact get_children_walk. Qed.
Print Assumptions C05_children.

(* ... hence exactly the objects reachable from root through containment links accepted by
   should_follow that satisfy the selector, each exactly once.  [reach] only follows
   containment slots: references never contribute. *)
Theorem C05_children_exact : forall sel sf cf root,
  uniq root ->
  NoDup (map obj_id (get_children sel root cf sf)) /\
  forall o, In o (get_children sel root cf sf) <-> reach sf root o /\ sel o = true.
Proof. exact get_children_exact. Qed.
Print Assumptions C05_children_exact.

(* Order: if b is any object of the containment subtree of a (a <> b) and both are returned, a comes
   before b — with children_first, after b.  (In a tree with distinct identities a returned object
   below a can only have been reached through a: walked_descendant_reached.) *)
Theorem C05_children_order : forall sel sf cf root a b,
  uniq root -> In b (nodes a) -> a <> b ->
  In a (get_children sel root cf sf) -> In b (get_children sel root cf sf) ->
  exists l1 l2 l3,
    get_children sel root cf sf =
    if cf then l1 ++ b :: l2 ++ a :: l3 else l1 ++ a :: l2 ++ b :: l3.
Proof. exact children_order_desc. Qed.
Print Assumptions C05_children_order.

Theorem C05_children_of_type : forall t sf cf root,
  uniq root ->
  get_children_of_type t root cf sf = filter (cls_is (typ_name t)) (walk sf cf root).
Proof. intros t sf cf root H. exact (get_children_uniq (cls_is (typ_name t)) sf cf root H). Qed.
Print Assumptions C05_children_of_type.

(* Emptying every reference attribute of the model changes nothing (no identity hypothesis). *)
Theorem C05_children_strip : forall sel sf cf root,
  (forall x, sel (strip x) = sel x) -> (forall x, sf (strip x) = sf x) ->
  get_children sel (strip root) cf sf = map strip (get_children sel root cf sf).
Proof. intros sel sf cf root H1 H2. exact (get_children_strip sel sf cf H1 H2 root). Qed.
Print Assumptions C05_children_strip.

(* Two models that differ only in their reference attributes yield the same objects. *)
Theorem C05_refs_irrelevant : forall (p q : head -> bool) cf r1 r2,
  strip r1 = strip r2 ->
  map head_of (get_children (fun o => p (head_of o)) r1 cf (fun o => q (head_of o))) =
  map head_of (get_children (fun o => p (head_of o)) r2 cf (fun o => q (head_of o))).
Proof. exact refs_irrelevant. Qed.
Print Assumptions C05_refs_irrelevant.

(* Without no_parent_attr the statement is false in the model as in the code: with a root-rule
   attribute `parent=INT`, get_model(root) is the attribute's value. *)
Theorem C05_get_model_parent_attr_refuted : exists root,
  is_node root = true /\ uniq root /\
  get_model (heap_of root) (S (length (nodes root))) (obj_id root) <> GObj (obj_id root).
Proof.
  exists ex_parent_attr. split; [reflexivity|]. split; [apply uniq_b_sound; vm_compute; reflexivity|].
  vm_compute. discriminate.
Qed.
Print Assumptions C05_get_model_parent_attr_refuted.

(* The known finding, stated over the model with Python's reading of an attribute called `parent`
   (Model/NavParent.v: getattr(elem, "parent") is what the heap holds, not the slot value).
   (1) Where no attribute is called `parent` that reading changes nothing: the traversal over the
   Python attributes is the tree recursion of Model/Nav.v, for any heap and any recursion limit
   above the size of the subtree — so the classifier's class is exactly where the tree model
   stops being the code. *)
Theorem C05_getattr_model_exact : forall root h sel sf cf elem,
  no_parent_attr elem = true ->
  forall fuel st, length (nodes elem) < fuel ->
    followp root h fuel sel sf cf elem st = FOk (follow sel sf cf elem st).
Proof. exact followp_follow. Qed.
Print Assumptions C05_getattr_model_exact.

(* (2) a containment attribute `parent=INT` of a nested rule: the traversal made on every load
   (from the root, nothing selected) exceeds Python's recursion limit — the model cannot be loaded
   (corpus/C05/parent_attr_nested.json: RecursionError) *)
Theorem C05_parent_attr_nested_refuted :
  uniq ex_parent_nested /\
  followp ex_parent_nested (heap_of ex_parent_nested) 1000 (fun _ => false) (fun _ => true) false
          ex_parent_nested ([], []) = FRecursion.
Proof. exact parent_nested_symptom. Qed.
Print Assumptions C05_parent_attr_nested_refuted.

(* (3) a list attribute `parent+=R2` of a nested rule: get_children iterates over the container
   object (corpus/C05/parent_attr_list.json: TypeError "object is not iterable") *)
Theorem C05_parent_attr_list_refuted :
  uniq ex_parent_list /\
  followp ex_parent_list (heap_of ex_parent_list) 1000 (fun _ => false) (fun _ => true) false
          ex_parent_list ([], []) = FTypeError.
Proof. exact parent_list_symptom. Qed.
Print Assumptions C05_parent_attr_list_refuted.

(* (4) a reference `parent=[R1]`: the resolved reference replaces the container link, and two
   objects referring to each other make get_model run forever (every fuel is exhausted)
   (corpus/C05/parent_attr_reference.json) *)
Theorem C05_parent_attr_reference_refuted :
  uniq ex_parent_ref /\
  lookup 1 (heap_of ex_parent_ref) = Some {| hcls := [82;49]%N; hparent := Some (PObj 2) |} /\
  forall fuel, get_model (heap_of ex_parent_ref) fuel 1 = GFuel.
Proof. exact parent_reference_symptom. Qed.
Print Assumptions C05_parent_attr_reference_refuted.

(* non-vacuity: a tree with nested containment and a back reference satisfies the hypotheses *)
Example C05_nonvacuous_hyps :
  uniq ex_tree /\ no_parent_attr ex_tree = true /\ map obj_id (nodes ex_tree) = [0; 1; 2; 3; 4]%N.
Proof. split; [apply uniq_b_sound; vm_compute; reflexivity | split; vm_compute; reflexivity]. Qed.
Print Assumptions C05_nonvacuous_hyps.

Example C05_nonvacuous_parent :
  map (fun id => lookup id (heap_of ex_tree)) [0; 2; 4]%N =
  [Some {| hcls := [77]; hparent := None |}; Some {| hcls := [73]; hparent := Some (PObj 1) |};
   Some {| hcls := [65]; hparent := Some (PObj 3) |}]%N.
Proof. vm_compute. reflexivity. Qed.
Print Assumptions C05_nonvacuous_parent.

Example C05_nonvacuous_up :
  get_model (heap_of ex_tree) 5 4 = GObj 0 /\
  get_parent_of_type (heap_of ex_tree) 5 [66]%N 4 = PFound 3 /\
  get_parent_of_type (heap_of ex_tree) 5 [65]%N 4 = PNone.
Proof. vm_compute. repeat split. Qed.
Print Assumptions C05_nonvacuous_up.

Example C05_nonvacuous_children :
  map obj_id (get_children (cls_is [65]%N) ex_tree false (fun _ => true)) = [1; 4]%N /\
  map obj_id (get_children (fun _ => true) ex_tree true (fun _ => true)) = [2; 1; 4; 3; 0]%N /\
  map obj_id (get_children (fun _ => true) ex_tree false (fun o => negb (cls_is [66]%N o))) = [0; 1; 2]%N.
Proof. vm_compute. repeat split. Qed.
Print Assumptions C05_nonvacuous_children.
