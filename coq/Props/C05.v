(* C05 — containment links and the model navigation API are consistent. *)
From TxV Require Import Core.Base Model.Nav Proofs.NavProofs.

(* get_children returns exactly the selected objects of the pre-order (children_first: post-order)
   walk of the containment tree pruned by should_follow, for every selector, every should_follow
   and every tree whose walked objects have distinct identities. *)
Theorem C05_children : forall sel sf cf root,
  NoDup (map obj_id (walk sf cf root)) ->
  get_children sel root cf sf = filter sel (walk sf cf root).
Proof. exact get_children_walk. Qed.
Print Assumptions C05_children.
