(* C28 — model loading errors point at the offending text.
   fs = the loaded models (index 0 = main model, the others imported): file name (None for strings)
   and text.  located_at fs m pos = {file name of model m; line/col of offset pos in the text of
   model m, computed by the independent walk linecol_spec}.  The *_desc / importuri_relocates values
   are regenerated from textx/model.py and textx/scoping/providers.py on every run. *)
From TxV Require Import Core.Base Model.PegSyntax Model.Peg Model.Build.
From TxV Require Import Model.ErrLoc Gen.SrcLoc Proofs.ErrLocProofs Proofs.ErrLocSrcProofs Model.ErrLocLoad Proofs.ErrLocLoadProofs.
From TxV Require Import Proofs.PegTerm Proofs.ErrLocBoundProofs.

(* Arpeggio's pos_to_linecol (cached line ends + bisect) is exact for EVERY text and offset *)
Theorem C28_linecol_exact : forall t pos, pos <= length t ->
  ErrLoc.pos_to_linecol t pos = linecol_spec t pos.
Proof. exact pos_to_linecol_exact. Qed.
Print Assumptions C28_linecol_exact.

(* the modelled bisect_left is the binary search on the (ascending) line-end table *)
Theorem C28_bisect_binary_search : forall t pos,
  bisect_bs (length (line_ends t)) (line_ends t) pos 0 (length (line_ends t)) = bisect_left (line_ends t) pos.
Proof. exact bisect_is_binary_search. Qed.
Print Assumptions C28_bisect_binary_search.

(* no natural-number subtraction of the model truncates (Python ints would go negative) *)
Theorem C28_no_underflow : forall t pos, pos <= length t ->
  0 < bisect_left (line_ends t) pos ->
  nth (bisect_left (line_ends t) pos - 1) (line_ends t) 0 < pos.
Proof. exact pos_to_linecol_no_underflow. Qed.
Print Assumptions C28_no_underflow.

(* a (line, col) pair names one offset only: the reported location identifies the offending text *)
Theorem C28_linecol_injective : forall t p1 p2, p1 <= length t -> p2 <= length t ->
  linecol_spec t p1 = linecol_spec t p2 -> p1 = p2.
Proof. exact linecol_injective. Qed.
Print Assumptions C28_linecol_injective.

(* the four error kinds: file = file containing the offending text, line/col = its place in that file *)
Theorem C28_located_syntax : forall fs m pos, in_text fs m pos ->
  syntax_error syntax_desc fs m pos = located_at fs m pos.
Proof. exact syntax_located. Qed.
Print Assumptions C28_located_syntax.

Theorem C28_located_unknown : forall fs m pos, in_text fs m pos ->
  unknown_error unknown_desc fs m pos = located_at fs m pos.
Proof. exact unknown_located. Qed.
Print Assumptions C28_located_unknown.

(* unresolvable: the error is located at the last unresolvable reference, in ITS file, and every
   "at (line, col)" of the message is the place of that reference in its own file *)
Theorem C28_located_unresolvable : forall fs delayed last_m last_pos front,
  delayed = front ++ [(last_m, last_pos)] ->
  Forall (fun x => in_text fs (fst x) (snd x)) delayed ->
  unresolvable_error unresolvable_desc fs delayed =
  (Some (located_at fs last_m last_pos),
   map (fun x => let r := located_at fs (fst x) (snd x) in (r_line r, r_col r)) delayed).
Proof. exact unresolvable_located. Qed.
Print Assumptions C28_located_unresolvable.

(* not unique: whichever model the provider was searching (the referencing one, or an imported one
   via ImportURI), the error is at the reference *)
Theorem C28_located_nonunique : forall fs m searched pos via_import,
  in_text fs m pos -> (via_import = false -> searched = m) ->
  nonunique_error nonunique_desc importuri_relocates fs m searched pos via_import = located_at fs m pos.
Proof. exact nonunique_located. Qed.
Print Assumptions C28_located_nonunique.

(* non-vacuity: a reference in an imported file (model 1) of a two-file load; text "ab\n\nxy z", offset 7 *)
Example C28_nonvacuous :
  let fs := [ {| s_name := Some [109]%N; s_text := [10;10;10;10;10;10;10;10;10]%N |};
              {| s_name := Some [98]%N; s_text := [97;98;10;10;120;121;32;122]%N |} ] in
  in_text fs 1 7 /\
  unresolvable_error unresolvable_desc fs [(0, 3); (1, 7)] =
    (Some {| r_file := Some [98]%N; r_line := Some 3; r_col := Some 4; r_nchar := None |},
     [(Some 4, Some 1); (Some 3, Some 4)]) /\
  nonunique_error nonunique_desc importuri_relocates fs 0 1 3 true =
    {| r_file := Some [109]%N; r_line := Some 4; r_col := Some 1; r_nchar := None |}.
Proof. vm_compute. repeat split; try reflexivity. repeat constructor. Qed.
Print Assumptions C28_nonvacuous.

(* ---- composed with the interpreter model (Model/Peg.v): the offset is no longer an input.
   For EVERY dumped grammar table, config, regex oracle, memoization flag, fuel and file list: when the
   interpreter rejects the text of model m, its failure position p (NoMatch.position = furthest failure,
   Peg.run = SyntaxErr p) is where the TextXSyntaxError is located: file of m, line/col of p in m's text.
   (in_text: p <= length; the interpreter never leaves the text when the oracle does not, which is not
   proved here and therefore a hypothesis.) *)
Theorem C28_syntax_error_at_interpreter_failure : forall g c orc memo fuel fs m,
  match Peg.run g c orc memo fuel (s_text (file_at fs m)) with
  | SyntaxErr p =>
      in_text fs m p -> load_syntax_error syntax_desc g c orc memo fuel fs m = Some (located_at fs m p)
  | _ => load_syntax_error syntax_desc g c orc memo fuel fs m = None
  end.
Proof. exact load_syntax_error_spec. Qed.
Print Assumptions C28_syntax_error_at_interpreter_failure.

(* grammar  M: 'a' EOF  on the text "\na\n b": the interpreter fails at offset 4 = line 3, column 2 *)
Example C28_syntax_composed_nonvacuous :
  let g := mkGrammar [mkNode KSeq [1;2] None false [] false false None None;
                      mkNode (KStr [97]%N None) [] None false [] false false None None;
                      mkNode KEOF [] None false [] false false None None] 0 None in
  let fs := [ {| s_name := Some [109]%N; s_text := [10;97;10;32;98]%N |} ] in
  Peg.run g (mkConfig true [32;10]%N) (fun _ _ => None) false 20 (s_text (file_at fs 0)) = SyntaxErr 4 /\
  load_syntax_error syntax_desc g (mkConfig true [32;10]%N) (fun _ _ => None) false 20 fs 0
  = Some {| r_file := Some [109]%N; r_line := Some 3; r_col := Some 2; r_nchar := None |}.
Proof. vm_compute. split; reflexivity. Qed.
Print Assumptions C28_syntax_composed_nonvacuous.

(* the pos_to_linecol of Model/Build.v (C06) and the one used here are the same function, everywhere *)
Theorem C28_linecol_models_agree : forall input p, Build.pos_to_linecol input p = ErrLoc.pos_to_linecol input p.
Proof. exact linecol_models_agree. Qed.
Print Assumptions C28_linecol_models_agree.

(* the same without the bound on p: for every grammar table, config, memo flag, fuel, file list and every oracle
   whose matches stay inside the text (orc_sane, Proofs/PegTerm.v), a rejected parse of model m yields exactly the
   error located at m's file name and line/col of the interpreter's failure position (which lies inside the
   text: Proofs/PegErrPos.v run_syntaxerr_in_text); every other outcome yields no syntax error *)
Theorem C28_syntax_error_at_interpreter_failure_sane : forall g c orc memo fuel fs m,
  orc_sane g (s_text (file_at fs m)) orc ->
  match Peg.run g c orc memo fuel (s_text (file_at fs m)) with
  | SyntaxErr p => load_syntax_error syntax_desc g c orc memo fuel fs m = Some (located_at fs m p)
  | _ => load_syntax_error syntax_desc g c orc memo fuel fs m = None
  end.
Proof. exact load_syntax_error_sane. Qed.
Print Assumptions C28_syntax_error_at_interpreter_failure_sane.

(* non-vacuity: the oracle without matches is sane for the grammar of C28_syntax_composed_nonvacuous, whose
   parse of "\na\n b" is rejected at offset 4 *)
Example C28_syntax_sane_nonvacuous :
  let g := mkGrammar [mkNode KSeq [1;2] None false [] false false None None;
                      mkNode (KStr [97]%N None) [] None false [] false false None None;
                      mkNode KEOF [] None false [] false false None None] 0 None in
  let fs := [ {| s_name := Some [109]%N; s_text := [10;97;10;32;98]%N |} ] in
  let orc := fun (_ _ : nat) => @None nat in
  orc_sane g (s_text (file_at fs 0)) orc /\
  Peg.run g (mkConfig true [32;10]%N) orc false 20 (s_text (file_at fs 0)) = SyntaxErr 4.
Proof. cbv zeta. split; [split; intros; discriminate | vm_compute; reflexivity]. Qed.
Print Assumptions C28_syntax_sane_nonvacuous.
