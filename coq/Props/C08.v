(* C08 — reference lists keep the textual order of the references. *)
From Coq Require Import Sorting.Sorted.
From TxV Require Import Core.Base Gen.SrcResolve Model.Resolve Proofs.ResolveOrderProofs Proofs.ResolveRetryProofs.

(* [load] is the resolver model instantiated with the facts that tools/translate/resolve_tr.py
   reads from textx/model.py on every run (Gen/SrcResolve.v).  C08_order is proved for ANY value of
   the facts it does not need: it depends on list_store_by_position (insertion by text position)
   and, for "every reference is resolved", on error_condition; the re-queue order only feeds
   C08_retry_order. *)

(* For EVERY scope provider — any function of the reference and of the whole load history,
   hence every postponement schedule — and every distribution of the references over
   models: if the load succeeds, each list attribute (slot) holds exactly the targets of
   its references, in the order of the positions of the reference texts, and every
   reference is resolved.  Hypotheses: reference identities are unique and the references
   of one list attribute are collected in increasing text position (what the parser does). *)
Theorem C08_order : forall (ans : provider) models st,
  NoDup (map xid (concat models)) ->
  (forall s, StronglySorted lt (map xpos (filter (inslot s) (concat models)))) ->
  load ans models = Ok st ->
  (forall x, In x (concat models) -> tgt st (xid x) <> None) /\
  (forall s, lists st s = map (entry st) (filter (inslot s) (concat models))).
Proof. exact order_preserved. Qed.
Print Assumptions C08_order.

(* The same list property at every end of a load, successful or not: each list attribute holds the
   targets of the references resolved so far, in textual order.  Needs only the fact
   list_store_by_position (Proofs/ResolveOrderProofs.v). *)
Theorem C08_order_always : forall (ans : provider) models st,
  NoDup (map xid (concat models)) ->
  (forall s, StronglySorted lt (map xpos (filter (inslot s) (concat models)))) ->
  (load ans models = Ok st \/ exists lf, load ans models = Unresolvable lf st) ->
  forall s, lists st s = map (entry st) (filter (fun x => (inslot s x && resolved st x)%bool) (concat models)).
Proof. exact order_always. Qed.
Print Assumptions C08_order_always.

(* The retry queue keeps the textual order: after one pass over a model's pending references
   (any provider, any state) the new pending list is exactly the list of delayed references and it
   is the pending list with the resolved references removed - nothing reordered.  Needs only the
   facts postponed_requeued_at_front = postponed_reported_at_front = false
   (Proofs/ResolveRetryProofs.v); C08_order does not depend on them. *)
Theorem C08_retry_order : forall (ans : provider) pend st st' np d c,
  step ans pend st = Some (st', np, d, c) -> np = d /\ sub np pend.
Proof. exact retry_order. Qed.
Print Assumptions C08_retry_order.

(* non-vacuity: list a,b,c with a postponed twice and c once, kept alive by two scalars *)
Definition mk i s m p := {| xid := i; xslot := s; xmany := m; xpos := p; xtgt := 10 + i; xdeps := []; xnever := false |}.
Definition demo_models := [[mk 0 0 true 0; mk 1 0 true 1; mk 2 0 true 2;
                            {| xid := 3; xslot := 1; xmany := false; xpos := 3; xtgt := 13; xdeps := [4]; xnever := false |};
                            mk 4 2 false 4]].
Definition demo_delay (i : nat) := match i with 0 => 2 | 2 => 1 | _ => 0 end.
Example C08_nonvacuous :
  match load (table_ans demo_delay) demo_models with
  | Ok st => lists st 0 = [(0, 10); (1, 11); (2, 12)] /\ rev (log st) = [0;1;2;3;4; 0;2;3; 0]
  | _ => False
  end.
Proof. vm_compute. split; reflexivity. Qed.
Print Assumptions C08_nonvacuous.
Example C08_retry_nonvacuous :
  match step (table_ans demo_delay) (hd [] demo_models) init with
  | Some (_, np, d, c) => map xid np = [0; 2; 3] /\ map xid d = [0; 2; 3] /\ c = 2
  | None => False
  end.
Proof. vm_compute. repeat split; reflexivity. Qed.
Print Assumptions C08_retry_nonvacuous.
