From TxV Require Import Core.Base Model.Resolve.
Example C08_placeholder : insert_pos 2 7 [(1,5);(3,6)] = [(1,5);(2,7);(3,6)].
Proof. reflexivity. Qed.
Print Assumptions C08_placeholder.
