(* C10 — the FQN scope provider resolves only genuine qualified names.

   Model: Model/Fqn.v (find_obj / _find_obj_fqn / _find_referenced_obj of textx/scoping/providers.py over
   object tables in __dict__ order); the attribute filter of find_obj is Gen.SrcFqn.src_walked, translated
   from the current source on every run, so every theorem below is re-proved against it.

   wf_model m   : every object's __dict__ consists of declared attributes (ordinary names, not callable),
                  the `parent` link and `_tx_*` entries; parents precede children in the table (decidable,
                  evaluated on every dumped implementation model by the check).
   contains / chain / scope_at / resolves_to / unresolvable : the specification (Model/Fqn.v). *)
From TxV Require Import Core.Base Model.FqnDefs Gen.SrcFqn Model.Fqn Model.FqnExt Model.FqnWitness Proofs.FqnProofs Proofs.FqnExtProofs.

(* Sibling names unique: a dotted name resolves to t exactly when t ends the chain of named, contained
   objects matching its parts that starts at the nearest of [referrer, parent, grand-parent, ...] having
   such a chain ending in an object of the target type. *)
Theorem C10_fqn : forall conf m r text T t,
  wf_model m = true -> r < length m -> siblings_unique m ->
  (fqn_resolve conf m r text T = Found t <-> resolves_to conf m r (split_dots text) T t).
Proof. intros conf m r text T t Hwf Hr Hu. exact (fqn_resolves_on conf m r text T t Hwf Hr (siblings_unique_on m _ Hu)). Qed.
Print Assumptions C10_fqn.

(* ... and is reported unknown exactly when no scope has such a chain. *)
Theorem C10_fqn_unknown : forall conf m r text T,
  wf_model m = true -> r < length m -> siblings_unique m ->
  (fqn_resolve conf m r text T = Unknown <-> unresolvable conf m r (split_dots text) T).
Proof. intros conf m r text T Hwf Hr Hu. exact (fqn_unknown_on conf m r text T Hwf Hr (siblings_unique_on m _ Hu)). Qed.
Print Assumptions C10_fqn_unknown.

(* The same under the weaker hypothesis that sibling names are unique for the names occurring in the text. *)
Theorem C10_fqn_on : forall conf m r text T t,
  wf_model m = true -> r < length m -> unique_on m (split_dots text) ->
  (fqn_resolve conf m r text T = Found t <-> resolves_to conf m r (split_dots text) T t).
Proof. exact fqn_resolves_on. Qed.
Print Assumptions C10_fqn_on.

Theorem C10_fqn_unknown_on : forall conf m r text T,
  wf_model m = true -> r < length m -> unique_on m (split_dots text) ->
  (fqn_resolve conf m r text T = Unknown <-> unresolvable conf m r (split_dots text) T).
Proof. exact fqn_unknown_on. Qed.
Print Assumptions C10_fqn_unknown_on.

(* The search always terminates with one of the two answers (the fuel of the model is never exhausted). *)
Theorem C10_fqn_total : forall conf m r text T,
  wf_model m = true -> r < length m -> fqn_resolve conf m r text T <> OutOfFuel.
Proof. exact fqn_total. Qed.
Print Assumptions C10_fqn_total.

(* Without any uniqueness assumption: whatever is resolved ends a genuine containment chain from the referrer
   or one of its ancestors -- never a walk through `parent` or a non-containment reference. *)
Theorem C10_only_genuine : forall conf m r text T t,
  wf_model m = true -> fqn_resolve conf m r text T = Found t ->
  exists i s, scope_at m r i s /\ chain m s (split_dots text) t /\ conforms conf m t T = true.
Proof. exact fqn_only_genuine. Qed.
Print Assumptions C10_only_genuine.

(* The answer does not depend on the values of non-containment references (which of them are already
   resolved, and to what). *)
Theorem C10_references_irrelevant : forall conf m m' r text T,
  wf_model m = true -> wf_model m' = true -> erase_refs m = erase_refs m' ->
  fqn_resolve conf m r text T = fqn_resolve conf m' r text T.
Proof. exact fqn_refs_irrelevant. Qed.
Print Assumptions C10_references_irrelevant.

(* Every dotted text over dot-free names denotes exactly its parts. *)
Theorem C10_dotted_text : forall parts,
  parts <> [] -> Forall (fun p => ~ In 46%N p) parts -> split_dots (join_dots parts) = parts.
Proof. exact split_join. Qed.
Print Assumptions C10_dotted_text.

(* decidable sibling uniqueness used by the check and the examples *)
Theorem C10_unique_b_sound : forall m, unique_b m = true -> siblings_unique m.
Proof. exact unique_b_sound. Qed.
Print Assumptions C10_unique_b_sound.

(* The filter before the repair (walk every instance attribute) violates the statement: `c.p.c` resolves
   through c.parent, `p.d.c` through the resolved reference d.base (both replayed on the implementation
   by corpus/C10; fixed in textX). *)
Theorem C10_old_filter_refuted_parent_link :
  wf_model w1 = true /\ siblings_unique w1 /\ 3 < length w1 /\
  fqn_resolve_with old_walked wconf w1 3 t_cpc 2 = Found 2 /\ unresolvable wconf w1 3 (split_dots t_cpc) 2.
Proof. exact old_filter_refuted_parent. Qed.
Print Assumptions C10_old_filter_refuted_parent_link.

Theorem C10_old_filter_refuted_reference :
  wf_model w2 = true /\ siblings_unique w2 /\ 4 < length w2 /\
  fqn_resolve_with old_walked wconf w2 4 t_pdc 5 = Found 2 /\ unresolvable wconf w2 4 (split_dots t_pdc) 5.
Proof. exact old_filter_refuted_reference. Qed.
Print Assumptions C10_old_filter_refuted_reference.

(* ---- non-vacuity: the hypotheses hold on real dumped models and the conclusions are not trivial *)
(* C10_fqn / C10_fqn_on / C10_only_genuine / C10_fqn_total: `c` from class d resolves through the parent scope p *)
Example C10_nonvacuous_resolves :
  wf_model w2 = true /\ unique_b w2 = true /\ 3 < length w2 /\ fqn_resolve wconf w2 3 [99]%N 2 = Found 2
  /\ fqn_resolve wconf w2 4 [112;46;99]%N 5 = Found 2.
Proof. vm_compute. repeat split; try reflexivity; lia. Qed.
Print Assumptions C10_nonvacuous_resolves.

(* C10_fqn_unknown / C10_fqn_unknown_on: with the current filter the two spurious names are unknown *)
Example C10_nonvacuous_unknown :
  wf_model w1 = true /\ unique_b w1 = true /\ fqn_resolve wconf w1 3 t_cpc 2 = Unknown
  /\ fqn_resolve wconf w2 4 t_pdc 5 = Unknown.
Proof. vm_compute. repeat split; reflexivity. Qed.
Print Assumptions C10_nonvacuous_unknown.

(* C10_references_irrelevant: two different resolution states of the same model *)
Example C10_nonvacuous_references :
  wf_model w2 = true /\ wf_model w2' = true /\ erase_refs w2 = erase_refs w2' /\ w2 <> w2'.
Proof. split; [vm_compute; reflexivity|]. split; [vm_compute; reflexivity|]. split; [vm_compute; reflexivity|]. discriminate. Qed.
Print Assumptions C10_nonvacuous_references.

Example C10_nonvacuous_dotted : split_dots (join_dots [[112];[100];[99]]%N) = [[112];[100];[99]]%N /\ join_dots [[112];[100];[99]]%N = t_pdc.
Proof. vm_compute. split; reflexivity. Qed.
Print Assumptions C10_nonvacuous_dotted.

(* ================================================================== extensions *)

(* ---- what C10 means for objects that are not (only) textX objects.  The provider walks an attribute
   exactly when its name is public (no `__`/`_tx_` prefix, not `parent`), its value is not callable and, if
   it is a declared textX attribute, it is a containment attribute.  So for plain Python objects and for
   attributes added by user code "contained" means: value of any public, non-callable attribute. *)
Theorem C10_walked_meaning : forall a, src_walked a = walked_meaning a.
Proof. exact src_walked_meaning. Qed.
Print Assumptions C10_walked_meaning.

(* With `contains_w` (value of a walked attribute) in place of `contains`, C10_fqn holds for EVERY object
   table whose parent links point to earlier objects -- no assumption on the attributes at all. *)
Theorem C10_fqn_walked : forall conf m r text T t,
  parents_decrease m = true -> r < length m -> unique_on_w m (split_dots text) ->
  (fqn_resolve conf m r text T = Found t <-> resolves_g m (good_w conf m (split_dots text) T) r t).
Proof. exact fqn_resolves_w. Qed.
Print Assumptions C10_fqn_walked.

Theorem C10_fqn_walked_unknown : forall conf m r text T,
  parents_decrease m = true -> r < length m -> unique_on_w m (split_dots text) ->
  (fqn_resolve conf m r text T = Unknown <-> unresolvable_g m (good_w conf m (split_dots text) T) r).
Proof. exact fqn_unknown_w. Qed.
Print Assumptions C10_fqn_walked_unknown.

Theorem C10_fqn_walked_total : forall conf m r text T,
  parents_decrease m = true -> r < length m -> fqn_resolve conf m r text T <> OutOfFuel.
Proof. exact fqn_total_w. Qed.
Print Assumptions C10_fqn_walked_total.

(* no hypothesis at all: whatever is found ends a chain over walked attributes from the referrer or an ancestor *)
Theorem C10_walked_genuine : forall conf m r text T t,
  fqn_resolve conf m r text T = Found t ->
  exists i s, scope_at m r i s /\ chain_w m s (split_dots text) t /\ conforms conf m t T = true.
Proof. exact fqn_genuine_w. Qed.
Print Assumptions C10_walked_genuine.

(* for textX objects the two notions coincide *)
Theorem C10_walked_is_containment : forall m o c, wf_model m = true -> (contains_w m o c <-> contains m o c).
Proof. exact contains_w_wf. Qed.
Print Assumptions C10_walked_is_containment.

(* ---- FQNImportURI / FQNGlobalRepo (ImportURI.__call__ around FQN): the same search is started at the
   referring object, then at every local model, then at every builtin model (order translated from the
   source); the answer is that of the first start at which the single-model specification resolves. *)
Theorem C10_import_order : forall r locals builtins, search_starts r locals builtins = r :: locals ++ builtins.
Proof. exact search_starts_eq. Qed.
Print Assumptions C10_import_order.

Theorem C10_import_fqn : forall conf m r locals builtins text T t,
  wf_model m = true -> Forall (fun s => s < length m) (r :: locals ++ builtins) -> siblings_unique m ->
  (fqn_import_resolve conf m r locals builtins text T = Found t <->
   multi_resolves (fun s t => resolves_to conf m s (split_dots text) T t)
                  (fun s => unresolvable conf m s (split_dots text) T) (r :: locals ++ builtins) t).
Proof. exact fqn_import_resolves. Qed.
Print Assumptions C10_import_fqn.

Theorem C10_import_unknown : forall conf m r locals builtins text T,
  wf_model m = true -> Forall (fun s => s < length m) (r :: locals ++ builtins) -> siblings_unique m ->
  (fqn_import_resolve conf m r locals builtins text T = Unknown <->
   multi_unresolvable (fun s => unresolvable conf m s (split_dots text) T) (r :: locals ++ builtins)).
Proof. exact fqn_import_unknown. Qed.
Print Assumptions C10_import_unknown.

(* ---- FQN(scope_redirection_logic=...) *)
(* a callback that always answers [] changes nothing: all theorems above transfer *)
Theorem C10_redirect_conservative : forall conf redir f m r text T,
  (forall p, redir p = RList []) ->
  fqn_resolve_r conf redir (S f) m r text T = lift_result (fqn_resolve conf m r text T).
Proof. exact fqn_resolve_r_conservative. Qed.
Print Assumptions C10_redirect_conservative.

(* no hypothesis: whatever is resolved ends a chain of named objects, each contained in the previous one or in
   an object the callback lets stand in for it -- never reached through `parent` or a non-containment reference. *)
Theorem C10_redirect_genuine : forall conf redir rf m r text T t,
  fqn_resolve_r conf redir rf m r text T = XFound t ->
  exists i s, scope_at m r i s /\ chain_r redir r m s (split_dots text) t /\ conforms conf m t T = true.
Proof. exact fqn_resolve_r_genuine. Qed.
Print Assumptions C10_redirect_genuine.

(* C10_fqn with redirection, for callbacks that answer lists (never Postponed) whose elements are not redirected
   themselves (as follow_loaded_models_scope_redirection_logic of FQNImportURI(importAs=True): the loaded models):
   with names unique among contained and stand-in objects together, the provider resolves a dotted name exactly to the
   end of the chain (over `reach`) from the nearest scope that has a well-typed one, answers unknown exactly when there is
   none, and never postpones or runs out of the model's fuel.
   PARTIAL with respect to arbitrary callbacks: nested (acyclic) redirections and Postponed answers are covered by
   C10_redirect_genuine only. *)
Theorem C10_redirect_fqn_partial : forall conf redir f m r text T,
  parents_decrease m = true -> r < length m ->
  (forall p, exists l, redir p = RList l) -> (forall p l x, redir p = RList l -> In x l -> redir x = RList []) ->
  unique_on_r redir r m (split_dots text) ->
  (forall t, fqn_resolve_r conf redir (S (S f)) m r text T = XFound t <->
             resolves_g m (good_r conf redir r m T (split_dots text)) r t) /\
  (fqn_resolve_r conf redir (S (S f)) m r text T = XUnknown <->
   unresolvable_g m (good_r conf redir r m T (split_dots text)) r) /\
  fqn_resolve_r conf redir (S (S f)) m r text T <> XOutOfFuel /\
  fqn_resolve_r conf redir (S (S f)) m r text T <> XPostponed.
Proof. exact fqn_resolve_r_exact. Qed.
Print Assumptions C10_redirect_fqn_partial.

(* ---- non-vacuity of the extensions *)
Example C10_nonvacuous_import :
  wf_model w3 = true /\ unique_b w3 = true /\ Forall (fun s => s < length w3) (3 :: [5] ++ []) /\
  fqn_resolve wconf w3 3 t_pe 2 = Unknown /\ fqn_import_resolve wconf w3 3 [5] [] t_pe 2 = Found 7 /\
  fqn_import_resolve wconf w3 3 [5] [] [99]%N 2 = Found 2 /\ fqn_import_resolve wconf w3 3 [5] [] t_pdc 2 = Unknown.
Proof. vm_compute. repeat split; try reflexivity; repeat constructor. Qed.
Print Assumptions C10_nonvacuous_import.

Example C10_nonvacuous_redirect :
  fqn_resolve_r wconf w_redir 3 w3 3 t_cpe 2 = XFound 7 /\ fqn_resolve wconf w3 3 t_cpe 2 = Unknown /\
  fqn_resolve_r wconf (fun _ => RList []) 3 w3 3 t_cpe 2 = XUnknown.
Proof. vm_compute. repeat split; reflexivity. Qed.
Print Assumptions C10_nonvacuous_redirect.

Example C10_nonvacuous_redirect_hyps :
  parents_decrease w3 = true /\ (forall p, exists l, w_redir p = RList l) /\
  (forall p l x, w_redir p = RList l -> In x l -> w_redir x = RList []).
Proof. exact w_redir_flat. Qed.
Print Assumptions C10_nonvacuous_redirect_hyps.

Example C10_nonvacuous_walked :
  wf_model w_py = false /\ parents_decrease w_py = true /\ fqn_resolve wconf w_py 0 t_pnk 7 = Found 3 /\
  fqn_resolve wconf w_py 3 [110]%N 7 = Unknown /\ fqn_resolve wconf w_py 2 [107]%N 7 = Found 3.
Proof. vm_compute. repeat split; reflexivity. Qed.
Print Assumptions C10_nonvacuous_walked.
