(* C10 — FQN scope provider resolves only genuine qualified names (work in progress). *)
From TxV Require Import Core.Base Model.FqnDefs Gen.SrcFqn Model.Fqn.

Example C10_split : split_dots [97;46;98]%N = [[97];[98]]%N.
Proof. vm_compute. reflexivity. Qed.
Print Assumptions C10_split.
