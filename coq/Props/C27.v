(* C27 — model parameters are validated and reach every loaded model.
   Model: Model/Params.v (hand-written transcription, tied to the code by the correspondence run);
   Gen/SrcParams.v (argument names of model_from_str / model_from_file, RESERVED_PARAM_NAMES, the
   built-in definitions) is regenerated from the source on every run. *)
From TxV Require Import Core.Base Gen.SrcParams Model.Params Proofs.ParamsProofs.

(* -- validation ---------------------------------------------------------------------------- *)

(* check_params accepts exactly the keyword sets that are declared ... *)
Theorem C27_check_accepts_iff_declared : forall declared kw,
  check_params declared kw = None <-> (forall k, In k (keys kw) -> In k declared).
Proof. exact check_params_none. Qed.
Print Assumptions C27_check_accepts_iff_declared.

(* ... and otherwise reports the first undeclared keyword in call order *)
Theorem C27_check_reports_first_undeclared : forall declared kw k,
  check_params declared kw = Some k <->
  exists pre v post, kw = pre ++ (k, v) :: post /\ ~ In k declared /\ (forall k', In k' (keys pre) -> In k' declared).
Proof. exact check_params_some. Qed.
Print Assumptions C27_check_reports_first_undeclared.

(* model_from_str / model_from_file (any provider configuration, any repository state, any files):
   a well-formed call is rejected with "unknown parameter" exactly when it passes a keyword that is
   neither an explicit argument of the entry point nor declared *)
Theorem C27_validated : forall w c declared opn g o kw,
  o_entry o <> ERepo ->
  bind_kwargs (o_entry o) (o_kw o) = Some kw ->
  ((exists k, snd (run_op w c declared opn g o) = ORejected k) <->
   (exists k, In k (keys (o_kw o)) /\ ~ In k (sig_of (o_entry o)) /\ ~ In k declared)).
Proof. exact validated. Qed.
Print Assumptions C27_validated.

(* the parameter definitions of a metamodel (built-ins plus any sequence of add calls) never contain
   an argument name of the entry points (Gen: every argument name is in RESERVED_PARAM_NAMES) ... *)
Theorem C27_declared_never_an_argument : forall names k,
  In k (declare builtin_store names) -> ~ In k (sig_from_str ++ sig_from_file).
Proof. exact declared_not_argument. Qed.
Print Assumptions C27_declared_never_an_argument.

(* ... every other added name is declared, and nothing else is *)
Theorem C27_declared_exactly : forall names k,
  In k (declare builtin_store names) <->
  (In k builtin_store \/ In k names) /\ mem_str k reserved_names = false.
Proof. exact declared_exactly. Qed.
Print Assumptions C27_declared_exactly.

(* hence a call passing only declared parameters is never a TypeError, never rejected, and all its
   keywords reach **kwargs unchanged, for each of the three call shapes *)
Theorem C27_declared_accepted : forall names e call_kw,
  e <> ERepo ->
  (forall k, In k (keys call_kw) -> In k (declare builtin_store names)) ->
  bind_kwargs e call_kw = Some call_kw /\ check_params (declare builtin_store names) call_kw = None.
Proof. exact declared_accepted. Qed.
Print Assumptions C27_declared_accepted.

(* a refused or failed load leaves the metamodel's state (repository, models) untouched *)
Theorem C27_refused_leaves_no_trace : forall w c declared opn g o,
  is_loaded (snd (run_op w c declared opn g o)) = false -> fst (run_op w c declared opn g o) = g.
Proof. exact run_op_not_loaded. Qed.
Print Assumptions C27_refused_leaves_no_trace.

(* -- the parameters reach every model of the load ------------------------------------------------ *)

(* One load, any import graph (cycles, diamonds, globs), any provider kind, with or without a global
   repository: the heap grows by the models this load creates; each of them that can carry attributes
   has _tx_model_params = exactly the bound keyword arguments (order and values), primitive (str/int)
   models have none; models that existed before are untouched; the returned model is either the first
   new one or — global repository only — a cached one, in which case nothing at all is created. *)
Theorem C27_everywhere : forall w c declared opn g o g' res n0 repo kw,
  run_op w c declared opn g o = (g', OLoaded res n0 repo) ->
  bind_kwargs (o_entry o) (o_kw o) = Some kw ->
  n0 = length (g_heap g) /\
  exists added, g_heap g' = g_heap g ++ added /\ Forall (good kw opn) added /\
    ((added = [] /\ g' = g /\ c_grepo c = true /\ exists f, repo_find f (g_repo g) = Some res) \/ (res = n0 /\ added <> [])).
Proof. exact run_op_loaded. Qed.
Print Assumptions C27_everywhere.

(* with declared parameters only: exactly the keywords of the call *)
Theorem C27_declared_everywhere : forall w c names opn g o g' res n0 repo,
  (forall k, In k (keys (o_kw o)) -> In k (declare builtin_store names)) ->
  run_op w c (declare builtin_store names) opn g o = (g', OLoaded res n0 repo) ->
  exists added, g_heap g' = g_heap g ++ added /\ Forall (good (o_kw o) opn) added.
Proof. exact declared_everywhere. Qed.
Print Assumptions C27_declared_everywhere.

(* Histories of any length on one metamodel: at the end every model object ever created (and kept)
   carries exactly the bound keyword arguments of the operation that created it — later loads, cached
   re-loads and refused loads never change the parameters of an existing model. *)
Theorem C27_history : forall w c declared ops,
  Forall (carries ops) (g_heap (end_state w c declared 0 g_init ops)).
Proof. exact history_carries. Qed.
Print Assumptions C27_history.

(* After any history the model returned by a load is either an object that existed before (a cached
   model of the global repository: nothing is created, nothing changes) or the first object this load
   creates; repository entries always denote existing objects (history invariant gok). *)
Theorem C27_result_index : forall w c declared ops o g' res n0 repo,
  run_op w c declared (length ops) (end_state w c declared 0 g_init ops) o = (g', OLoaded res n0 repo) ->
  (res < n0 /\ g' = end_state w c declared 0 g_init ops /\ c_grepo c = true) \/
  (res = n0 /\ n0 < length (g_heap g')).
Proof. exact history_result_index. Qed.
Print Assumptions C27_result_index.

(* GlobalRepo.load_models_in_model_repo (documented: no validation): never rejects; every model it
   creates — whatever registered language loads it — carries exactly the bound keyword arguments; the
   metamodel's own repository is not touched.  (C27_history covers these operations too.) *)
Theorem C27_repo_never_rejects : forall w c declared opn g o k,
  o_entry o = ERepo -> snd (run_op w c declared opn g o) <> ORejected k.
Proof. exact run_op_repo_never_rejects. Qed.
Print Assumptions C27_repo_never_rejects.

Theorem C27_repo_everywhere : forall w c declared opn g o g' n0 repo kw,
  run_op w c declared opn g o = (g', ORepo n0 repo) ->
  bind_kwargs (o_entry o) (o_kw o) = Some kw ->
  o_entry o = ERepo /\ n0 = length (g_heap g) /\ g_repo g' = g_repo g /\
  exists added, g_heap g' = g_heap g ++ added /\ Forall (good kw opn) added.
Proof. exact run_op_repo. Qed.
Print Assumptions C27_repo_everywhere.

(* the model's out-of-fuel value is an artefact that no operation ever produces: the fuel given by
   run_op (number of files + 2) always suffices, whatever the import graph *)
Theorem C27_fuel_sufficient : forall w c declared opn g o,
  snd (run_op w c declared opn g o) <> OErr EFuel.
Proof. exact run_op_never_out_of_fuel. Qed.
Print Assumptions C27_fuel_sufficient.

(* -- non-vacuity (example world ex_world etc.: end of Model/Params.v) ------------------------------- *)
(* load of a.m with project_root=5, p=0, debug=3: accepted (debug is an explicit argument), three
   models created, all carrying (project_root=5, p=0); a second load with other values returns the
   cached model and leaves every model as it was *)
Example C27_nonvacuous_loaded :
  let d := declare builtin_store [k_p; k_debug] in
  let r1 := run_op ex_world ex_cfg d 0 g_init (ex_op [(project_root_key, 5%N); (k_p, 0%N); (k_debug, 3%N)]) in
  let r2 := run_op ex_world ex_cfg d 1 (fst r1) (ex_op [(k_p, 1%N)]) in
  d = [project_root_key; k_p] /\
  snd r1 = OLoaded 0 0 (Some [(0, 0); (1, 1); (2, 2)]) /\
  map m_params (g_heap (fst r1)) = (let kw := Some [(project_root_key, 5%N); (k_p, 0%N)] in [kw; kw; kw]) /\
  snd r2 = OLoaded 0 3 (Some [(0, 0); (1, 1); (2, 2)]) /\ fst r2 = fst r1.
Proof. vm_compute. repeat split; reflexivity. Qed.
Print Assumptions C27_nonvacuous_loaded.

Example C27_nonvacuous_rejected :
  snd (run_op ex_world ex_cfg (declare builtin_store [k_p]) 0 g_init (ex_op [(k_p, 0%N); ([113]%N, 1%N); ([114]%N, 2%N)]))
  = ORejected [113]%N
  /\ snd (run_op ex_world ex_cfg (declare builtin_store [k_p]) 0 g_init (ex_op [(k_p, 0%N); ([115;101;108;102]%N, 1%N)]))
  = OTypeError.
Proof. vm_compute. split; reflexivity. Qed.
Print Assumptions C27_nonvacuous_rejected.

(* several registered languages: the parameters reach the models loaded by another metamodel (b.n1, and
   c.u which has no language and is loaded by the importing metamodel 1) and the files of the outer
   language below them (d.m), although only the entry metamodel declares p *)
Example C27_nonvacuous_languages :
  let r := run_op ex_world_langs {| c_prov := PImportURI; c_grepo := false |} (declare builtin_store [k_p]) 0 g_init
                  (ex_op [(k_p, 7%N)]) in
  snd r = OLoaded 0 0 (Some [(0, 0); (1, 1); (2, 2); (3, 3)]) /\
  map m_mm (g_heap (fst r)) = [0; 1; 1; 0] /\
  map m_params (g_heap (fst r)) = (let kw := Some [(k_p, 7%N)] in [kw; kw; kw; kw]).
Proof. vm_compute. repeat split; reflexivity. Qed.
Print Assumptions C27_nonvacuous_languages.

(* load_models_in_model_repo with an undeclared keyword: not rejected, four models created (the file
   without language is loaded by the metamodel of the model that imports it) *)
Example C27_nonvacuous_repo :
  let r := run_op ex_world_langs {| c_prov := PGlobalRepo; c_grepo := false |} builtin_store 0 g_init
                  (ex_repo_op [([113]%N, 1%N)]) in
  snd r = ORepo 0 [(1, 0); (2, 1); (3, 2); (0, 3)] /\
  map m_mm (g_heap (fst r)) = [1; 1; 0; 0] /\
  map m_params (g_heap (fst r)) = (let kw := Some [([113]%N, 1%N)] in [kw; kw; kw; kw]).
Proof. vm_compute. repeat split; reflexivity. Qed.
Print Assumptions C27_nonvacuous_repo.
