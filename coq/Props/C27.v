(* C27 — model parameters are validated and reach every loaded model. *)
From TxV Require Import Core.Base Gen.SrcParams Model.Params Proofs.ParamsProofs.

(* check_params accepts exactly the keyword sets that are declared *)
Theorem C27_check_accepts_iff_declared : forall declared kw,
  check_params declared kw = None <-> (forall k, In k (keys kw) -> In k declared).
Proof. exact check_params_none. Qed.
Print Assumptions C27_check_accepts_iff_declared.
