(* C01 - the compiled parser and the model follow the grammar's PEG semantics.
   Model/Peg.v = the interpreter textX drives (validated by correspondence); Model/Spec.v = the
   reference semantics; both over the parser model dumped from the live metamodel. *)
From TxV Require Import Core.Base Model.PegSyntax Model.Peg Model.Spec Proofs.SpecProofs.

(* FULL STATEMENT (the property, for the documented fragment of grammars):
     forall g c orc input, exists fuel0, forall fuel >= fuel0,
       build (run g c orc false fuel input) = build_spec (spec_run g c orc fuel input)
   i.e. same acceptance, same objects, classes, attribute values, defaults and containment, for EVERY
   dumped grammar table.  It is false as stated (see the *_refuted theorems below: Arpeggio deviates from
   PEG semantics on several constructs), so it is proved for the class [wfg]:

   C01_refinement_partial.  For every grammar table g in the class wfg g pf (constructors: Sequence,
   OrderedChoice, Optional, ZeroOrMore, OneOrMore, StrMatch (also ignore_case), RegExMatch, EOF, rule
   references incl. recursion, the four assignment operators (they are Sequence/Optional/ZeroOrMore/
   OneOrMore roots); global skipws/ws; no separators, eolterm, rule modifiers, predicates, suppression,
   unordered groups, Comment rule; every choice alternative, repetition element and rule is
   productive, no empty literal), every config, every input, every fuel and every regex oracle that
   never reports an empty match: if the interpreter terminates within the fuel, then it accepts
   exactly when the reference semantics accept, and the parse trees are equal (hence the models
   Build constructs from them are equal: Build is a function of the tree).
   Missing for the full statement: the excluded constructors, termination (fuel) as a theorem,
   memoization on (C19). *)
Theorem C01_refinement_partial :
  forall g pf c orc fuel input,
    wfg g pf = true -> orc_pos orc ->
    match run g c orc false fuel input with
    | Parsed r => exists ts p, spec_run g c orc fuel input = SOk ts p /\ erase_all ts = flatten r
    | SyntaxErr _ => spec_run g c orc fuel input = SFail
    | Aborted _ => True
    end.
Proof. exact refinement. Qed.
Print Assumptions C01_refinement_partial.

(* non-vacuity: a grammar with recursion-free rules, all four node kinds and assignments is in the
   class, and is accepted / rejected on concrete inputs
   (Model: 'a' items+=Item*; Item: name=ID ('=' v=INT)? | 'b';) *)
Example C01_refinement_nonvacuous :
  wfg g_items 24 = true /\
  accepts (run g_items c_default (orc_of t_items) false 60 in_items) = true /\
  saccepts (spec_run g_items c_default (orc_of t_items) 60 in_items) = true /\
  accepts (run g_items c_default (orc_of [((0,0),1)]) false 60 [97;32;61]%N) = false.
Proof. exact items_in_class. Qed.
Print Assumptions C01_refinement_nonvacuous.

(* Outside the class: an ordered-choice alternative that succeeds without producing a node
   (suppressed match) counts as failed.  M: ('a'- | 'b') 'c';  rejects "ac". *)
Theorem C01_choice_suppressed_alt_refuted :
  exists g c orc fuel input,
    wfg g 24 = false /\
    saccepts (spec_run g c orc fuel input) = true /\
    run g c orc false fuel input = SyntaxErr 1.
Proof. exists g_sup_alt, c_default, (fun _ _ => None), 50, [97;99]%N. exact refuted_sup_alt. Qed.
Print Assumptions C01_choice_suppressed_alt_refuted.

(* ... or an empty optional:  M: x=INT ('a'? | 'b') y=INT;  rejects "1 2". *)
Theorem C01_choice_empty_optional_alt_refuted :
  exists g c orc fuel input,
    wfg g 24 = false /\
    saccepts (spec_run g c orc fuel input) = true /\
    run g c orc false fuel input = SyntaxErr 2.
Proof. exists g_opt_alt, c_default, (orc_of t_opt_alt), 50, [49;32;50]%N. exact refuted_opt_alt. Qed.
Print Assumptions C01_choice_empty_optional_alt_refuted.

(* A rule that matches the empty string yields no node (Model: a=A b=B?; A: x=ID?; B: 'b'; on ""):
   the reference tree has the nodes of Model and of the assignment a=A, the interpreter's has none. *)
Theorem C01_nullable_rule_refuted :
  exists g c orc fuel input,
    wfg g 24 = false /\
    run_tree (run g c orc false fuel input) = [NT 0 [T 9 0 0 true]] /\
    spec_tree (spec_run g c orc fuel input) = [NT 0 [NT 1 [NT 2 []]; T 9 0 0 true]].
Proof. exists g_nullable, c_default, (fun _ _ => None), 50, []. exact refuted_nullable. Qed.
Print Assumptions C01_nullable_rule_refuted.

(* A repetition with separator keeps the separator it gave back (x,b): terminal 6 at 1 stays in A.xs *)
Theorem C01_trailing_separator_refuted :
  exists g c orc fuel input,
    wfg g 24 = false /\
    run_tree (run g c orc false fuel input) =
      [NT 0 [NT 1 [NT 2 [NT 3 [NT 4 [T 5 0 1 false; T 6 1 1 false]]]; T 7 1 1 true; NT 8 [T 9 2 1 true]]; T 10 3 0 true]] /\
    spec_tree (spec_run g c orc fuel input) =
      [NT 0 [NT 1 [NT 2 [NT 3 [NT 4 [T 5 0 1 false]]]; T 7 1 1 true; NT 8 [T 9 2 1 true]]; T 10 3 0 true]].
Proof. exists g_trailsep, c_default, (fun _ _ => None), 50, [120;44;98]%N. exact refuted_trailsep. Qed.
Print Assumptions C01_trailing_separator_refuted.

(* The oracle hypothesis orc_pos is necessary: with a regex match of length 0 (x=/a*/ 'b' on "b") the
   grammar is in the class but the assignment node is missing from the interpreter's tree. *)
Theorem C01_empty_regex_match_refuted :
  exists g c orc fuel input,
    wfg g 24 = true /\ orc 0 0 = Some 0 /\
    run_tree (run g c orc false fuel input) = [NT 0 [NT 1 [T 4 0 1 true]; T 5 1 0 true]] /\
    spec_tree (spec_run g c orc fuel input) = [NT 0 [NT 1 [NT 2 [T 3 0 0 false]; T 4 0 1 true]; T 5 1 0 true]].
Proof. exists g_emptyrx, c_default, (orc_of t_emptyrx), 50, [98]%N. exact refuted_emptyrx. Qed.
Print Assumptions C01_empty_regex_match_refuted.

(* A repetition stops after an iteration that produces no node: ('a'-)* 'b' rejects "aab". *)
Theorem C01_rep_elem_nonproductive_refuted :
  exists g c orc fuel input,
    wfg g 24 = false /\
    saccepts (spec_run g c orc fuel input) = true /\
    run g c orc false fuel input = SyntaxErr 1.
Proof. exists g_repsup, c_default, (fun _ _ => None), 50, [97;97;98]%N. exact refuted_repsup. Qed.
Print Assumptions C01_rep_elem_nonproductive_refuted.
