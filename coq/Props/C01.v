(* C01 - the compiled parser and the model follow the grammar's PEG semantics.
   Model/Peg.v = the interpreter textX drives (validated by correspondence); Model/Spec.v = the
   reference semantics; both over the parser model dumped from the live metamodel. *)
From TxV Require Import Core.Base Model.PegSyntax Model.Peg Model.Spec Proofs.SpecProofs.

(* Outside the class: an ordered-choice alternative that succeeds without producing a node
   (suppressed match) counts as failed.  M: ('a'- | 'b') 'c';  rejects "ac". *)
Theorem C01_choice_suppressed_alt_refuted :
  exists g c orc fuel input,
    wfg g 24 = false /\
    saccepts (spec_run g c orc fuel input) = true /\
    run g c orc false fuel input = SyntaxErr 1.
Proof. exists g_sup_alt, c_default, (fun _ _ => None), 50, [97;99]%N. exact refuted_sup_alt. Qed.
Print Assumptions C01_choice_suppressed_alt_refuted.

(* ... or an empty optional:  M: x=INT ('a'? | 'b') y=INT;  rejects "1 2". *)
Theorem C01_choice_empty_optional_alt_refuted :
  exists g c orc fuel input,
    wfg g 24 = false /\
    saccepts (spec_run g c orc fuel input) = true /\
    run g c orc false fuel input = SyntaxErr 2.
Proof. exists g_opt_alt, c_default, (orc_of t_opt_alt), 50, [49;32;50]%N. exact refuted_opt_alt. Qed.
Print Assumptions C01_choice_empty_optional_alt_refuted.
