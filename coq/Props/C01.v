(* C01 - the compiled parser and the model follow the grammar's PEG semantics.
   Model/Peg.v = the interpreter textX drives (validated by correspondence); Model/Spec.v = the
   reference semantics; both over the parser model dumped from the live metamodel. *)
From TxV Require Import Core.Base Model.PegSyntax Model.Peg Model.Spec Model.Build Proofs.SpecProofs Proofs.SpecSepProofs.

(* FULL STATEMENT (the property, for the documented fragment of grammars):
     forall g c orc input, exists fuel0, forall fuel >= fuel0,
       build (run g c orc false fuel input) = build_spec (spec_run g c orc fuel input)
   i.e. same acceptance, same objects, classes, attribute values, defaults and containment, for EVERY
   dumped grammar table.  It is false as stated (see the *_refuted theorems below: Arpeggio deviates from
   PEG semantics on several constructs), so it is proved for the class [wfg]:

   C01_refinement_partial.  For every grammar table g in the class wfg g pf, every config (global skipws
   on or off, any ws), every input, every fuel and every regex oracle that never reports an empty match:
   if the interpreter terminates within the fuel, then
     - it accepts exactly when the DOCUMENTED reference semantics accept, at the same end position;
     - its parse tree is the tree of the trailing-separator variant of the semantics (spec_run_q);
     - when no repetition has a separator (nosep g) that is the documented tree itself.
   Class wfg (Model/Spec.v node_ok): Sequence, OrderedChoice, Optional, ZeroOrMore, OneOrMore with or
   without separator, StrMatch (also ignore_case), RegExMatch, EOF, rule references incl. recursion, the
   four assignment operators, suppression anywhere, the predicates & ! (not as rule roots), rule-level
   ws / skipws modifiers on Sequence/OrderedChoice rule roots; every choice alternative, repetition
   element and (unsuppressed) rule is productive, no empty literal.
   Still excluded: eolterm, unordered groups, a Comment rule, memoization on (C19); termination (fuel)
   is not a theorem (C01_refinement_fuel transfers the statement to every larger fuel). *)
Theorem C01_refinement_partial :
  forall g pf c orc fuel input,
    wfg g pf = true -> orc_pos orc ->
    match run g c orc false fuel input with
    | Parsed r =>
      exists ts p, spec_run g c orc fuel input = SOk ts p /\
                   (nosep g = true -> erase_all ts = flatten r) /\
                   exists tsq, spec_run_q g c orc fuel input = SOk tsq p /\ erase_all tsq = flatten r
    | SyntaxErr _ => spec_run g c orc fuel input = SFail
    | Aborted _ => True
    end.
Proof. exact refinement. Qed.
Print Assumptions C01_refinement_partial.

(* The trailing-separator variant and the documented semantics accept the same inputs with the same end
   position, for EVERY grammar table (no class hypothesis): the quirk only changes trees. *)
Theorem C01_trailing_separator_changes_only_trees :
  forall g c orc fuel input,
    match spec_run_q g c orc fuel input, spec_run g c orc fuel input with
    | SOk _ p, SOk _ p' => p = p'
    | SFail, SFail => True
    | SOut, SOut => True
    | _, _ => False
    end.
Proof. exact spec_q_acceptance. Qed.
Print Assumptions C01_trailing_separator_changes_only_trees.

(* One sufficient fuel is enough: if the interpreter does not run out of fuel at f, its outcome is the
   same at every f' >= f and agrees with the reference semantics evaluated at f'. *)
Theorem C01_refinement_fuel :
  forall g pf c orc f f' input,
    wfg g pf = true -> orc_pos orc -> f <= f' -> run g c orc false f input <> Aborted 0 ->
    run g c orc false f' input = run g c orc false f input /\
    match run g c orc false f input with
    | Parsed r => exists ts p, spec_run g c orc f' input = SOk ts p /\ (nosep g = true -> erase_all ts = flatten r)
    | SyntaxErr _ => spec_run g c orc f' input = SFail
    | Aborted _ => True
    end.
Proof. exact refinement_fuel. Qed.
Print Assumptions C01_refinement_fuel.

(* Model equality: for grammars in the class (and a parser model whose top node is a rule root, as textX
   builds it), the model textX constructs from the interpreter's parse tree (Build.build, for every
   metamodel table, group oracle, auto_init_attributes and use_regexp_group setting) is the model
   constructed from the reference tree: same objects, classes, attribute values, defaults, positions.
   With separators the reference tree is the trailing-separator variant's; without, the documented one. *)
Theorem C01_model_equality :
  forall g mm pf c orc fuel input grp auto ug r,
    wfg g pf = true -> orc_pos orc -> root_top g = true ->
    run g c orc false fuel input = Parsed r ->
    exists tsq p, spec_run_q g c orc fuel input = SOk tsq p /\
      build g mm input grp auto ug r = build_flat g mm input grp auto ug (erase_all tsq) /\
      (nosep g = true -> exists ts, spec_run g c orc fuel input = SOk ts p /\
                                    build g mm input grp auto ug r = build_flat g mm input grp auto ug (erase_all ts)).
Proof. exact model_equality. Qed.
Print Assumptions C01_model_equality.

(* non-vacuity: suppression, separator, predicates and a rule modifier inside the class
   (Model: 'm'- items+=Item[','] !'z' &';' ';';  Item[noskipws]: name=ID ('=' v=INT)?;) *)
Example C01_refinement_rich_nonvacuous :
  wfg g_rich 24 = true /\ nosep g_rich = false /\ root_top g_rich = true /\
  accepts (run g_rich c_default (orc_of t_rich) false 60 in_rich) = true /\
  saccepts (spec_run g_rich c_default (orc_of t_rich) 60 in_rich) = true /\
  accepts (run g_rich c_default (orc_of t_rich) false 60 [109;32;97]%N) = false.
Proof. exact rich_in_class. Qed.
Print Assumptions C01_refinement_rich_nonvacuous.

(* non-vacuity: a grammar with recursion-free rules, all four node kinds and assignments is in the
   class, and is accepted / rejected on concrete inputs
   (Model: 'a' items+=Item*; Item: name=ID ('=' v=INT)? | 'b';) *)
Example C01_refinement_nonvacuous :
  wfg g_items 24 = true /\
  accepts (run g_items c_default (orc_of t_items) false 60 in_items) = true /\
  saccepts (spec_run g_items c_default (orc_of t_items) 60 in_items) = true /\
  accepts (run g_items c_default (orc_of [((0,0),1)]) false 60 [97;32;61]%N) = false.
Proof. exact items_in_class. Qed.
Print Assumptions C01_refinement_nonvacuous.

(* Outside the class: an ordered-choice alternative that succeeds without producing a node
   (suppressed match) counts as failed.  M: ('a'- | 'b') 'c';  rejects "ac". *)
Theorem C01_choice_suppressed_alt_refuted :
  exists g c orc fuel input,
    wfg g 24 = false /\
    saccepts (spec_run g c orc fuel input) = true /\
    run g c orc false fuel input = SyntaxErr 1.
Proof. exists g_sup_alt, c_default, (fun _ _ => None), 50, [97;99]%N. exact refuted_sup_alt. Qed.
Print Assumptions C01_choice_suppressed_alt_refuted.

(* ... or an empty optional:  M: x=INT ('a'? | 'b') y=INT;  rejects "1 2". *)
Theorem C01_choice_empty_optional_alt_refuted :
  exists g c orc fuel input,
    wfg g 24 = false /\
    saccepts (spec_run g c orc fuel input) = true /\
    run g c orc false fuel input = SyntaxErr 2.
Proof. exists g_opt_alt, c_default, (orc_of t_opt_alt), 50, [49;32;50]%N. exact refuted_opt_alt. Qed.
Print Assumptions C01_choice_empty_optional_alt_refuted.

(* A rule that matches the empty string yields no node (Model: a=A b=B?; A: x=ID?; B: 'b'; on ""):
   the reference tree has the nodes of Model and of the assignment a=A, the interpreter's has none. *)
Theorem C01_nullable_rule_refuted :
  exists g c orc fuel input,
    wfg g 24 = false /\
    run_tree (run g c orc false fuel input) = [NT 0 [T 9 0 0 true]] /\
    spec_tree (spec_run g c orc fuel input) = [NT 0 [NT 1 [NT 2 []]; T 9 0 0 true]].
Proof. exists g_nullable, c_default, (fun _ _ => None), 50, []. exact refuted_nullable. Qed.
Print Assumptions C01_nullable_rule_refuted.

(* A repetition with separator keeps the separator it gave back (x,b): the grammar is IN the class, the
   interpreter's tree is the variant's (terminal 6 at 1 stays in A.xs), not the documented one - so the
   tree clause of C01_refinement_partial cannot drop its nosep hypothesis. *)
Theorem C01_trailing_separator_refuted :
  exists g c orc fuel input,
    wfg g 24 = true /\
    run_tree (run g c orc false fuel input) =
      [NT 0 [NT 1 [NT 2 [NT 3 [NT 4 [T 5 0 1 false; T 6 1 1 false]]]; T 7 1 1 true; NT 8 [T 9 2 1 true]]; T 10 3 0 true]] /\
    spec_tree (spec_run g c orc fuel input) =
      [NT 0 [NT 1 [NT 2 [NT 3 [NT 4 [T 5 0 1 false]]]; T 7 1 1 true; NT 8 [T 9 2 1 true]]; T 10 3 0 true]] /\
    spec_tree (spec_run_q g c orc fuel input) = run_tree (run g c orc false fuel input).
Proof. exists g_trailsep, c_default, (fun _ _ => None), 50, [120;44;98]%N. exact refuted_trailsep. Qed.
Print Assumptions C01_trailing_separator_refuted.

(* The oracle hypothesis orc_pos is necessary: with a regex match of length 0 (x=/a*/ 'b' on "b") the
   grammar is in the class but the assignment node is missing from the interpreter's tree. *)
Theorem C01_empty_regex_match_refuted :
  exists g c orc fuel input,
    wfg g 24 = true /\ orc 0 0 = Some 0 /\
    run_tree (run g c orc false fuel input) = [NT 0 [NT 1 [T 4 0 1 true]; T 5 1 0 true]] /\
    spec_tree (spec_run g c orc fuel input) = [NT 0 [NT 1 [NT 2 [T 3 0 0 false]; T 4 0 1 true]; T 5 1 0 true]].
Proof. exists g_emptyrx, c_default, (orc_of t_emptyrx), 50, [98]%N. exact refuted_emptyrx. Qed.
Print Assumptions C01_empty_regex_match_refuted.

(* A repetition stops after an iteration that produces no node: ('a'-)* 'b' rejects "aab". *)
Theorem C01_rep_elem_nonproductive_refuted :
  exists g c orc fuel input,
    wfg g 24 = false /\
    saccepts (spec_run g c orc fuel input) = true /\
    run g c orc false fuel input = SyntaxErr 1.
Proof. exists g_repsup, c_default, (fun _ _ => None), 50, [97;97;98]%N. exact refuted_repsup. Qed.
Print Assumptions C01_rep_elem_nonproductive_refuted.

From TxV Require Proofs.PegTerm Proofs.SpecTotal.

(* C01_refinement_total: the refinement theorem without the "if the interpreter terminates" proviso.  For
   every table in the class wfg that passes the termination analysis of Proofs/PegTerm.v (no left
   recursion, no repetition over an element that is truthy without consuming; both conditions decidable
   and evaluated per case), every config, every input, every oracle whose matches are non-empty and stay
   inside the input, and EVERY fuel from the computable bound fuel_bound on: the interpreter returns a
   verdict (it neither runs out of fuel nor crashes), it accepts exactly when the documented semantics
   accept, and the tree clauses of C01_refinement_partial hold (hence, by C01_model_equality, the models). *)
Theorem C01_refinement_total :
  forall g pf c orc input f,
    wfg g pf = true -> PegTerm.terminating PegTerm.none_nullable g = true ->
    PegTerm.orc_sane g input orc -> orc_pos orc ->
    PegTerm.fuel_bound PegTerm.none_nullable g input <= f ->
    (exists r ts p, run g c orc false f input = Parsed r /\ spec_run g c orc f input = SOk ts p /\
                    (nosep g = true -> erase_all ts = flatten r) /\
                    exists tsq, spec_run_q g c orc f input = SOk tsq p /\ erase_all tsq = flatten r) \/
    (exists e, run g c orc false f input = SyntaxErr e /\ spec_run g c orc f input = SFail).
Proof. exact SpecTotal.refinement_total. Qed.
Print Assumptions C01_refinement_total.

(* tables in the class never crash the interpreter *)
Theorem C01_no_crash :
  forall g pf c orc fuel input w, wfg g pf = true -> run g c orc false fuel input = Aborted w -> w = 0.
Proof. exact SpecTotal.wfg_no_crash. Qed.
Print Assumptions C01_no_crash.

Example C01_refinement_total_nonvacuous :
  wfg g_rich 24 = true /\ PegTerm.terminating PegTerm.none_nullable g_rich = true /\
  PegTerm.orc_sane g_rich in_rich (orc_of t_rich) /\ orc_pos (orc_of t_rich) /\
  PegTerm.fuel_bound PegTerm.none_nullable g_rich in_rich = 106 /\
  accepts (run g_rich c_default (orc_of t_rich) false 106 in_rich) = true.
Proof. exact SpecTotal.rich_total_nonvacuous. Qed.
Print Assumptions C01_refinement_total_nonvacuous.

(* eolterm repetitions are in the class (when the table has no rule-level ws modifier) ... *)
Example C01_eolterm_in_class_nonvacuous :
  wfg SpecTotal.g_eol 24 = true /\
  accepts (run SpecTotal.g_eol c_default (fun _ _ => None) false 50 [97;32;97;10;101;110;100]%N) = true /\
  accepts (run SpecTotal.g_eol c_default (fun _ _ => None) false 50 [97;10;97;10;101;110;100]%N) = false.
Proof. exact SpecTotal.eol_in_class. Qed.
Print Assumptions C01_eolterm_in_class_nonvacuous.

(* ... and the boundary: a rule-level ws inside an eolterm repetition is restored wrongly by the interpreter
   (the newline-stripped set becomes the real one): Model: xs+=A[eolterm] 'end'; A[ws=' ']: 'a'; rejects
   "a a\nend" at the newline *)
Theorem C01_eolterm_rule_ws_refuted :
  exists g c orc fuel input,
    wfg g 24 = false /\ eol_ws_ok g = false /\
    saccepts (spec_run g c orc fuel input) = true /\
    run g c orc false fuel input = SyntaxErr 3.
Proof. exists SpecTotal.g_eolws, c_default, (fun _ _ => None), 50, [97;32;97;10;101;110;100]%N. exact SpecTotal.refuted_eolws. Qed.
Print Assumptions C01_eolterm_rule_ws_refuted.

(* a predicate as the body of a rule stays outside the class: the rule matches the empty string and yields no
   node (Model: a=A 'x'; A: &'x'; on "x") - the nullable-rule deviation *)
Theorem C01_predicate_rule_root_refuted :
  exists g c orc fuel input,
    wfg g 24 = false /\
    run_tree (run g c orc false fuel input) = [NT 0 [NT 1 [T 5 0 1 true]; T 6 1 0 true]] /\
    spec_tree (spec_run g c orc fuel input) = [NT 0 [NT 1 [NT 2 [NT 3 []]; T 5 0 1 true]; T 6 1 0 true]].
Proof. exists SpecTotal.g_predroot, c_default, (fun _ _ => None), 50, [120]%N. exact SpecTotal.refuted_predroot. Qed.
Print Assumptions C01_predicate_rule_root_refuted.

From TxV Require Proofs.SpecCmt.

(* The Comment rule.  For tables whose Comment rule is a single regex terminal, in the mode-constant class
   (every node passes node_ok; no rule-level ws/skipws, no eolterm: SpecCmt.wfgc, decidable), global skipws
   on, a non-empty-match oracle whose matches stay inside the input, every input and every fuel: if the
   interpreter terminates, it accepts exactly when the documented semantics accept and the tree clauses of
   C01_refinement_partial hold - with the reference side evaluated at fuel + |input| + 2, because a
   comment_positions cache hit lets the interpreter skip comments at a recursion depth where the reference
   semantics has to re-parse them (the simulation at equal fuel is false near fuel exhaustion). *)
Theorem C01_refinement_comments :
  forall g pf c orc fuel input,
    SpecCmt.wfgc g pf = true -> c_skipws c = true -> orc_pos orc ->
    (forall o p l, orc o p = Some l -> p + l <= length input) ->
    let fs := fuel + (length input + 2) in
    match run g c orc false fuel input with
    | Parsed r =>
      exists ts p, spec_run g c orc fs input = SOk ts p /\
                   (nosep g = true -> erase_all ts = flatten r) /\
                   exists tsq, spec_run_q g c orc fs input = SOk tsq p /\ erase_all tsq = flatten r
    | SyntaxErr _ => spec_run g c orc fs input = SFail
    | Aborted _ => True
    end.
Proof. exact SpecCmt.refinement_cmt. Qed.
Print Assumptions C01_refinement_comments.

Example C01_refinement_comments_nonvacuous :
  SpecCmt.wfgc SpecCmt.g_cmt 24 = true /\ wfg SpecCmt.g_cmt 24 = false /\
  match run SpecCmt.g_cmt SpecCmt.c_skip (orc_of SpecCmt.t_cmt1) false 40 SpecCmt.in_cmt1 with Parsed _ => true | _ => false end = true /\
  match spec_run SpecCmt.g_cmt SpecCmt.c_skip (orc_of SpecCmt.t_cmt1) (40 + (16 + 2)) SpecCmt.in_cmt1 with SOk _ _ => true | _ => false end = true.
Proof. exact SpecCmt.cmt_in_class. Qed.
Print Assumptions C01_refinement_comments_nonvacuous.

(* the hypothesis global skipws = true is necessary: Arpeggio parses comments even under noskipws
   ("ma/*c*/b" is accepted), the documented semantics skip nothing *)
Theorem C01_comments_noskipws_refuted :
  SpecCmt.wfgc SpecCmt.g_cmt 24 = true /\ c_skipws SpecCmt.c_noskip = false /\
  match run SpecCmt.g_cmt SpecCmt.c_noskip (orc_of SpecCmt.t_cmt2) false 40 SpecCmt.in_cmt2 with Parsed _ => true | _ => false end = true /\
  spec_run SpecCmt.g_cmt SpecCmt.c_noskip (orc_of SpecCmt.t_cmt2) (40 + (8 + 2)) SpecCmt.in_cmt2 = SFail.
Proof. exact SpecCmt.refuted_cmt_noskipws. Qed.
Print Assumptions C01_comments_noskipws_refuted.

From TxV Require Proofs.SpecCmtTotal.

(* ... and unconditionally: tables of the Comment class that pass the termination analysis return a verdict at
   every fuel from the computable bound on (they neither run out of fuel nor crash), and it is the verdict
   of the documented semantics *)
Theorem C01_refinement_comments_total :
  forall g pf c orc input f,
    SpecCmt.wfgc g pf = true -> c_skipws c = true -> PegTerm.terminating PegTerm.none_nullable g = true ->
    PegTerm.orc_sane g input orc -> orc_pos orc -> PegTerm.fuel_bound PegTerm.none_nullable g input <= f ->
    let fs := f + (length input + 2) in
    (exists r ts p, run g c orc false f input = Parsed r /\ spec_run g c orc fs input = SOk ts p /\
                    (nosep g = true -> erase_all ts = flatten r) /\
                    exists tsq, spec_run_q g c orc fs input = SOk tsq p /\ erase_all tsq = flatten r) \/
    (exists e, run g c orc false f input = SyntaxErr e /\ spec_run g c orc fs input = SFail).
Proof. exact SpecCmtTotal.refinement_cmt_total. Qed.
Print Assumptions C01_refinement_comments_total.

Example C01_refinement_comments_total_nonvacuous :
  SpecCmt.wfgc SpecCmt.g_cmt 24 = true /\ c_skipws SpecCmt.c_skip = true /\
  PegTerm.terminating PegTerm.none_nullable SpecCmt.g_cmt = true /\
  PegTerm.orc_sane SpecCmt.g_cmt SpecCmt.in_cmt1 (orc_of SpecCmt.t_cmt1) /\ orc_pos (orc_of SpecCmt.t_cmt1) /\
  PegTerm.fuel_bound PegTerm.none_nullable SpecCmt.g_cmt SpecCmt.in_cmt1 = 194 /\
  accepts (run SpecCmt.g_cmt SpecCmt.c_skip (orc_of SpecCmt.t_cmt1) false 194 SpecCmt.in_cmt1) = true.
Proof. exact SpecCmtTotal.cmt_total_nonvacuous. Qed.
Print Assumptions C01_refinement_comments_total_nonvacuous.

From TxV Require Proofs.SpecUg.

(* Unordered groups.  Class wfgu: as wfg, plus unordered groups WITHOUT separator (and without eolterm) all of
   whose members are productive (decidable).  There the interpreter's ug_loop and the reference clause agree:
   each round takes the first remaining member that matches, the group succeeds exactly when every member was
   matched once.  Same conclusion as C01_refinement_partial (if the interpreter terminates). *)
Theorem C01_refinement_unordered :
  forall g pf c orc fuel input,
    wfgu g pf = true -> orc_pos orc ->
    match run g c orc false fuel input with
    | Parsed r =>
      exists ts p, spec_run g c orc fuel input = SOk ts p /\
                   (nosep g = true -> erase_all ts = flatten r) /\
                   exists tsq, spec_run_q g c orc fuel input = SOk tsq p /\ erase_all tsq = flatten r
    | SyntaxErr _ => spec_run g c orc fuel input = SFail
    | Aborted _ => True
    end.
Proof. exact SpecUg.refinement_u. Qed.
Print Assumptions C01_refinement_unordered.

Example C01_refinement_unordered_nonvacuous :
  wfgu SpecUg.g_ug 24 = true /\ wfg SpecUg.g_ug 24 = false /\
  accepts (run SpecUg.g_ug c_default (orc_of [((0,4),1)]) false 50 [109;32;98;32;51;32;97]%N) = true /\
  saccepts (spec_run SpecUg.g_ug c_default (orc_of [((0,4),1)]) 50 [109;32;98;32;51;32;97]%N) = true /\
  accepts (run SpecUg.g_ug c_default (orc_of [((0,4),1)]) false 50 [109;32;98;32;97]%N) = false.
Proof. exact SpecUg.ug_in_class. Qed.
Print Assumptions C01_refinement_unordered_nonvacuous.

(* boundary: a group WITH separator - Model: ('a' 'b')#[','] 'b'?; on "a b" the interpreter fails the group when
   the separator is missing, the reference clause ends it (its reading is the laxer one here) *)
Theorem C01_unordered_separator_refuted :
  exists g c orc fuel input,
    wfgu g 24 = false /\
    saccepts (spec_run g c orc fuel input) = true /\
    run g c orc false fuel input = SyntaxErr 2.
Proof. exists SpecUg.g_ugsep, c_default, (fun _ _ => None), 50, [97;32;98]%N. exact SpecUg.refuted_ugsep. Qed.
Print Assumptions C01_unordered_separator_refuted.
