(* C33 — errors raised by processors carry the location of the processed text.
   obj_location fs m pos pos_end = {file name of model m; line/col of pos in its text; nchar = pos_end - pos};
   located_at = the same without nchar; completed e loc = e with every missing field taken from loc.
   process_fills / location_keys / match_keys are regenerated from textx/metamodel.py and
   textx/model.py on every run. *)
From TxV Require Import Core.Base Model.ErrLoc Gen.SrcLoc Proofs.ErrLocProofs Proofs.ErrLocSrcProofs.

(* object processor raising a TextXError (through textxerror_wrap or not): every field it supplied is
   kept, every other one is the location of the processed object, including nchar *)
Theorem C33_object_textx_error : forall fs m pos pos_end wrapped e, in_text fs m pos ->
  obj_dispatch process_fills location_keys fs m pos pos_end wrapped (RaisesTx e)
  = Fails (completed e (obj_location fs m pos pos_end)).
Proof. exact obj_textx_error. Qed.
Print Assumptions C33_object_textx_error.

(* without any supplied location the error is exactly the object's location *)
Theorem C33_object_unlocated : forall fs m pos pos_end wrapped, in_text fs m pos ->
  obj_dispatch process_fills location_keys fs m pos pos_end wrapped (RaisesTx no_loc)
  = Fails (obj_location fs m pos pos_end).
Proof. exact obj_unlocated. Qed.
Print Assumptions C33_object_unlocated.

(* any other exception through textxerror_wrap becomes a TextXError at the object *)
Theorem C33_object_wrapped_any_exception : forall fs m pos pos_end, in_text fs m pos ->
  obj_dispatch process_fills location_keys fs m pos pos_end true RaisesOther
  = Fails (obj_location fs m pos pos_end).
Proof. exact obj_wrapped_other. Qed.
Print Assumptions C33_object_wrapped_any_exception.

(* match processors: file/line/col of the match; nchar only if the processor supplied it *)
Theorem C33_match_textx_error : forall fs m pos wrapped e, in_text fs m pos ->
  match_dispatch process_fills match_keys fs m pos wrapped (RaisesTx e)
  = Fails (completed e (located_at fs m pos)).
Proof. exact match_textx_error. Qed.
Print Assumptions C33_match_textx_error.

Theorem C33_match_wrapped_any_exception : forall fs m pos, in_text fs m pos ->
  match_dispatch process_fills match_keys fs m pos true RaisesOther = Fails (located_at fs m pos).
Proof. exact match_wrapped_other. Qed.
Print Assumptions C33_match_wrapped_any_exception.

(* supplied fields are kept: field by field *)
Theorem C33_supplied_kept : forall e loc,
  (forall x, r_line e = Some x -> r_line (completed e loc) = Some x) /\
  (forall x, r_col e = Some x -> r_col (completed e loc) = Some x) /\
  (forall x, r_nchar e = Some x -> r_nchar (completed e loc) = Some x) /\
  (forall x, r_file e = Some x -> r_file (completed e loc) = Some x).
Proof. exact supplied_kept. Qed.
Print Assumptions C33_supplied_kept.

(* a processor that returns, and a foreign exception without the wrapper, are not turned into errors *)
Theorem C33_other_outcomes : forall fs m pos pos_end wrapped,
  obj_dispatch process_fills location_keys fs m pos pos_end wrapped Returns = Loaded /\
  obj_dispatch process_fills location_keys fs m pos pos_end false RaisesOther = Propagates.
Proof. exact other_outcomes. Qed.
Print Assumptions C33_other_outcomes.

(* non-vacuity: object "xy z" (offsets 4..8) of an imported file, processor supplied only a line *)
Example C33_nonvacuous :
  let fs := [ {| s_name := Some [109]%N; s_text := [10;10]%N |};
              {| s_name := Some [98]%N; s_text := [97;98;10;10;120;121;32;122]%N |} ] in
  in_text fs 1 4 /\
  obj_dispatch process_fills location_keys fs 1 4 8 false
     (RaisesTx {| r_file := None; r_line := Some 99; r_col := None; r_nchar := None |})
  = Fails {| r_file := Some [98]%N; r_line := Some 99; r_col := Some 1; r_nchar := Some 4 |} /\
  match_dispatch process_fills match_keys fs 1 7 true RaisesOther
  = Fails {| r_file := Some [98]%N; r_line := Some 3; r_col := Some 4; r_nchar := None |}.
Proof. vm_compute. repeat split; try reflexivity. repeat constructor. Qed.
Print Assumptions C33_nonvacuous.
