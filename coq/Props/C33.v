(* C33 — errors raised by processors carry the location of the processed text.
   obj_location fs m pos pos_end = {file name of model m; line/col of pos in its text; nchar = pos_end - pos};
   located_at = the same without nchar; completed e loc = e with every missing field taken from loc.
   process_fills / location_keys / match_keys are regenerated from textx/metamodel.py and
   textx/model.py on every run. *)
From TxV Require Import Core.Base Model.PegSyntax Model.Peg Model.Build.
From TxV Require Import Model.ErrLoc Gen.SrcLoc Proofs.ErrLocProofs Proofs.ErrLocSrcProofs Model.ErrLocLoad Proofs.ErrLocLoadProofs.
From TxV Require Import Proofs.PegTerm Proofs.ErrLocBoundProofs.

(* object processor raising a TextXError (through textxerror_wrap or not): every field it supplied is
   kept, every other one is the location of the processed object, including nchar *)
Theorem C33_object_textx_error : forall fs m pos pos_end wrapped e, in_text fs m pos ->
  obj_dispatch process_fills location_keys fs m pos pos_end wrapped (RaisesTx e)
  = Fails (completed e (obj_location fs m pos pos_end)).
Proof. exact obj_textx_error. Qed.
Print Assumptions C33_object_textx_error.

(* without any supplied location the error is exactly the object's location *)
Theorem C33_object_unlocated : forall fs m pos pos_end wrapped, in_text fs m pos ->
  obj_dispatch process_fills location_keys fs m pos pos_end wrapped (RaisesTx no_loc)
  = Fails (obj_location fs m pos pos_end).
Proof. exact obj_unlocated. Qed.
Print Assumptions C33_object_unlocated.

(* any other exception through textxerror_wrap becomes a TextXError at the object *)
Theorem C33_object_wrapped_any_exception : forall fs m pos pos_end, in_text fs m pos ->
  obj_dispatch process_fills location_keys fs m pos pos_end true RaisesOther
  = Fails (obj_location fs m pos pos_end).
Proof. exact obj_wrapped_other. Qed.
Print Assumptions C33_object_wrapped_any_exception.

(* match processors: file/line/col of the match; nchar only if the processor supplied it *)
Theorem C33_match_textx_error : forall fs m pos wrapped e, in_text fs m pos ->
  match_dispatch process_fills match_keys fs m pos wrapped (RaisesTx e)
  = Fails (completed e (located_at fs m pos)).
Proof. exact match_textx_error. Qed.
Print Assumptions C33_match_textx_error.

Theorem C33_match_wrapped_any_exception : forall fs m pos, in_text fs m pos ->
  match_dispatch process_fills match_keys fs m pos true RaisesOther = Fails (located_at fs m pos).
Proof. exact match_wrapped_other. Qed.
Print Assumptions C33_match_wrapped_any_exception.

(* supplied fields are kept: field by field *)
Theorem C33_supplied_kept : forall e loc,
  (forall x, r_line e = Some x -> r_line (completed e loc) = Some x) /\
  (forall x, r_col e = Some x -> r_col (completed e loc) = Some x) /\
  (forall x, r_nchar e = Some x -> r_nchar (completed e loc) = Some x) /\
  (forall x, r_file e = Some x -> r_file (completed e loc) = Some x).
Proof. exact supplied_kept. Qed.
Print Assumptions C33_supplied_kept.

(* a processor that returns, and a foreign exception without the wrapper, are not turned into errors *)
Theorem C33_other_outcomes : forall fs m pos pos_end wrapped,
  obj_dispatch process_fills location_keys fs m pos pos_end wrapped Returns = Loaded /\
  obj_dispatch process_fills location_keys fs m pos pos_end false RaisesOther = Propagates.
Proof. exact other_outcomes. Qed.
Print Assumptions C33_other_outcomes.

(* non-vacuity: object "xy z" (offsets 4..8) of an imported file, processor supplied only a line *)
Example C33_nonvacuous :
  let fs := [ {| s_name := Some [109]%N; s_text := [10;10]%N |};
              {| s_name := Some [98]%N; s_text := [97;98;10;10;120;121;32;122]%N |} ] in
  in_text fs 1 4 /\
  obj_dispatch process_fills location_keys fs 1 4 8 false
     (RaisesTx {| r_file := None; r_line := Some 99; r_col := None; r_nchar := None |})
  = Fails {| r_file := Some [98]%N; r_line := Some 99; r_col := Some 1; r_nchar := Some 4 |} /\
  match_dispatch process_fills match_keys fs 1 7 true RaisesOther
  = Fails {| r_file := Some [98]%N; r_line := Some 3; r_col := Some 4; r_nchar := None |}.
Proof. vm_compute. repeat split; try reflexivity. repeat constructor. Qed.
Print Assumptions C33_nonvacuous.

(* ---- composed with the object builder (Model/Build.v, C06_object_span): the span is no longer an input.
   For EVERY grammar table, metamodel table, group oracle, option setting and file list: the object that
   process_node builds from a common-rule node (NT n kids) of model m's parse tree is processed with the
   location of that NODE: line/col of tpos (start of its first terminal), nchar = tend - tpos. *)
Theorem C33_built_object_error : forall g mm grp auto use_grp fs m n kids top v top' wrapped err,
  pnode g mm (s_text (file_at fs m)) grp auto use_grp (NT n kids) top = BOk (v, top') ->
  (exists c a, info mm n = IRule RCommon c a) ->
  in_text fs m (tpos (NT n kids)) ->
  process_built_node process_fills location_keys g mm grp auto use_grp fs m (NT n kids) top wrapped (RaisesTx err)
  = Some (Fails (completed err (obj_location fs m (tpos (NT n kids)) (tend (NT n kids))))).
Proof. exact built_object_processor_error. Qed.
Print Assumptions C33_built_object_error.

Theorem C33_built_object_wrapped_exception : forall g mm grp auto use_grp fs m n kids top v top',
  pnode g mm (s_text (file_at fs m)) grp auto use_grp (NT n kids) top = BOk (v, top') ->
  (exists c a, info mm n = IRule RCommon c a) ->
  in_text fs m (tpos (NT n kids)) ->
  process_built_node process_fills location_keys g mm grp auto use_grp fs m (NT n kids) top true RaisesOther
  = Some (Fails (obj_location fs m (tpos (NT n kids)) (tend (NT n kids)))).
Proof. exact built_object_wrapped_exception. Qed.
Print Assumptions C33_built_object_wrapped_exception.

(* for a well-formed node nchar is the (positive) length from its first to its last terminal *)
Theorem C33_built_object_nchar : forall fs m t, wf_tree t = true ->
  exists k, r_nchar (obj_location fs m (tpos t) (tend t)) = Some k /\ 0 < k /\ tpos t + k = tend t.
Proof. exact built_object_nchar_positive. Qed.
Print Assumptions C33_built_object_nchar.

(* obj_location is C06's get_location (Model/Build.v) plus the file name *)
Theorem C33_location_is_C06_location : forall fs m p e, in_text fs m p ->
  obj_location fs m p e =
  let '(lc, n) := Build.get_location (s_text (file_at fs m)) p e in
  {| r_file := s_name (file_at fs m); r_line := Some (fst lc); r_col := Some (snd lc); r_nchar := Some n |}.
Proof. exact obj_location_is_build_location. Qed.
Print Assumptions C33_location_is_C06_location.

(* the location is a function of the OBJECT (its model and its whole span), not of its start offset:
   two objects starting at the same offset with different ends (a parent and its first child) never
   get the same error, nor do objects at equal offsets of two differently named files.  Any scheme that
   keys locations by the start offset alone contradicts these. *)
Theorem C33_location_distinguishes_ends : forall fs m pos e1 e2 wrapped, in_text fs m pos ->
  pos <= e1 -> pos <= e2 -> e1 <> e2 ->
  obj_dispatch process_fills location_keys fs m pos e1 wrapped (RaisesTx no_loc)
  <> obj_dispatch process_fills location_keys fs m pos e2 wrapped (RaisesTx no_loc).
Proof. exact location_distinguishes_ends. Qed.
Print Assumptions C33_location_distinguishes_ends.

Theorem C33_location_distinguishes_models : forall fs m1 m2 pos e wrapped, in_text fs m1 pos -> in_text fs m2 pos ->
  s_name (file_at fs m1) <> s_name (file_at fs m2) ->
  obj_dispatch process_fills location_keys fs m1 pos e wrapped (RaisesTx no_loc)
  <> obj_dispatch process_fills location_keys fs m2 pos e wrapped (RaisesTx no_loc).
Proof. exact location_distinguishes_models. Qed.
Print Assumptions C33_location_distinguishes_models.

(* a common-rule node with terminals at 2..5 and 7..8 of the imported file "ab\ncdefgh" *)
Example C33_composed_nonvacuous :
  let fs := [ {| s_name := None; s_text := [] |};
              {| s_name := Some [98]%N; s_text := [97;98;10;99;100;101;102;103;104]%N |} ] in
  (exists v top', pnode (mkGrammar [] 0 None) [IRule RCommon [65]%N []] (s_text (file_at fs 1)) (fun _ _ => None) true false
                   (NT 0 [T 1 2 3 false; T 1 7 1 false]) None = BOk (v, top')) /\
  process_built_node process_fills location_keys (mkGrammar [] 0 None) [IRule RCommon [65]%N []] (fun _ _ => None) true false fs 1
    (NT 0 [T 1 2 3 false; T 1 7 1 false]) None false (RaisesTx no_loc)
  = Some (Fails {| r_file := Some [98]%N; r_line := Some 1; r_col := Some 3; r_nchar := Some 6 |}).
Proof. split; [eexists; eexists; vm_compute; reflexivity | vm_compute; reflexivity]. Qed.
Print Assumptions C33_composed_nonvacuous.

(* ---- without a numeric bound: positions of an ACCEPTED parse stay inside the text.
   orc_sane (Proofs/PegTerm.v): every regex / ignore-case match reported by the oracle lies inside the input.
   For every grammar table, config, such oracle, memo flag and fuel: a well-formed node (C06's wf_tree: non-empty
   terminals) of the parse result starts inside the text (terminal invariant of Proofs/PegInv.v). *)
Theorem C33_parsed_node_in_text : forall g c orc memo fuel input r t,
  orc_sane g input orc -> Peg.run g c orc memo fuel input = Parsed r ->
  In t (res_subtrees r) -> wf_tree t = true -> tpos t <= length input.
Proof. exact parsed_node_in_text. Qed.
Print Assumptions C33_parsed_node_in_text.

(* parser + builder + dispatch: the object built from a well-formed common-rule node of the parse of model m's
   text is processed with the location of that node; no hypothesis on positions *)
Theorem C33_parsed_object_error : forall g c orc memo fuel mm grp auto use_grp fs m r n kids top v top' wrapped err,
  orc_sane g (s_text (file_at fs m)) orc ->
  Peg.run g c orc memo fuel (s_text (file_at fs m)) = Parsed r ->
  In (NT n kids) (res_subtrees r) -> wf_tree (NT n kids) = true ->
  pnode g mm (s_text (file_at fs m)) grp auto use_grp (NT n kids) top = BOk (v, top') ->
  (exists cl a, info mm n = IRule RCommon cl a) ->
  process_built_node process_fills location_keys g mm grp auto use_grp fs m (NT n kids) top wrapped (RaisesTx err)
  = Some (Fails (completed err (obj_location fs m (tpos (NT n kids)) (tend (NT n kids))))).
Proof. exact parsed_object_processor_error. Qed.
Print Assumptions C33_parsed_object_error.

Theorem C33_parsed_object_wrapped_exception : forall g c orc memo fuel mm grp auto use_grp fs m r n kids top v top',
  orc_sane g (s_text (file_at fs m)) orc ->
  Peg.run g c orc memo fuel (s_text (file_at fs m)) = Parsed r ->
  In (NT n kids) (res_subtrees r) -> wf_tree (NT n kids) = true ->
  pnode g mm (s_text (file_at fs m)) grp auto use_grp (NT n kids) top = BOk (v, top') ->
  (exists cl a, info mm n = IRule RCommon cl a) ->
  process_built_node process_fills location_keys g mm grp auto use_grp fs m (NT n kids) top true RaisesOther
  = Some (Fails (obj_location fs m (tpos (NT n kids)) (tend (NT n kids)))).
Proof. exact parsed_object_wrapped_exception. Qed.
Print Assumptions C33_parsed_object_wrapped_exception.

(* grammar  M: 'a';  on the text "\n a\n": accepted, the node of M is in the result, well-formed, and its
   object is processed at line 2, column 2, nchar 1 *)
Example C33_parsed_nonvacuous :
  let g := mkGrammar [mkNode KSeq [1;3] None false [] false false None None;
                      mkNode KSeq [2] None false [77]%N true false None None;
                      mkNode (KStr [97]%N None) [] None false [] false false None None;
                      mkNode KEOF [] None false [] false false None None] 0 None in
  let fs := [ {| s_name := Some [109]%N; s_text := [10;32;97;10]%N |} ] in
  let orc := fun (_ _ : nat) => @None nat in
  let node := NT 1 [T 2 2 1 true] in
  orc_sane g (s_text (file_at fs 0)) orc /\
  (exists r, Peg.run g (mkConfig true [32;10]%N) orc false 20 (s_text (file_at fs 0)) = Parsed r /\ In node (res_subtrees r)) /\
  wf_tree node = true /\
  process_built_node process_fills location_keys g [IOther; IRule RCommon [77]%N []] (fun _ _ => None) true false fs 0
     node None false (RaisesTx no_loc)
  = Some (Fails {| r_file := Some [109]%N; r_line := Some 2; r_col := Some 2; r_nchar := Some 1 |}).
Proof.
  cbv zeta. split; [split; intros; discriminate|].
  split; [eexists; split; [vm_compute; reflexivity | cbn; left; reflexivity]|].
  split; vm_compute; reflexivity.
Qed.
Print Assumptions C33_parsed_nonvacuous.
