(* C13 — object processors run once each, bottom-up, on a fully linked model.

   Vocabulary (Model/Proc.v): `walk` transcribes model.py `call_obj_processors` in
   state-passing style (the log of processor calls is threaded like the Python side effects);
   `log_of d v` / `model_after d v` are the calls made and the tree left by the call for a root
   `v` looked up under class `d`.  `reg` (which names have a processor) and `proc` (what each
   processor returns for its argument) are arbitrary.  `nodes d v` lists, in post order, the
   (declared class, value) pairs of everything contained in v through containment attributes
   whose declared class is not a match rule; `ids_of` their identities; `below o` the
   identities strictly inside o.  `NoDup (ids_of (nodes d v))` says that the containment
   structure is a tree (no object is contained twice), which is what parsing produces. *)
From TxV Require Import Core.Base Model.Proc Gen.SrcLoad Gen.SrcProc Proofs.ProcProofs.

(* 0. `walk` is instantiated by `src_facts`, the facts tools/translate/proc_tr.py reads from the
   text of call_obj_processors on every run (block order, the tests guarding recursion and
   replacement, the own-class condition, the return policy).  The facts of the current source
   are exactly the ones the specification describes; every theorem below is about
   `walk src_facts` and is therefore re-proved against the source. *)
Theorem C13_source_facts : src_facts = std_facts.
Proof. exact src_facts_std. Qed.
Print Assumptions C13_source_facts.

(* 1. The walk is the post-order schedule.  For every tree, metadata, registration set and
   processor behaviour: the calls made (in order, with the argument as it is at call time) are
   `schedule` = for every visited value in post order, [own-class processor if the class
   differs from the declared one and is registered] ++ [declared-class processor if
   registered]; the tree left behind is the bottom-up replacement result `after`; the value
   returned is the own-class result if not None, else the declared-class result. *)
Theorem C13_log : forall reg proc truthy d v log,
  walk src_facts reg proc truthy d v log =
  (log ++ schedule reg proc d v, after reg proc d v,
   if d_match d then None else result reg proc d (after reg proc d v)).
Proof. exact walk_src_spec. Qed.
Print Assumptions C13_log.

Theorem C13_log_root : forall reg proc truthy d v,
  walk_root src_facts reg proc truthy d v = (schedule reg proc d v, after reg proc d v).
Proof. exact walk_root_src_spec. Qed.
Print Assumptions C13_log_root.

(* 2. Exactly once per object of a common rule: every object contained in the model whose
   rule has a processor gets exactly one call of that processor. *)
Theorem C13_once_per_common_object : forall reg proc truthy d v d' id c fs,
  NoDup (ids_of (nodes d v)) -> In (d', VObj id c fs) (nodes d v) -> reg (c_nm c) = true ->
  calls_on (c_nm c) id (log_of reg proc truthy d v) = 1.
Proof. exact final_once_own. Qed.
Print Assumptions C13_once_per_common_object.

(* the complete account of the calls an object receives, for every processor name p *)
Theorem C13_calls_exact : forall reg proc truthy d v d' id c fs p,
  NoDup (ids_of (nodes d v)) -> In (d', VObj id c fs) (nodes d v) ->
  calls_on p id (log_of reg proc truthy d v) =
  b2n (own_called reg c d' && Nat.eqb (c_nm c) p) + b2n (reg (d_nm d') && Nat.eqb (d_nm d') p).
Proof. exact final_calls_count. Qed.
Print Assumptions C13_calls_exact.

(* 3. A processor registered for the declared (abstract) rule of an attribute runs exactly once
   for each object stored in it, immediately after the processor of the object's own rule,
   on the same argument; and once for every non-object value stored in it. *)
Theorem C13_abstract_after_own : forall reg proc truthy d v d' id c fs,
  NoDup (ids_of (nodes d v)) -> In (d', VObj id c fs) (nodes d v) -> reg (d_nm d') = true ->
  calls_on (d_nm d') id (log_of reg proc truthy d v) = 1 /\
  (c_nm c <> d_nm d' -> reg (c_nm c) = true ->
   exists l1 l2, log_of reg proc truthy d v =
     l1 ++ [(c_nm c, after reg proc d' (VObj id c fs)); (d_nm d', after reg proc d' (VObj id c fs))] ++ l2).
Proof. exact final_declared. Qed.
Print Assumptions C13_abstract_after_own.

Theorem C13_abstract_on_values : forall reg proc truthy d v d' a,
  In (d', VAtom a) (nodes d v) -> reg (d_nm d') = true ->
  exists l1 l2, log_of reg proc truthy d v = l1 ++ [(d_nm d', VAtom a)] ++ l2.
Proof. exact final_atoms. Qed.
Print Assumptions C13_abstract_on_values.

(* 4. Children before containers: for every contained object o the log splits as
   l1 ++ (sub ++ own) ++ l2 where `sub` are exactly the calls for everything contained in o
   (all on objects below o), `own` the calls on o itself, and no call on o or on anything
   below o happens before or after this block. *)
Theorem C13_children_before_parents : forall reg proc truthy d v d' id c fs,
  NoDup (ids_of (nodes d v)) -> In (d', VObj id c fs) (nodes d v) ->
  exists l1 sub own l2,
    log_of reg proc truthy d v = l1 ++ (sub ++ own) ++ l2 /\
    sub = flat_map (events reg) (visits_fields reg proc fs) /\
    own = events reg (d', after reg proc d' (VObj id c fs)) /\
    (forall e i, In e sub -> ev_id e = Some i -> In i (below (VObj id c fs))) /\
    (forall e, In e own -> ev_id e = Some id) /\
    (forall e i, In e (l1 ++ l2) -> ev_id e = Some i -> i <> id /\ ~ In i (below (VObj id c fs))) /\
    ~ In id (below (VObj id c fs)).
Proof. exact final_children_first. Qed.
Print Assumptions C13_children_before_parents.

(* 5. Replacement.  A containment slot that held v ends up holding `settle d v`:
   None stays None, a match-rule typed slot is untouched, otherwise the non-None result
   replaces exactly this slot and else the (processed) object stays; the own-class result
   dominates the declared-class result; list slots are settled position by position;
   non-containment attributes are untouched. *)
Theorem C13_replacement_single : forall reg proc truthy n d v rest log,
  snd (walk_fields src_facts reg proc truthy (FOne n true d v rest) log) =
  FOne n true d (settle reg proc d v) (after_fields reg proc rest).
Proof. exact final_slot_one. Qed.
Print Assumptions C13_replacement_single.

Theorem C13_replacement_list : forall reg proc truthy n d vs rest log,
  exists vs', snd (walk_fields src_facts reg proc truthy (FMany n true d vs rest) log) =
              FMany n true d vs' (after_fields reg proc rest) /\
              values_to_list vs' = map (settle reg proc d) (values_to_list vs).
Proof. exact final_slot_many. Qed.
Print Assumptions C13_replacement_list.

Theorem C13_settle : forall reg proc d v,
  settle reg proc d v =
  if is_none v then VNone
  else if d_match d then v
  else match result reg proc d (after reg proc d v) with
       | Some r => r
       | None => after reg proc d v
       end.
Proof. exact settle_cases. Qed.
Print Assumptions C13_settle.

Theorem C13_own_result_dominates : forall reg proc d id c fs r,
  own_called reg c d = true -> proc (c_nm c) (VObj id c fs) = Some r ->
  result reg proc d (VObj id c fs) = Some r.
Proof. exact result_own_dominates. Qed.
Print Assumptions C13_own_result_dominates.

Theorem C13_references_untouched : forall reg proc truthy n d v rest log,
  snd (walk_fields src_facts reg proc truthy (FOne n false d v rest) log) = FOne n false d v (after_fields reg proc rest).
Proof. exact final_noncont_untouched. Qed.
Print Assumptions C13_references_untouched.

(* 6. Only on a linked, initialised model.  `load_phases` is translated on every run from the
   main-model block of parse_tree_to_objgraph; for every list of models under construction:
   after the first processor call no reference resolution and no user-class __init__ happens
   (for any model); when references remain unresolved no processor runs; when all resolve,
   every model gets its processors exactly once. *)
Theorem C13_after_linking : forall models unresolved,
  procs_last (run_phases load_phases models unresolved) = true.
Proof. intros. apply order_of_phases. vm_compute. reflexivity. Qed.
Print Assumptions C13_after_linking.

Theorem C13_after_linking_split : forall models unresolved l1 e l2,
  run_phases load_phases models unresolved = l1 ++ e :: l2 -> is_proc e = true ->
  forall x, In x l2 -> is_link_or_init x = false.
Proof.
  intros models u l1 e l2 E. eapply procs_last_split; [|exact E].
  apply order_of_phases. vm_compute. reflexivity.
Qed.
Print Assumptions C13_after_linking_split.

Theorem C13_no_processors_when_unresolved : forall models,
  existsb is_proc (run_phases load_phases models true) = false.
Proof. intros. apply no_procs_when_unresolved. vm_compute. reflexivity. Qed.
Print Assumptions C13_no_processors_when_unresolved.

Theorem C13_processors_once_per_model : forall m models,
  NoDup models -> In m models ->
  count_lev (lev_is_proc_of m) (run_phases load_phases models false) = 1 /\
  count_lev (lev_is_init_of m) (run_phases load_phases models false) = 1.
Proof.
  intros m models Hnd Hin. split.
  - apply processors_once_per_model; [vm_compute; reflexivity | exact Hnd | exact Hin].
  - apply init_once_per_model; [vm_compute; reflexivity | exact Hnd | exact Hin].
Qed.
Print Assumptions C13_processors_once_per_model.

(* 7. Match-rule processors (model.py process_match, run while the object tree is built): for
   every parse subtree of a match-rule value, every registration set and processor behaviour,
   the calls are the post-order of the subtree - children left to right, innermost first -
   and the value is the bottom-up conversion result; over the match values of a build in the
   order process_node reaches them the logs concatenate; a registered node is called after
   all its children, on the concatenation of their results. *)
Theorem C13_match_postorder : forall mreg mproc t log,
  pmatch mreg mproc t log = (log ++ mevents mreg mproc t, mval mreg mproc t).
Proof. exact pmatch_spec. Qed.
Print Assumptions C13_match_postorder.

Theorem C13_match_left_to_right : forall mreg mproc ts log,
  pmatch_forest mreg mproc ts log = log ++ flat_map (mevents mreg mproc) ts.
Proof. exact pmatch_forest_spec. Qed.
Print Assumptions C13_match_left_to_right.

Theorem C13_match_innermost_first : forall mreg mproc r k ks,
  mreg r = true ->
  mevents mreg mproc (PNode r (PCons k ks)) =
  (mevents mreg mproc k ++ mevents_kids mreg mproc ks) ++ [(r, mval mreg mproc k ++ mvals mreg mproc ks)].
Proof. intros mreg mproc r k ks H. exact (mevents_node mreg mproc r (PCons k ks) H). Qed.
Print Assumptions C13_match_innermost_first.

(* WWW(3): WW(2) '+' WW(2); WW: W(1) ('-' W)?; all three registered, W upper-cases (here: appends
   33 "!"), on the text w4-w5+w6 *)
Example C13_nonvacuous_match :
  let t := PNode 3 (PCons (PNode 2 (PCons (PTerm 1 [119;52]%N) (PCons (PTerm 0 [45]%N) (PCons (PTerm 1 [119;53]%N) PNil))))
                   (PCons (PTerm 0 [43]%N) (PCons (PNode 2 (PCons (PTerm 1 [119;54]%N) PNil)) PNil))) in
  let mreg := fun r => Nat.leb 1 r in
  let mproc := fun (r : nat) (s : list N) => if Nat.eqb r 1 then s ++ [33]%N else s in
  pmatch mreg mproc t [] =
  ([(1, [119;52]%N); (1, [119;53]%N); (2, [119;52;33;45;119;53;33]%N); (1, [119;54]%N); (2, [119;54;33]%N);
    (3, [119;52;33;45;119;53;33;43;119;54;33]%N)],
   [119;52;33;45;119;53;33;43;119;54;33]%N).
Proof. vm_compute. reflexivity. Qed.
Print Assumptions C13_nonvacuous_match.

(* Non-vacuity: a model  Model{shapes=[Circle c1, Box b1{items=[Circle c2]}], ref->c2, v=5}
   with `shapes`/`items` typed by the abstract rule Shape(3), `v` typed by Val(5) which has an
   INT alternative; processors on Circle(1) Box(2) Shape(3) Model(0) Val(5); Circle's
   processor replaces c2 (id 4) by an atom.  Names: 0 Model 1 Circle 2 Box 3 Shape 4 INT 5 Val *)
Definition ex_tree : value :=
  VObj 1 (CRef 0 0)
    (FMany 0 true (Dcl (CRef 0 3) false)
       (VsCons (VObj 2 (CRef 0 1) FNil)
          (VsCons (VObj 3 (CRef 0 2)
                     (FMany 1 true (Dcl (CRef 0 3) false) (VsCons (VObj 4 (CRef 0 1) FNil) VsNil) FNil))
             VsNil))
       (FOne 2 false (Dcl (CRef 0 1) false) (VAtom 64)
          (FOne 3 true (Dcl (CRef 0 5) false) (VAtom 53)
             (FOne 4 true (Dcl (CRef 0 4) true) (VAtom 110) FNil)))).
Definition ex_reg (n : nat) : bool := Nat.leb n 3 || Nat.eqb n 5.
Definition ex_proc (p : nat) (v : value) : option value :=
  match p, v with 1, VObj 4 _ _ => Some (VAtom 114) | _, _ => None end.

Example C13_nonvacuous_tree :
  NoDup (ids_of (nodes (Dcl (CRef 0 0) false) ex_tree)) /\
  In (Dcl (CRef 0 3) false, VObj 4 (CRef 0 1) FNil) (nodes (Dcl (CRef 0 0) false) ex_tree) /\
  In (Dcl (CRef 0 5) false, VAtom 53) (nodes (Dcl (CRef 0 0) false) ex_tree) /\
  ex_reg 1 = true /\ ex_reg 3 = true /\
  map (fun e => (fst e, ev_id e)) (log_of ex_reg ex_proc (fun _ => true) (Dcl (CRef 0 0) false) ex_tree) =
    [(1, Some 2); (3, Some 2); (1, Some 4); (3, Some 4); (2, Some 3); (3, Some 3); (5, None); (0, Some 1)] /\
  model_after ex_reg ex_proc (fun _ => true) (Dcl (CRef 0 0) false) ex_tree =
  VObj 1 (CRef 0 0)
    (FMany 0 true (Dcl (CRef 0 3) false)
       (VsCons (VObj 2 (CRef 0 1) FNil)
          (VsCons (VObj 3 (CRef 0 2)
                     (FMany 1 true (Dcl (CRef 0 3) false) (VsCons (VAtom 114) VsNil) FNil))
             VsNil))
       (FOne 2 false (Dcl (CRef 0 1) false) (VAtom 64)
          (FOne 3 true (Dcl (CRef 0 5) false) (VAtom 53)
             (FOne 4 true (Dcl (CRef 0 4) true) (VAtom 110) FNil)))).
Proof.
  split; [repeat constructor; cbn; intuition discriminate|].
  split; [cbn; tauto|]. split; [cbn; tauto|]. repeat split.
Qed.
Print Assumptions C13_nonvacuous_tree.

Example C13_nonvacuous_phases :
  run_phases load_phases [0; 1] false =
    [LResolve 0; LResolve 1; LInit 0; LInit 1; LProc 0; LProc 1] /\
  run_phases load_phases [0; 1] true = [LResolve 0; LResolve 1; LRaise].
Proof. split; reflexivity. Qed.
Print Assumptions C13_nonvacuous_phases.
