(* C13 — object processors run once each, bottom-up, on a fully linked model. *)
From TxV Require Import Core.Base Model.Proc Proofs.ProcProofs.

(* For every object tree, every attribute metadata, every set of registered processors and
   every behaviour of the processors (any function from the argument to an optional
   replacement): the calls made by the walk of model.py `call_obj_processors`, in order and
   with the argument states, are exactly the post-order schedule; the tree it leaves behind is
   the bottom-up replacement result; the value it returns is the own-class result if not None,
   else the declared-class result. *)
Theorem C13_log : forall reg proc d v log,
  walk reg proc d v log =
  (log ++ schedule reg proc d v, after reg proc d v,
   if d_match d then None else result reg proc d (after reg proc d v)).
Proof. exact walk_spec. Qed.
Print Assumptions C13_log.

Theorem C13_log_root : forall reg proc d v,
  walk_root reg proc d v = (schedule reg proc d v, after reg proc d v).
Proof. exact walk_root_spec. Qed.
Print Assumptions C13_log_root.
