(* C21 - autokwd matches keyword-like literals only on word boundaries.

   The keyword-likeness test and the construction of the `<literal>\b` regex are translated from
   textx/lang.py (Gen/SrcKw.v); [kw_like] / [kw_match] (Model/Kw.v) transcribe the two regexes
   over an arbitrary classification of word characters and digits.  The parse-level statement
   relates the two parser models textX builds for one grammar (autokwd off / on), as dumped by
   tools/pegdump.py, for EVERY pair of tables, text, oracles, fuel and memoization setting. *)
From TxV Require Import Core.Base Model.PegSyntax Model.Peg Model.Build Model.KwDefs Gen.SrcKw Model.Kw
     Proofs.PegCongr Proofs.PegInv Proofs.KwProofs Proofs.KwCheckProofs Proofs.KwInv Proofs.KwBuild Proofs.KwModel Proofs.KwModel2 Proofs.KwWitness Proofs.KwStatements.

(* (0) The facts of the current source are the ones the model transcribes. *)
Theorem C21_source_is_modelled :
  src_kw_pattern = modelled_kw_pattern /\ src_kw_prefix = [] /\ src_kw_suffix = modelled_kw_suffix /\
  src_kw_guard_is_autokwd = true /\ src_kw_full_span = true /\
  src_kw_icase = IcMM /\ src_str_icase = IcMM /\ src_re_icase = IcMM.
Proof. exact stmt_C21_source_is_modelled. Qed.
Print Assumptions C21_source_is_modelled.

(* (1) Detection: with autokwd a literal becomes the regex <literal>\b exactly when it fully matches
   [^\d\W]\w*, i.e. it is non-empty, starts with a word character that is not a digit and
   consists of word characters only; otherwise it stays the StrMatch it is without autokwd. *)
Theorem C21_kw_detect : forall wordc digitc icase t,
  compile_lit wordc digitc true icase t =
    (if kw_like wordc digitc t then TRegex (t ++ [92;98]%N) icase t else TStr t icase) /\
  (kw_like wordc digitc t = true <->
   exists c r, t = c :: r /\ digitc c = false /\ wordc c = true /\ forallb wordc r = true).
Proof. exact stmt_C21_kw_detect. Qed.
Print Assumptions C21_kw_detect.

(* (2) A keyword-like literal never matches when the next character is a word character; in fact it
   matches exactly where the literal matches and the next character is not a word character.
   ([word_ok]: with ignore_case, \w must not depend on case.) *)
Theorem C21_boundary : forall wordc digitc lower icase t input p,
  word_ok wordc lower icase -> kw_like wordc digitc t = true ->
  (word_at wordc input (p + length t) = true -> kw_match wordc lower icase t input p = None) /\
  kw_match wordc lower icase t input p =
    (if (lit_prefix lower icase t (skipn p input) && negb (word_at wordc input (p + length t)))%bool
     then Some (length t) else None).
Proof. exact stmt_C21_boundary. Qed.
Print Assumptions C21_boundary.

(* (2') The same at parse level, as an invariant of parse trees.  First the general form: if every
   terminal that a node can produce satisfies a predicate [pt] on (node id, position, length), then
   every terminal of every accepted parse does - for every table, text, oracle, fuel, memoization. *)
Theorem C21_terminal_invariant : forall pt g input orc memo,
  (forall nid nd psq s r s',
      get_node g nid = Some nd -> term_parse input orc nid (n_kind nd) psq s = Ok r s' ->
      res_okb pt r = true) ->
  forall cfg fuel r, run g cfg orc memo fuel input = Parsed r ->
  forall nid p len, In (nid, p, len) (res_terminals r) -> pt nid p len = true.
Proof. exact stmt_C21_terminal_invariant. Qed.
Print Assumptions C21_terminal_invariant.

(* ... and the instance: [kwt] designates keyword-regex nodes (node id -> literal, ignore_case flag) whose
   oracle is <literal>\b of a keyword-like literal; then in every accepted parse no terminal of a
   designated node is immediately followed by a word character of the text. *)
Theorem C21_boundary_parse : forall wordc digitc lower kwt g cfg orc memo fuel input r,
  (forall a b, lower a = lower b -> wordc a = wordc b) ->
  kw_oracle_spec wordc digitc lower kwt g input orc ->
  run g cfg orc memo fuel input = Parsed r ->
  forall nid p len, In (nid, p, len) (res_terminals r) -> kwt nid <> None ->
                    word_at wordc input (p + len) = false.
Proof. exact kw_boundary_parse. Qed.
Print Assumptions C21_boundary_parse.

Example C21_boundary_parse_nonvacuous :
  kw_oracle_spec ascii_word ascii_digit ascii_lower kwt_in g_in_kw in_in1 (orc_of tbl_in1_kw) /\
  exists r, run g_in_kw cfg_default (orc_of tbl_in1_kw) false 50 in_in1 = Parsed r /\
            In (4, 0, 2) (res_terminals r) /\ word_at ascii_word in_in1 (0 + 2) = false.
Proof. exact stmt_C21_boundary_parse_nonvacuous. Qed.
Print Assumptions C21_boundary_parse_nonvacuous.

(* (3) Literals that do not look like identifiers compile to the same terminal with and without
   autokwd ... *)
Theorem C21_other_literals_identical : forall wordc digitc icase t,
  kw_like wordc digitc t = false ->
  compile_lit wordc digitc true icase t = compile_lit wordc digitc false icase t.
Proof. exact stmt_C21_other_literals_identical. Qed.
Print Assumptions C21_other_literals_identical.

(* ... and two tables whose non-terminal nodes are identical and whose terminals answer alike
   (a keyword regex answering like the StrMatch it replaces) parse alike: same acceptance, same
   tree up to the Terminal.suppress flag of the replaced StrMatches, same error position. *)
Theorem C21_related_tables_parse_alike : forall g g' cfg orc orc' memo fuel input,
  tables_rel g g' input orc orc' ->
  run g' cfg orc' memo fuel input = foutcome (kw_supf g g') (run g cfg orc memo fuel input).
Proof. exact autokwd_sim. Qed.
Print Assumptions C21_related_tables_parse_alike.

(* (4) Same model: g = the table built without autokwd, g' = with autokwd.  If the tables differ only
   in keyword-like StrMatches of g being RegExMatches in g' whose oracle is <literal>\b
   ([kw_tables_spec], decided per case by [kw_case_ok]) and at no position of the text a
   keyword-like literal of the grammar is immediately followed by a word character, then the
   autokwd parse and the plain parse give the same outcome. *)
Theorem C21_same_model : forall wordc digitc lower g g' cfg orc orc' memo fuel input,
  (forall a b, lower a = lower b -> wordc a = wordc b) ->
  kw_tables_spec wordc digitc lower g g' input orc orc' ->
  no_glued_keyword wordc digitc lower g input ->
  run g' cfg orc' memo fuel input = foutcome (kw_supf g g') (run g cfg orc memo fuel input).
Proof. exact autokwd_same_model. Qed.
Print Assumptions C21_same_model.

(* (4'') The same for the constructed model (Model/Build.v on the dumped metamodel table [mm], which is the
   same for both settings - checked per case on the two mmdumps): if moreover the replaced StrMatches are
   case-sensitive ones (no ignore_case: with it the value of a keyword is the grammar's spelling without and the
   input's spelling with autokwd - the known finding) and rule names / separators agree in the two tables, then
   an input accepted without autokwd is accepted with it and model construction yields the IDENTICAL object
   graph: classes, attributes, values, positions.  (use_regexp_group=False.) *)
Theorem C21_same_model_objects : forall wordc digitc lower g g' cfg orc orc' memo fuel input mm grp grp' auto r,
  (forall a b, lower a = lower b -> wordc a = wordc b) ->
  kw_tables_spec wordc digitc lower g g' input orc orc' ->
  no_glued_keyword wordc digitc lower g input ->
  replaced_are_exact g g' -> meta_same g g' ->
  run g cfg orc memo fuel input = Parsed r ->
  run g' cfg orc' memo fuel input = Parsed (fr (kw_supf g g') r) /\
  build g' mm input grp' auto false (fr (kw_supf g g') r) = build g mm input grp auto false r.
Proof. exact autokwd_same_objects. Qed.
Print Assumptions C21_same_model_objects.

(* (4''') The general form: any use_regexp_group, any ignore_case.  The two object graphs are related by [vrel lower]:
   same classes, attributes, positions, list shapes, errors; a string value is identical unless it is (built from)
   the text of a terminal of a REPLACED keyword literal, where it is the grammar's spelling without autokwd and the
   input's spelling with it - equal up to letter case.  This is the exact extent of the known finding
   icase-keyword-spelling: the per-terminal hypothesis of the underlying simulation uses the up-to-case clause only
   for replaced literals (every other terminal has the identical text in both worlds).
   [kw_no_group]: the keyword regex has no group; [grp_related]: group oracles of regexes present in both tables agree. *)
Theorem C21_model_objects_related : forall wordc digitc lower g g' cfg orc orc' memo fuel input mm grp grp' auto ug r,
  (forall a b, lower a = lower b -> wordc a = wordc b) ->
  kw_tables_spec wordc digitc lower g g' input orc orc' ->
  no_glued_keyword wordc digitc lower g input ->
  meta_same g g' -> kw_rules_not_base g g' ->
  (ug = true -> kw_no_group mm g g' /\ grp_related g g' grp grp') ->
  run g cfg orc memo fuel input = Parsed r ->
  run g' cfg orc' memo fuel input = Parsed (fr (kw_supf g g') r) /\
  vbrel lower (build g mm input grp auto ug r) (build g' mm input grp' auto ug (fr (kw_supf g g') r)).
Proof. exact autokwd_objects_rel. Qed.
Print Assumptions C21_model_objects_related.

Example C21_model_objects_related_nonvacuous :
  kw_case_ok ascii_word ascii_digit ascii_lower in_kwv tbl_kwv tbl_kwv g_kwv_plain g_kwv_kw = true /\
  no_glue_ok ascii_word ascii_digit ascii_lower in_kwv g_kwv_plain = true /\
  exists r v v',
    run g_kwv_plain cfg_default (orc_of tbl_kwv) false 50 in_kwv = Parsed r /\
    build g_kwv_plain mm_kwv in_kwv no_grp true true r = BOk v /\
    build g_kwv_kw mm_kwv in_kwv no_grp true true (fr (kw_supf g_kwv_plain g_kwv_kw) r) = BOk v' /\
    vrel ascii_lower v v' /\ v' <> v /\
    v = VObj [77;111;100;101;108]%N 0 5
             [([107]%N, VConv [75;119]%N (VTerm []%N [102;111;111]%N)); ([110]%N, VTerm [73;68]%N [120]%N)] /\
    v' = VObj [77;111;100;101;108]%N 0 5
             [([107]%N, VConv [75;119]%N (VTerm []%N [70;79;79]%N)); ([110]%N, VTerm [73;68]%N [120]%N)].
Proof. exact stmt_C21_model_objects_related_nonvacuous. Qed.
Print Assumptions C21_model_objects_related_nonvacuous.

(* identical object graphs, any use_regexp_group, when the literals match exactly (identity case folding, i.e.
   tables built without ignore_case) *)
Theorem C21_same_model_objects_grp : forall wordc digitc g g' cfg orc orc' memo fuel input mm grp grp' auto ug r,
  kw_tables_spec wordc digitc (fun c => c) g g' input orc orc' ->
  no_glued_keyword wordc digitc (fun c => c) g input ->
  meta_same g g' -> kw_rules_not_base g g' ->
  (ug = true -> kw_no_group mm g g' /\ grp_related g g' grp grp') ->
  run g cfg orc memo fuel input = Parsed r ->
  run g' cfg orc' memo fuel input = Parsed (fr (kw_supf g g') r) /\
  build g' mm input grp' auto ug (fr (kw_supf g g') r) = build g mm input grp auto ug r.
Proof. exact autokwd_same_objects_grp. Qed.
Print Assumptions C21_same_model_objects_grp.

Example C21_same_model_objects_nonvacuous :
  kw_case_ok ascii_word ascii_digit ascii_lower in_in1 tbl_in1_plain tbl_in1_kw g_in_plain g_in_kw = true /\
  no_glue_ok ascii_word ascii_digit ascii_lower in_in1 g_in_plain = true /\
  replaced_are_exact g_in_plain g_in_kw /\
  exists r v,
    run g_in_plain cfg_default (orc_of tbl_in1_plain) false 50 in_in1 = Parsed r /\
    build g_in_plain mm_in in_in1 no_grp true false r = BOk v /\
    build g_in_kw mm_in in_in1 no_grp true false (fr (kw_supf g_in_plain g_in_kw) r) = BOk v /\
    v = VObj [77;111;100;101;108]%N 0 5 [([120]%N, VTerm [73;68]%N [120]%N); ([121]%N, VDefault [73;68]%N)].
Proof. exact stmt_C21_same_model_objects_nonvacuous. Qed.
Print Assumptions C21_same_model_objects_nonvacuous.

(* (4') The decidable instance checks the harness evaluates per case are sound: when [kw_case_ok]
   (the two dumped tables are related as above and the oracle rows Python computed for the keyword
   regexes / ignore_case StrMatches are the rows kw_match / str_match predict) and [no_glue_ok] say
   [true], the two parses coincide. *)
Theorem C21_check_sound : forall wordc digitc lower input tbl tbl' g g' cfg memo fuel,
  (forall a b, lower a = lower b -> wordc a = wordc b) ->
  kw_case_ok wordc digitc lower input tbl tbl' g g' = true ->
  no_glue_ok wordc digitc lower input g = true ->
  run g' cfg (orc_of tbl') memo fuel input
  = foutcome (kw_supf g g') (run g cfg (orc_of tbl) memo fuel input).
Proof. exact kw_case_sound. Qed.
Print Assumptions C21_check_sound.

(* non-vacuity *)
Example C21_kw_nonvacuous :
  kw_like ascii_word ascii_digit [105;102]%N = true /\            (* if   *)
  kw_like ascii_word ascii_digit [95;97;49]%N = true /\           (* _a1  *)
  kw_like ascii_word ascii_digit [49;97]%N = false /\             (* 1a   *)
  kw_like ascii_word ascii_digit [97;45;98]%N = false /\          (* a-b  *)
  kw_like ascii_word ascii_digit [43]%N = false /\                (* +    *)
  kw_like ascii_word ascii_digit []%N = false /\
  kw_match ascii_word ascii_lower false [105;102]%N [105;102;32;120]%N 0 = Some 2 /\   (* "if x" *)
  kw_match ascii_word ascii_lower false [105;102]%N [105;102;120]%N 0 = None /\        (* "ifx"  *)
  kw_match ascii_word ascii_lower false [105;102]%N [105;102]%N 0 = Some 2 /\          (* "if"   *)
  kw_match ascii_word ascii_lower false [105;102]%N [105;102;40]%N 0 = Some 2.         (* "if("  *)
Proof. exact stmt_C21_kw_nonvacuous. Qed.
Print Assumptions C21_kw_nonvacuous.

(* `Model: ('in' x=ID | y=ID) ';';` : on "in x;" the hypotheses of (4) hold and the parse is accepted;
   on "inx;" (glued keyword) both settings accept but the models differ, so the hypothesis of (4)
   cannot be dropped. *)
Example C21_same_model_nonvacuous :
  kw_case_ok ascii_word ascii_digit ascii_lower in_in1 tbl_in1_plain tbl_in1_kw g_in_plain g_in_kw = true /\
  no_glue_ok ascii_word ascii_digit ascii_lower in_in1 g_in_plain = true /\
  accepted (run g_in_plain cfg_default (orc_of tbl_in1_plain) false 50 in_in1) = true /\
  run g_in_kw cfg_default (orc_of tbl_in1_kw) false 50 in_in1
  = foutcome (kw_supf g_in_plain g_in_kw) (run g_in_plain cfg_default (orc_of tbl_in1_plain) false 50 in_in1).
Proof. exact in_unglued_same. Qed.
Print Assumptions C21_same_model_nonvacuous.

Example C21_glued_keyword_changes_model :
  accepted (run g_in_plain cfg_default (orc_of tbl_in2_plain) false 50 in_in2) = true /\
  accepted (run g_in_kw cfg_default (orc_of tbl_in2_kw) false 50 in_in2) = true /\
  run g_in_kw cfg_default (orc_of tbl_in2_kw) false 50 in_in2
  <> foutcome (kw_supf g_in_plain g_in_kw) (run g_in_plain cfg_default (orc_of tbl_in2_plain) false 50 in_in2) /\
  lit_prefix ascii_lower false [105;110]%N in_in2 = true /\ word_at ascii_word in_in2 2 = true.
Proof. exact in_glued_differs. Qed.
Print Assumptions C21_glued_keyword_changes_model.
