(* C26 — the language and generator registries behave as case-insensitive maps. *)
From TxV Require Import Core.Base Gen.SrcRegistry Model.Registry Proofs.RegistryProofs.

(* [run] / [step] is the machine of registration.py instantiated with the facts that
   tools/translate/registry_tr.py reads from the source on every run (Gen/SrcRegistry.v): every
   key expression (registration, lookup, cache) carries .lower(), clearing resets the table to
   None (so entry points are read again) and drops the cache, pattern-less languages are skipped
   by languages_for_file; the order "lazy entry-point load, duplicate refusal, insertion" is
   compared as text. *)

(* For every operation sequence (any length), the registry state machine of
   registration.py (lazily loaded tables) answers exactly like the specification machine:
   eagerly loaded insertion-ordered maps keyed by lowered names. *)
Theorem C26_refines : forall fnm ep_langs ep_gens ops,
  run fnm ep_langs ep_gens (init) ops = srun fnm ep_langs ep_gens (sinit ep_langs ep_gens) ops.
Proof. exact refines. Qed.
Print Assumptions C26_refines.

(* Laws of the specification machine (hence, by C26_refines, of every reachable state).
   [slfail s] = "the entry points contain a duplicate name and its registration error has not been
   reported since the last clearing": the first operation that consults the language map reports
   it (C26_entry_point_duplicate_reported_once); laws about answers of the map assume it is not
   pending. *)
Theorem C26_lookup_case_insensitive : forall fnm epl epg s n n', lower n = lower n' ->
  snd (sstep fnm epl epg s (LangDescription n)) = snd (sstep fnm epl epg s (LangDescription n')).
Proof. exact lang_lookup_ci. Qed.
Print Assumptions C26_lookup_case_insensitive.

Theorem C26_generator_lookup_case_insensitive : forall fnm epl epg s l l' t t' a,
  lower l = lower l' -> lower t = lower t' ->
  snd (sstep fnm epl epg s (GenDescription l t a)) = snd (sstep fnm epl epg s (GenDescription l' t' a)).
Proof. exact gen_lookup_ci. Qed.
Print Assumptions C26_generator_lookup_case_insensitive.

Theorem C26_register_then_found : forall fnm epl epg s d n,
  snd (sstep fnm epl epg s (RegLang d)) = RUnit -> lower n = lower (lname d) ->
  snd (sstep fnm epl epg (fst (sstep fnm epl epg s (RegLang d))) (LangDescription n)) = RLang d.
Proof. exact reg_lang_then_lookup. Qed.
Print Assumptions C26_register_then_found.

Theorem C26_duplicate_refused : forall fnm epl epg s d d',
  snd (sstep fnm epl epg s (RegLang d)) = RUnit -> lower (lname d') = lower (lname d) ->
  snd (sstep fnm epl epg (fst (sstep fnm epl epg s (RegLang d))) (RegLang d')) = RErr.
Proof. exact reg_lang_dup_refused. Qed.
Print Assumptions C26_duplicate_refused.

Theorem C26_refused_changes_nothing : forall fnm epl epg s d, slfail s = false ->
  snd (sstep fnm epl epg s (RegLang d)) = RErr -> fst (sstep fnm epl epg s (RegLang d)) = s.
Proof. exact reg_lang_refused_keeps_state. Qed.
Print Assumptions C26_refused_changes_nothing.

Theorem C26_other_names_unaffected : forall fnm epl epg s d n, slfail s = false -> lower n <> lower (lname d) ->
  snd (sstep fnm epl epg (fst (sstep fnm epl epg s (RegLang d))) (LangDescription n))
  = snd (sstep fnm epl epg s (LangDescription n)).
Proof. exact reg_lang_other_unaffected. Qed.
Print Assumptions C26_other_names_unaffected.

Theorem C26_entry_points_survive_clear : forall fnm epl epg s d,
  load_langs_bad epl = false ->
  lookup (lower (lname d)) (load_langs epl) = Some d ->
  snd (sstep fnm epl epg (fst (sstep fnm epl epg s ClearLangs)) (LangDescription (lname d))) = RLang d.
Proof. exact entry_point_lang_found_after_clear. Qed.
Print Assumptions C26_entry_points_survive_clear.

(* discovery of entry points whose names collide (case-insensitively) raises TextXRegistrationError
   out of the first operation that consults the language map after start / clearing, whatever that
   operation is; the map then holds the entry points before the duplicate and the error is not
   reported again until the next clearing *)
Theorem C26_entry_point_duplicate_reported_once : forall fnm epl epg s o n,
  load_langs_bad epl = true -> sneeds_l o [] = true ->
  let s1 := fst (sstep fnm epl epg s ClearLangs) in
  snd (sstep fnm epl epg s1 o) = RErr /\
  snd (sstep fnm epl epg (fst (sstep fnm epl epg s1 o)) (LangDescription n))
    = match lookup (lower n) (load_langs epl) with Some d => RLang d | None => RErr end.
Proof. exact entry_point_duplicate_reported_once. Qed.
Print Assumptions C26_entry_point_duplicate_reported_once.

Theorem C26_languages_for_file_exact : forall fnm epl epg s f d, slfail s = false ->
  (In d (match snd (sstep fnm epl epg s (LangsForFile f)) with RLangs l => l | _ => [] end) <->
   In d (map snd (slangs s)) /\ matches fnm f d = true).
Proof. exact langs_for_file_exact. Qed.
Print Assumptions C26_languages_for_file_exact.

Theorem C26_language_for_file_exactly_one : forall fnm epl epg s f, slfail s = false ->
  (forall d, snd (sstep fnm epl epg s (LangForFile f)) = RLang d <-> langs_for_file fnm f (slangs s) = [d]) /\
  (length (langs_for_file fnm f (slangs s)) <> 1 -> snd (sstep fnm epl epg s (LangForFile f)) = RErr).
Proof. exact lang_for_file_exactly_one. Qed.
Print Assumptions C26_language_for_file_exactly_one.

Theorem C26_cached_without_arguments : forall fnm epl epg s n m,
  lookup (lower n) (scache s) = Some m -> sstep fnm epl epg s (MMForLang n false) = (s, RMM m).
Proof. exact mm_cached_returned. Qed.
Print Assumptions C26_cached_without_arguments.

Theorem C26_result_is_cached : forall fnm epl epg s n kw m n', slfail s = false ->
  snd (sstep fnm epl epg s (MMForLang n kw)) = RMM m -> lower n' = lower n ->
  snd (sstep fnm epl epg (fst (sstep fnm epl epg s (MMForLang n kw))) (MMForLang n' false)) = RMM m.
Proof. exact mm_then_cached. Qed.
Print Assumptions C26_result_is_cached.

Theorem C26_factory_with_arguments_fresh : forall fnm epl epg s n d f, slfail s = false ->
  lookup (lower n) (slangs s) = Some d -> lsrc d = Factory f ->
  snd (sstep fnm epl epg s (MMForLang n true)) = RMM (MMFresh f (sserial s) true) /\
  sserial (fst (sstep fnm epl epg s (MMForLang n true))) = S (sserial s).
Proof. exact mm_factory_kwargs_fresh. Qed.
Print Assumptions C26_factory_with_arguments_fresh.

(* non-vacuity: a concrete run exercising registration, case variants, clearing and the cache *)
Example C26_nonvacuous :
  let d := {| lname := [65;98]%N; lpattern := Some [42]%N; lsrc := Factory 7; ltag := 1 |} in
  run (fun _ _ => true) [] [] init
      [RegLang d; RegLang {| lname := [97;66]%N; lpattern := None; lsrc := BadFactory; ltag := 2 |};
       MMForLang [97;98]%N false; MMForLang [65;66]%N false; MMForLang [65;66]%N true; ClearLangs;
       LangDescription [97;98]%N]
  = [RUnit; RErr; RMM (MMFresh 7 0 false); RMM (MMFresh 7 0 false); RMM (MMFresh 7 1 true); RUnit; RErr].
Proof. vm_compute. reflexivity. Qed.
Print Assumptions C26_nonvacuous.

(* non-vacuity with a duplicate among the entry points: Ep, EP (duplicate), Late *)
Example C26_nonvacuous_duplicate :
  let ep n t := {| lname := n; lpattern := None; lsrc := Instance t; ltag := t |} in
  run (fun _ _ => true) [ep [69;112]%N 1; ep [69;80]%N 2; ep [76]%N 3] [] init
      [LangDescription [101;112]%N; LangDescription [101;112]%N; LangDescription [108]%N; ClearLangs; LangDescs; LangDescs]
  = [RErr; RLang (ep [69;112]%N 1); RErr; RUnit; RErr; RLangs [ep [69;112]%N 1]].
Proof. vm_compute. reflexivity. Qed.
Print Assumptions C26_nonvacuous_duplicate.
