(* C09 — postponed resolution reaches the right fixpoint and terminates. *)
From TxV Require Import Core.Base Model.Resolve Proofs.ResolveProofs.

(* Termination for every provider: the round loop, started with fuel = number of
   references + 1, never runs out of fuel (each continuing round resolves at least one). *)
Theorem C09_terminates : forall (ans : provider) models, load ans models <> OutOfFuel.
Proof. exact load_terminates. Qed.
Print Assumptions C09_terminates.

(* With a provider given by a dependency table (a reference resolves once everything it
   waits for has resolved; "never" references are always postponed):
   [reach all i] is the documented criterion "some order of resolving lets i resolve". *)
Theorem C09_success_iff : forall models, NoDup (map xid (concat models)) ->
  ((exists st, load dep_ans models = Ok st) <-> forall x, In x (concat models) -> reach (concat models) (xid x)).
Proof. exact success_iff. Qed.
Print Assumptions C09_success_iff.

Theorem C09_success_result : forall models st, NoDup (map xid (concat models)) ->
  load dep_ans models = Ok st ->
  forall x, In x (concat models) -> reach (concat models) (xid x) /\ tgt st (xid x) = Some (xtgt x).
Proof. exact fixpoint_ok. Qed.
Print Assumptions C09_success_result.

(* on failure the reported references are exactly the unresolvable ones *)
Theorem C09_error_names : forall models lf st, NoDup (map xid (concat models)) ->
  load dep_ans models = Unresolvable lf st ->
  forall x, In x (concat lf) <-> (In x (concat models) /\ ~ reach (concat models) (xid x)).
Proof. exact fixpoint_fail. Qed.
Print Assumptions C09_error_names.

Theorem C09_order_independent : forall m1 m2,
  NoDup (map xid (concat m1)) -> NoDup (map xid (concat m2)) ->
  (forall x, In x (concat m1) <-> In x (concat m2)) ->
  ((exists st, load dep_ans m1 = Ok st) <-> (exists st, load dep_ans m2 = Ok st)) /\
  (forall st1 st2, load dep_ans m1 = Ok st1 -> load dep_ans m2 = Ok st2 ->
     forall x, In x (concat m1) -> tgt st1 (xid x) = tgt st2 (xid x)).
Proof. exact order_independent. Qed.
Print Assumptions C09_order_independent.

(* non-vacuity: a reverse chain over two models resolves in three rounds; a cycle does not *)
Definition mkd i d n := {| xid := i; xslot := i; xmany := false; xpos := i; xtgt := 10 + i; xdeps := d; xnever := n |}.
Example C09_nonvacuous_ok :
  match load dep_ans [[mkd 0 [1] false]; [mkd 1 [2] false; mkd 2 [] false]] with
  | Ok st => tgt st 0 = Some 10 /\ rev (log st) = [0;1;2; 0;1; 0]
  | _ => False end.
Proof. vm_compute. split; reflexivity. Qed.
Print Assumptions C09_nonvacuous_ok.
Example C09_nonvacuous_fail :
  match load dep_ans [[mkd 0 [1] false; mkd 1 [0] false; mkd 2 [] false; mkd 3 [] true]] with
  | Unresolvable lf st => map xid (concat lf) = [0; 1; 3]
  | _ => False end.
Proof. vm_compute. reflexivity. Qed.
Print Assumptions C09_nonvacuous_fail.
