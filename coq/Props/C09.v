(* C09 — postponed resolution reaches the right fixpoint and terminates. *)
From TxV Require Import Core.Base Gen.SrcResolve Model.Resolve Proofs.ResolveOrderProofs Proofs.ResolveRetryProofs Proofs.ResolveProofs Proofs.ResolveTermProofs Proofs.ResolveCountProofs.

(* [load] is the resolver model instantiated with the facts read from textx/model.py on every
   run (Gen/SrcResolve.v, tools/translate/resolve_tr.py): re-queueing of Postponed references,
   which resolutions count as progress, the loop condition `unresolved > 0 and resolved > 0`,
   the error condition and the references it names. *)

(* Termination for every provider: the round loop, started with fuel = number of
   references + 1, never runs out of fuel (each continuing round resolves at least one). *)
Theorem C09_terminates : forall (ans : provider) models, load ans models <> OutOfFuel.
Proof. exact load_terminates_direct. Qed.   (* Proofs/ResolveTermProofs.v: needs only the loop-condition fact *)
Print Assumptions C09_terminates.

(* every resolution - of a list element or of a scalar - is counted as progress, and the pending
   list shrinks by exactly that count *)
Theorem C09_progress_counted : forall (ans : provider) pend st st' np d c,
  step ans pend st = Some (st', np, d, c) -> np = d /\ sub np pend /\ length np + c = length pend.
Proof. exact retry_in_order. Qed.
Print Assumptions C09_progress_counted.

(* the counting part alone, proved directly on the model with exactly the two counting facts
   (Proofs/ResolveCountProofs.v): it holds wherever Postponed references are re-queued or reported *)
Theorem C09_progress_counted_exact : forall (ans : provider) pend st st' np d c,
  step ans pend st = Some (st', np, d, c) -> length np + c = length pend /\ length d = length np.
Proof. exact progress_counted_exact. Qed.
Print Assumptions C09_progress_counted_exact.

(* With a provider given by a dependency table (a reference resolves once everything it
   waits for has resolved; "never" references are always postponed):
   [reach all i] is the documented criterion "some order of resolving lets i resolve". *)
Theorem C09_success_iff : forall models, NoDup (map xid (concat models)) ->
  ((exists st, load dep_ans models = Ok st) <-> forall x, In x (concat models) -> reach (concat models) (xid x)).
Proof. exact success_iff. Qed.
Print Assumptions C09_success_iff.

Theorem C09_success_result : forall models st, NoDup (map xid (concat models)) ->
  load dep_ans models = Ok st ->
  forall x, In x (concat models) -> reach (concat models) (xid x) /\ tgt st (xid x) = Some (xtgt x).
Proof. exact fixpoint_ok. Qed.
Print Assumptions C09_success_result.

(* on failure the reported references are exactly the unresolvable ones *)
Theorem C09_error_names : forall models lf st, NoDup (map xid (concat models)) ->
  load dep_ans models = Unresolvable lf st ->
  forall x, In x (concat lf) <-> (In x (concat models) /\ ~ reach (concat models) (xid x)).
Proof. exact fixpoint_fail. Qed.
Print Assumptions C09_error_names.

Theorem C09_order_independent : forall m1 m2,
  NoDup (map xid (concat m1)) -> NoDup (map xid (concat m2)) ->
  (forall x, In x (concat m1) <-> In x (concat m2)) ->
  ((exists st, load dep_ans m1 = Ok st) <-> (exists st, load dep_ans m2 = Ok st)) /\
  (forall st1 st2, load dep_ans m1 = Ok st1 -> load dep_ans m2 = Ok st2 ->
     forall x, In x (concat m1) -> tgt st1 (xid x) = tgt st2 (xid x)).
Proof. exact order_independent. Qed.
Print Assumptions C09_order_independent.

(* ---------------------------------------------------------------- any monotone provider
   The provider is ANY readiness predicate over the set of resolved references that is
   monotone (more references resolved never makes a reference un-ready): dependency tables,
   "any one of", thresholds, ...  [mreach all ready i]: i is ready given some set of references
   each of which can (inductively) be resolved = "some order of resolving lets i resolve". *)
Theorem C09_monotone_success_iff : forall ready, monotone ready -> forall models, NoDup (map xid (concat models)) ->
  ((exists st, load (mono_ans ready) models = Ok st) <->
   forall x, In x (concat models) -> mreach (concat models) ready (xid x)).
Proof. exact monotone_success_iff. Qed.
Print Assumptions C09_monotone_success_iff.

Theorem C09_monotone_result : forall ready, monotone ready -> forall models st, NoDup (map xid (concat models)) ->
  load (mono_ans ready) models = Ok st ->
  forall x, In x (concat models) -> mreach (concat models) ready (xid x) /\ tgt st (xid x) = Some (xtgt x).
Proof. exact monotone_result. Qed.
Print Assumptions C09_monotone_result.

(* otherwise the load fails with the Unresolvable error (never Unknown object, never out of
   fuel) naming exactly the references that no order can resolve; there is at least one *)
Theorem C09_monotone_error_names : forall ready, monotone ready -> forall models lf st, NoDup (map xid (concat models)) ->
  load (mono_ans ready) models = Unresolvable lf st ->
  concat lf <> [] /\
  forall x, In x (concat lf) <-> (In x (concat models) /\ ~ mreach (concat models) ready (xid x)).
Proof. exact monotone_error_names. Qed.
Print Assumptions C09_monotone_error_names.

Theorem C09_monotone_never_unknown : forall ready, monotone ready -> forall models, NoDup (map xid (concat models)) ->
  load (mono_ans ready) models <> UnknownObject.
Proof. exact monotone_never_unknown. Qed.
Print Assumptions C09_monotone_never_unknown.

Theorem C09_monotone_order_independent : forall ready, monotone ready -> forall m1 m2,
  NoDup (map xid (concat m1)) -> NoDup (map xid (concat m2)) ->
  (forall x, In x (concat m1) <-> In x (concat m2)) ->
  ((exists st, load (mono_ans ready) m1 = Ok st) <-> (exists st, load (mono_ans ready) m2 = Ok st)) /\
  (forall st1 st2, load (mono_ans ready) m1 = Ok st1 -> load (mono_ans ready) m2 = Ok st2 ->
     forall x, In x (concat m1) -> tgt st1 (xid x) = tgt st2 (xid x)).
Proof. exact monotone_order_independent. Qed.
Print Assumptions C09_monotone_order_independent.

(* the table form of "can resolve" is the instance of the general one *)
Theorem C09_table_is_monotone_instance : monotone dep_ready /\ dep_ans = mono_ans dep_ready /\
  forall all i, reach all i <-> mreach all dep_ready i.
Proof. exact table_is_monotone_instance. Qed.
Print Assumptions C09_table_is_monotone_instance.

(* non-vacuity of the monotone class: "waits for ANY ONE of" is monotone and not a table *)
Example C09_any_ready_monotone : monotone any_ready.
Proof. exact any_ready_monotone. Qed.
Print Assumptions C09_any_ready_monotone.

(* ---------------------------------------------------------------- providers that ask the resolver
   Real providers learn whether an awaited reference has resolved from
   needs_to_be_resolved / ReferenceResolver.has_unresolved_crossrefs, a snapshot of the owning
   model's pending list that is refreshed only at the end of that model's step ([qload],
   [sprovider], [commit] in Model/Resolve.v).  [smono_ans ready]: the provider resolves a reference
   when [ready] holds of the SETTLED set (the references no resolver reports as pending).
   The snapshot lags behind the resolved set during a step, which only delays resolutions: for
   every monotone [ready] the verdict, the targets and the reported names are those of the least
   fixpoint, exactly as for providers that see the resolved set directly. *)
Theorem C09_terminates_snapshot : forall (ans : sprovider) models, qload ans models <> OutOfFuel.
Proof. exact qload_terminates_direct. Qed.   (* Proofs/ResolveTermProofs.v: needs only the loop-condition fact *)
Print Assumptions C09_terminates_snapshot.

Theorem C09_snapshot_success_iff : forall ready, monotone ready -> forall models, NoDup (map xid (concat models)) ->
  ((exists st, qload (smono_ans ready) models = Ok st) <->
   forall x, In x (concat models) -> mreach (concat models) ready (xid x)).
Proof. exact snap_success_iff. Qed.
Print Assumptions C09_snapshot_success_iff.

Theorem C09_snapshot_result : forall ready, monotone ready -> forall models st, NoDup (map xid (concat models)) ->
  qload (smono_ans ready) models = Ok st ->
  forall x, In x (concat models) -> mreach (concat models) ready (xid x) /\ tgt st (xid x) = Some (xtgt x).
Proof. exact snap_ok. Qed.
Print Assumptions C09_snapshot_result.

Theorem C09_snapshot_error_names : forall ready, monotone ready -> forall models lf st, NoDup (map xid (concat models)) ->
  qload (smono_ans ready) models = Unresolvable lf st ->
  concat lf <> [] /\
  forall x, In x (concat lf) <-> (In x (concat models) /\ ~ mreach (concat models) ready (xid x)).
Proof. exact snap_fail. Qed.
Print Assumptions C09_snapshot_error_names.

Theorem C09_snapshot_never_unknown : forall ready, monotone ready -> forall models, NoDup (map xid (concat models)) ->
  qload (smono_ans ready) models <> UnknownObject.
Proof. exact snap_never_unknown. Qed.
Print Assumptions C09_snapshot_never_unknown.

Theorem C09_snapshot_order_independent : forall ready, monotone ready -> forall m1 m2,
  NoDup (map xid (concat m1)) -> NoDup (map xid (concat m2)) ->
  (forall x, In x (concat m1) <-> In x (concat m2)) ->
  ((exists st, qload (smono_ans ready) m1 = Ok st) <-> (exists st, qload (smono_ans ready) m2 = Ok st)) /\
  (forall st1 st2, qload (smono_ans ready) m1 = Ok st1 -> qload (smono_ans ready) m2 = Ok st2 ->
     forall x, In x (concat m1) -> tgt st1 (xid x) = tgt st2 (xid x)).
Proof. exact snap_order_independent. Qed.
Print Assumptions C09_snapshot_order_independent.

(* asking the resolvers (snapshot) and seeing the resolved set directly give the same verdict and targets *)
Theorem C09_snapshot_same_as_direct : forall ready, monotone ready -> forall models, NoDup (map xid (concat models)) ->
  ((exists st, qload (smono_ans ready) models = Ok st) <-> (exists st, load (mono_ans ready) models = Ok st)) /\
  (forall st1 st2, qload (smono_ans ready) models = Ok st1 -> load (mono_ans ready) models = Ok st2 ->
     forall x, In x (concat models) -> tgt st1 (xid x) = tgt st2 (xid x)).
Proof. exact snap_same_as_direct. Qed.
Print Assumptions C09_snapshot_same_as_direct.

(* the query-mode provider of the correspondence harness (no delays) is the table instance of the class *)
Theorem C09_snapshot_harness_instance : forall s x st, snap_ans (fun _ => 0) s x st = smono_ans dep_ready s x st.
Proof. exact snap_ans_nodelay. Qed.
Print Assumptions C09_snapshot_harness_instance.

(* non-vacuity: a reverse chain over two models resolves in three rounds; a cycle does not *)
Definition mkd i d n := {| xid := i; xslot := i; xmany := false; xpos := i; xtgt := 10 + i; xdeps := d; xnever := n |}.
Example C09_nonvacuous_ok :
  match load dep_ans [[mkd 0 [1] false]; [mkd 1 [2] false; mkd 2 [] false]] with
  | Ok st => tgt st 0 = Some 10 /\ rev (log st) = [0;1;2; 0;1; 0]
  | _ => False end.
Proof. vm_compute. split; reflexivity. Qed.
Print Assumptions C09_nonvacuous_ok.
Example C09_nonvacuous_fail :
  match load dep_ans [[mkd 0 [1] false; mkd 1 [0] false; mkd 2 [] false; mkd 3 [] true]] with
  | Unresolvable lf st => map xid (concat lf) = [0; 1; 3]
  | _ => False end.
Proof. vm_compute. reflexivity. Qed.
Print Assumptions C09_nonvacuous_fail.
Example C09_nonvacuous_monotone :
  match load (mono_ans any_ready) [[mkd 0 [1; 2] false; mkd 1 [] false]; [mkd 2 [2] false]] with
  | Unresolvable lf st => map xid (concat lf) = [2] /\ tgt st 0 = Some 10 /\ rev (log st) = [0;1;2; 0;2; 2]
  | _ => False end.
Proof. vm_compute. repeat split; reflexivity. Qed.
Print Assumptions C09_nonvacuous_monotone.
(* the snapshot view: a chain r0 -> r1 -> r2 with r0 in the first model needs one round per link,
   also inside one model (r1 sees r2 settled only after the step in which r2 resolved has ended) *)
Example C09_nonvacuous_snapshot :
  match qload (snap_ans (fun _ => 0)) [[mkd 0 [1] false]; [mkd 1 [2] false; mkd 2 [] false]] with
  | Ok st => tgt st 0 = Some 10 /\ rev (log st) = [0;1;2; 0;1; 0]
  | _ => False end /\
  match qload (snap_ans (fun _ => 0)) [[mkd 2 [] false; mkd 1 [2] false; mkd 0 [1] false]] with
  | Ok st => rev (log st) = [2;1;0; 1;0; 0]
  | _ => False end.
Proof. vm_compute. repeat split; reflexivity. Qed.
Print Assumptions C09_nonvacuous_snapshot.
(* a cycle r1 <-> r2 in the second model, r0 of the first waits for it, r3 is fine: the error names 0, 1, 2 *)
Example C09_nonvacuous_snapshot_fail :
  match qload (smono_ans dep_ready) [[mkd 0 [1] false]; [mkd 1 [2] false; mkd 2 [1] false; mkd 3 [] false]] with
  | Unresolvable lf st => map xid (concat lf) = [0; 1; 2] /\ tgt st 3 = Some 13
  | _ => False end.
Proof. vm_compute. split; reflexivity. Qed.
Print Assumptions C09_nonvacuous_snapshot_fail.
