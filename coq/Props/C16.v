(* C16 — loading is independent of the metamodel's history.

   Model/History.v is the state machine of everything that survives a metamodel creation or a
   model load inside one process; parsing/building/resolving/processors are oracles that may
   depend ARBITRARILY on the part of the persistent state the code reads (the `view`).
   `src_facts` (Gen/SrcHistory.v) is regenerated from textx/lang.py, model.py, metamodel.py and
   arpeggio on every run, so the theorems below are re-proved against the current source. *)
From TxV Require Import Core.Base Model.History Gen.SrcHistory Proofs.HistoryProofs Proofs.HistorySrcProofs.

(* Every operation (metamodel creation -- successful or failing -- and model load -- successful,
   or failing at the parse, before or after the end of construction, or in a model processor)
   maps a canonical persistent state to a canonical one: all memo caches empty, every blueprint
   parser pristine, no user class instrumented, class data owned by a metamodel of the class's grammar. *)
Theorem C16_canonical_invariant : forall create_out load_out cls_gram st o,
  wf_op cls_gram o -> inv src_facts create_out cls_gram st ->
  inv src_facts create_out cls_gram (fst (step src_facts create_out load_out st o)).
Proof. exact src_step_inv. Qed.
Print Assumptions C16_canonical_invariant.

(* hence every reachable state is canonical, for histories of any length *)
Theorem C16_reachable_canonical : forall create_out load_out cls_gram ops,
  Forall (wf_op cls_gram) ops -> inv src_facts create_out cls_gram (final src_facts create_out load_out ops).
Proof. exact src_final_inv. Qed.
Print Assumptions C16_reachable_canonical.

(* in a canonical state a load sees exactly the fresh view: its result is a function of the
   metamodel configuration and the input (and, with a global repository, of the cached files) *)
Theorem C16_load_function_of_config_and_input : forall create_out load_out cls_gram st s m i,
  inv src_facts create_out cls_gram st -> slots st s = Some m ->
  result src_facts create_out load_out st (Load s i)
  = OLoad (load_out (m_cfg m) i (fresh_view (m_cfg m) (if c_repo (m_cfg m) then m_repo m else []))).
Proof. exact src_load_result. Qed.
Print Assumptions C16_load_function_of_config_and_input.

(* THE PROPERTY: after any history -- any interleaving of creations and loads, successful or failing,
   over any number of metamodels -- a load returns (model or error) what the same configuration
   returns for that input on a fresh process state. `cache_ok`: the grammar-parser cache is keyed by
   the memoization flag too, or the textX-grammar parser is memo-transparent (see C16_memo_flag_visible). *)
Theorem C16_history_independent : forall create_out load_out cls_gram ops s m i,
  cache_ok src_facts create_out -> Forall (wf_op cls_gram) ops ->
  slots (final src_facts create_out load_out ops) s = Some m -> c_repo (m_cfg m) = false ->
  result src_facts create_out load_out (final src_facts create_out load_out ops) (Load s i)
  = result src_facts create_out load_out (final src_facts create_out load_out [New s (m_cfg m)]) (Load s i).
Proof. exact src_history_independent. Qed.
Print Assumptions C16_history_independent.

(* with a global repository (cached models are returned by design): same outcome kind and same
   structural dump, provided returning a cached model is not observable in the dump (`repo_blind`:
   files unchanged during the history, idempotent model processors) *)
Theorem C16_history_independent_repo : forall create_out load_out cls_gram ops s m i,
  cache_ok src_facts create_out -> repo_blind load_out -> Forall (wf_op cls_gram) ops ->
  slots (final src_facts create_out load_out ops) s = Some m ->
  out_obs (result src_facts create_out load_out (final src_facts create_out load_out ops) (Load s i))
  = out_obs (result src_facts create_out load_out (final src_facts create_out load_out [New s (m_cfg m)]) (Load s i)).
Proof. exact src_history_independent_repo. Qed.
Print Assumptions C16_history_independent_repo.

(* Loads started from inside a load (operation `Nested`; histories in all theorems above may contain them).
   From an object or model processor the outer load has already restored its classes: the inner load is an
   ordinary load. From a scope provider the outer load still holds the instrumentation of its user classes; the
   inner load then sees the fresh view except for the counters of the classes it shares with the outer load
   (nested_provider_view), so under `instr_blind` it answers exactly what the same load answers at top level. *)
Theorem C16_nested_provider_inner : forall create_out load_out cls_gram st s m i s' m' i',
  inv src_facts create_out cls_gram st -> instr_blind load_out ->
  slots st s = Some m -> slots st s' = Some m' ->
  snd (step src_facts create_out load_out st (Nested s i PhProvider s' i'))
  = ONest (load_out (m_cfg m) i (fresh_view (m_cfg m) (if c_repo (m_cfg m) then m_repo m else [])))
          (result src_facts create_out load_out st (Load s' i')).
Proof. exact src_nested_provider_inner. Qed.
Print Assumptions C16_nested_provider_inner.

(* `instr_blind` is necessary: with an outcome that reads the counters (the code before the fix c78a09e bypassed a user
   class's own __setattr__ for finished objects of an instrumented class) the load started by a provider differs.
   Witness replayed on the implementation: corpus/C16/nested_load_from_provider.json. *)
Theorem C16_nested_provider_refuted :
  let st := final good_facts wit_create wit_load [New 0 wit_cfg] in
  snd (step good_facts wit_create wit_load st (Nested 0 1 PhProvider 0 1))
  <> ONest (wit_load wit_cfg 1 (fresh_view wit_cfg [])) (result good_facts wit_create wit_load st (Load 0 1)).
Proof. exact nested_provider_refuted. Qed.
Print Assumptions C16_nested_provider_refuted.

Example C16_nested_nonvacuous :
  instr_blind wit_load_blind /\
  slots (final src_facts wit_create wit_load_blind [New 0 wit_cfg; New 1 wit_repo_cfg; Nested 0 4 PhProvider 1 5; Nested 1 6 PhAfter 0 1]) 0 <> None /\
  slots (final src_facts wit_create wit_load_blind [New 0 wit_cfg; New 1 wit_repo_cfg; Nested 0 4 PhProvider 1 5; Nested 1 6 PhAfter 0 1]) 1 <> None.
Proof. exact (conj wit_blind wit_nested_slots). Qed.
Print Assumptions C16_nested_nonvacuous.

(* creating a metamodel (successfully or not) is history independent as well *)
Theorem C16_creation_independent : forall create_out load_out cls_gram ops s c,
  cache_ok src_facts create_out -> Forall (wf_op cls_gram) ops ->
  result src_facts create_out load_out (final src_facts create_out load_out ops) (New s c)
  = result src_facts create_out load_out init (New s c).
Proof. exact src_create_independent. Qed.
Print Assumptions C16_creation_independent.

(* Necessity of the hypothesis on the grammar-parser cache: with the cache keyed by `debug` only, if
   memoization of the grammar parser were observable for some configuration, creating a metamodel
   with the other flag first would change that configuration's creation outcome. *)
Theorem C16_memo_flag_visible : forall F create_out load_out c,
  good F = true -> f_gp_key_memo F = false ->
  create_out c {| gv_memo := negb (c_memo c); gv_cache := [] |} <> create_out c {| gv_memo := c_memo c; gv_cache := [] |} ->
  result F create_out load_out (final F create_out load_out [New 0 (flip_memo c)]) (New 1 c)
  <> result F create_out load_out init (New 1 c).
Proof. exact memo_flag_visible. Qed.
Print Assumptions C16_memo_flag_visible.

(* The defect found (fixed in textX): the code before the fix (no restore when the model is a primitive
   value) is history dependent -- after loading a primitive model the user classes stay instrumented
   and the next load observes it. Witness replayed on the implementation: corpus/C16/prim_leak.json. *)
Theorem C16_primitive_model_leak_refuted :
  result prefix_facts wit_create wit_load (final prefix_facts wit_create wit_load [New 0 wit_cfg; Load 0 0]) (Load 0 1)
  <> result prefix_facts wit_create wit_load (final prefix_facts wit_create wit_load [New 0 wit_cfg]) (Load 0 1).
Proof. exact prim_leak_refuted. Qed.
Print Assumptions C16_primitive_model_leak_refuted.

(* The restore must cover every root value that cannot carry `_tx_parser`, not only int/float/str/bool: with a
   restore limited to the primitive types a root value such as a Decimal or a tuple (a match rule converted by an
   object processor) leaves the classes instrumented. Witness: corpus/C16/immutable_root_values.json. *)
Theorem C16_immutable_model_leak_refuted :
  result primonly_facts wit_create wit_load_imm (final primonly_facts wit_create wit_load_imm [New 0 wit_cfg; Load 0 0; Load 0 2]) (Load 0 1)
  <> result primonly_facts wit_create wit_load_imm (final primonly_facts wit_create wit_load_imm [New 0 wit_cfg]) (Load 0 1).
Proof. exact immutable_model_leak_refuted. Qed.
Print Assumptions C16_immutable_model_leak_refuted.

(* The second defect found (fixed in textX): before the fix a nested load that fails to parse (an imported
   file) ran the except-path restore although it had not instrumented anything, un-instrumenting the classes
   of the enclosing load; with a global repository and a user class on the root rule the half-built model
   stayed cached and the next load of the file returned it. Witness: corpus/C16/stale_repo_after_import_syntax_error.json. *)
Theorem C16_unguarded_restore_refuted :
  result unguarded_facts wit_create wit_load_repo (final unguarded_facts wit_create wit_load_repo [New 0 wit_cfg_repo; Load 0 3]) (Load 0 3)
  <> result unguarded_facts wit_create wit_load_repo (final unguarded_facts wit_create wit_load_repo [New 0 wit_cfg_repo]) (Load 0 3).
Proof. exact unguarded_restore_refuted. Qed.
Print Assumptions C16_unguarded_restore_refuted.

(* and clearing the memo caches in `finally` is necessary *)
Theorem C16_uncleared_caches_refuted :
  result noclear_facts wit_create wit_load (final noclear_facts wit_create wit_load [New 0 wit_cfg_memo; Load 0 1]) (Load 0 2)
  <> result noclear_facts wit_create wit_load (final noclear_facts wit_create wit_load [New 0 wit_cfg_memo]) (Load 0 2).
Proof. exact no_clear_refuted. Qed.
Print Assumptions C16_uncleared_caches_refuted.

(* non-vacuity: the hypotheses are satisfiable together on a history that exercises two metamodels
   (one memoizing with a global repository and two user classes), a primitive model, a replaced slot *)
Example C16_hypotheses_satisfiable :
  cache_ok src_facts wit_create /\ repo_blind wit_load /\ Forall (wf_op wit_gram) wit_ops /\
  inv src_facts wit_create wit_gram (final src_facts wit_create wit_load wit_ops) /\
  slots (final src_facts wit_create wit_load wit_ops) 1 <> None /\
  slots (final src_facts wit_create wit_load wit_ops) 0 <> None.
Proof.
  exact (conj (or_intror wit_transparent) (conj wit_repo_blind (conj wit_ops_wf
        (conj (src_final_inv wit_create wit_load wit_gram wit_ops wit_ops_wf) wit_slots)))).
Qed.
Print Assumptions C16_hypotheses_satisfiable.

Example C16_concrete_run :
  map (fun o => match o with OLoad r => Some (l_dump r) | _ => None end) (snd (run src_facts wit_create wit_load init wit_ops))
  = [None; Some 0; None; Some 0; Some 0; None; Some 0; Some 0].
Proof. exact wit_run. Qed.
Print Assumptions C16_concrete_run.

(* the memo-visibility hypothesis of C16_memo_flag_visible is satisfiable *)
Example C16_memo_flag_visible_nonvacuous :
  let co := fun (_ : cfg) (g : gview) => {| k_kind := COk; k_dump := if gv_memo g then 1 else 0 |} in
  good good_facts = true /\ f_gp_key_memo good_facts = false /\
  co wit_cfg {| gv_memo := negb (c_memo wit_cfg); gv_cache := [] |} <> co wit_cfg {| gv_memo := c_memo wit_cfg; gv_cache := [] |}.
Proof. exact wit_memo_visible. Qed.
Print Assumptions C16_memo_flag_visible_nonvacuous.
