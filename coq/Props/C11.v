(* C11 — RREL reference resolution follows the documented expression semantics.

   Model: Model/Rrel.v (evaluation = rrel.py get_next_matches / find_object_with_path / find,
   with the visited set, prevent_doubles, Postponed and explicit fuel; specification =
   r_elem / r_path / r_seq "one expansion of the expression" and [justified]).
   All statements are for every model (object graph given by arbitrary functions), every
   expression tree, every start object, name list, target type, fuel, and for both forms of
   the visited key (kf). *)
From TxV Require Import Core.Base Model.RrelSyntax Model.Rrel Proofs.RrelProofs.

(* Soundness, unconditional: whatever find returns as the resolved object is reachable by
   one expansion of the expression, has consumed every name part (each consuming step
   moved to an element named by the next part, each fixed-name step to an element with the
   fixed name), and conforms to the requested type. *)
Theorem C11_sound : forall F m kf sq o names T t,
  find F m kf sq o names T false = FObj t -> exists tr, justified m sq o names T t tr.
Proof. exact find_obj_sound. Qed.
Print Assumptions C11_sound.

(* '+p:' : the proxy path is the list of named objects traversed by the justifying
   expansion (tr), completed by the target if tr does not already end in it; in all cases
   it ends in the target, which is the object find returns without the flag. *)
Theorem C11_proxy_path : forall F m kf sq o names T p,
  find F m kf sq o names T true = FProxy p ->
  exists t tr, justified m sq o names T t tr /\
               (p = tr \/ p = tr ++ [t]) /\ last p 0 = t /\
               find F m kf sq o names T false = FObj t.
Proof. exact find_proxy_full. Qed.
Print Assumptions C11_proxy_path.
