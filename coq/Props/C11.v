(* C11 — RREL reference resolution follows the documented expression semantics.

   Model: Model/Rrel.v (evaluation = rrel.py get_next_matches / find_object_with_path / find,
   with the visited set, prevent_doubles, Postponed and explicit fuel; specification =
   r_elem / r_path / r_seq "one expansion of the expression" and [justified]).
   All statements are for every model (object graph given by arbitrary functions), every
   expression tree, every start object, name list, target type, fuel, and for both forms of
   the visited key (kf = true: the repaired key with first_element; kf = false: the old key). *)
From TxV Require Import Core.Base Gen.SrcRrel Model.RrelSyntax Model.Rrel Proofs.RrelProofs Proofs.RrelComplete.

(* ---------------------------------------------------------------- tie to the source
   Gen/SrcRrel.v is regenerated from textx/scoping/rrel.py on every run (tools/translate/rrel_tr.py,
   fail closed; it also fingerprints every transcribed method).  The facts it reads - visited key
   with first_element, `lst[0]`, start_locally before start_at_root, proxy path completed by the
   target, start_locally/start_at_root of the leaf nodes, consume/fixed flags of `a`, `~a`, `'s'~a`
   - equal what the model's own functions do. *)
Theorem C11_source_facts : src_facts = model_facts.
Proof. exact src_facts_ok. Qed.
Print Assumptions C11_source_facts.

(* the witness of the repaired defect, for the key form the source has now *)
Example C11_source_key_finds :
  find 20 sample (key_has_first src_facts) e_star 1 [[112]%N] (Some s_Mem) false = FObj 2.
Proof. vm_compute. reflexivity. Qed.
Print Assumptions C11_source_key_finds.

(* ---------------------------------------------------------------- soundness
   Unconditional: whatever find returns as the resolved object is reachable by one
   expansion of the expression, has consumed every name part (each consuming step moved to
   an element named by the next part, each fixed-name step to an element with the fixed
   name), and conforms to the requested type. *)
Theorem C11_sound : forall F m kf sq o names T t,
  find F m kf sq o names T false = FObj t -> exists tr, justified m sq o names T t tr.
Proof. exact find_obj_sound. Qed.
Print Assumptions C11_sound.

(* '+p:' : the proxy path is the list of named objects traversed by the justifying
   expansion (tr), completed by the target if tr does not already end in it; in all cases
   it ends in the target, which is the object find returns without the flag. *)
Theorem C11_proxy_path : forall F m kf sq o names T p,
  find F m kf sq o names T true = FProxy p ->
  exists t tr, justified m sq o names T t tr /\
               (p = tr \/ p = tr ++ [t]) /\ last p 0 = t /\
               find F m kf sq o names T false = FObj t.
Proof. exact find_proxy_full. Qed.
Print Assumptions C11_proxy_path.

(* every name part is matched: the name parts occur, in order, as names of the objects of
   the traversed path (objects selected by fixed-name steps may lie in between) ... *)
Theorem C11_names_matched : forall m sq o names T t tr,
  justified m sq o names T t tr -> embeds m names tr.
Proof. exact justified_names. Qed.
Print Assumptions C11_names_matched.

(* ... and without fixed-name steps the path is exactly one object per name part *)
Theorem C11_names_exact : forall m sq o names T t tr,
  nofix_seq sq = true -> justified m sq o names T t tr ->
  Forall2 (fun nm x => m_name m x = Some nm) names tr.
Proof. exact justified_names_exact. Qed.
Print Assumptions C11_names_exact.

(* ---------------------------------------------------------------- ',' precedence
   If the first alternative alone gives an answer (object, proxy or Postponed), the whole
   sequence gives that answer; if it gives none, an answer of the sequence is justified by
   the remaining alternatives. *)
Theorem C11_precedence : forall F m kf p sq o names T px,
  find F m kf (S1 p) o names T px <> FNone ->
  find F m kf (SCons p sq) o names T px = find F m kf (S1 p) o names T px.
Proof. exact find_first_alt. Qed.
Print Assumptions C11_precedence.

Theorem C11_later_alternative : forall F m kf p sq o names T t,
  find F m kf (S1 p) o names T false = FNone ->
  find F m kf (SCons p sq) o names T false = FObj t ->
  exists tr, r_seq m sq true (mk o names []) (mk t [] tr) /\ conf_opt m T t = true.
Proof. exact find_later_alt. Qed.
Print Assumptions C11_later_alternative.

(* ---------------------------------------------------------------- completeness
   Under unique sibling names, for every model, expression (any nesting of `*`, ',' under `*`, ...),
   start object, name list, target type and fuel: if find answers "not found" then no expansion of
   the expression reaches a conforming object with all name parts consumed - equivalently, a
   reference resolves (or is Postponed, or the model's fuel ran out: different answers) whenever
   such an object exists.  The visited set keyed (object, node, remaining length, first_element)
   and prevent_doubles lose nothing.  Proof (Proofs/RrelComplete.v): every failed search leaves a
   set of visited keys that passes the closure check [closure_ok] (C11_search_leaves_closed_set:
   induction over the CPS evaluator with a contract on continuations "returns not-found => the
   static successor key is visited", distinct node positions, an invariant for prevent_doubles
   entries modulo the pending ones), and a closed set admits no justified result
   (C11_closed_set_complete).  C11_complete_uncut is the older direct result for searches that were
   never cut (it also holds for the pre-repair key form). *)
Theorem C11_complete : forall F m sq o names T px,
  siblings_unique m -> find F m true sq o names T px = FNone ->
  forall t tr, ~ justified m sq o names T t tr.
Proof. exact find_complete. Qed.
Print Assumptions C11_complete.

Theorem C11_complete_resolves : forall F m sq o names T px,
  siblings_unique m -> (exists t tr, justified m sq o names T t tr) ->
  find F m true sq o names T px <> FNone.
Proof. exact find_complete_exists. Qed.
Print Assumptions C11_complete_resolves.

(* for the key form the translator reads from rrel.py (re-proved against the source on every run) *)
Theorem C11_complete_source : forall F m sq o names T px,
  siblings_unique m -> find F m (key_has_first src_facts) sq o names T px = FNone ->
  forall t tr, ~ justified m sq o names T t tr.
Proof. exact find_complete_src. Qed.
Print Assumptions C11_complete_source.

Theorem C11_search_leaves_closed_set : forall F m sq o names T s,
  fowp F m true sq o names T = (RNone, s) -> closure_ok F m names (vis s) sq o T = true.
Proof. exact fowp_closed. Qed.
Print Assumptions C11_search_leaves_closed_set.

Theorem C11_complete_certified : forall F m kf sq o names T,
  siblings_unique m -> find_certified F m kf sq o names T = true ->
  forall t tr, ~ justified m sq o names T t tr.
Proof. exact find_certified_complete. Qed.
Print Assumptions C11_complete_certified.

Theorem C11_closed_set_complete : forall F m sq o names T V,
  siblings_unique m -> closure_ok F m names V sq o T = true ->
  forall t tr, ~ justified m sq o names T t tr.
Proof. exact closure_complete. Qed.
Print Assumptions C11_closed_set_complete.

(* non-vacuity: the failed search of C11_sample_none is certified; the failed search with the old
   visited key (which misses a justified result, C11_old_key_incomplete) is not *)
Example C11_sample_certified :
  find_certified 20 sample true e_star 1 [[122]%N] None = true /\
  find_certified 20 sample false e_star 1 [[112]%N] (Some s_Mem) = false.
Proof. vm_compute. split; reflexivity. Qed.
Print Assumptions C11_sample_certified.

Theorem C11_complete_uncut : forall F m kf sq o names T px,
  siblings_unique m ->
  find F m kf sq o names T px = FNone -> find_hit F m kf sq o names T = false ->
  forall t tr, ~ justified m sq o names T t tr.
Proof. exact find_complete_nohit. Qed.
Print Assumptions C11_complete_uncut.

(* the decidable form of the hypothesis used by the check's classifier *)
Theorem C11_siblings_unique_decidable : forall t,
  siblings_unique_tbl t = true -> siblings_unique (of_table t).
Proof. exact siblings_unique_tbl_ok. Qed.
Print Assumptions C11_siblings_unique_decidable.

(* name splitting drops empty parts *)
Theorem C11_split_nonempty : forall sep s, Forall (fun p => p <> []) (split_name sep s).
Proof. exact split_name_nonempty. Qed.
Print Assumptions C11_split_nonempty.

(* ---------------------------------------------------------------- samples / non-vacuity
   model:  0 Model{kids=[1;3]}  1 Cls a {members=[2]}  2 Mem p  3 Cls b {members=[4]}  4 Mem q *)
Example C11_sample_unique : siblings_unique sample.
Proof. exact sample_unique. Qed.
Print Assumptions C11_sample_unique.

(* from object 1 (= model.kids[0]) the member p of object 1 itself is found ... *)
Example C11_sample_found : find 20 sample true e_star 1 [[112]%N] (Some s_Mem) false = FObj 2.
Proof. exact sample_found. Qed.
Print Assumptions C11_sample_found.

(* ... which the old visited key (without first_element) missed although it is justified:
   the defect repaired in rrel.py (kept as a theorem about the kf = false model) *)
Theorem C11_old_key_incomplete :
  exists F m sq o names T t tr,
    siblings_unique m /\ find F m false sq o names T false = FNone /\ justified m sq o names T t tr.
Proof. exact old_key_witness. Qed.
Print Assumptions C11_old_key_incomplete.

(* proxy path completed by the target after a non-consuming last step: a.p then parent(Cls) *)
Example C11_sample_proxy :
  find 20 sample true e_tail 4 [[97]%N; [112]%N] (Some s_Cls) true = FProxy [1; 2; 1].
Proof. vm_compute. reflexivity. Qed.
Print Assumptions C11_sample_proxy.

Example C11_sample_precedence :
  find 20 sample true e_alt 1 [[113]%N] None false = FObj 4 /\
  find 20 sample true (S1 (P1 (ENav [122]%N true None))) 1 [[113]%N] None false = FNone.
Proof. vm_compute. split; reflexivity. Qed.
Print Assumptions C11_sample_precedence.

(* a failed search without pruning: no member named z anywhere *)
Example C11_sample_none :
  find 20 sample true e_star 1 [[122]%N] None false = FNone /\
  find_hit 20 sample true e_star 1 [[122]%N] None = false.
Proof. vm_compute. split; reflexivity. Qed.
Print Assumptions C11_sample_none.

(* Without unique sibling names completeness fails (the known finding: `lst[0]`):
   0 Model{kids=[1]} 1 Pkg a{kids=[2;3]} 2 Cls b{members=[]} 3 Cls b{members=[4]} 4 Mem c;
   kids.kids.members on a.b.c is not resolved although object 4 is justified. *)
Theorem C11_duplicate_siblings_refuted :
  exists F m sq o names T t tr,
    find F m true sq o names T false = FNone /\ find_hit F m true sq o names T = false /\
    justified m sq o names T t tr.
Proof. exact dup_witness. Qed.
Print Assumptions C11_duplicate_siblings_refuted.
