(* C02 — assignments never lose, duplicate or reorder matched values. *)
From TxV Require Import Core.Base Model.MultBase Gen.SrcMult Model.Mult Proofs.MultProofs Proofs.MultFlowProofs Proofs.MultRealProofs Proofs.MultSepProofs.
From TxV Require Model.Build Model.PegSyntax Model.Peg Model.MultPeg Proofs.MultPegProofs Proofs.MultPegWitness.
From TxV Require Model.MultBuild Proofs.MultBuildProofs Proofs.MultEndProofs Proofs.PegProofs Proofs.PegMemo.
From TxV Require Model.Spec Proofs.BuildPlaced Proofs.MultTableProofs Proofs.MultTableWitness.

(* An attribute is a list exactly when one object can collect more than one value for it:
   `infer` is the multiplicity inference of the current source (visit_assignment's operator table followed by
   _update_attr_multiplicities, with the constants and the ordered-choice handling translated from the source into
   Gen/SrcMult.v), `maxcount` the specification (sequence and unordered group add, ordered choice takes the maximum,
   optional keeps, a repetition or a `*=`/`+=` turns one or more into many).  For every rule body and attribute. *)
Theorem C02_list_iff_many : forall b a, is_list (infer b a) = true <-> 2 <= maxcount a b.
Proof. exact (fun b a => infer_list_iff a b). Qed.
Print Assumptions C02_list_iff_many.

(* `emits b t`: t is a sequence of assignment events (attribute, operator, matched values) that the structure of the
   rule body b allows for one object: any alternative, any number of iterations, unordered-group elements in any
   order.  The events such a body emits for a never weigh more than maxcount (`=`/`?=` weigh 1, `*=`/`+=` many). *)
Theorem C02_trace_within_maxcount : forall b a t, emits b t -> cap2 (weight a t) <= maxcount a b.
Proof. exact (fun b a t => emits_weight a b t). Qed.
Print Assumptions C02_trace_within_maxcount.

(* maxcount is not just a syntactic count: whenever it says "many", the rule body (every ordered choice of which has
   an alternative, as in any parsed grammar) allows a trace in which one object collects two values for a ... *)
Theorem C02_many_is_realisable : forall b a,
  alts_nonempty b = true -> 2 <= maxcount a b -> exists t, emits b t /\ 2 <= length (values_of a t).
Proof. exact (fun b a => many_realisable a b). Qed.
Print Assumptions C02_many_is_realisable.

(* ... so: an attribute is a list EXACTLY when one object can collect more than one value for it. *)
Theorem C02_list_exactly_when_collectable : forall b a,
  alts_nonempty b = true ->
  (is_list (infer b a) = true <-> exists t, emits b t /\ 2 <= length (values_of a t)).
Proof. exact list_exactly_when. Qed.
Print Assumptions C02_list_exactly_when_collectable.

(* Every value an assignment matches appears in the model exactly once and in input order: for every accepted rule
   body, every trace it allows, every attribute and every (falsy) default, the builder (model.py's assignment
   handler run on an attribute initialised by _init_obj_attrs according to the inferred multiplicity) ends with
   - the list of all values matched for the attribute, in trace (= input) order, when the attribute is a list;
   - otherwise the single matched value, or the default when nothing was matched; and then at most one value was
     matched at all, so there is no earlier value that a later one could overwrite. *)
Theorem C02_values_in_order : forall b a t d,
  grammar_ok b = true -> emits b t -> truthy d = false ->
  build a (init_val (infer b a) d) t
  = Ok (if is_list (infer b a) then AList (values_of a t)
        else AScalar (match values_of a t with [] => d | v :: _ => v end))
  /\ (is_list (infer b a) = false -> length (values_of a t) <= 1).
Proof. exact values_in_order. Qed.
Print Assumptions C02_values_in_order.

(* Input that the grammar accepts never fails with 'Multiple assignments' (nor crashes on `.append`). *)
Theorem C02_no_mult_assign_error : forall b a t d,
  grammar_ok b = true -> emits b t -> truthy d = false ->
  build a (init_val (infer b a) d) t <> MultipleAssignments /\ build a (init_val (infer b a) d) t <> Crash.
Proof. exact no_mult_assign_error. Qed.
Print Assumptions C02_no_mult_assign_error.

(* No earlier value is silently overwritten by a later one: whenever two values are matched for an attribute, the
   attribute is a list and holds both (all) of them, in order. *)
Theorem C02_no_silent_overwrite : forall b a t d,
  grammar_ok b = true -> emits b t -> truthy d = false -> 2 <= length (values_of a t) ->
  build a (init_val (infer b a) d) t = Ok (AList (values_of a t)).
Proof. exact no_silent_overwrite. Qed.
Print Assumptions C02_no_silent_overwrite.

(* Separators.  The children of a `*=`/`+=` node are the nodes of the matched elements and of the matched separators; a
   separator that matched the empty string leaves no node, so elements and separators need not alternate.  With the
   way the current source tells them apart (src_sep_mode, translated from model.py's list handler), the handler stores
   exactly the element values, in order, whatever the arrangement of the children. *)
Theorem C02_separators_never_stored : forall hs cs,
  (hs = false -> forallb (fun c => negb (c_sep c)) cs = true) ->
  child_values src_sep_mode hs cs = elem_values cs.
Proof. exact separators_never_stored. Qed.
Print Assumptions C02_separators_never_stored.

(* Telling separators by position (every odd-indexed child) loses a value and stores separator text once a separator
   matched empty: children 1 2 "," 3 give [1; ","].  Telling them by the rule name "sep" drops every value matched by a
   grammar rule called `sep`. *)
Theorem C02_positional_separator_skip_refuted :
  elem_values sep_witness = [SInt 1; SInt 2; SInt 3]
  /\ child_values SepByPosition true sep_witness = [SInt 1; SStr [44%N]].
Proof. exact positional_skip_refuted. Qed.
Print Assumptions C02_positional_separator_skip_refuted.

Theorem C02_separator_by_name_refuted :
  elem_values [Child false true (SInt 1)] = [SInt 1] /\ child_values SepByName false [Child false true (SInt 1)] = [].
Proof. exact by_name_refuted. Qed.
Print Assumptions C02_separator_by_name_refuted.

(* Value flow stated on parse-tree nodes (attribute, operator, children tagged element/separator): what ends up in the
   attribute is exactly what the elements of the assignments matched - no separator text, nothing lost - in order. *)
Theorem C02_values_in_order_nodes : forall b a ns d,
  grammar_ok b = true -> forallb node_wf ns = true -> emits b (map (node_ev src_sep_mode) ns) -> truthy d = false ->
  build a (init_val (infer b a) d) (map (node_ev src_sep_mode) ns)
  = Ok (if is_list (infer b a) then AList (node_values a ns)
        else AScalar (match node_values a ns with [] => d | v :: _ => v end))
  /\ (is_list (infer b a) = false -> length (node_values a ns) <= 1).
Proof. exact values_in_order_nodes. Qed.
Print Assumptions C02_values_in_order_nodes.

Example C02_nonvacuous_nodes :
  grammar_ok witness_body2 = true /\ forallb node_wf witness_nodes = true
  /\ emits witness_body2 (map (node_ev src_sep_mode) witness_nodes)
  /\ build 0 (init_val (infer witness_body2 0) (SInt 0)) (map (node_ev src_sep_mode) witness_nodes)
     = Ok (AList [SInt 0; SInt 1; SInt 2; SInt 3]).
Proof. exact nonvacuous_nodes. Qed.
Print Assumptions C02_nonvacuous_nodes.

(* The inference as it was before the repair (every branch of an ordered choice got a fresh, empty set of seen
   assignments that was dropped afterwards) violates the statement: witness_body = `(a=X | b=X) a=X`. *)
Theorem C02_prefix_inference_refuted :
  exists b a, 2 <= maxcount a b /\ is_list (infer_prefix b a) = false.
Proof. exact prefix_inference_refuted. Qed.
Print Assumptions C02_prefix_inference_refuted.

(* ... and then both failures occur on the trace of `1 2` resp. `0 2` (witness_trace z = a=z, a=2):
   a truthy first value gives 'Multiple assignments', a falsy first value (0) is silently replaced. *)
Theorem C02_prefix_value_flow_refuted :
  grammar_ok witness_body = true /\ emits witness_body (witness_trace 1) /\ emits witness_body (witness_trace 0)
  /\ build 0 (init_val (infer_prefix witness_body 0) (SInt 0)) (witness_trace 1) = MultipleAssignments
  /\ build 0 (init_val (infer_prefix witness_body 0) (SInt 0)) (witness_trace 0) = Ok (AScalar (SInt 2)).
Proof. exact prefix_value_flow_refuted. Qed.
Print Assumptions C02_prefix_value_flow_refuted.

(* non-vacuity: the hypotheses of the value-flow theorems are satisfiable and the conclusion is the expected list *)
Example C02_nonvacuous_values :
  grammar_ok witness_body = true /\ emits witness_body (witness_trace 0) /\ truthy (SInt 0) = false
  /\ build 0 (init_val (infer witness_body 0) (SInt 0)) (witness_trace 0) = Ok (AList [SInt 0; SInt 2]).
Proof. exact nonvacuous_values. Qed.
Print Assumptions C02_nonvacuous_values.

Example C02_nonvacuous_realisable : alts_nonempty witness_body = true /\ 2 <= maxcount 0 witness_body.
Proof. exact nonvacuous_realisable. Qed.
Print Assumptions C02_nonvacuous_realisable.

Example C02_nonvacuous_list :
  is_list (infer witness_body 0) = true
  /\ is_list (infer witness_body 1) = false
  /\ is_list (infer (BAlt [BAsg 0 OpPlain; BSeq [BTok; BAsg 0 OpPlain]]) 0) = false
  /\ is_list (infer (BUnord [BOpt (BAsg 0 OpPlain); BAsg 0 OpPlain]) 0) = true.
Proof. exact nonvacuous_list. Qed.
Print Assumptions C02_nonvacuous_list.

(* ---------------------------------------------------------------- link to the interpreter model (shared PEG core)
   `emits` is a hypothesis of the value-flow theorems above.  Here it is discharged against Model/Peg.v, the model of
   the Arpeggio interpreter that is validated against the real parser by C19/C01:  whenever the parsing-expression
   node nid of a parser model g (any node table; mm = what model.py reads off each node; any oracle for the terminals,
   any input, any parser state, any fuel) has the structure of the rule body b (`den ... true b nid`, a decidable check
   that the correspondence evaluates on the parser model textX really built), and the interpreter (memoization off)
   returns a result for that node, then the assignment nodes below the NonTerminal it built for the rule - not
   descending into the NonTerminals of other rules, whose assignments belong to other objects - are a trace that b
   emits.  Covers sequence, ordered choice (including Arpeggio's "a None alternative is not a match" quirk), optional,
   * and + with separators, unordered groups, the four assignment operators, predicates and rule references. *)
Theorem C02_parse_result_is_trace :
  forall g mm attr_id conv input orc b nid fuel psq s r s',
  MultPeg.den g mm attr_id true b nid = true ->
  Peg.parse g input orc false fuel nid psq s = Peg.Ok r s' ->
  emits b (map (node_ev src_sep_mode) (MultPeg.top_nodes g mm attr_id conv r)).
Proof. exact MultPegProofs.peg_result_is_trace. Qed.
Print Assumptions C02_parse_result_is_trace.

(* End to end on the interpreter model: for every accepted rule body and every parse result of its node, model.py's
   assignment handler leaves in each attribute exactly the values matched by the elements of its assignments, in
   input order (a list), or the single value / the default with at most one value matched. *)
Theorem C02_parsed_values_in_order :
  forall g mm attr_id conv input orc b nid fuel psq s r s' a d,
  MultPeg.den g mm attr_id true b nid = true -> grammar_ok b = true ->
  Peg.parse g input orc false fuel nid psq s = Peg.Ok r s' -> truthy d = false ->
  let ns := MultPeg.top_nodes g mm attr_id conv r in
  build a (init_val (infer b a) d) (map (node_ev src_sep_mode) ns)
  = Ok (if is_list (infer b a) then AList (node_values a ns)
        else AScalar (match node_values a ns with [] => d | v :: _ => v end))
  /\ (is_list (infer b a) = false -> length (node_values a ns) <= 1).
Proof. exact MultPegProofs.parsed_values_in_order. Qed.
Print Assumptions C02_parsed_values_in_order.

(* non-vacuity: the parser model dumped from `Model: (a=INT | b=INT) a+=INT[/,?/];` has the structure of its body, and
   the interpreter's result on `1 2 , 3` yields the events a=<1>, a+=<2,3> (values shown by their positions 0, 2, 6;
   the separator node "," at 4 is not among them) *)
Example C02_nonvacuous_link :
  MultPeg.den MultPegWitness.wit_g MultPegWitness.wit_mm MultPegWitness.wit_attr true MultPegWitness.wit_body MultPegWitness.wit_nid = true
  /\ grammar_ok MultPegWitness.wit_body = true
  /\ exists r s', Peg.parse MultPegWitness.wit_g MultPegWitness.wit_input (Peg.orc_of MultPegWitness.wit_tbl) false 50
                            MultPegWitness.wit_nid true (Peg.init_st MultPegWitness.wit_cfg) = Peg.Ok r s'
     /\ map (node_ev src_sep_mode) (MultPeg.top_nodes MultPegWitness.wit_g MultPegWitness.wit_mm MultPegWitness.wit_attr MultPegWitness.wit_conv r)
        = [Ev 0 OpPlain [SInt 0]; Ev 0 OpPlus [SInt 2; SInt 6]].
Proof. exact MultPegWitness.wit_link. Qed.
Print Assumptions C02_nonvacuous_link.

(* ---------------------------------------------------------------- end to end on the full object builder (Model/Build.v)
   Build.pnode is the model of parse_tree_to_objgraph validated against textX by C01/C06.  tvals ma kids = the values
   process_node computes (vof) for the children of the assignment nodes of attribute ma among the children `kids` of the
   rule's NonTerminal, in input order (`=`: the first child; `?=`: True; `*=`/`+=`: the non-separator children); for a
   link attribute (`a=[Rule]`, `a+=[Rule]`) each value is the pending reference VRef name position class at that place.
   expected_val ma vs = the list vs for a many-valued attribute, else the single value (or the initial value when vs = []).

   Rule level, memoization off: for any parser-model table, oracle, input, state, fuel and enclosing object: if the rule
   node has the structure of the body b, the interpreter returns the rule's NonTerminal, and the builder turns it into
   an object, then EVERY attribute of the object holds exactly the matched values in input order, each once; the
   attribute is many-valued iff maxcount >= 2; a single-valued attribute had at most one value matched.  (An object
   is built, so no 'Multiple assignments' was raised at this level.)
   Side conditions, all decidable and evaluated by the correspondence on the real tables/trees: asg_table_okb (every
   __asgn node has a fitting PEG class), mult_agreesb (the dumped multiplicities are the inferred ones), Build.asg_placed
   (assignment nodes occur only as direct children of common-rule nodes - the side condition C06 uses too - so the value
   of every other tree does not depend on the enclosing object). *)
Theorem C02_parsed_object_values :
  forall g mm input grp auto use_grp attr_id orc,
  MultBuild.asg_table_okb g mm = true ->
  forall b nid fuel psq s kids s' cls attrs top cls' p e vals top',
  MultPeg.den g mm attr_id true b nid = true -> grammar_ok b = true ->
  Peg.parse g input orc false fuel nid psq s = Peg.Ok (Peg.RTree (Peg.NT nid kids)) s' ->
  Build.info mm nid = Build.IRule Build.RCommon cls attrs ->
  MultBuild.mult_agreesb attr_id b attrs = true ->
  forallb (Build.asg_placed mm true) kids = true ->
  Build.pnode g mm input grp auto use_grp (Peg.NT nid kids) top = Build.BOk (Build.VObj cls' p e vals, top') ->
  forall ma, Build.find_attr (Build.a_name ma) attrs = Some ma ->
    Build.get_val (Build.a_name ma) vals
      = Some (MultBuild.expected_val auto ma (MultBuild.tvals g mm input grp auto use_grp ma kids))
    /\ (MultBuild.is_many (Build.a_mult ma) = true <-> 2 <= maxcount (attr_id (Build.a_name ma)) b)
    /\ (MultBuild.is_many (Build.a_mult ma) = false ->
        length (MultBuild.tvals g mm input grp auto use_grp ma kids) <= 1).
Proof. exact MultEndProofs.parsed_object_values. Qed.
Print Assumptions C02_parsed_object_values.

(* Input that the grammar accepts never fails with 'Multiple assignments': if building the rule's object ends in a
   semantic error, that error was raised while one of the children was converted (by a nested object, to which this
   theorem applies in turn) or by the object-name check - not by the multiple-assignment guard of this object. *)
Theorem C02_parsed_object_no_mult_assign :
  forall g mm input grp auto use_grp attr_id orc,
  MultBuild.asg_table_okb g mm = true ->
  forall b nid fuel psq s kids s' cls attrs top,
  MultPeg.den g mm attr_id true b nid = true -> grammar_ok b = true ->
  Peg.parse g input orc false fuel nid psq s = Peg.Ok (Peg.RTree (Peg.NT nid kids)) s' ->
  Build.info mm nid = Build.IRule Build.RCommon cls attrs ->
  MultBuild.mult_agreesb attr_id b attrs = true ->
  forallb (Build.asg_placed mm true) kids = true ->
  Build.pnode g mm input grp auto use_grp (Peg.NT nid kids) top = Build.BErr Build.ESem ->
  (exists k c', In k kids /\ Build.pnode g mm input grp auto use_grp k (Some c') = Build.BErr Build.ESem /\
     (MultBuildProofs.not_asg mm k = true \/
      exists n' ks a o k0 c'', k = Peg.NT n' ks /\ Build.info mm n' = Build.IAsgn a o /\ In k0 ks /\
                               Build.pnode g mm input grp auto use_grp k0 (Some c'') = Build.BErr Build.ESem))
  \/ (exists c1, Build.each_loop (Build.pnode g mm input grp auto use_grp) kids
                   (Some (Build.mkCur cls attrs (Build.tpos (Peg.NT nid kids)) (Build.tend (Peg.NT nid kids)) (Build.init_attrs auto attrs)))
                 = Build.BOk (Some c1) /\ Build.name_ok (Build.c_vals c1) = false).
Proof. exact MultEndProofs.parsed_object_no_mult_assign. Qed.
Print Assumptions C02_parsed_object_no_mult_assign.

(* Whole run, memoization off or on: Peg.run -> Build.build.  With memoization on, the parser model must be
   context-constant and the un-memoized run must terminate with this fuel (C19's memo_safe). *)
Theorem C02_run_object_values :
  forall g mm input grp auto use_grp attr_id orc,
  MultBuild.asg_table_okb g mm = true ->
  forall memo b nid cfg fuel r cls attrs cls' p e vals,
  (memo = true -> PegProofs.ctx_constant g = true /\ PegMemo.not_aborted (Peg.run g cfg orc false fuel input)) ->
  MultPeg.den g mm attr_id true b nid = true -> grammar_ok b = true -> MultEndProofs.top_okb g nid = true ->
  Build.info mm nid = Build.IRule Build.RCommon cls attrs -> MultBuild.mult_agreesb attr_id b attrs = true ->
  Peg.run g cfg orc memo fuel input = Peg.Parsed r ->
  (forall tp t rest, r = Peg.RTree (Peg.NT tp (t :: rest)) -> Build.asg_placed mm false t = true) ->
  Build.build g mm input grp auto use_grp r = Build.BOk (Build.VObj cls' p e vals) ->
  exists kids tp rest, r = Peg.RTree (Peg.NT tp (Peg.NT nid kids :: rest)) /\
  forall ma, Build.find_attr (Build.a_name ma) attrs = Some ma ->
    Build.get_val (Build.a_name ma) vals
      = Some (MultBuild.expected_val auto ma (MultBuild.tvals g mm input grp auto use_grp ma kids))
    /\ (MultBuild.is_many (Build.a_mult ma) = true <-> 2 <= maxcount (attr_id (Build.a_name ma)) b)
    /\ (MultBuild.is_many (Build.a_mult ma) = false ->
        length (MultBuild.tvals g mm input grp auto use_grp ma kids) <= 1).
Proof. exact MultEndProofs.run_object_values. Qed.
Print Assumptions C02_run_object_values.

(* non-vacuity: all hypotheses hold on the dumped witness (`Model: (a=INT | b=INT) a+=INT[/,?/];`, input `1 2 , 3`,
   memoization on) and the object holds a = [INT"1", INT"2", INT"3"], b = its default *)
Example C02_nonvacuous_end_to_end :
  PegProofs.ctx_constant MultPegWitness.wit_g = true
  /\ MultBuild.asg_table_okb MultPegWitness.wit_g MultPegWitness.wit_mm = true
  /\ MultEndProofs.top_okb MultPegWitness.wit_g MultPegWitness.wit_nid = true
  /\ MultBuild.mult_agreesb MultPegWitness.wit_attr MultPegWitness.wit_body MultPegWitness.wit_attrs = true
  /\ PegMemo.not_aborted (Peg.run MultPegWitness.wit_g MultPegWitness.wit_cfg (Peg.orc_of MultPegWitness.wit_tbl) false 50 MultPegWitness.wit_input)
  /\ exists r p e vals,
       Peg.run MultPegWitness.wit_g MultPegWitness.wit_cfg (Peg.orc_of MultPegWitness.wit_tbl) true 50 MultPegWitness.wit_input = Peg.Parsed r
       /\ Build.asg_placed MultPegWitness.wit_mm false (MultPegWitness.first_tree r) = true
       /\ Build.build MultPegWitness.wit_g MultPegWitness.wit_mm MultPegWitness.wit_input MultPegWitness.wit_grp true false r
          = Build.BOk (Build.VObj [77;111;100;101;108]%N p e vals)
       /\ Build.get_val [97]%N vals
          = Some (Build.VList [Build.VTerm [73;78;84]%N [49]%N; Build.VTerm [73;78;84]%N [50]%N; Build.VTerm [73;78;84]%N [51]%N])
       /\ Build.get_val [98]%N vals = Some (Build.VDefault [73;78;84]%N).
Proof. exact MultPegWitness.wit_end. Qed.
Print Assumptions C02_nonvacuous_end_to_end.

(* The same with hypotheses on the TABLE and the ORACLE only - no hypothesis on the parse tree: for tables in the class
   of C01's refinement theorem (Spec.wfg), an oracle that never matches the empty string (Spec.orc_pos) and
   BuildPlaced.table_asg_ok (decidable), Build.asg_placed of the parsed tree is derived (C01/C06 builder's
   asg_placed_of_run_tree). *)
Theorem C02_run_object_values_table :
  forall g mm input grp auto use_grp attr_id orc,
  MultBuild.asg_table_okb g mm = true ->
  forall pf K memo b nid cfg fuel r cls attrs cls' p e vals,
  Spec.wfg g pf = true -> Spec.orc_pos orc -> BuildPlaced.table_asg_ok g mm K = true ->
  (memo = true -> PegProofs.ctx_constant g = true /\ PegMemo.not_aborted (Peg.run g cfg orc false fuel input)) ->
  MultPeg.den g mm attr_id true b nid = true -> grammar_ok b = true -> MultEndProofs.top_okb g nid = true ->
  Build.info mm nid = Build.IRule Build.RCommon cls attrs -> MultBuild.mult_agreesb attr_id b attrs = true ->
  Peg.run g cfg orc memo fuel input = Peg.Parsed r ->
  Build.build g mm input grp auto use_grp r = Build.BOk (Build.VObj cls' p e vals) ->
  exists kids tp rest, r = Peg.RTree (Peg.NT tp (Peg.NT nid kids :: rest)) /\
  forall ma, Build.find_attr (Build.a_name ma) attrs = Some ma ->
    Build.get_val (Build.a_name ma) vals
      = Some (MultBuild.expected_val auto ma (MultBuild.tvals g mm input grp auto use_grp ma kids))
    /\ (MultBuild.is_many (Build.a_mult ma) = true <-> 2 <= maxcount (attr_id (Build.a_name ma)) b)
    /\ (MultBuild.is_many (Build.a_mult ma) = false ->
        length (MultBuild.tvals g mm input grp auto use_grp ma kids) <= 1).
Proof. exact MultTableProofs.run_object_values_table. Qed.
Print Assumptions C02_run_object_values_table.

(* non-vacuity: every hypothesis holds on the dumped `Model: (a=INT | b=INT) a+=INT[','];`, input `1 2 , 3`, memoization on *)
Example C02_nonvacuous_table :
  Spec.wfg MultTableWitness.wit2_g 24 = true /\ Spec.orc_pos (Peg.orc_of MultTableWitness.wit2_tbl)
  /\ BuildPlaced.table_asg_ok MultTableWitness.wit2_g MultPegWitness.wit_mm 24 = true
  /\ PegProofs.ctx_constant MultTableWitness.wit2_g = true
  /\ MultBuild.asg_table_okb MultTableWitness.wit2_g MultPegWitness.wit_mm = true
  /\ MultPeg.den MultTableWitness.wit2_g MultPegWitness.wit_mm MultPegWitness.wit_attr true MultPegWitness.wit_body MultPegWitness.wit_nid = true
  /\ grammar_ok MultPegWitness.wit_body = true
  /\ MultEndProofs.top_okb MultTableWitness.wit2_g MultPegWitness.wit_nid = true
  /\ MultBuild.mult_agreesb MultPegWitness.wit_attr MultPegWitness.wit_body MultPegWitness.wit_attrs = true
  /\ PegMemo.not_aborted (Peg.run MultTableWitness.wit2_g MultPegWitness.wit_cfg (Peg.orc_of MultTableWitness.wit2_tbl) false 50 MultPegWitness.wit_input)
  /\ exists r p e vals,
       Peg.run MultTableWitness.wit2_g MultPegWitness.wit_cfg (Peg.orc_of MultTableWitness.wit2_tbl) true 50 MultPegWitness.wit_input = Peg.Parsed r
       /\ Build.build MultTableWitness.wit2_g MultPegWitness.wit_mm MultPegWitness.wit_input MultPegWitness.wit_grp true false r
          = Build.BOk (Build.VObj [77;111;100;101;108]%N p e vals)
       /\ Build.get_val [97]%N vals
          = Some (Build.VList [Build.VTerm [73;78;84]%N [49]%N; Build.VTerm [73;78;84]%N [50]%N; Build.VTerm [73;78;84]%N [51]%N]).
Proof. exact MultTableWitness.wit2_end. Qed.
Print Assumptions C02_nonvacuous_table.
