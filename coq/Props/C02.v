(* C02 — assignments never lose, duplicate or reorder matched values. *)
From TxV Require Import Core.Base Model.MultBase Gen.SrcMult Model.Mult Proofs.MultProofs.

(* An attribute is a list exactly when one object can collect more than one value for it:
   `infer` is the multiplicity inference of the current source (visit_assignment's operator table followed by
   _update_attr_multiplicities, with the constants and the ordered-choice handling translated from the source into
   Gen/SrcMult.v), `maxcount` the specification (sequence and unordered group add, ordered choice takes the maximum,
   optional keeps, a repetition or a `*=`/`+=` turns one or more into many).  For every rule body and attribute. *)
Theorem C02_list_iff_many : forall b a, is_list (infer b a) = true <-> 2 <= maxcount a b.
Proof. exact (fun b a => infer_list_iff a b). Qed.
Print Assumptions C02_list_iff_many.

(* The inference as it was before the repair (every branch of an ordered choice got a fresh, empty set of seen
   assignments that was dropped afterwards) violates the statement: `(a=X | b=X) a=X`. *)
Theorem C02_prefix_inference_refuted :
  exists b a, 2 <= maxcount a b /\ is_list (infer_prefix b a) = false.
Proof.
  exists (BSeq [BAlt [BAsg 0 OpPlain; BAsg 1 OpPlain]; BAsg 0 OpPlain]), 0.
  split; [vm_compute; lia | vm_compute; reflexivity].
Qed.
Print Assumptions C02_prefix_inference_refuted.

Example C02_nonvacuous_list :
  is_list (infer (BSeq [BAlt [BAsg 0 OpPlain; BAsg 1 OpPlain]; BAsg 0 OpPlain]) 0) = true
  /\ is_list (infer (BSeq [BAlt [BAsg 0 OpPlain; BAsg 1 OpPlain]; BAsg 0 OpPlain]) 1) = false
  /\ is_list (infer (BAlt [BAsg 0 OpPlain; BSeq [BTok; BAsg 0 OpPlain]]) 0) = false
  /\ is_list (infer (BUnord [BOpt (BAsg 0 OpPlain); BAsg 0 OpPlain]) 0) = true.
Proof. vm_compute. repeat split; reflexivity. Qed.
Print Assumptions C02_nonvacuous_list.
