(* C32 — scope provider selection follows the documented precedence. Statements only. *)
From TxV Require Import Core.Base Model.ScopeDefs Gen.SrcScope Model.RrelSyntax Proofs.RrelSyntaxProofs Model.Scope Proofs.ScopeProofs.

(* For every set of registered keys, every rule/attribute name and with or without a
   grammar RREL, the provider selected by the (translated) selection statement is the
   documented one. *)
Theorem C32_precedence : forall regs cls attr has_rrel,
  select regs cls attr has_rrel = spec regs cls attr has_rrel.
Proof. exact select_spec. Qed.
Print Assumptions C32_precedence.

Theorem C32_grammar_rrel_wins : forall regs cls attr, select regs cls attr true = FromGrammar.
Proof. exact select_grammar_first. Qed.
Print Assumptions C32_grammar_rrel_wins.

(* A whole resolution pass over any sequence of references (rule, attribute, has a grammar RREL): each one
   gets the provider documented for its own rule and attribute - the selection made for one reference has
   no influence on a later one (no memo by attribute name, by rule, ...). *)
Theorem C32_per_reference : forall regs refs,
  select_pass regs refs [] = map (fun r => spec regs (fst (fst r)) (snd (fst r)) (snd r)) refs.
Proof. intros regs refs. exact (select_pass_spec regs refs []). Qed.
Print Assumptions C32_per_reference.

(* Several register_scope_providers calls on one meta-model: the selection depends only on the latest
   registration - keys of earlier calls that the latest call omits are not in force (after {'R.a': p1} then
   {'*.*': p2} a reference R.a goes to p2; after {} the default provider is used).  Rests on the translated fact
   that the method replaces the meta-model's dict (`self.scope_providers = sp`). *)
Theorem C32_latest_registration : forall history last cls attr has_rrel,
  select (active_keys (history ++ [last]) []) cls attr has_rrel = spec last cls attr has_rrel.
Proof. exact select_latest_registration. Qed.
Print Assumptions C32_latest_registration.

Theorem C32_latest_registration_pass : forall history last refs,
  select_pass (active_keys (history ++ [last]) []) refs [] = map (fun r => spec last (fst (fst r)) (snd (fst r)) (snd r)) refs.
Proof. exact select_pass_latest_registration. Qed.
Print Assumptions C32_latest_registration_pass.

(* A registered RREL string denotes the provider built from the parsed expression (the parser of
   Model/RrelSyntax.v, property C12), i.e. the provider the same expression yields when written in the grammar. *)
Theorem C32_rrel_string : forall t e,
  RrelSyntax.parse t = Some e -> registered_provider (RString t) = grammar_provider e.
Proof. exact registered_string_like_grammar. Qed.
Print Assumptions C32_rrel_string.

(* ... in particular every string that lexes to the tokens of a well-formed expression (C12 round trip) *)
Theorem C32_rrel_string_printed : forall t e,
  wf_expr e -> lex (S (length t)) t = Some (t_expr e) -> registered_provider (RString t) = grammar_provider e.
Proof. exact registered_string_of_tokens. Qed.
Print Assumptions C32_rrel_string_printed.

Example C32_nonvacuous :
  select [[42;46;42]; [65;46;42]]%N [65]%N [98]%N false = Registered [65;46;42]%N.
Proof. exact select_example. Qed.
Print Assumptions C32_nonvacuous.

(* two rules referring through the same attribute name: the key of the first does not leak to the second *)
Example C32_nonvacuous_pass :
  select_pass [[65;46;98]]%N [([65]%N, [98]%N, false); ([66]%N, [98]%N, false)] [] = [Registered [65;46;98]%N; Default].
Proof. vm_compute. reflexivity. Qed.
Print Assumptions C32_nonvacuous_pass.

(* a specific key registered first, then only '*.*': the specific key is gone; then {}: the default provider *)
Example C32_nonvacuous_history :
  select (active_keys [[[65;46;98]]; [[42;46;42]]]%N []) [65]%N [98]%N false = Registered [42;46;42]%N /\
  select (active_keys [[[65;46;98]]; []]%N []) [65]%N [98]%N false = Default.
Proof. vm_compute. split; reflexivity. Qed.
Print Assumptions C32_nonvacuous_history.
