(* C32 — scope provider selection follows the documented precedence. Statements only. *)
From TxV Require Import Core.Base Model.ScopeDefs Gen.SrcScope Model.Scope Proofs.ScopeProofs.

(* For every set of registered keys, every rule/attribute name and with or without a
   grammar RREL, the provider selected by the (translated) selection statement is the
   documented one. *)
Theorem C32_precedence : forall regs cls attr has_rrel,
  select regs cls attr has_rrel = spec regs cls attr has_rrel.
Proof. exact select_spec. Qed.
Print Assumptions C32_precedence.

Theorem C32_grammar_rrel_wins : forall regs cls attr, select regs cls attr true = FromGrammar.
Proof. exact select_grammar_first. Qed.
Print Assumptions C32_grammar_rrel_wins.

(* A registered RREL string denotes the provider built from the parsed expression, i.e.
   the provider the same expression yields when written in the grammar. *)
Theorem C32_rrel_string : forall parse t,
  registered_provider parse (RString t) = grammar_provider (parse t).
Proof. exact registered_string_like_grammar. Qed.
Print Assumptions C32_rrel_string.

Example C32_nonvacuous :
  select [[42;46;42]; [65;46;42]]%N [65]%N [98]%N false = Registered [65;46;42]%N.
Proof. exact select_example. Qed.
Print Assumptions C32_nonvacuous.
