(* C12 — printed RREL expressions re-parse to equivalent expressions. *)
From TxV Require Import Core.Base Model.RrelSyntax Proofs.RrelSyntaxProofs.

(* The full statement, at the level of characters (print = render of the printed tokens,
   parse = lexer followed by the PEG-ordered token parser).  [lexable e] would ask that
   names are identifiers, dots counts are positive, flags are over {m,p} and fixed names
   contain at most one kind of quote and do not end in a backslash. *)
Definition C12_roundtrip_full_statement (lexable : expr -> Prop) : Prop :=
  forall e, wf_expr e -> lexable e -> parse (print e) = Some e.

(* Proved part: for every well-formed expression tree (any depth, any width, any names and
   flags), the PEG-ordered parser applied to the printed token sequence returns the tree
   itself — same structure and same flags.  Missing for the full statement: the lemma
   [lex (render (t_expr e)) = Some (t_expr e)] for lexable e (token boundaries are
   recovered by the lexer); it is exercised by the correspondence check and by the
   computed examples below, not proved. *)
Theorem C12_roundtrip_partial : forall e, wf_expr e -> parse_toks (t_expr e) = Some e.
Proof. exact parse_toks_print. Qed.
Print Assumptions C12_roundtrip_partial.

(* hence any evaluation of the re-parsed expression equals the evaluation of the original *)
Theorem C12_same_evaluation : forall (A : Type) (eval : expr -> A) e, wf_expr e ->
  option_map eval (parse_toks (t_expr e)) = Some (eval e).
Proof. intros A eval e H. rewrite (parse_toks_print e H). reflexivity. Qed.
Print Assumptions C12_same_evaluation.

(* non-vacuity and a character-level instance:  +mp:^packages*.'it''s'~classes,(..a,parent(X))*.b  *)
Definition sample : expr :=
  {| eseq := SCons (PCons caret_elem (PCons (EStar (S1 (P1 (ENav [112] true None))))
                      (P1 (ENav [99] false (Some [105;116;39;115])))))
                   (S1 (PCons (EStar (SCons (PCons (EDots 2) (P1 (ENav [97] true None)))
                                            (S1 (P1 (EParent [88])))))
                              (P1 (ENav [98] true None))));
     eflags := [109;112] |}%N.
Example C12_sample_wf : wf_expr sample.
Proof. vm_compute. tauto. Qed.
Print Assumptions C12_sample_wf.
Example C12_sample_chars : parse (print sample) = Some sample.
Proof. vm_compute. reflexivity. Qed.
Print Assumptions C12_sample_chars.
