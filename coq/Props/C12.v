(* C12 — printed RREL expressions re-parse to equivalent expressions. *)
From TxV Require Import Core.Base Model.Rx Model.RrelSyntaxLib Gen.SrcRrelSyntax Model.RrelSyntax Model.RrelSyntaxText.
From TxV Require Import Model.PegSyntax Model.RrelSyntaxPeg.
From TxV Require Import Proofs.RrelSyntaxProofs Proofs.RrelSyntaxPrintProofs Proofs.RrelSyntaxLexProofs Proofs.RrelSyntaxTextProofs
  Proofs.RrelSyntaxParseProofs Proofs.RrelSyntaxPegProofs.

(* The property in its stated form: for every text that PARSES as an RREL expression, str(expr)
   parses back to the same expression - same structure, same flags - unless a fixed name of the
   expression ends in a backslash (known finding trailing-backslash, C12_trailing_backslash_refuted).
     parse_text  the terminals of the grammar (the regexes of the live parser, matched with the
                 backtracking semantics of Model/Rx.v, after whitespace skipping) followed by the
                 PEG-ordered parser (C12_live_peg_is_transcribed ties its PEG to the live parser);
     print_src   str(expr): every node printed by the __repr__ body of its class as translated
                 from textx/scoping/rrel.py (Gen/SrcRrelSyntax.v);
     u           any classification of the non-ASCII code points (\w, \d). *)
Theorem C12_parsed_roundtrip : forall u s e, parse_text u s = Some e -> no_trailing_bs e = true ->
  parse_text u (print_src e) = Some e.
Proof. exact parsed_roundtrip. Qed.
Print Assumptions C12_parsed_roundtrip.

(* every tree the parser returns is one the constructors build (dots only at the head of a path, a
   fixed name only on a non-consuming navigation), its names are identifiers because rrel_id
   matched them, its dots counts are positive, its flags are over {m,p} and its fixed names have
   no unescaped quote of the kind string_value matched them in *)
Theorem C12_parsed_trees : forall u s e, parse_text u s = Some e -> wf_expr e /\ parsed_ok u e = true.
Proof. exact parse_text_sound. Qed.
Print Assumptions C12_parsed_trees.

(* ... and such a tree is expressible unless a fixed name ends in a backslash *)
Theorem C12_parsed_expressible : forall u e, parsed_ok u e = true -> no_trailing_bs e = true -> lexable u e = true.
Proof. exact parsed_lexable. Qed.
Print Assumptions C12_parsed_expressible.

(* The statement over trees (also those built through the constructors, not by parsing):
     wf_expr     the tree is one the constructors build;
     lexable u   what the grammar can express at all: names are identifiers (as rrel_id's regex
                 matches them under u), dots counts positive, flags over {m,p}, every fixed name
                 writable as a string_value (in one of the two quotes, C12_expressible_fixed_names).
   For every such tree of any depth and width and every flag combination, parsing the printed text
   gives back the tree itself. *)
Theorem C12_roundtrip : forall u e, wf_expr e -> lexable u e = true -> parse_text u (print_src e) = Some e.
Proof. exact parse_text_print. Qed.
Print Assumptions C12_roundtrip.

(* in particular for ASCII identifiers [A-Za-z_][A-Za-z0-9_]*, whatever the classification *)
Theorem C12_roundtrip_ascii_names : forall u e, wf_expr e -> lexable ascii_only e = true ->
  parse_text u (print_src e) = Some e.
Proof. exact parse_text_print_ascii. Qed.
Print Assumptions C12_roundtrip_ascii_names.

(* hence any evaluation of the re-parsed expression equals the evaluation of the original *)
Theorem C12_same_evaluation : forall (A : Type) (eval : expr -> A) u s e, parse_text u s = Some e ->
  no_trailing_bs e = true -> option_map eval (parse_text u (print_src e)) = Some (eval e).
Proof. exact parsed_same_evaluation. Qed.
Print Assumptions C12_same_evaluation.

(* the three steps the round trip is composed of *)
(* 1. the source's __repr__ methods print the concatenated texts of the token sequence *)
Theorem C12_repr_prints_tokens : forall e, print_src e = render (t_expr e).
Proof. exact print_src_render. Qed.
Print Assumptions C12_repr_prints_tokens.

(* 2. the grammar's terminals recover the tokens of any sequence in which every token is well
      formed and no identifier follows an identifier, no dots follow dots; the printer only
      emits such sequences *)
Theorem C12_lexer_recovers_tokens : forall u ts, toks_ok u ts = true -> lex_text u (render ts) = Some ts.
Proof. exact lex_text_render. Qed.
Print Assumptions C12_lexer_recovers_tokens.

Theorem C12_printer_never_glues : forall u e, wf_expr e -> lexable u e = true -> toks_ok u (t_expr e) = true.
Proof. exact toks_ok_print. Qed.
Print Assumptions C12_printer_never_glues.

(* 3. the PEG-ordered parser applied to the printed token sequence returns the tree (any names) *)
Theorem C12_roundtrip_tokens : forall e, wf_expr e -> parse_toks (t_expr e) = Some e.
Proof. exact parse_toks_print. Qed.
Print Assumptions C12_roundtrip_tokens.

(* the hypothesis on fixed names: [lexable] asks that a fixed name can be written as a
   string_value in single or in double quotes (expressible); the quotes the printer chooses
   (double quotes only if the name has an unescaped single quote) then work *)
Theorem C12_expressible_fixed_names : forall f, expressible f = true -> str_ok (quote_for f) f = true.
Proof. exact expressible_quote_for. Qed.
Print Assumptions C12_expressible_fixed_names.

(* ... and it cannot be dropped: "a\"~x,'b'~y parses to a well-formed tree whose first fixed name
   ends in a backslash; no spelling of that name is independent of the text that follows, and the
   printed text 'a\'~x,'b'~y does not parse (known finding trailing-backslash) *)
Theorem C12_trailing_backslash_refuted : exists s e,
  parse_text ascii_only s = Some e /\ wf_expr e /\ no_trailing_bs e = false /\ parse_text ascii_only (print_src e) = None.
Proof. exact trailing_backslash_exists. Qed.
Print Assumptions C12_trailing_backslash_refuted.

(* the PEG the token parser and the lexer were written from (Model/RrelSyntaxPeg.v: rrel_rules) is,
   node for node, the parser model of the live ParserPython(rrel_standalone, reduce_tree=False),
   dumped on every run by tools/pegdump.py: same rules, same sequences / ordered choices /
   optionals / repetitions in the same order, same string terminals, same regex texts and flags,
   no separators, no rule-level whitespace settings, no further nodes, same whitespace config *)
Theorem C12_live_peg_is_transcribed : peg_check rrel_peg rrel_peg_config rrel_peg_oracles rrel_rules = true.
Proof. exact live_peg_is_transcribed. Qed.
Print Assumptions C12_live_peg_is_transcribed.

(* non-vacuity and a computed instance:  +mp:^packages*.'it''s'~classes,(..a,parent(X))*.b  *)
Definition sample : expr :=
  {| eseq := SCons (PCons caret_elem (PCons (EStar (S1 (P1 (ENav [112] true None))))
                      (P1 (ENav [99] false (Some [105;116;39;115])))))
                   (S1 (PCons (EStar (SCons (PCons (EDots 2) (P1 (ENav [97] true None)))
                                            (S1 (P1 (EParent [88])))))
                              (P1 (ENav [98] true None))));
     eflags := [109;112] |}%N.
Example C12_sample_wf : wf_expr sample /\ lexable ascii_only sample = true /\ no_trailing_bs sample = true.
Proof. split; [vm_compute; tauto | split; vm_compute; reflexivity]. Qed.
Print Assumptions C12_sample_wf.
Example C12_sample_chars : parse_text ascii_only (print_src sample) = Some sample.
Proof. vm_compute. reflexivity. Qed.
Print Assumptions C12_sample_chars.
