(* C29 — graph exports are well-formed for any model and metamodel. *)
From Coq Require Import String.
From TxV Require Import Core.Base Model.ExportDefs Gen.SrcExport Model.Export Model.ExportWalk Model.ExportMeta Proofs.ExportProofs Proofs.ExportDocProofs Proofs.ExportWalkProofs Proofs.ExportMetaProofs Proofs.ExportMetaCountProofs.

(* dot_escape is the replacement chain translated from textx/export.py.  For every string s, the text
   <quote> dot_escape s <quote> rest  is scanned by the DOT string scanner as exactly one quoted string
   whose text is dot_escape s, whatever follows. *)
Theorem C29_escape_quoted : forall s rest,
  lex_qstring ([c_quote] ++ dot_escape s ++ [c_quote] ++ rest) = Some (dot_escape s, rest).
Proof. exact escape_quoted. Qed.
Print Assumptions C29_escape_quoted.

(* the same for ANY replacement chain that passes the decidable per-character check (what is re-run
   against the translated chain): the chain acts character by character, untouched characters are
   neither quote nor backslash *)
Theorem C29_escape_chain_sound : forall chain, chain_safe chain = true -> forall s rest,
  lex_qstring ([c_quote] ++ apply_chain chain s ++ [c_quote] ++ rest) = Some (apply_chain chain s, rest).
Proof. intros chain H s rest. exact (chain_quoted chain s rest H). Qed.
Print Assumptions C29_escape_chain_sound.

Theorem C29_escape_chain_checked : chain_safe escape_chain = true.
Proof. exact escape_chain_safe. Qed.
Print Assumptions C29_escape_chain_checked.

(* truncation in dot_repr cannot expose a quote or leave a backslash in front of the closing quote *)
Theorem C29_repr_safe : forall s rest,
  lex_qstring ([c_quote] ++ dot_repr_str s ++ [c_quote] ++ rest) = Some (dot_repr_str s, rest).
Proof. exact repr_quoted. Qed.
Print Assumptions C29_repr_safe.

(* template safety is decidable and sound: if the abstract run of the document machine over a template
   succeeds from outside-a-string to outside-a-string, then every text the template can produce (holes
   filled with anything of their kind) leaves the DOT scanner outside any string, with no hole able to
   close or open one, and contains no comment opener outside strings *)
Theorem C29_templates_sound : forall t, doc_quotes_ok t = true -> forall w, gen t w -> drun DOut w = Some DOut.
Proof. exact doc_quotes_sound. Qed.
Print Assumptions C29_templates_sound.

(* the templates translated from model_export_to_file / metamodel_export_tofile + DotRenderer pass it *)
Theorem C29_model_doc : forall w, gen model_doc w -> drun DOut w = Some DOut.
Proof. exact model_doc_quotes. Qed.
Print Assumptions C29_model_doc.

Theorem C29_metamodel_doc : forall w, gen metamodel_doc w -> drun DOut w = Some DOut.
Proof. exact metamodel_doc_quotes. Qed.
Print Assumptions C29_metamodel_doc.

(* ---- blocks: braces and brackets outside strings.  gstep refines the document machine: strings and attribute
   lists only inside the graph block, attribute lists [ ] not nested and without braces, HTML strings only inside
   attribute lists, the brace that returns to depth 0 ends the graph and only white space follows it.
   Every text the translated DOT templates can produce is one such block (the subgraph blocks of the repository
   path open and close inside it; _export_subgraph is translated as the sequence of its writes). *)
Theorem C29_blocks_sound : forall t, doc_blocks_ok t = true -> forall w, gen t w -> grun g_start w = Some g_final.
Proof. exact doc_blocks_sound. Qed.
Print Assumptions C29_blocks_sound.

Theorem C29_model_doc_blocks : forall w, gen model_doc w -> grun g_start w = Some g_final.
Proof. exact model_doc_blocks. Qed.
Print Assumptions C29_model_doc_blocks.

Theorem C29_metamodel_doc_blocks : forall w, gen metamodel_doc w -> grun g_start w = Some g_final.
Proof. exact metamodel_doc_blocks. Qed.
Print Assumptions C29_metamodel_doc_blocks.

Example C29_blocks_nonvacuous :
  grun g_start [103; 32; 123; 97; 91; 108; 61; 34; 125; 34; 93; 123; 98; 125; 125; 10]%N = Some g_final   (* g {a[l="}"]{b}} *)
  /\ grun g_start [103; 123; 97; 91; 91]%N = None            (* nested bracket *)
  /\ grun g_start [103; 123; 125; 97]%N = None               (* text after the closing brace *)
  /\ grun g_start [103; 123; 91; 123]%N = None               (* brace inside an attribute list *)
  /\ doc_blocks_ok (TCat [TLit [103; 123]%N; TStar (TLit [125]%N)]) = false.
Proof. vm_compute. repeat split; reflexivity. Qed.
Print Assumptions C29_blocks_nonvacuous.

(* ---- record labels (all nodes have shape=record): Graphviz reports "bad label format" and exits non-zero
   when a label's braces, pipes and angle brackets do not form a record.
   For every string, dot_escape and dot_repr expose no structuring character and leave no backslash behind
   that could swallow the next character (record-label scanner of shapes.c). *)
Theorem C29_escape_record_safe : forall s, rrun RNorm (dot_escape s) = Some RNorm /\ rrun RNorm (dot_repr_str s) = Some RNorm.
Proof. intro s. split; [exact (dot_escape_rrun s) | exact (dot_repr_rrun s)]. Qed.
Print Assumptions C29_escape_record_safe.

(* every text that the label templates of the node statements (translated from the source) can produce is one
   flat record  { field | field ... }  with nothing after the closing brace *)
Theorem C29_labels_sound : forall t, label_ok t = true -> forall w, gen t w -> lrun LStart w = Some LDone.
Proof. exact label_sound. Qed.
Print Assumptions C29_labels_sound.

Theorem C29_model_labels : forall t w, In t model_labels -> gen t w -> lrun LStart w = Some LDone.
Proof. exact model_labels_record. Qed.
Print Assumptions C29_model_labels.

Theorem C29_metamodel_labels : forall t w, In t metamodel_labels -> gen t w -> lrun LStart w = Some LDone.
Proof. exact metamodel_labels_record. Qed.
Print Assumptions C29_metamodel_labels.

(* ---- PlantUML: in everything written before the legend (header, class blocks, links) braces open and close
   alternately: each class body is closed before anything else opens, none closes twice *)
Theorem C29_plantuml_balanced : forall w, gen (plantuml_body plantuml_doc) w -> brun false w = Some false.
Proof. exact plantuml_braces. Qed.
Print Assumptions C29_plantuml_balanced.

(* non-vacuity: a hostile value, and a template whose hole sits inside a string *)
Example C29_escape_example :
  dot_escape [97; 34; 92; 10; 123]%N = [97; 92; 34; 92; 92; 92; 92; 110; 92; 123]%N
  /\ lex_qstring ([c_quote] ++ dot_escape [97; 34; 92]%N ++ [c_quote; 59]%N) = Some ([97; 92; 34; 92; 92]%N, [59]%N).
Proof. vm_compute. split; reflexivity. Qed.
Print Assumptions C29_escape_example.

Example C29_templates_nonvacuous :
  let t := TCat [TLit [108; 61; 34]%N; THole HEscaped; TLit [34; 59]%N] in
  doc_quotes_ok t = true /\ gen t ([108; 61; 34] ++ dot_escape [97; 34]%N ++ [34; 59])%N
  /\ doc_quotes_ok (TCat [TLit [108; 61; 34]%N; THole HRaw; TLit [34; 59]%N]) = false.
Proof.
  split; [vm_compute; reflexivity|]. split; [|vm_compute; reflexivity].
  apply (GCatCons (TLit [108; 61; 34]%N) _ [108; 61; 34]%N _ (GLit _)).
  apply (GCatCons (THole HEscaped) _ (dot_escape [97; 34]%N) [34; 59]%N).
  - apply GHole. exists [97; 34]%N. reflexivity.
  - rewrite <- (app_nil_r [34; 59]%N). apply (GCatCons (TLit [34; 59]%N) [] [34; 59]%N [] (GLit _) GCatNil).
Qed.
Print Assumptions C29_templates_nonvacuous.

Example C29_labels_nonvacuous :
  model_labels <> [] /\ metamodel_labels <> []
  /\ label_ok (TCat [TLit [123]%N; THole HEscaped; TLit [124; 125]%N]) = true
  /\ label_ok (TCat [TLit [123]%N; THole HRaw; TLit [124; 125]%N]) = false
  /\ lrun LStart ([123] ++ dot_escape [124; 125; 92]%N ++ [124; 125])%N = Some LDone
  /\ lrun LStart [123; 124; 125; 124; 125]%N = None.
Proof. split; [exact (proj1 labels_present)|]. split; [exact (proj2 labels_present)|]. vm_compute. repeat split; reflexivity. Qed.
Print Assumptions C29_labels_nonvacuous.

Example C29_plantuml_nonvacuous :
  gen (plantuml_body (TCat [TLit [99; 32]%N; THole HIdent; TLit [32; 123; 10; 125; 10]%N; TLit [101]%N])) [99; 32; 65; 32; 123; 10; 125; 10]%N
  /\ brun false [123; 123]%N = None /\ brun false [125]%N = None.
Proof.
  split; [|vm_compute; split; reflexivity].
  cbn [plantuml_body removelast].
  apply (GCatCons (TLit [99; 32]%N) _ [99; 32]%N _ (GLit _)).
  apply (GCatCons (THole HIdent) _ [65]%N [32; 123; 10; 125; 10]%N).
  - apply GHole. reflexivity.
  - rewrite <- (app_nil_r [32; 123; 10; 125; 10]%N). apply (GCatCons (TLit [32; 123; 10; 125; 10]%N) [] _ [] (GLit _) GCatNil).
Qed.
Print Assumptions C29_plantuml_nonvacuous.

(* ---- a node for every model object.  ExportWalk.export transcribes _export of model_export_to_file (processed
   set keyed by object identity = object number; compared text for text with the implementation on every
   run).  For every object store and every root in it: the node statements it writes are those of exactly the
   objects reachable from the root through attributes (plain object values and object members of lists, by
   containment or reference), each exactly once - whatever the shape of the graph (sharing, cycles, self
   references) and with the fuel the model uses. *)
Theorem C29_nodes : forall st root, root < length st ->
  NoDup (node_ids (export_stmts st root)) /\ forall k, In k (node_ids (export_stmts st root)) <-> reach st root k.
Proof. exact export_nodes_exact. Qed.
Print Assumptions C29_nodes.

(* the exported text is the header, the texts of these statements in order, and the closing brace *)
Theorem C29_doc_of_stmts : forall st header root,
  export_doc st header root = header ++ flat_map snd (export_stmts st root) ++ [10; 125; 10]%N.
Proof. reflexivity. Qed.
Print Assumptions C29_doc_of_stmts.

(* non-vacuity: a list with two objects and a string, a reference cycle 0 -> 1 -> 2 -> 0, a shared object (2)
   and an object that is not reachable (3) *)
Example C29_nodes_nonvacuous :
  let a (name : list N) (l : bool) (v : aval) := mkAttr name true true l v in
  let st := [mkObj [77]%N [a [107]%N true (VList [IObj 1; IPrim (PStr [120]%N); IObj 2])];
             mkObj [65]%N [a [114]%N false (VObj 2)];
             mkObj [66]%N [a [114]%N false (VObj 0); a [110; 97; 109; 101]%N false (VPrim (PStr [34]%N))];
             mkObj [67]%N []] in
  node_ids (export_stmts st 0) = [2; 1; 0]%nat /\ reach st 0 2 /\ ~ In 3%nat (node_ids (export_stmts st 0)).
Proof.
  cbn zeta. split; [vm_compute; reflexivity|]. split.
  - apply (reach_step _ 0 1 2).
    + apply (reach_step _ 0 0 1); [constructor|]. eexists. split; [reflexivity|]. split; [cbn; tauto | cbn; lia].
    + eexists. split; [reflexivity|]. split; [cbn; tauto | cbn; lia].
  - vm_compute. intros [H|[H|[H|[]]]]; discriminate.
Qed.
Print Assumptions C29_nodes_nonvacuous.

(* ---- the repository path (several models, one subgraph block per model file, one processed set, references
   across files): the node statements are those of exactly the objects reachable from any of the models, each once;
   the subgraph blocks contribute no node statement of their own (their members are bare ids) *)
Theorem C29_repo_nodes : forall st roots, (forall r, In r (map fst roots) -> r < length st) ->
  NoDup (node_ids (fst (export_repo st roots)))
  /\ forall k, In k (node_ids (fst (export_repo st roots))) <-> reach_any st (map fst roots) k.
Proof. exact export_repo_nodes_exact. Qed.
Print Assumptions C29_repo_nodes.

(* two files: model 0 contains 1; model 2 contains 3, and 1 refers to 3 across files: 3 is written while model 0 is
   exported and not again with its own model *)
Example C29_repo_nonvacuous :
  let a (name : list N) (c l : bool) (v : aval) := mkAttr name c true l v in
  let st := [mkObj [77]%N [a [107]%N true true (VList [IObj 1])];
             mkObj [65]%N [a [114]%N false false (VObj 3)];
             mkObj [77]%N [a [107]%N true true (VList [IObj 3])];
             mkObj [66]%N []] in
  node_ids (fst (export_repo st [(0%nat, [102]%N); (2%nat, [103]%N)])) = [3; 1; 0; 2]%nat
  /\ children st 5 2 [] = [2; 3]%nat
  /\ reach_any st [0; 2]%nat 3.
Proof.
  cbn zeta. split; [vm_compute; reflexivity|]. split; [vm_compute; reflexivity|].
  exists 2%nat. split; [cbn; tauto|]. apply (reach_step _ 2 2 3); [constructor|].
  eexists. split; [reflexivity|]. split; [cbn; tauto | cbn; lia].
Qed.
Print Assumptions C29_repo_nonvacuous.

(* ---- metamodel exports.  ExportMeta.mm_stmts transcribes metamodel_export_tofile over the class list of
   get_unified_classes for any renderer; with DotRenderer / PlantUmlRenderer it is compared text for text with
   the implementation on every generated metamodel.  has_node c: c is in the exported list (fqn not a built-in
   type name), its name is no built-in type name and it is not a match rule = the common and abstract classes of
   the grammar.  For every class list and every renderer: *)

(* every such class gets exactly one node statement (DOT) / class declaration (PlantUML) *)
Theorem C29_mm_nodes : forall cl R k c, nth_error cl k = Some c -> has_node c = true ->
  count_occ Nat.eq_dec (mnode_ids (mm_stmts cl R)) k = 1.
Proof. exact mm_node_once. Qed.
Print Assumptions C29_mm_nodes.

(* nothing else is declared, except a built-in abstract class (OBJECT) once per attribute of that type; never a
   match rule *)
Theorem C29_mm_nodes_only : forall cl R k, In k (mnode_ids (mm_stmts cl R)) ->
  exists c, nth_error cl k = Some c /\ is_match c = false /\ (has_node c = true \/ in_classes c = false).
Proof. exact mm_node_only. Qed.
Print Assumptions C29_mm_nodes_only.

(* the statement tagged as the declaration of class k is the renderer's text for class k *)
Theorem C29_mm_node_text : forall cl R k t, In (MNode k, t) (mm_stmts cl R) ->
  exists c, nth_error cl k = Some c /\ t = r_class R cl k c.
Proof. exact mm_node_text. Qed.
Print Assumptions C29_mm_node_text.

(* links and specialisation edges only join declared classes, given what textX guarantees about the class list
   (wf_mm: decidable, evaluated on every dumped list) *)
Theorem C29_mm_edges_declared : forall cl R, wf_mm cl = true -> forall a b, In (a, b) (medges (mm_stmts cl R)) ->
  In a (mnode_ids (mm_stmts cl R)) /\ In b (mnode_ids (mm_stmts cl R)).
Proof. exact mm_edges_declared. Qed.
Print Assumptions C29_mm_edges_declared.

(* the PlantUML document is @startuml, then header rest, statements and legend, then @enduml; the DOT one is the
   header (digraph ... {), statements and match-rule table, then the closing brace *)
Theorem C29_plantuml_shape : forall cl lt rows,
  mm_pu_doc cl lt rows = pu_start ++ (pu_header_rest lt ++ flat_map snd (mm_stmts cl pu_renderer) ++ pu_legend rows) ++ pu_end.
Proof. exact pu_doc_shape. Qed.
Print Assumptions C29_plantuml_shape.

Theorem C29_mm_dot_shape : forall cl rows,
  mm_dot_doc cl rows = export_header ++ (flat_map snd (mm_stmts cl dot_renderer) ++ dot_table rows) ++ dot_close.
Proof. exact dot_doc_shape. Qed.
Print Assumptions C29_mm_dot_shape.

(* non-vacuity: Model (common: items+=Item, o=OBJECT, t=Tok), Item (abstract: Sub), Sub (common), Tok (match),
   the built-in ID (match) and OBJECT (abstract) *)
Local Open Scope string_scope.
Example C29_mm_nonvacuous :
  let cl := [mkMCls (codes "Model") (codes "Model") KCommon
               [mkMAttr (codes "items") 1 M1s true true; mkMAttr (codes "o") 5 M1 true true; mkMAttr (codes "t") 3 M1 true false] [];
             mkMCls (codes "Item") (codes "Item") KAbstract [] [2%nat];
             mkMCls (codes "Sub") (codes "Sub") KCommon [mkMAttr (codes "name") 4 M1 true false] [];
             mkMCls (codes "Tok") (codes "Tok") KMatch [] [];
             mkMCls (codes "ID") (codes "ID") KMatch [] [];
             mkMCls (codes "OBJECT") (codes "OBJECT") KAbstract [] []] in
  wf_mm cl = true
  /\ mnode_ids (mm_stmts cl dot_renderer) = [0; 1; 2; 5]%nat
  /\ medges (mm_stmts cl pu_renderer) = [(0, 1); (1, 2)]%nat
  /\ map has_node cl = [true; true; true; false; false; false].
Proof. vm_compute. repeat split; reflexivity. Qed.
Print Assumptions C29_mm_nonvacuous.

(* ---- PlantUML is line oriented.  With identifier names (names_ok, rows_ok) and a plain linetype (all evaluated
   on every dumped case), exactly two lines of the modelled document start with '@': by C29_plantuml_shape they
   are the first line @startuml and the last line @enduml, so each directive occurs exactly once - even when
   the legend quotes a match rule such as '@enduml' (rule texts go through dot_escape, which never produces a
   newline, and sit behind the row prefix). *)
Theorem C29_plantuml_directives_once : forall cl lt rows,
  names_ok cl = true -> rows_ok rows = true -> linetype_ok lt = true ->
  at_lines true (mm_pu_doc cl lt rows) = 2%nat.
Proof. exact pu_at_lines. Qed.
Print Assumptions C29_plantuml_directives_once.

Theorem C29_escape_no_newline : forall s, forallb (fun c => negb (N.eqb c 10)) (dot_escape s) = true.
Proof. exact dot_escape_nonl. Qed.
Print Assumptions C29_escape_no_newline.

Example C29_plantuml_directives_nonvacuous :
  let cl := [mkMCls (codes "Model") (codes "g.Model") KCommon [mkMAttr (codes "t") 1 M1 true false] [];
             mkMCls (codes "Tok") (codes "g.Tok") KMatch [] []] in
  let rows := [(codes "Tok", [64; 101; 110; 100; 117; 109; 108; 10; 64]%N)] in      (* rule text @enduml <newline> @ *)
  names_ok cl = true /\ rows_ok rows = true /\ at_lines true (mm_pu_doc cl (Some (codes "ortho")) rows) = 2%nat
  /\ at_lines true (pu_start ++ pu_end ++ pu_end) = 3%nat
  /\ names_ok [mkMCls [64%N] [64%N] KCommon [] []] = false.
Proof. vm_compute. repeat split; reflexivity. Qed.
Print Assumptions C29_plantuml_directives_nonvacuous.
