(* C18 — a failing multi-file load leaves the model repositories clean.

   Model: Model/Repo.v.  A load fails at any file of the import closure in any phase: missing
   file / syntax error (before the model exists), nothing found for an import statement,
   unresolved reference, object processor, model processor of an imported or of the main
   model.  The three cleanups (outer handler, inner handler, model-processor handler of
   internal_model_from_file) are read from the source by the translator (Gen/SrcRepo.v), so
   these theorems are re-proved against the current source on every run. *)
From TxV Require Import Core.Base Model.RepoDefs Gen.SrcRepo Model.Repo Proofs.RepoProofs Proofs.RepoMLProofs.

(* For every file system, import graph, configuration and well-formed state: if the load fails
   (any error, any file, any phase) then all_models is exactly what it was when the load began
   (the metamodel's global repository if there is one, empty otherwise), the local models of
   every model that existed before are untouched, and the state is well formed again - so the
   C17 theorems and this one apply to the next load, whatever the files then contain. *)
Theorem C18_clean : forall fs c f s e s',
  Stable s -> load_main fs c f s = (inl e, s') ->
  allm s' = allm (begin_op c s) /\
  (forall x, x < length (heap s) -> local_of x s' = local_of x s) /\
  Stable s'.
Proof. exact load_main_failure_clean. Qed.
Print Assumptions C18_clean.

(* No model created by the failed attempt remains; models cached by earlier loads stay. *)
Theorem C18_nothing_new_remains : forall fs c f s e s',
  Stable s -> load_main fs c f s = (inl e, s') ->
  (forall k v, In (k, v) (allm s') -> v < length (heap s) /\ In (k, v) (allm s)) /\
  (cglobal c = true -> allm s' = allm s).
Proof. exact failure_leaves_only_earlier_models. Qed.
Print Assumptions C18_nothing_new_remains.

(* The same at every point of every history that starts in the initial state. *)
Theorem C18_clean_in_every_history : forall c builtins fs0 ops fs f e s',
  let s := run_hist c fs0 (init_state builtins) ops in
  load_main fs c f s = (inl e, s') ->
  allm s' = allm (begin_op c s) /\ Stable s'.
Proof.
  intros c b fs0 ops fs f e s' s H.
  destruct (load_main_failure_clean fs c f s e s' (run_hist_stable c ops fs0 (init_state b) (Stable_init b)) H) as [A [_ B]].
  split; assumption.
Qed.
Print Assumptions C18_clean_in_every_history.

(* After the failure, whatever the files are rewritten to (fs'), a file cached before the failed
   attempt is still served from the cache without opening anything. *)
Theorem C18_cached_models_survive : forall fs fs' c f s e s' k v,
  Stable s -> load_main fs c f s = (inl e, s') -> cglobal c = true ->
  dget k (allm s) = Some v ->
  fst (load_main fs' c k s') = inr v /\ reads (snd (load_main fs' c k s')) = [].
Proof. exact after_failure_cache_serves. Qed.
Print Assumptions C18_cached_models_survive.

(* LAST CLAUSE OF C18 ("after the failing file is corrected, the next load succeeds with correct identities"), at full
   strength.  load_main ends with the garbage collection of Model/Repo.v (`tidy`): after a failure the models of the
   attempt - unreachable by C18_clean, which is proved on the un-collected load_main_raw - are dropped.  Then the
   state after a failed load equals the state before it in every component but the file-open trace of the failed
   attempt itself (C18_failed_load_restores_state), hence EVERY following load, on whatever the files have been
   rewritten to, is literally the load that would have happened had the failed attempt never taken place: same
   outcome (in particular it succeeds iff it would have), same file-open trace, same repositories, local models,
   reference targets and model identities (C18_reload_as_if_never_failed); so all C17 theorems about that load
   apply unchanged, and a failing load can be deleted from any history (C18_failing_load_is_invisible).
   `Tidy` (normal form of the per-model tables) holds initially and after every load (C18_histories_stable_tidy). *)
Theorem C18_failed_load_restores_state : forall fs c f s e s',
  Stable s -> Tidy s -> load_main fs c f s = (inl e, s') ->
  heap s' = heap s /\ allm s' = allm (begin_op c s) /\ locals s' = locals s /\ constr s' = constr s /\
  targets s' = targets s /\ curop s' = curop s.
Proof. exact failed_load_restores_state. Qed.
Print Assumptions C18_failed_load_restores_state.

Theorem C18_reload_as_if_never_failed : forall fs c f s e s',
  Stable s -> Tidy s -> load_main fs c f s = (inl e, s') ->
  forall fs' f', load_main fs' c f' s' = load_main fs' c f' s.
Proof. exact reload_as_if_never_failed. Qed.
Print Assumptions C18_reload_as_if_never_failed.

Theorem C18_reload_in_every_history : forall c builtins fs0 ops fs f e s',
  let s := run_hist c fs0 (init_state builtins) ops in
  load_main fs c f s = (inl e, s') -> forall fs' f', load_main fs' c f' s' = load_main fs' c f' s.
Proof. exact reload_in_history. Qed.
Print Assumptions C18_reload_in_every_history.

Theorem C18_failing_load_is_invisible : forall c fs f s e s' ops fs' f',
  Stable s -> Tidy s -> load_main fs c f s = (inl e, s') ->
  run_hist c fs' s' (OLoad f' :: ops) = run_hist c fs' s (OLoad f' :: ops).
Proof. exact failing_load_is_invisible. Qed.
Print Assumptions C18_failing_load_is_invisible.

Theorem C18_histories_stable_tidy : forall c ops fs s,
  Stable s -> Tidy s -> Stable (run_hist c fs s ops) /\ Tidy (run_hist c fs s ops).
Proof. exact run_hist_stable_tidy. Qed.
Print Assumptions C18_histories_stable_tidy.

(* MAIN MODELS LOADED FROM A STRING (metamodel.model_from_str without a file name; the GlobalRepo providers register
   such a model under an invented name 'anonymousN', key |files|+N in the model).  Same statements: a failing
   string load - syntax error, unresolved reference, object processor, model processor, failure in a file the
   providers load - leaves the repositories exactly as they were (the invented entry is removed, earlier string
   models stay), and whatever failed, a file load or a string load, every following file load or string load is
   literally what it would have been without the failed attempt. *)
Theorem C18_clean_string_main : forall fs c fc s e s',
  Stable s -> load_str fs c fc s = (inl e, s') ->
  allm s' = allm (begin_op c s) /\ (forall x, x < length (heap s) -> local_of x s' = local_of x s) /\ Stable s'.
Proof. exact load_str_failure_clean. Qed.
Print Assumptions C18_clean_string_main.

Theorem C18_next_load_as_if_never_failed : forall c s s',
  Stable s -> Tidy s ->
  (exists fs f e, load_main fs c f s = (inl e, s')) \/ (exists fs fc e, load_str fs c fc s = (inl e, s')) ->
  (forall fs' f', load_main fs' c f' s' = load_main fs' c f' s) /\
  (forall fs' fc', load_str fs' c fc' s' = load_str fs' c fc' s).
Proof. exact next_load_as_if_never_failed. Qed.
Print Assumptions C18_next_load_as_if_never_failed.

Theorem C18_next_load_in_every_history : forall c builtins fs0 ops s',
  let s := run_hist c fs0 (init_state builtins) ops in
  (exists fs f e, load_main fs c f s = (inl e, s')) \/ (exists fs fc e, load_str fs c fc s = (inl e, s')) ->
  (forall fs' f', load_main fs' c f' s' = load_main fs' c f' s) /\
  (forall fs' fc', load_str fs' c fc' s' = load_str fs' c fc' s).
Proof. exact next_load_in_history. Qed.
Print Assumptions C18_next_load_in_every_history.

(* non-vacuity: global repository, GlobalRepo pattern reaching files 0 and 1; an earlier string model (anonymous0,
   key 2), then a string main whose model processor fails (the second defect fixed for this property): the
   repository is what it was, the earlier string model and the files stay, the repaired string loads as anonymous1 *)
Example C18_string_main_witness :
  let fs := [mkFile [[0; 1]] [100%N] [] false false false; mkFile [[0; 1]] [101%N] [] false false false] in
  let c := init_cfg true false [] in
  let s := run_hist c fs (init_state []) [OLoadStr (mkFile [[0; 1]] [103%N] [100%N] false false false)] in
  let bad := mkFile [[0; 1]] [104%N] [104%N; 101%N] false false true in
  let good := mkFile [[0; 1]] [104%N] [104%N; 101%N] false false false in
  allm s = [(2, 0); (0, 1); (1, 2)] /\
  fst (load_str fs c bad s) = inl (EMp 3) /\ allm (snd (load_str fs c bad s)) = [(2, 0); (0, 1); (1, 2)] /\
  fst (load_str fs c good (snd (load_str fs c bad s))) = inr 3 /\
  allm (snd (load_str fs c good (snd (load_str fs c bad s)))) = [(2, 0); (0, 1); (1, 2); (3, 3)] /\
  load_str fs c good (snd (load_str fs c bad s)) = load_str fs c good s.
Proof. vm_compute. repeat split; reflexivity. Qed.
Print Assumptions C18_string_main_witness.

(* The un-collected load (load_main_raw) leaves the models of a failed attempt unreachable: this is what
   justifies dropping them.  Same statement as C18_clean, on the raw function. *)
Theorem C18_clean_before_collection : forall fs c f s e s',
  Stable s -> load_main_raw fs c f s = (inl e, s') ->
  allm s' = allm (begin_op c s) /\
  (forall x, x < length (heap s) -> local_of x s' = local_of x s) /\
  Stable s'.
Proof. exact load_main_failure_clean_raw. Qed.
Print Assumptions C18_clean_before_collection.

(* The state between loads stays well formed along every history (used by all of the above). *)
Theorem C18_histories_stable : forall c ops fs s, Stable s -> Stable (run_hist c fs s ops).
Proof. exact run_hist_stable. Qed.
Print Assumptions C18_histories_stable.

(* non-vacuity: global repository; an earlier load cached file 2; then a diamond 0 -> {1,2}, 1 -> 2
   whose MAIN model's model processor fails (the case that was broken before the fix): nothing of
   the attempt remains, the earlier model stays, and after the repair the load succeeds with
   fresh models for 0 and 1 and the cached model for 2 - literally the load that would have happened without
   the failed attempt. *)
Example C18_clean_witness :
  let bad := [mkFile [[1]; [2]] [100%N] [101%N; 102%N] false false true;
              mkFile [[2]] [101%N] [102%N] false false false;
              mkFile [] [102%N] [] false false false] in
  let good := [mkFile [[1]; [2]] [100%N] [101%N; 102%N] false false false;
               mkFile [[2]] [101%N] [102%N] false false false;
               mkFile [] [102%N] [] false false false] in
  let c := init_cfg true false [] in
  let s := run_hist c bad (init_state []) [OLoad 2] in
  Stable s /\ allm s = [(2, 0)] /\
  fst (load_main bad c 0 s) = inl (EMp 0) /\ reads (snd (load_main bad c 0 s)) = [0; 1] /\
  allm (snd (load_main bad c 0 s)) = [(2, 0)] /\
  fst (load_main good c 0 (snd (load_main bad c 0 s))) = inr 1 /\
  allm (snd (load_main good c 0 (snd (load_main bad c 0 s)))) = [(2, 0); (0, 1); (1, 2)] /\
  load_main good c 0 (snd (load_main bad c 0 s)) = load_main good c 0 s.
Proof.
  cbn zeta. split; [apply run_hist_stable, Stable_init|]. vm_compute. repeat split; reflexivity.
Qed.
Print Assumptions C18_clean_witness.

(* every failure phase occurs in the model: imported file with a syntax error, an import that
   finds nothing, an unresolved reference, an object processor, a model processor of an import *)
Example C18_phases_witness :
  let mk imps refs syn obj mp := mkFile imps [100%N] refs syn obj mp in
  let c := init_cfg true false [] in
  fst (load_main [mk [[1]] [] false false false; mk [] [] true false false] c 0 (init_state [])) = inl (ESyntax 1) /\
  fst (load_main [mk [[1]; []] [] false false false; mk [] [] false false false] c 0 (init_state [])) = inl ENoFile /\
  fst (load_main [mk [[1]] [] false false false; mk [] [105%N] false false false] c 0 (init_state [])) = inl (EUnres 1) /\
  fst (load_main [mk [[1]] [] false false false; mk [[0]] [] false true false] c 0 (init_state [])) = inl (EObj 1) /\
  fst (load_main [mk [[1]] [] false false false; mk [[0]] [] false false true] c 0 (init_state [])) = inl (EMp 1).
Proof. vm_compute. repeat split; reflexivity. Qed.
Print Assumptions C18_phases_witness.

(* SEVERAL REGISTERED LANGUAGES, each metamodel with its own global repository (machine ml_load of Model/Repo.v).
   The form of C18 that is true there: after a failed load NO repository has lost an entry it had before, NO
   repository holds a model CREATED by the failed load (every registered model existed before it began; the importer's
   repository may have gained complete models taken from the other languages' repositories, which stay referenced),
   the heap of model objects is what it was, and the machine state is well formed again. *)
Theorem C18_clean_several_languages : forall fs mc f s repos e s' repos',
  MStable (s, repos) -> ml_load fs mc f (s, repos) = (inl e, (s', repos')) ->
  (forall K, incl (repo_of repos K) (repo_of repos' K)) /\
  (forall K k v, In (k, v) (repo_of repos' K) -> v < length (heap s)) /\
  heap s' = heap s /\ MStable (s', repos').
Proof. exact ml_load_failure_clean. Qed.
Print Assumptions C18_clean_several_languages.

Theorem C18_several_languages_state_invariant : forall mc ops fs ms, MStable ms -> MStable (ml_hist mc fs ms ops).
Proof. exact ml_hist_stable. Qed.
Print Assumptions C18_several_languages_state_invariant.

Theorem C18_clean_several_languages_in_every_history : forall mc fs0 ops fs f e s' repos',
  let ms := ml_hist mc fs0 (init_state [], []) ops in
  ml_load fs mc f ms = (inl e, (s', repos')) ->
  (forall K, incl (repo_of (snd ms) K) (repo_of repos' K)) /\
  (forall K k v, In (k, v) (repo_of repos' K) -> v < length (heap (fst ms))) /\
  heap s' = heap (fst ms) /\ MStable (s', repos').
Proof. exact ml_failure_clean_in_history. Qed.
Print Assumptions C18_clean_several_languages_in_every_history.

(* for one load with an arbitrary external cache: the importer's all_models loses nothing, holds only models that
   existed before, earlier models' local_models are untouched *)
Theorem C18_clean_across_languages : forall x xvals fs c f s e s',
  Stable s -> XOK (length (heap s)) x (begin_op c s) ->
  (forall g m', x g = Some m' -> In m' xvals) -> (forall v, In v xvals -> v < length (heap s)) ->
  load_main_x x xvals fs c f s = (inl e, s') ->
  incl (allm (begin_op c s)) (allm s') /\
  (forall k v, In (k, v) (allm s') -> v < length (heap s)) /\
  (forall y, y < length (heap s) -> local_of y s' = local_of y s) /\ Stable s' /\
  heap s' = heap s /\ (forall v, In v (constr s') -> In v (constr s)).
Proof. exact load_main_x_failure_clean. Qed.
Print Assumptions C18_clean_across_languages.

(* non-vacuity: b.typ cached by its own language; a.model imports it and its model processor fails (the defect fixed
   by 0e285cb): the .typ repository keeps b.typ, the .model repository has gained that same earlier model and nothing
   else, no model of the attempt remains *)
Example C18_several_languages_witness :
  let fs := [mkFile [[1]] [100%N] [101%N] false false true; mkFile [] [101%N] [] false false false] in
  let mc := mkML [true; true] [0; 1] in
  let ms := snd (ml_load fs mc 1 (init_state [], [])) in
  let r := ml_load fs mc 0 ms in
  MStable ms /\ fst r = inl (EMp 0) /\ repo_of (snd ms) 1 = [(1, 0)] /\ repo_of (snd ms) 0 = [] /\
  repo_of (snd (snd r)) 1 = [(1, 0)] /\ repo_of (snd (snd r)) 0 = [(1, 0)] /\ length (heap (fst (snd r))) = 1.
Proof.
  cbn zeta. split; [apply (ml_load_stable _ _ 1 (init_state [], [])), MStable_init|]. vm_compute. repeat split; reflexivity.
Qed.
Print Assumptions C18_several_languages_witness.
