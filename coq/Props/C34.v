(* C34 — editor-support positions identify references and objects exactly. *)
From Coq Require Import Sorting.Sorted Sorting.Permutation.
From TxV Require Import Core.Base Model.EdPos Proofs.EdPosProofs.

(* For EVERY scope provider (any function of the reference and of the history of provider
   calls: every postponement schedule), every number of models and every list of references
   per model: if the load succeeds, the _pos_crossref_list of each model
   - is sorted by ref_pos_start,
   - consists of exactly one entry per reference of that model (xts pairs the model's
     references, in order, with targets; the list is a permutation of their entries),
   - each entry (mk_entry) carries the start and end of the reference text and the file,
     start and end of a target the provider answered for that very reference. *)
Theorem C34_refs : forall (ans : provider) models outs,
  load ans models = Ok outs ->
  Forall2 (fun rs es =>
             StronglySorted (fun a b => (e_start a <= e_start b)%N) es /\
             exists xts, map fst xts = rs /\
                         Forall (fun xt => exists h, ans (fst xt) h = Resolved (snd xt)) xts /\
                         Permutation es (map mk_entry xts)) models outs.
Proof. exact load_listed. Qed.
Print Assumptions C34_refs.

(* What an entry made for reference x and target t contains. *)
Theorem C34_entry_exact : forall x t,
  let e := mk_entry (x, t) in
  e_start e = cstart x /\ e_end e = cend x /\ e_name e = cname x /\
  e_file e = tfile t /\ e_dstart e = tstart t /\ e_dend e = tend t.
Proof. intros x t. cbn. repeat split. Qed.
Print Assumptions C34_entry_exact.

(* When the reference texts of each model are at increasing positions (what the parser
   delivers, see C34_tree_refs_increasing), the list is exactly the list of the model's
   references in text order, whatever the schedule was. *)
Theorem C34_refs_in_text_order : forall (ans : provider) models outs,
  Forall (fun rs => StronglySorted N.lt (map cstart rs)) models ->
  load ans models = Ok outs ->
  Forall2 (fun rs es => exists xts, map fst xts = rs /\
                          Forall (fun xt => exists h, ans (fst xt) h = Resolved (snd xt)) xts /\
                          es = map mk_entry xts) models outs.
Proof. exact load_listed_in_order. Qed.
Print Assumptions C34_refs_in_text_order.

(* non-vacuity: three references, the first postponed twice and the second once *)
Definition demo_refs := [ {| cid := 0; cstart := 10; cend := 13; cname := [112;46;99] |};
                          {| cid := 1; cstart := 15; cend := 16; cname := [99] |};
                          {| cid := 2; cstart := 20; cend := 25; cname := [112;46;99] |} ]%N.
Definition demo_tbl : list (nat * (nat * option target)) :=
  [ (0, (2, Some {| tfile := 0; tstart := 0%N; tend := 5%N |}));
    (1, (1, Some {| tfile := 1; tstart := 3%N; tend := 9%N |}));
    (2, (0, Some {| tfile := 0; tstart := 0%N; tend := 5%N |})) ]%nat.
Example C34_refs_nonvacuous :
  match load (table_ans demo_tbl) [demo_refs] with
  | Ok [es] => map e_ref es = [0; 1; 2] /\ map e_end es = [13; 16; 25]%N /\ map e_file es = [0; 1; 0]
  | _ => False
  end.
Proof. vm_compute. repeat split. Qed.
Print Assumptions C34_refs_nonvacuous.
