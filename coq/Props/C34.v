(* C34 — editor-support positions identify references and objects exactly. *)
From Coq Require Import Sorting.Sorted Sorting.Permutation.
From TxV Require Import Model.PegSyntax Model.Peg Model.Build.
From TxV Require Import Core.Base Model.EdPosDefs Gen.SrcEdPos Model.EdPos Proofs.EdPosProofs Model.EdPosBuild Proofs.EdPosBuildProofs.

(* The facts tools/translate/edpos_tr.py reads off the current textx/model.py (Gen/SrcEdPos.v):
   RefRulePosition takes the span of the reference node and the span of the resolved object,
   resolve_one_step sorts the list by ref_pos_start after its loop, process_node registers
   with setdefault after the children, the map is sorted by (-start, end).  The model is
   defined FROM these constants, so every theorem below is re-proved against them. *)
Theorem C34_source_facts :
  src_ref_pos_start = RefStart /\ src_ref_pos_end = RefEnd /\
  src_def_pos_start = TgtStart /\ src_def_pos_end = TgtEnd /\
  src_list_sorted = true /\ src_list_key = KRefStart /\
  src_dict_register = KeepFirst /\ src_dict_order = (Desc, Asc).
Proof. exact source_facts. Qed.
Print Assumptions C34_source_facts.

(* For EVERY scope provider (any function of the reference and of the history of provider
   calls: every postponement schedule), every builtins table (bi x = the name of x is in
   metamodel.builtins with a matching class), every number of models under construction and
   every list of references per model: if the load succeeds, the _pos_crossref_list of EACH
   model
   - is sorted by ref_pos_start,
   - has exactly one entry for each reference the provider resolved to a model object (xts) and
     none for the references resolved through the builtins fallback (bs); xts and bs together
     are all the references of the model,
   - each entry (mk_entry) carries the start and end of the reference text and the file,
     start and end of a target the provider answered for that very reference. *)
Theorem C34_refs : forall (ans : provider) (bi : cref -> bool) models outs,
  load ans bi models = Ok outs ->
  Forall2 (fun rs es =>
             StronglySorted (fun a b => (e_start a <= e_start b)%N) es /\
             exists xts bs,
               Permutation rs (map fst xts ++ bs) /\
               Forall (fun xt => exists h, ans (fst xt) h = Resolved (snd xt)) xts /\
               Forall (fun b => bi b = true /\ exists h, ans b h = NotFound) bs /\
               Permutation es (map mk_entry xts)) models outs.
Proof. exact load_listed. Qed.
Print Assumptions C34_refs.

(* Without builtins (the default) every reference of the model has its entry. *)
Theorem C34_refs_no_builtins : forall (ans : provider) (bi : cref -> bool) models outs,
  (forall x, bi x = false) ->
  load ans bi models = Ok outs ->
  Forall2 (fun rs es =>
             StronglySorted (fun a b => (e_start a <= e_start b)%N) es /\
             exists xts, map fst xts = rs /\
                         Forall (fun xt => exists h, ans (fst xt) h = Resolved (snd xt)) xts /\
                         Permutation es (map mk_entry xts)) models outs.
Proof. exact load_listed_no_builtins. Qed.
Print Assumptions C34_refs_no_builtins.

(* Multi-model loads: at the end of the main load the list of EVERY model taking part in it
   (main and imported ones) is sorted, not only the main model's. *)
Theorem C34_all_models_sorted : forall (ans : provider) (bi : cref -> bool) models outs,
  load ans bi models = Ok outs ->
  length outs = length models /\
  Forall (StronglySorted (fun a b => (e_start a <= e_start b)%N)) outs.
Proof. exact load_all_sorted. Qed.
Print Assumptions C34_all_models_sorted.

(* Models that were completely loaded earlier (global repository) are not under construction:
   they keep their list unchanged, the models loaded now satisfy C34_refs, and if the old lists
   were sorted every model reachable from the main model has a sorted list afterwards. *)
Theorem C34_repo : forall (ans : provider) (bi : cref -> bool) gms outs,
  load_repo ans bi gms = Ok outs ->
  Forall2 (fun g es => match g with
                       | Done es0 => es = es0
                       | Fresh rs =>
                           StronglySorted (fun a b => (e_start a <= e_start b)%N) es /\
                           exists xts bs,
                             Permutation rs (map fst xts ++ bs) /\
                             Forall (fun xt => exists h, ans (fst xt) h = Resolved (snd xt)) xts /\
                             Forall (fun b => bi b = true /\ exists h, ans b h = NotFound) bs /\
                             Permutation es (map mk_entry xts)
                       end) gms outs.
Proof. exact load_repo_listed. Qed.
Print Assumptions C34_repo.

Theorem C34_repo_all_sorted : forall (ans : provider) (bi : cref -> bool) gms outs,
  Forall (fun g => match g with
                   | Done es => StronglySorted (fun a b => (e_start a <= e_start b)%N) es
                   | Fresh _ => True end) gms ->
  load_repo ans bi gms = Ok outs ->
  Forall (StronglySorted (fun a b => (e_start a <= e_start b)%N)) outs.
Proof. exact load_repo_all_sorted. Qed.
Print Assumptions C34_repo_all_sorted.

(* The fuel of [load] (number of references + 1) always suffices: the hypothesis [= Ok] of the
   theorems excludes only failed loads (unknown object / unresolvable), never a fuel artefact. *)
Theorem C34_load_terminates : forall (ans : provider) (bi : cref -> bool) gms,
  load_repo ans bi gms <> OutOfFuel /\ forall models, load ans bi models <> OutOfFuel.
Proof. exact terminates_both. Qed.
Print Assumptions C34_load_terminates.

(* What an entry made for reference x and target t contains. *)
Theorem C34_entry_exact : forall x t,
  let e := mk_entry (x, t) in
  e_start e = cstart x /\ e_end e = cend x /\ e_name e = cname x /\
  e_file e = tfile t /\ e_dstart e = tstart t /\ e_dend e = tend t.
Proof. intros x t. repeat split; reflexivity. Qed.
Print Assumptions C34_entry_exact.

(* When the reference texts of each model are at increasing positions (what the parser
   delivers, see C34_tree_refs_increasing), the list is exactly the entries of the
   provider-resolved references in text order, whatever the schedule was. *)
Theorem C34_refs_in_text_order : forall (ans : provider) (bi : cref -> bool) models outs,
  Forall (fun rs => StronglySorted N.lt (map cstart rs)) models ->
  load ans bi models = Ok outs ->
  Forall2 (fun rs es => exists xts bs,
             es = map mk_entry xts /\ Permutation rs (map fst xts ++ bs) /\
             Forall (fun xt => exists h, ans (fst xt) h = Resolved (snd xt)) xts /\
             Forall (fun b => bi b = true /\ exists h, ans b h = NotFound) bs /\
             StronglySorted N.lt (map cstart (map fst xts))) models outs.
Proof. exact load_listed_in_order. Qed.
Print Assumptions C34_refs_in_text_order.

(* ---- from the parse trees of the files ---- *)

(* The references the builder collects are the reference nodes of the tree, with the node's
   span: entry.(start, end) of C34_refs is exactly the extent of the reference text. *)
Theorem C34_ref_is_node : forall t x, In x (refs_pre t) ->
  In (NRef (cid x) (cstart x) (cend x) (cname x)) (subnodes t).
Proof. exact ref_is_node. Qed.
Print Assumptions C34_ref_is_node.

(* In a well-formed parse tree (children inside their parent, in document order, reference
   texts not empty) the references are collected at strictly increasing positions. *)
Theorem C34_tree_refs_increasing : forall t, wfb t = true -> StronglySorted N.lt (map cstart (refs_pre t)).
Proof. exact tree_refs_increasing. Qed.
Print Assumptions C34_tree_refs_increasing.

(* Whole load of a set of files, any provider, no builtins: the list of every model is, entry
   by entry and in document order, the list of that model's reference nodes. *)
Theorem C34_load_trees : forall (ans : provider) (bi : cref -> bool) trees outs,
  (forall x, bi x = false) ->
  Forall (fun t => wfb t = true) trees ->
  load_trees ans bi trees = Ok outs ->
  Forall2 (fun t es => exists xts, map fst xts = refs_pre t /\
                         Forall (fun xt => exists h, ans (fst xt) h = Resolved (snd xt)) xts /\
                         es = map mk_entry xts) trees outs.
Proof. exact load_trees_exactly. Qed.
Print Assumptions C34_load_trees.

(* With builtins: the entries of the provider-resolved reference nodes, in document order. *)
Theorem C34_load_trees_builtins : forall (ans : provider) (bi : cref -> bool) trees outs,
  Forall (fun t => wfb t = true) trees ->
  load_trees ans bi trees = Ok outs ->
  Forall2 (fun t es => exists xts bs,
             es = map mk_entry xts /\ Permutation (refs_pre t) (map fst xts ++ bs) /\
             Forall (fun xt => exists h, ans (fst xt) h = Resolved (snd xt)) xts /\
             Forall (fun b => bi b = true /\ exists h, ans b h = NotFound) bs /\
             StronglySorted N.lt (map cstart (map fst xts))) trees outs.
Proof. exact load_trees_in_order. Qed.
Print Assumptions C34_load_trees_builtins.

(* ---- the position map (_pos_rule_dict), for every tree ---- *)

(* every key is the span of its value: (s, e) -> i is listed only if object i spans (s, e) *)
Theorem C34_dict_key_is_span : forall t s e i, In (s, e, i) (rule_dict t) -> In (s, e, i) (objs_post t).
Proof. intros t s e i. exact (dict_sound t (s, e, i)). Qed.
Print Assumptions C34_dict_key_is_span.

(* every object's span is a key, and no key is listed twice *)
Theorem C34_dict_complete : forall t,
  (forall s e i, In (s, e, i) (objs_post t) -> exists j, In (s, e, j) (rule_dict t)) /\
  NoDup (map fst (rule_dict t)).
Proof.
  intro t. split; [intros s e i H; exact (dict_complete t (s, e, i) H) | exact (dict_keys_nodup t)].
Qed.
Print Assumptions C34_dict_complete.

(* innermost wins: the object listed for a span contains no other object with that span
   (object identities are unique) *)
Theorem C34_dict_innermost : forall t i s e kids,
  NoDup (map snd (objs_post t)) ->
  In (NObj i s e kids) (subnodes t) -> In (s, e, i) (rule_dict t) ->
  forall j kids', ~ In (NObj j s e kids') (flat_map subnodes kids).
Proof. exact dict_innermost. Qed.
Print Assumptions C34_dict_innermost.

(* order: nothing listed after a span is contained in it (keys are distinct), i.e. every span
   comes before all different spans that contain it *)
Theorem C34_dict_order : forall t,
  StronglySorted (fun x y => ~ contains (fst x) (fst y)) (rule_dict t).
Proof. exact dict_order. Qed.
Print Assumptions C34_dict_order.

(* ---- on the parse trees of the builder model (Model/Build.v, C01/C06) ----
   [abs g mm meta t] is the object/reference/token tree process_node sees in the Peg parse tree t
   (it follows pnode's choice of children; meta = _tx_attrs of the enclosing object's class);
   object nodes are the common-rule nodes with (tpos, tend), reference nodes are the children read
   by non-containment reference assignments with (tpos, tend). *)

(* "key = span of the object's node in the parse tree": every key of the position map is
   (tpos, tend) of a common-rule node t' of the parse tree, the value is that node's rule. *)
Theorem C34_dict_key_is_node_span : forall g mm meta t nd s e i,
  In nd (abs g mm meta t) -> In (s, e, i) (rule_dict nd) ->
  exists t', In t' (subtrees t) /\ is_common mm t' /\
             i = tree_nid t' /\ s = N.of_nat (Build.tpos t') /\ e = N.of_nat (Build.tend t').
Proof. exact dict_key_is_node_span. Qed.
Print Assumptions C34_dict_key_is_node_span.

(* every collected reference carries the span of a node of the parse tree *)
Theorem C34_ref_is_tree_node : forall g mm meta t nd x,
  In nd (abs g mm meta t) -> In x (refs_pre nd) ->
  exists k, In k (subtrees t) /\ cstart x = N.of_nat (Build.tpos k) /\ cend x = N.of_nat (Build.tend k).
Proof. exact ref_is_tree_node. Qed.
Print Assumptions C34_ref_is_tree_node.

(* Every object the builder creates (every VObj inside the value pnode returns, at any depth,
   for every grammar/metamodel table, input and option setting of Build.v) carries the span of a
   common-rule node of the parse tree, and that span is a key of the position map. *)
Theorem C34_built_objects_are_keys : forall g mm input grp auto use_grp t v top',
  pnode g mm input grp auto use_grp t None = BOk (v, top') ->
  forall p e, In (IObj (N.of_nat p) (N.of_nat e)) (vitems v) ->
  (exists t', In t' (subtrees t) /\ is_common mm t' /\ p = Build.tpos t' /\ e = Build.tend t') /\
  exists nd i, In nd (abs g mm [] t) /\ In (N.of_nat p, N.of_nat e, i) (rule_dict nd).
Proof. exact built_objects_spans_and_keys. Qed.
Print Assumptions C34_built_objects_are_keys.

(* C34_entry_exact connected to the builder: every pending reference the builder creates
   (VRef name position class, at any depth of the value) is a collected reference; the entry
   made for it has ref_pos_start = the VRef's position = start of the reference node k of the
   parse tree, and ref_pos_end = end of that node. *)
Theorem C34_built_ref_entry : forall g mm input grp auto use_grp t v top',
  pnode g mm input grp auto use_grp t None = BOk (v, top') ->
  forall p, In (IRef (N.of_nat p)) (vitems v) ->
  exists nd x k, In nd (abs g mm [] t) /\ In x (refs_pre nd) /\ In k (subtrees t) /\ p = Build.tpos k /\
                 forall tg, e_start (mk_entry (x, tg)) = N.of_nat p /\
                            e_end (mk_entry (x, tg)) = N.of_nat (Build.tend k).
Proof. exact built_ref_entry. Qed.
Print Assumptions C34_built_ref_entry.

(* A: b=B r=[C] ; the reference child is the terminal at 9..11 *)
Example C34_build_nonvacuous :
  let g := mkGrammar [] 0 None in
  let mm := [IRule RCommon [65]%N [mkAttr [98]%N M1 true false [66]%N false; mkAttr [114]%N M1 false true [67]%N false];
             IAsgn [98]%N OpPlain; IRule RCommon [66]%N []; IOther; IAsgn [114]%N OpPlain] in
  let t := NT 0 [NT 1 [NT 2 [T 3 2 3 false; T 3 7 1 false]]; NT 4 [T 3 9 2 false]] in
  (match pnode g mm [] (fun _ _ => None) false false t None with
   | BOk (v, _) => vitems v = [IObj 2 11; IObj 2 8; IRef 9]%N
   | _ => False end) /\
  map rule_dict (abs g mm [] t) = [[(2%N, 8%N, 2); (2%N, 11%N, 0)]] /\
  map (fun nd => map (fun x => (cstart x, cend x)) (refs_pre nd)) (abs g mm [] t) = [[(9%N, 11%N)]].
Proof. vm_compute. repeat split; reflexivity. Qed.
Print Assumptions C34_build_nonvacuous.

(* non-vacuity for the position map: Wrap(1) = Mid(2) = Core(3) share a span, a second Wrap(4)
   shares only the start with its Mid(5); 6 is the model *)
Definition demo_tree : node :=
  NObj 6 0 30 [ NObj 1 0 6 [NObj 2 0 6 [NObj 3 0 6 [NTok 0 4; NTok 5 6]]];
                NObj 4 7 30 [NObj 5 7 13 [NObj 7 7 13 [NTok 7 11; NTok 12 13]]; NTok 14 18; NRef 0 19 30 [112;46;99]] ]%N.
Definition demo_dict : list (N * N * nat) := [ (7%N, 13%N, 7); (7%N, 30%N, 4); (0%N, 6%N, 3); (0%N, 30%N, 6) ].
Example C34_dict_nonvacuous :
  (rule_dict demo_tree = demo_dict) /\ (wfb demo_tree = true) /\ NoDup (map snd (objs_post demo_tree)).
Proof. vm_compute. repeat split. repeat constructor; cbn; intuition discriminate. Qed.
Print Assumptions C34_dict_nonvacuous.

(* non-vacuity: three references, the first postponed twice and the second once *)
Definition demo_refs := [ {| cid := 0; cstart := 10; cend := 13; cname := [112;46;99] |};
                          {| cid := 1; cstart := 15; cend := 16; cname := [99] |};
                          {| cid := 2; cstart := 20; cend := 25; cname := [112;46;99] |} ]%N.
Definition demo_tbl : list (nat * (nat * option target)) :=
  [ (0, (2, Some {| tfile := 0; tstart := 0%N; tend := 5%N |}));
    (1, (1, Some {| tfile := 1; tstart := 3%N; tend := 9%N |}));
    (2, (0, Some {| tfile := 0; tstart := 0%N; tend := 5%N |})) ]%nat.
Example C34_refs_nonvacuous :
  match load (table_ans demo_tbl) (fun _ => false) [demo_refs] with
  | Ok [es] => map e_ref es = [0; 1; 2] /\ map e_end es = [13; 16; 25]%N /\ map e_file es = [0; 1; 0]
  | _ => False
  end.
Proof. vm_compute. repeat split. Qed.
Print Assumptions C34_refs_nonvacuous.

(* builtins and repository: reference 1 is not found by the provider (after one postponement) and
   is a builtin name: it gets no entry; the second model was loaded earlier and keeps its list *)
Definition demo_tbl2 : list (nat * (nat * option target)) :=
  [ (0, (1, Some {| tfile := 1; tstart := 0%N; tend := 5%N |}));
    (1, (1, None));
    (2, (0, Some {| tfile := 0; tstart := 0%N; tend := 5%N |})) ]%nat.
Definition demo_old : list entry :=
  [ {| e_ref := 9; e_name := [99]%N; e_start := 4%N; e_end := 5%N; e_file := 1; e_dstart := 0%N; e_dend := 3%N |} ].
Example C34_repo_nonvacuous :
  match load_repo (table_ans demo_tbl2) (fun x => Nat.eqb (cid x) 1) [Fresh demo_refs; Done demo_old] with
  | Ok [es; old] => map e_ref es = [0; 2] /\ old = demo_old
  | _ => False
  end /\
  load (table_ans demo_tbl2) (fun _ => false) [demo_refs] = UnknownObject.
Proof. vm_compute. repeat split. Qed.
Print Assumptions C34_repo_nonvacuous.

(* The converse of C34_built_objects_are_keys is false, also in textX: an object created for a rule
   referenced without an assignment is registered in the position map and then dropped, so the
   keys are NOT exactly the spans of the objects of the returned model (witness and replay in
   Proofs/EdPosBuildProofs.v and design/C34.md).  C34 itself is not affected: the key still is the
   span of the object it maps to. *)
Theorem C34_keys_exactly_built_refuted :
  exists g mm input grp auto use_grp t v top',
    pnode g mm input grp auto use_grp t None = BOk (v, top') /\
    exists nd s e i, In nd (abs g mm [] t) /\ In (s, e, i) (rule_dict nd) /\ ~ In (IObj s e) (vitems v).
Proof. exact keys_exactly_built_refuted. Qed.
Print Assumptions C34_keys_exactly_built_refuted.
