(* C31 — generated output files are all-or-nothing. *)
From TxV Require Import Core.Base Gen.SrcFs Model.Fs Proofs.FsProofs.

(* For every list of writes and every failure point (open, the k-th write with or without
   partial data, flush/close, replace): after the run no temporary file remains and the
   target is either complete (no exception) or exactly what it was before the run —
   absent if it was absent.  Re-proved against the protocol facts translated from export.py. *)
Theorem C31_atomic : forall f chunks fl, temp f = None ->
  let '(f', raised) := export f chunks fl in
  temp f' = None /\
  (if raised then target f' = target f else target f' = Some (complete chunks)) /\
  (raised = false <-> fl = NoFailure \/ (exists k p, fl = AtWrite k p /\ length chunks <= k)).
Proof. exact export_atomic. Qed.
Print Assumptions C31_atomic.

Theorem C31_rerun : forall chunks fl chunks',
  let f0 := {| target := None; temp := None |} in
  let '(f1, raised) := gen_file false f0 chunks fl in
  raised = true ->
  gen_file false f1 chunks' NoFailure = ({| target := Some (complete chunks'); temp := None |}, false).
Proof. exact rerun_regenerates. Qed.
Print Assumptions C31_rerun.

Example C31_nonvacuous :
  export {| target := None; temp := None |} [1;2;3] (AtWrite 1 true) = ({| target := None; temp := None |}, true) /\
  export {| target := Some [Chunk 9]; temp := None |} [1;2;3] AtClose = ({| target := Some [Chunk 9]; temp := None |}, true) /\
  export {| target := None; temp := None |} [1;2;3] NoFailure = ({| target := Some [Chunk 1; Chunk 2; Chunk 3]; temp := None |}, false).
Proof. vm_compute. repeat split; reflexivity. Qed.
Print Assumptions C31_nonvacuous.
