(* C31 — generated output files are all-or-nothing. *)
From TxV Require Import Core.Base Model.FsDefs Gen.SrcFs Model.Fs Proofs.FsProofs.

(* For every list of writes of the generator, every buffering policy (which of the write calls reach the
   operating system, which only fill the buffer; close() flushes the rest) and every failure point (open, the
   e-th low-level write - once or persistently, with or without part of its data reaching the file -
   including the write made by the flush inside close(), close itself, os.replace): after the run no
   temporary file remains and the target is either complete (no exception) or exactly what it was before the
   run — absent if it was absent; and the run raises exactly when the failure point is reached.
   `export` interprets the protocol translated from textx/export.py (Gen/SrcFs.v: order and nesting of open /
   write / close / os.replace / cleanup), so the statement is re-proved against the current source. *)
Theorem C31_atomic : forall xd f chunks sched fl, temp f = None ->
  let '(f', raised) := export xd f chunks sched fl in
  temp f' = None /\
  (if raised then target f' = target f else target f' = Some (complete chunks)) /\
  (raised = false <-> fl = NoFailure \/ (exists e p q, fl = AtFlush e p q /\ n_events chunks sched <= e)).
Proof. exact export_atomic. Qed.
Print Assumptions C31_atomic.

(* the instance for a byte buffer of any capacity *)
Theorem C31_atomic_buffered : forall xd cap sizes f chunks fl, temp f = None ->
  let '(f', raised) := export xd f chunks (sched_of_buffer cap sizes 0) fl in
  temp f' = None /\ (if raised then target f' = target f else target f' = Some (complete chunks)).
Proof. exact export_atomic_buffered. Qed.
Print Assumptions C31_atomic_buffered.

Theorem C31_rerun : forall xd chunks sched fl chunks' sched',
  let f0 := {| target := None; temp := None |} in
  let '(f1, raised) := gen_file xd false f0 chunks sched fl in
  raised = true ->
  gen_file xd false f1 chunks' sched' NoFailure = ({| target := Some (complete chunks'); temp := None |}, false).
Proof. exact rerun_regenerates. Qed.
Print Assumptions C31_rerun.

(* the order of close and os.replace is what the theorem rests on: with os.replace inside the `with open`
   block a failing flush at close leaves a truncated target *)
Theorem C31_order_matters : writes_to_temp = true -> forall xd,
  run early_replace {| xdev := xd; same_dir := true |} {| target := None; temp := None |} [0; 1; 2] [] (AtFlush 0 true false)
  = ({| target := Some []; temp := None |}, true).
Proof. exact early_replace_not_atomic. Qed.
Print Assumptions C31_order_matters.

(* ... and so are the place of the temporary file (`temp_same_dir`, translated from how its name is derived) and the
   publication primitive: C31_atomic holds for every `xd` (whether or not the system temporary folder is on another
   file system) because the temporary file is next to the target and os.replace is used.  With the temporary file
   elsewhere and shutil.move, a failing copy across file systems truncates the target (absent before: left empty;
   present before: overwritten by a part); on one file system, or next to the target, the same run publishes the
   complete file; and os.replace from another file system never publishes anything.  Atomicity needs both. *)
Theorem C31_publication_matters : writes_to_temp = true ->
  run moved {| xdev := true; same_dir := false |} {| target := None; temp := None |} [0; 1; 2] [] (AtFlush 1 true false)
    = ({| target := Some []; temp := None |}, true) /\
  run moved {| xdev := true; same_dir := false |} {| target := Some [Chunk 9]; temp := None |} [0; 1; 2] [] (AtFlush 1 true true)
    = ({| target := Some [Chunk 0]; temp := None |}, true) /\
  run moved {| xdev := false; same_dir := false |} {| target := None; temp := None |} [0; 1; 2] [] (AtFlush 1 true false)
    = ({| target := Some (complete [0; 1; 2]); temp := None |}, false) /\
  run moved {| xdev := true; same_dir := true |} {| target := None; temp := None |} [0; 1; 2] [] (AtFlush 1 true false)
    = ({| target := Some (complete [0; 1; 2]); temp := None |}, false) /\
  run (PTry (PSeq (POpen PWrite) PReplace) PRemoveTmp) {| xdev := true; same_dir := false |} {| target := None; temp := None |} [0; 1; 2] [] NoFailure
    = ({| target := None; temp := None |}, true).
Proof. exact move_across_devices_not_atomic. Qed.
Print Assumptions C31_publication_matters.

Example C31_nonvacuous :
  (* everything buffered, the flush at close fails (disk full) *)
  export true {| target := None; temp := None |} [1;2;3] [] (AtFlush 0 true true) = ({| target := None; temp := None |}, true) /\
  (* second low-level write of three fails once, part of the data written *)
  export true {| target := Some [Chunk 9]; temp := None |} [1;2;3] [FlushAll; FlushKeep; Buf] (AtFlush 1 false true) = ({| target := Some [Chunk 9]; temp := None |}, true) /\
  export true {| target := Some [Chunk 9]; temp := None |} [1;2;3] [Buf; FlushKeep] AtClose = ({| target := Some [Chunk 9]; temp := None |}, true) /\
  n_events [1;2;3] [FlushAll; FlushKeep; Buf] = 3 /\
  export true {| target := None; temp := None |} [1;2;3] [FlushAll; FlushKeep; Buf] (AtFlush 3 true true) = ({| target := Some [Chunk 1; Chunk 2; Chunk 3]; temp := None |}, false) /\
  export true {| target := None; temp := None |} [1;2;3] [Buf; FlushKeep] NoFailure = ({| target := Some [Chunk 1; Chunk 2; Chunk 3]; temp := None |}, false).
Proof. vm_compute. repeat split; reflexivity. Qed.
Print Assumptions C31_nonvacuous.
