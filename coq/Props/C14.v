(* C14 — user classes are constructed once with exactly the grammar attributes, and are left
   exactly as they were after loading, successful or not. *)
From TxV Require Import Core.Base Gen.SrcUserCls Model.UserCls Proofs.UserClsProofs Proofs.UserClsLogProofs Proofs.UserClsInitProofs Proofs.UserClsAccessProofs Proofs.UserClsSrcProofs.

(* Restoration, for EVERY history of the load machine: any sequence of operations (any mix of
   main loads, imported models, loads started from callbacks while another load runs, and a
   failure at any operation), from a class that textX has not touched.  Whenever no load is
   running any more, the class is exactly as before: no `_tx_instrumented`, the dunder entries
   of its __dict__ are the original ones, no `_tx_real_*`, empty `_tx_obj_attrs`.
   The method-name tuples are those of the current source (Gen/SrcUserCls.v). *)
Theorem C14_restored : forall d0 ops,
  s_ctxs (run replace_names restore_names (init d0) ops) = [] ->
  cls_same d0 (s_cls (run replace_names restore_names (init d0) ops)).
Proof. exact src_restored. Qed.
Print Assumptions C14_restored.

(* While loads run, `_tx_instrumented` is exactly the number of parsers that have replaced the
   methods and not yet restored them, and every key of `_tx_obj_attrs` belongs to a model that
   is still under construction. *)
Theorem C14_counted : forall d0 ops,
  let s := run replace_names restore_names (init d0) ops in
  k_count (s_cls s) = nrep (s_ctxs s) /\ (forall x, In x (k_store (s_cls s)) -> owned (s_ctxs s) x).
Proof. exact src_counted. Qed.
Print Assumptions C14_counted.

(* one replace/restore round trip gives back the original methods, for every original __dict__ *)
Theorem C14_methods_roundtrip : forall d0,
  cls_same d0 (cls_restore restore_names (cls_replace replace_names (cls0 d0))).
Proof. exact src_roundtrip. Qed.
Print Assumptions C14_methods_roundtrip.

(* __init__ receives exactly the collected attributes that are meta-attributes of the class,
   plus `parent` (the extra key of the source) *)
Theorem C14_init_args : forall (V : Type) tx_attrs (attrs : list (list N * V)) kv,
  In kv (init_kwargs tx_attrs attrs) <-> In kv attrs /\ (In (fst kv) tx_attrs \/ fst kv = init_extra_key).
Proof. exact src_init_args. Qed.
Print Assumptions C14_init_args.

(* ... and for the storage the loader fills (every meta-attribute initialised, the two position
   attributes, parent iff the object is contained): the rule's attributes in order, plus parent
   iff contained *)
Theorem C14_init_args_of_loaded_object : forall (V : Type) tx_attrs (vals : list (list N * V)) pos pos_end parent,
  (forall kv, In kv vals -> In (fst kv) tx_attrs) ->
  ~ In tx_pos_key tx_attrs -> ~ In tx_pos_end_key tx_attrs ->
  init_kwargs tx_attrs (collected vals pos pos_end parent)
  = vals ++ match parent with Some p => [(init_extra_key, p)] | None => [] end.
Proof. exact src_init_args_collected. Qed.
Print Assumptions C14_init_args_of_loaded_object.

(* In every running load of every history: whenever an __init__ event was recorded, the
   resolution of all references of the load had been recorded before it and no object processor
   of the load before it (the trace is newest first). *)
Theorem C14_init_after_resolution_before_processors : forall d0 ops c,
  In c (s_ctxs (run replace_names restore_names (init d0) ops)) -> trace_ok (c_trace c).
Proof. exact src_init_order. Qed.
Print Assumptions C14_init_after_resolution_before_processors.

(* Initialised at most once, in every history: the list of the objects whose __init__ was called
   (read off the event log) has no duplicates, and an initialised object is never pending again. *)
Theorem C14_init_at_most_once : forall d0 ops,
  let s := run replace_names restore_names (init d0) ops in
  NoDup (inited (s_log s)) /\ (forall x, In x (inited (s_log s)) -> ~ In x (pend (s_ctxs s))).
Proof. exact src_init_at_most_once. Qed.
Print Assumptions C14_init_at_most_once.

(* ... and exactly once in a load that succeeds: in every history, when the running load can
   return (all its models are ended, no object is pending: the guard of Finish), every user object
   it has allocated (c_objs, written by Alloc only) has been initialised. *)
Theorem C14_init_exactly_once_on_success : forall d0 ops c rest,
  let s := run replace_names restore_names (init d0) ops in
  s_ctxs s = c :: rest -> c_frames c = [] -> (c_phase c = Ending [] \/ c_phase c = Processing) ->
  forall x, In x (c_objs c) -> In x (inited (s_log s)).
Proof. exact src_all_initialised_at_finish. Qed.
Print Assumptions C14_init_exactly_once_on_success.

(* Attribute access DURING loading (the replacement functions of
   _replace_user_attr_methods_for_class, modelled by acting_set / acting_get / acting_del).
   In every state of every history - whatever loads are running, nested or not - setting,
   reading or deleting an attribute of an object that is not under construction (an initialised
   object, an object of an earlier or of a nested load, any other instance) is handled by exactly
   what the class defined before loading: its own __setattr__/__getattribute__/__delattr__ if it
   has one, else the inherited behaviour. *)
Theorem C14_own_accessors_during_load : forall d0 ops x hit,
  (forall a, d0 a <> TxFn) ->
  let k := s_cls (run replace_names restore_names (init d0) ops) in
  stored k x = false ->
  acting_set k x = of_slot (d0 n_setattr) /\
  acting_get k x hit = of_slot (d0 n_getattribute) /\
  acting_del k x hit = of_slot (d0 n_delattr).
Proof. exact src_own_accessors_act. Qed.
Print Assumptions C14_own_accessors_during_load.

(* ... while an object under construction (stored; by C14_counted it belongs to a model still
   under construction) of an instrumented class collects its attributes in the storage; a name
   it does not have yet is looked up the inherited way. *)
Theorem C14_storage_for_objects_under_construction : forall d0 ops x,
  (forall a, d0 a <> TxFn) ->
  let k := s_cls (run replace_names restore_names (init d0) ops) in
  stored k x = true -> k_count k <> 0 ->
  acting_set k x = ToStorage /\ acting_get k x true = ToStorage /\ acting_del k x true = ToStorage /\
  acting_get k x false = ToBase.
Proof. exact src_storage_acts. Qed.
Print Assumptions C14_storage_for_objects_under_construction.

(* methods outside the replaced tuple (e.g. __getattr__) are never touched, at any time *)
Theorem C14_other_methods_untouched : forall d0 ops a,
  ~ In a replace_names -> k_dict (s_cls (run replace_names restore_names (init d0) ops)) a = d0 a.
Proof. exact src_other_methods_untouched. Qed.
Print Assumptions C14_other_methods_untouched.

(* non-vacuity: two models being loaded (count 2), object 2 still stored, a nested load whose
   object 5 is initialised: its accessors are the class's own ones although the class is
   instrumented *)
Example C14_access_nonvacuous :
  let d0 := fun a => if str_eqb a n_setattr then UserFn 1 else Absent in
  let k := s_cls (run replace_names restore_names (init d0)
             [Begin true false true; Alloc; Begin true false true; Alloc; Complete; ResolveOk; EndModel; Init true]) in
  k_count k = 1 /\ stored k 2 = true /\ stored k 5 = false /\
  acting_set k 5 = ToUser 1 /\ acting_get k 5 false = ToBase /\ acting_set k 2 = ToStorage.
Proof. vm_compute. repeat split; reflexivity. Qed.
Print Assumptions C14_access_nonvacuous.

(* non-vacuity: a main model with an imported model and a failure, then a successful load *)
Example C14_nonvacuous :
  let ops := [Begin true false true; Alloc; Alloc; Complete; Complete; Begin false false true; Alloc; Complete; Fail;
              Begin true false true; Alloc; Complete; ResolveOk; EndModel; Init true; Proc true; Finish] in
  let s := run replace_names restore_names (init (fun _ => UserFn 7)) ops in
  s_ctxs s = [] /\ length (s_log s) = 9 /\
  k_count (s_cls (run replace_names restore_names (init (fun _ => UserFn 7)) (firstn 8 ops))) = 2 /\
  length (k_store (s_cls (run replace_names restore_names (init (fun _ => UserFn 7)) (firstn 8 ops)))) = 3.
Proof. vm_compute. repeat split; reflexivity. Qed.
Print Assumptions C14_nonvacuous.

(* non-vacuity of the order statement: a running load whose trace holds resolution, __init__ and
   a processor event *)
Example C14_order_nonvacuous :
  let s := run replace_names restore_names (init (fun _ => Absent))
             [Begin true false true; Alloc; Complete; ResolveOk; EndModel; Init true; Proc true] in
  map (fun c => map is_init (c_trace c)) (s_ctxs s) = [[false; true; false; false]].
Proof. vm_compute. reflexivity. Qed.
Print Assumptions C14_order_nonvacuous.

(* non-vacuity of the exactly-once statement: a load with three objects at the point where it can
   finish *)
Example C14_once_nonvacuous :
  let s := run replace_names restore_names (init (fun _ => Absent))
             [Begin true false true; Alloc; Alloc; Complete; Complete; Begin false false true; Alloc; Complete;
              ResolveOk; EndModel; Init true; Init true; EndModel; Init true] in
  map c_objs (s_ctxs s) = [[2; 3; 6]] /\ map c_frames (s_ctxs s) = [[]] /\ inited (s_log s) = [6; 2; 3].
Proof. vm_compute. repeat split; reflexivity. Qed.
Print Assumptions C14_once_nonvacuous.
