(* C03 — rule kinds determine what objects a model contains. *)
From TxV Require Import Core.Base Model.Kinds.

Example C03_smoke : exists s, determine_types [ {| r_attrs := true; r_body := Body Term |} ] = Some s /\ types s 0 = KCommon.
Proof. eexists. split; [vm_compute; reflexivity | reflexivity]. Qed.
Print Assumptions C03_smoke.
