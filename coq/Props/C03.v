(* C03 — rule kinds determine what objects a model contains.
   Model: Model/Kinds.v (transcription of _determine_rule_types, _textx_isinstance and the
   abstract / match / common branch of process_node in the repaired tree). *)
From TxV Require Import Core.Base Model.Kinds Proofs.KindsProofs Proofs.KindsInhProofs Proofs.KindsRecProofs.

(* ---- rule kinds.  The multi-pass fixpoint terminates (the model's fuel - |rules|+1 passes,
   |rules|+1 nested calls per pass - is never exhausted) and gives every rule the documented
   kind: common iff it has assignments; otherwise abstract iff it references a rule that is not a
   match rule (least fixpoint, arbitrary cyclic reference graphs, aliases); otherwise match. *)
Theorem C03_kinds : forall g : list rule,
  exists s, determine_types g = Some s /\ forall x, kind_spec g x (types s x).
Proof. intro g. destruct (kinds_correct g) as [s [H1 [H2 _]]]. exists s. split; assumption. Qed.
Print Assumptions C03_kinds.

(* the documented kind is unique, so C03_kinds pins the computed kind down completely *)
Theorem C03_kind_spec_deterministic : forall g x k1 k2, kind_spec g x k1 -> kind_spec g x k2 -> k1 = k2.
Proof. exact kind_spec_unique. Qed.
Print Assumptions C03_kind_spec_deterministic.

Example C03_kinds_example :
  (* A: B | C;  B: '(' A ')' | M;  C: x=INT;  M: 'm'; *)
  let g := [ {| r_attrs := false; r_body := Body (Choice [Ref 1; Ref 2]) |};
             {| r_attrs := false; r_body := Body (Choice [Seq [Term; Ref 0; Term]; Ref 3]) |};
             {| r_attrs := true; r_body := Body Term |};
             {| r_attrs := false; r_body := Body Term |} ] in
  exists s, determine_types g = Some s /\
            map (types s) [0; 1; 2; 3] = [KAbstract; KAbstract; KCommon; KMatch].
Proof. eexists. split; [vm_compute; reflexivity | reflexivity]. Qed.
Print Assumptions C03_kinds_example.

(* ---- textx_isinstance.
   Full statement of the property:
     isinstance k R = true <-> R = OBJECT \/ yields g kinds R k
   (yields: k is R or can be the first non-match reference, transitively through abstract rules).
   Proved for all grammars: the visited-set search always terminates with an answer (also on
   cyclic _tx_inh_by), OBJECT always holds, the answer is exactly reachability in the recorded
   _tx_inh_by lists, and a positive answer implies that k is R or is reachable from R through
   references of abstract rules to non-match rules (no false positives).
   Missing for the full statement: completeness of _tx_inh_by - refuted below on the pinned
   code (known finding inh-by-incomplete); proved under wf_inh in C03_isinstance_complete. *)
Theorem C03_isinstance_iff_partial : forall g : list rule,
  exists s, determine_types g = Some s /\
    forall k, isinstance (length g) (inh s) k None = Some true /\
    forall r, exists b, isinstance (length g) (inh s) k (Some r) = Some b /\
                        (b = true <-> ireach (inh s) r k) /\
                        (b = true -> reach g (types s) r k).
Proof.
  intro g. destruct (isinstance_correct g) as [s [H1 H2]]. exists s. split; [exact H1|].
  intro k. split; [reflexivity | intro r; apply H2].
Qed.
Print Assumptions C03_isinstance_iff_partial.

(* _tx_inh_by of the result only ever lists non-match rules referenced by an abstract rule *)
Theorem C03_inh_by_sound : forall g : list rule, exists s, determine_types g = Some s /\
  forall z y, In y (inh s z) -> types s z = KAbstract /\ In y (rule_refs g z) /\ types s y <> KMatch.
Proof. exact inh_by_sound. Qed.
Print Assumptions C03_inh_by_sound.

Example C03_isinstance_example :
  (* X: C | Y;  Y: '(' X ')' | D;  C, D, E common: _tx_inh_by is cyclic (X -> Y -> X) *)
  let g := [ {| r_attrs := false; r_body := Body (Choice [Ref 2; Ref 1]) |};
             {| r_attrs := false; r_body := Body (Choice [Seq [Term; Ref 0; Term]; Ref 3]) |};
             {| r_attrs := true; r_body := Body Term |};
             {| r_attrs := true; r_body := Body Term |};
             {| r_attrs := true; r_body := Body Term |} ] in
  exists s, determine_types g = Some s /\ inh s 0 = [2; 1] /\ inh s 1 = [0; 3] /\
            map (fun k => isinstance 5 (inh s) k (Some 0)) [2; 3; 4] = [Some true; Some true; Some false].
Proof. eexists. split; [vm_compute; reflexivity | repeat split; reflexivity]. Qed.
Print Assumptions C03_isinstance_example.

(* the recorded inheritance is incomplete: B: '(' A ')' | D yields C objects through A, but
   textx_isinstance(c_obj, B) is false   (A: B | C;  B: '(' A ')' | D;) *)
Theorem C03_isinstance_complete_refuted :
  exists (g : list rule) s r k, determine_types g = Some s /\ yields g (types s) r k /\
                                isinstance (length g) (inh s) k (Some r) = Some false.
Proof.
  exists [ {| r_attrs := false; r_body := Body (Choice [Ref 1; Ref 2]) |};
           {| r_attrs := false; r_body := Body (Choice [Seq [Term; Ref 0; Term]; Ref 3]) |};
           {| r_attrs := true; r_body := Body Term |};
           {| r_attrs := true; r_body := Body Term |} ].
  eexists. exists 1, 2. split; [vm_compute; reflexivity|]. split; [|reflexivity].
  apply yields_step with (y := 0); [reflexivity | simpl; auto|].
  apply yields_step with (y := 2); [reflexivity | simpl; auto | apply yields_refl].
Qed.
Print Assumptions C03_isinstance_complete_refuted.

(* The completeness half holds for every grammar outside the finding's class: wf_inh = no cycle
   through abstract rules (a rank decreases along references between abstract rules) and no
   sequence of an abstract rule with a skippable element that holds a non-match reference in front
   of another element holding one.  Then every rule that R can yield (first non-match
   references, transitively) passes textx_isinstance(_, R).  The classifier of the known finding
   inh-by-incomplete is the negation of wf_inh. *)
Theorem C03_isinstance_complete : forall (g : list rule) (rank : nat -> nat) (s : st),
  determine_types g = Some s -> wf_inh g (types s) rank ->
  forall r k, yields g (types s) r k -> isinstance (length g) (inh s) k (Some r) = Some true.
Proof. exact isinstance_complete. Qed.
Print Assumptions C03_isinstance_complete.

(* ... and the full statement when moreover every non-match reference of an abstract rule is a
   first one (tight: e.g. alternatives with at most one non-match reference) *)
Theorem C03_isinstance_iff : forall (g : list rule) (rank : nat -> nat) (s : st),
  determine_types g = Some s -> wf_inh g (types s) rank -> tight g (types s) ->
  forall r k, isinstance (length g) (inh s) k (Some r) = Some true <-> yields g (types s) r k.
Proof. exact isinstance_iff. Qed.
Print Assumptions C03_isinstance_iff.

(* non-vacuity: T: 'k' M A | C;  A: B? 'j' | C;  B, C common, M match - wf_inh and tight hold,
   T yields B through A *)
Example C03_isinstance_iff_example :
  let g := [ {| r_attrs := false; r_body := Body (Choice [Seq [Term; Ref 4; Ref 1]; Ref 3]) |};
             {| r_attrs := false; r_body := Body (Choice [Seq [Opt (Ref 2); Term]; Ref 3]) |};
             {| r_attrs := true; r_body := Body Term |};
             {| r_attrs := true; r_body := Body Term |};
             {| r_attrs := false; r_body := Body Term |} ] in
  exists s, determine_types g = Some s /\ wf_inh g (types s) (fun x => match x with 0 => 1 | _ => 0 end) /\
            tight g (types s) /\ yields g (types s) 0 2 /\ isinstance 5 (inh s) 2 (Some 0) = Some true.
Proof.
  eexists. split; [vm_compute; reflexivity|].
  split; [|split; [|split]].
  - split.
    + intros x y Hx Hy Ky. destruct x as [|[|[|[|[|x]]]]]; try discriminate Hx.
      * destruct Hy as [<-|[<-|[<-|[]]]]; try discriminate Ky. simpl. lia.
      * destruct Hy as [<-|[<-|[]]]; discriminate Ky.
    + intros x e Hx Hb. destruct x as [|[|[|[|[|x]]]]]; try discriminate Hx; inversion Hb; reflexivity.
  - intros x c Hx Hc Hn. destruct x as [|[|[|[|[|x]]]]]; try discriminate Hx.
    + destruct Hc as [<-|[<-|[<-|[]]]]; [exfalso; apply Hn; reflexivity | simpl; auto | simpl; auto].
    + destruct Hc as [<-|[<-|[]]]; simpl; auto.
  - apply yields_step with (y := 1); [reflexivity | simpl; auto|].
    apply yields_step with (y := 2); [reflexivity | simpl; auto | apply yields_refl].
  - reflexivity.
Qed.
Print Assumptions C03_isinstance_iff_example.

(* Without `tight` the converse fails even under wf_inh: the walk leaves a sequence only after an
   element that ADDED a class, so  A: C | 'k' C D;  records [C; D] and textx_isinstance(d_obj, A) is
   true although A never yields a D object.  The recorded lists are then exactly the declarative
   early-exit walk over the final kinds (`recorded`, Model/Kinds.v; compared with _tx_inh_by on every
   generated grammar without a cycle through abstract rules - tested, not proved in general). *)
Theorem C03_isinstance_implies_yields_refuted :
  exists (g : list rule) s rank, determine_types g = Some s /\ wf_inh g (types s) rank /\
    inh_is_recorded g s = true /\
    isinstance (length g) (inh s) 2 (Some 0) = Some true /\ ~ yields g (types s) 0 2.
Proof.
  exists [ {| r_attrs := false; r_body := Body (Choice [Ref 1; Seq [Term; Ref 1; Ref 2]]) |};
           {| r_attrs := true; r_body := Body Term |};
           {| r_attrs := true; r_body := Body Term |} ].
  eexists. exists (fun _ => 0). split; [vm_compute; reflexivity|]. split; [|split; [reflexivity | split; [reflexivity|]]].
  - split.
    + intros x y Hx Hy Ky. destruct x as [|[|[|x]]]; try discriminate Hx.
      destruct Hy as [<-|[<-|[<-|[]]]]; discriminate Ky.
    + intros x e Hx Hb. destruct x as [|[|[|x]]]; try discriminate Hx. inversion Hb. reflexivity.
  - intro H. inversion H as [|x y z Kx Hy Hyz]; subst.
    simpl in Hy. destruct Hy as [<-|[<-|[]]];
      (inversion Hyz as [|x' y' z' Kx' _ _]; subst; discriminate Kx').
Qed.
Print Assumptions C03_isinstance_implies_yields_refuted.

(* ---- the recorded lists, exactly.  For every grammar without a cycle through abstract rules the lists
   that _determine_rule_types leaves are the declarative early-exit walk over the final kinds, as lists: *)
Theorem C03_tx_inh_by_recorded : forall (g : list rule) (rank : nat -> nat) (s : st),
  determine_types g = Some s -> acyclic_abstract g (types s) rank ->
  forall x, types s x = KAbstract -> inh s x = recorded g (types s) x.
Proof. exact tx_inh_by_recorded. Qed.
Print Assumptions C03_tx_inh_by_recorded.

(* ... so textx_isinstance is exactly the closure of `recorded`: the code's conformance relation is
   specified, not only bounded (yields <= recorded_reach <= reach; equality with yields under tight) *)
Theorem C03_isinstance_exact : forall (g : list rule) (rank : nat -> nat) (s : st),
  determine_types g = Some s -> acyclic_abstract g (types s) rank ->
  forall r k, isinstance (length g) (inh s) k (Some r) = Some true <-> recorded_reach g (types s) r k.
Proof. exact isinstance_exact. Qed.
Print Assumptions C03_isinstance_exact.

Theorem C03_yields_recorded_reach : forall (g : list rule) (rank : nat -> nat) (s : st),
  determine_types g = Some s -> wf_inh g (types s) rank ->
  forall r k, (yields g (types s) r k -> recorded_reach g (types s) r k) /\
              (tight g (types s) -> recorded_reach g (types s) r k -> yields g (types s) r k).
Proof. exact yields_recorded_reach. Qed.
Print Assumptions C03_yields_recorded_reach.

Example C03_isinstance_exact_example :
  (* A: C | 'k' C D;  records [C; D]: D is in the closure of `recorded` although A never yields D *)
  let g := [ {| r_attrs := false; r_body := Body (Choice [Ref 1; Seq [Term; Ref 1; Ref 2]]) |};
             {| r_attrs := true; r_body := Body Term |};
             {| r_attrs := true; r_body := Body Term |} ] in
  exists s, determine_types g = Some s /\ acyclic_abstract g (types s) (fun _ => 0) /\
            recorded g (types s) 0 = [1; 2] /\ recorded_reach g (types s) 0 2.
Proof.
  eexists. split; [vm_compute; reflexivity|]. split; [|split; [reflexivity|]].
  - intros x y Hx Hy Ky. destruct x as [|[|[|x]]]; try discriminate Hx.
    destruct Hy as [<-|[<-|[<-|[]]]]; discriminate Ky.
  - apply rreach_step with (y := 2); [reflexivity | simpl; auto | apply rreach_refl].
Qed.
Print Assumptions C03_isinstance_exact_example.

(* with a cycle through abstract rules the lists are NOT the walk over the final kinds
   (A: B | C;  B: '(' A ')' | D;  B holds [D], the walk gives [A; D]): the known finding *)
Theorem C03_tx_inh_by_recorded_cyclic_refuted :
  exists (g : list rule) s x, determine_types g = Some s /\ types s x = KAbstract /\
                               inh s x <> recorded g (types s) x.
Proof.
  exists [ {| r_attrs := false; r_body := Body (Choice [Ref 1; Ref 2]) |};
           {| r_attrs := false; r_body := Body (Choice [Seq [Term; Ref 0; Term]; Ref 3]) |};
           {| r_attrs := true; r_body := Body Term |};
           {| r_attrs := true; r_body := Body Term |} ].
  eexists. exists 1. split; [vm_compute; reflexivity|]. split; [reflexivity|]. vm_compute. discriminate.
Qed.
Print Assumptions C03_tx_inh_by_recorded_cyclic_refuted.

(* ---- objects.  Whatever the parse tree and the kinds, every object that process_node creates
   is an instance of a rule whose kind is common (an abstract rule's class is never
   instantiated, a match rule never gives an object). *)
Theorem C03_only_common_instances : forall (K : nat -> kind) (t : tree),
  Forall (fun c => K c = KCommon) (objs (process K t)).
Proof. exact only_common_instances. Qed.
Print Assumptions C03_only_common_instances.

(* ... and every object is created for a NonTerminal node of that rule in the parse tree: nothing
   is instantiated that the parse did not produce *)
Theorem C03_objects_from_nodes : forall (K : nat -> kind) (t : tree) (c : nat),
  In c (objs (process K t)) -> K c = KCommon /\ In c (node_rules t).
Proof. exact objs_from_nodes. Qed.
Print Assumptions C03_objects_from_nodes.

Theorem C03_match_plain : forall K r kids, K r = KMatch -> exists s, process K (TN r kids) = VStr s.
Proof. intros K r kids H. eexists. apply process_match. exact H. Qed.
Print Assumptions C03_match_plain.

(* ---- result of an abstract node: the first node of an abstract / common rule, whatever
   terminals and match-rule nodes precede it and whatever follows *)
Theorem C03_abstract_result : forall K r pre r' ks post,
  K r = KAbstract -> (forall p, In p pre -> plain_node K p) -> K r' <> KMatch ->
  process K (TN r (pre ++ TN r' ks :: post)) = process K (TN r' ks).
Proof. exact abstract_first_nonmatch_kinds. Qed.
Print Assumptions C03_abstract_result.

Example C03_abstract_result_example :
  (* Abs: 'k' M C | C on `k a b c 5`: the C object, not the text of M *)
  let K := fun x => match x with 0 => KAbstract | 1 => KMatch | _ => KCommon end in
  process K (TN 0 [TT [107]; TN 1 [TT [97]; TT [98]]; TN 2 [TT [99]; TA [TT [53]]]])%N = VObj 2 [VStr [53]%N].
Proof. reflexivity. Qed.
Print Assumptions C03_abstract_result_example.

(* ... or the concatenated text when the alternative matched terminals only *)
Theorem C03_abstract_concat_partial : forall K r kids,
  K r = KAbstract -> (forall p, In p kids -> exists s, p = TT s) ->
  process K (TN r kids) = VStr (flat (TN r kids)).
Proof. exact abstract_all_terminals. Qed.
Print Assumptions C03_abstract_concat_partial.

Example C03_abstract_concat_example :
  process (fun _ => KAbstract) (TN 0 [TT [113]; TT [52]; TT [119]])%N = VStr [113; 52; 119]%N.
Proof. reflexivity. Qed.
Print Assumptions C03_abstract_concat_example.

(* Full statement (concatenation whenever the alternative holds only terminals and match-rule
   nodes) is refuted: with a match-rule node present its value alone is the result
   (Abs: M N | C on `a b x`: 'ab'; pinned by tests/functional/regressions/test_issue166.py;
   known finding abstract-all-match-first-node). *)
Theorem C03_abstract_concat_refuted :
  exists K r kids, K r = KAbstract /\ (forall p, In p kids -> nonmatch_node K p = false) /\
                   process K (TN r kids) <> VStr (flat (TN r kids)).
Proof.
  exists (fun x => match x with 0 => KAbstract | _ => KMatch end), 0,
         [TN 1 [TT [97]; TT [98]]; TN 2 [TT [120]]]%N.
  split; [reflexivity|]. split.
  - intros p [<-|[<-|[]]]; reflexivity.
  - vm_compute. discriminate.
Qed.
Print Assumptions C03_abstract_concat_refuted.
