(* C03 — rule kinds determine what objects a model contains. *)
From TxV Require Import Core.Base Model.Kinds Proofs.KindsProofs.

(* The multi-pass fixpoint of _determine_rule_types terminates (the model's fuel, |rules|+1
   passes and |rules|+1 nested calls, is never exhausted) and assigns every rule the
   documented kind: common iff it has assignments; otherwise abstract iff it references a rule
   that is not a match rule (least fixpoint over arbitrary, possibly cyclic, reference graphs);
   otherwise match.  For ALL grammars. *)
Theorem C03_kinds : forall g : list rule,
  exists s, determine_types g = Some s /\ forall x, kind_spec g x (types s x).
Proof. intro g. destruct (kinds_correct g) as [s [H1 [H2 _]]]. exists s. split; assumption. Qed.
Print Assumptions C03_kinds.

(* non-vacuity: A: B | C;  B: '(' A ')' | M;  C: x=INT;  M: 'm';  — A and B abstract through the cycle *)
Example C03_kinds_example :
  let g := [ {| r_attrs := false; r_body := Body (Choice [Ref 1; Ref 2]) |};
             {| r_attrs := false; r_body := Body (Choice [Seq [Term; Ref 0; Term]; Ref 3]) |};
             {| r_attrs := true; r_body := Body Term |};
             {| r_attrs := false; r_body := Body Term |} ] in
  exists s, determine_types g = Some s /\
            map (types s) [0; 1; 2; 3] = [KAbstract; KAbstract; KCommon; KMatch].
Proof. eexists. split; [vm_compute; reflexivity | reflexivity]. Qed.
Print Assumptions C03_kinds_example.
