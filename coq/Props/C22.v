(* C22 - whitespace and comments between tokens do not change the model.

   Interpreter-level statements about Model/Peg.v (the Arpeggio interpreter as driven by textX),
   for EVERY grammar table, input, oracle and fuel.  input = a ++ b, mutated input = a ++ ins ++ b.

   Full statement aimed at (DESIGN.md):  lex_wf g -> accepted s -> inserting active-set whitespace
   or Comment text into a skipped gap leaves acceptance and the model unchanged up to positions.
   Proved here: the whitespace part, in both directions (acceptance, rejection, abort are preserved and
   the parse tree is the shifted one), for memoization off (textX's default), for the class
   [ins_wf g cfg ins] and under the per-case decidable shifted-oracle hypothesis [shift_okb]
   (checked by ./check C22 on every case).  NOT proved: insertion of Comment text (only validated by
   the correspondence and the oracle), memoization on. *)
From TxV Require Import Core.Base Model.PegSyntax Model.Peg Model.PegWsDefs
     Proofs.PegWs Proofs.PegWsSim Proofs.PegWsWit.

(* skip absorption: from related positions (equal left of the insertion point, anywhere inside the
   inserted text at it, shifted right of it) skipping ends at corresponding positions *)
Theorem C22_absorb : forall w a ins b p p',
  subset_ws ins w = true -> Rp a ins b p p' ->
  skip_ws_from w (skipn p' (a ++ ins ++ b)) p' =
  phi (length a) (length ins) (skip_ws_from w (skipn p (a ++ b)) p).
Proof. exact skip_absorb_eq. Qed.
Print Assumptions C22_absorb.

(* invariance: outcomes equal up to the position shift *)
Theorem C22_invariant_partial : forall g cfg orc orc' fuel a ins b,
  ins_wf g cfg ins = true ->
  shift_okb g (a ++ b) orc (a ++ ins ++ b) orc' (length a) (length ins) = true ->
  outcome_shifted (length a) (length ins)
                  (run g cfg orc false fuel (a ++ b)) (run g cfg orc' false fuel (a ++ ins ++ b)).
Proof. exact ws_insert_invariant. Qed.
Print Assumptions C22_invariant_partial.

Theorem C22_accepted_stays_accepted : forall g cfg orc orc' fuel a ins b r,
  ins_wf g cfg ins = true ->
  shift_okb g (a ++ b) orc (a ++ ins ++ b) orc' (length a) (length ins) = true ->
  run g cfg orc false fuel (a ++ b) = Parsed r ->
  run g cfg orc' false fuel (a ++ ins ++ b) = Parsed (shift_res (length a) (length ins) r).
Proof. exact ws_insert_accepts. Qed.
Print Assumptions C22_accepted_stays_accepted.

Example C22_invariant_nonvacuous :
  ins_wf g_plain c_default [32;9]%N = true /\
  shift_okb g_plain ([97;32] ++ [98])%N no_orc ([97;32] ++ [32;9] ++ [98])%N no_orc 2 2 = true /\
  accepts (run g_plain c_default no_orc false 50 ([97;32] ++ [98])%N) = true /\
  accepts (run g_plain c_default no_orc false 50 ([97;32] ++ [32;9] ++ [98])%N) = true.
Proof. exact plain_nonvacuous. Qed.
Print Assumptions C22_invariant_nonvacuous.

(* noskipws / ws: only characters of the active set are skipped (grammars without Comment rule) *)
Theorem C22_only_active_set : forall g input rec kf x,
  g_comments g = None -> cpos_id (cpos x) ->
  exists x1, match_pre g input rec kf x = Ok RNone x1 /\ cpos_id (cpos x1) /\
             pos x <= pos x1 /\
             (skipws x = false -> pos x1 = pos x) /\
             forallb (inw (ws x)) (firstn (pos x1 - pos x) (skipn (pos x) input)) = true.
Proof. exact only_active_set. Qed.
Print Assumptions C22_only_active_set.

(* the class cannot be dropped: a rule that switches skipping off (reached through a predicate) *)
Theorem C22_refuted_mixed_modes : exists g cfg orc fuel a ins b,
  ins_wf g cfg ins = false /\
  accepts (run g cfg orc false fuel (a ++ b)) = true /\
  run g cfg orc false fuel (a ++ ins ++ b) = SyntaxErr 0.
Proof. exists g_mixed, c_default, no_orc, 50, [97;32]%N, [32]%N, [98]%N. exact mixed_refuted. Qed.
Print Assumptions C22_refuted_mixed_modes.

(* the oracle hypothesis cannot be dropped: insertion into an empty gap re-tokenises ("1.5x" / "1.5 x") *)
Theorem C22_refuted_adjacency : exists g cfg orc orc' fuel a ins b,
  ins_wf g cfg ins = true /\
  shift_okb g (a ++ b) orc (a ++ ins ++ b) orc' (length a) (length ins) = false /\
  exists r r', run g cfg orc false fuel (a ++ b) = Parsed r /\
               run g cfg orc' false fuel (a ++ ins ++ b) = Parsed r' /\
               r' <> shift_res (length a) (length ins) r.
Proof. exists g_adj, c_default, adj_orc, adj_orc', 50, [49;46;53]%N, [32]%N, [120]%N. exact adj_refuted. Qed.
Print Assumptions C22_refuted_adjacency.
