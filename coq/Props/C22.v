(* C22 - whitespace and comments between tokens do not change the model.

   Interpreter-level statements about Model/Peg.v (the Arpeggio interpreter as driven by textX),
   for EVERY grammar table, input, oracle and fuel.  input = a ++ b, mutated input = a ++ ins ++ b.

   Full statement aimed at (DESIGN.md):  lex_wf g -> accepted s -> inserting active-set whitespace
   or Comment text into a skipped gap leaves acceptance and the model unchanged up to positions.
   Proved here:
   * whitespace insertion, both directions (acceptance, rejection and abort are preserved and the parse
     tree is the shifted one), memoization off (textX's default), for the class [ins_wf g cfg ins] and
     under the per-case decidable shifted-oracle hypothesis [shift_okb] (C22_invariant_partial); with
     memoization on for the intersection with C19's class ctx_constant, which admits unordered groups and a
     single-terminal Comment rule (C22_invariant_memo_partial);
   * Comment-text insertion (C22_comment_invariant_partial) for grammars whose Comment rule is a single
     regex terminal and that never change the whitespace mode ([cmt_wf]), memoization off, for runs that
     do not run out of fuel (the mutated run needs one more turn of the comment loop); by fuel monotonicity
     (C19's Proofs/PegFuel.v) each run may have its own sufficient fuel (the *_any_fuel_partial forms);
   all hypotheses are decidable and evaluated by ./check C22 on every generated case.
   * whole-run form of "only the active set is skipped" for grammars without Comment rule (any rule
     modifiers, memoization off): an accepted input is tiled from 0 to its end by characters of the
     grammar's whitespace sets and matches of the grammar's terminals (C22_accepted_is_tiled).
   NOT proved: Comment insertion for Comment rules with several alternatives / sub-rules and with
   memoization on; whitespace insertion with memoization on outside ctx_constant.  Outside cmt_wf's
   mode-constancy the statement is false (C22_refuted_comment_modes). *)
From TxV Require Import Core.Base Model.PegSyntax Model.Peg Proofs.PegProofs Proofs.PegMemo Proofs.PegFuel.
From TxV Require Import Model.PegWsDefs
     Proofs.PegWs Proofs.PegWsSim Proofs.PegCmtSim Proofs.PegWsMemo Proofs.PegGap Proofs.PegWsWit.
From TxV Require Import Model.Build Model.BuildShiftDefs Proofs.BuildShift Proofs.BuildFits Proofs.BuildShiftWit.

(* skip absorption: from related positions (equal left of the insertion point, anywhere inside the
   inserted text at it, shifted right of it) skipping ends at corresponding positions *)
Theorem C22_absorb : forall w a ins b p p',
  subset_ws ins w = true -> Rp a ins b p p' ->
  skip_ws_from w (skipn p' (a ++ ins ++ b)) p' =
  phi (length a) (length ins) (skip_ws_from w (skipn p (a ++ b)) p).
Proof. exact skip_absorb_eq. Qed.
Print Assumptions C22_absorb.

(* invariance: outcomes equal up to the position shift *)
Theorem C22_invariant_partial : forall g cfg orc orc' fuel a ins b,
  ins_wf g cfg ins = true ->
  shift_okb g (a ++ b) orc (a ++ ins ++ b) orc' (length a) (length ins) = true ->
  outcome_shifted (length a) (length ins)
                  (run g cfg orc false fuel (a ++ b)) (run g cfg orc' false fuel (a ++ ins ++ b)).
Proof. exact ws_insert_invariant. Qed.
Print Assumptions C22_invariant_partial.

Theorem C22_accepted_stays_accepted : forall g cfg orc orc' fuel a ins b r,
  ins_wf g cfg ins = true ->
  shift_okb g (a ++ b) orc (a ++ ins ++ b) orc' (length a) (length ins) = true ->
  run g cfg orc false fuel (a ++ b) = Parsed r ->
  run g cfg orc' false fuel (a ++ ins ++ b) = Parsed (shift_res (length a) (length ins) r).
Proof. exact ws_insert_accepts. Qed.
Print Assumptions C22_accepted_stays_accepted.

Example C22_invariant_nonvacuous :
  ins_wf g_plain c_default [32;9]%N = true /\
  shift_okb g_plain ([97;32] ++ [98])%N no_orc ([97;32] ++ [32;9] ++ [98])%N no_orc 2 2 = true /\
  accepts (run g_plain c_default no_orc false 50 ([97;32] ++ [98])%N) = true /\
  accepts (run g_plain c_default no_orc false 50 ([97;32] ++ [32;9] ++ [98])%N) = true.
Proof. exact plain_nonvacuous. Qed.
Print Assumptions C22_invariant_nonvacuous.

(* noskipws / ws: only characters of the active set are skipped (grammars without Comment rule) *)
Theorem C22_only_active_set : forall g input rec kf x,
  g_comments g = None -> cpos_id (cpos x) ->
  exists x1, match_pre g input rec kf x = Ok RNone x1 /\ cpos_id (cpos x1) /\
             pos x <= pos x1 /\
             (skipws x = false -> pos x1 = pos x) /\
             forallb (inw (ws x)) (firstn (pos x1 - pos x) (skipn (pos x) input)) = true.
Proof. exact only_active_set. Qed.
Print Assumptions C22_only_active_set.

(* the class cannot be dropped: a rule that switches skipping off (reached through a predicate) *)
Theorem C22_refuted_mixed_modes : exists g cfg orc fuel a ins b,
  ins_wf g cfg ins = false /\
  accepts (run g cfg orc false fuel (a ++ b)) = true /\
  run g cfg orc false fuel (a ++ ins ++ b) = SyntaxErr 0.
Proof. exists g_mixed, c_default, no_orc, 50, [97;32]%N, [32]%N, [98]%N. exact mixed_refuted. Qed.
Print Assumptions C22_refuted_mixed_modes.

(* the oracle hypothesis cannot be dropped: insertion into an empty gap re-tokenises ("1.5x" / "1.5 x") *)
Theorem C22_refuted_adjacency : exists g cfg orc orc' fuel a ins b,
  ins_wf g cfg ins = true /\
  shift_okb g (a ++ b) orc (a ++ ins ++ b) orc' (length a) (length ins) = false /\
  exists r r', run g cfg orc false fuel (a ++ b) = Parsed r /\
               run g cfg orc' false fuel (a ++ ins ++ b) = Parsed r' /\
               r' <> shift_res (length a) (length ins) r.
Proof. exists g_adj, c_default, adj_orc, adj_orc', 50, [49;46;53]%N, [32]%N, [120]%N. exact adj_refuted. Qed.
Print Assumptions C22_refuted_adjacency.

(* memoization on: composition with C19's memo_safe on the intersection class *)
Theorem C22_invariant_memo_partial : forall g cfg orc orc' fuel a ins b,
  ctx_constant g = true -> c_skipws cfg = true -> subset_ws ins (c_ws cfg) = true ->
  shift_okb g (a ++ b) orc (a ++ ins ++ b) orc' (length a) (length ins) = true ->
  PegMemo.not_aborted (run g cfg orc false fuel (a ++ b)) ->
  outcome_shifted (length a) (length ins)
                  (run g cfg orc true fuel (a ++ b)) (run g cfg orc' true fuel (a ++ ins ++ b)).
Proof. exact ws_insert_invariant_memo. Qed.
Print Assumptions C22_invariant_memo_partial.

Example C22_invariant_memo_nonvacuous :
  ctx_constant g_plain = true /\ c_skipws c_default = true /\ subset_ws [32;9]%N (c_ws c_default) = true /\
  shift_okb g_plain ([97;32] ++ [98])%N no_orc ([97;32] ++ [32;9] ++ [98])%N no_orc 2 2 = true /\
  PegWsDefs.accepts (run g_plain c_default no_orc true 50 ([97;32] ++ [32;9] ++ [98])%N) = true.
Proof. exact plain_memo_nonvacuous. Qed.
Print Assumptions C22_invariant_memo_nonvacuous.

(* Comment text: inserted text = whitespace w1, a text c that the Comment regex matches exactly at its
   place in the mutated input and that does not start with whitespace, whitespace w2 *)
Theorem C22_comment_invariant_partial : forall g cfg orc orc' fuel a w1 c w2 b,
  cmt_wf g cfg = true ->
  cmt_ins_okb g cfg orc' a w1 c w2 = true ->
  shift_okb g (a ++ b) orc (a ++ (w1 ++ c ++ w2) ++ b) orc' (length a) (length (w1 ++ c ++ w2)) = true ->
  PegWsDefs.not_aborted (run g cfg orc false fuel (a ++ b)) ->
  PegWsDefs.not_aborted (run g cfg orc' false fuel (a ++ (w1 ++ c ++ w2) ++ b)) ->
  outcome_shifted (length a) (length (w1 ++ c ++ w2))
                  (run g cfg orc false fuel (a ++ b)) (run g cfg orc' false fuel (a ++ (w1 ++ c ++ w2) ++ b)).
Proof. exact comment_insert_invariant. Qed.
Print Assumptions C22_comment_invariant_partial.

Example C22_comment_invariant_nonvacuous :
  cmt_wf g_cmt1 c_default = true /\
  cmt_ins_okb g_cmt1 c_default cmt1_orc' [97]%N [32]%N [47;47;32;105]%N [10]%N = true /\
  shift_okb g_cmt1 ([97] ++ [32;98])%N cmt1_orc ([97] ++ ([32] ++ [47;47;32;105] ++ [10]) ++ [32;98])%N cmt1_orc' 1 6 = true /\
  PegWsDefs.accepts (run g_cmt1 c_default cmt1_orc false 50 ([97] ++ [32;98])%N) = true /\
  PegWsDefs.accepts (run g_cmt1 c_default cmt1_orc' false 50 ([97] ++ ([32] ++ [47;47;32;105] ++ [10]) ++ [32;98])%N) = true.
Proof. exact cmt1_nonvacuous. Qed.
Print Assumptions C22_comment_invariant_nonvacuous.

(* the mode-constancy condition of cmt_wf cannot be dropped (comment_positions ignores the mode) *)
Theorem C22_refuted_comment_modes : exists g cfg orc orc' fuel a w1 c w2 b,
  cmt_wf g cfg = false /\
  cmt_ins_okb g cfg orc' a w1 c w2 = true /\
  PegWsDefs.accepts (run g cfg orc false fuel (a ++ b)) = true /\
  run g cfg orc' false fuel (a ++ (w1 ++ c ++ w2) ++ b) = SyntaxErr 12.
Proof.
  exists g_cmt2, c_default, cmt2_orc, cmt2_orc', 60, [97;32;120;32;121]%N, (@nil N), [47;42;32;105;32;42;47]%N, (@nil N),
         [10;32;102;111;111]%N. exact cmt2_refuted.
Qed.
Print Assumptions C22_refuted_comment_modes.

(* whole-run "only the active set is skipped" (no Comment rule): [covered g cfg input orc p q] = the text
   from p to q is a concatenation of characters of all_ws g cfg (the configured set and the rule-level sets)
   and of matches of terminal nodes of g (tmatch = Some len at that place) *)
Theorem C22_accepted_is_tiled : forall g cfg orc fuel input r,
  g_comments g = None -> top_eof g = true ->
  run g cfg orc false fuel input = Parsed r ->
  covered g cfg input orc 0 (length input).
Proof. exact accepted_is_covered. Qed.
Print Assumptions C22_accepted_is_tiled.

(* every successful sub-parse moves only over such text (the invariant behind the theorem) *)
Theorem C22_parse_moves_over_tiles : forall g cfg input orc, g_comments g = None ->
  forall fuel nid psq x p0 r x1,
    GI g cfg x -> covered g cfg input orc p0 (pos x) ->
    parse g input orc false fuel nid psq x = Ok r x1 ->
    GI g cfg x1 /\ covered g cfg input orc p0 (pos x1).
Proof. exact parse_moves_over_tiles. Qed.
Print Assumptions C22_parse_moves_over_tiles.

Example C22_tiled_nonvacuous :
  g_comments g_plain = None /\ top_eof g_plain = true /\
  PegWsDefs.accepts (run g_plain c_default no_orc false 50 [97;32;32;98;10;98]%N) = true /\
  all_ws g_plain c_default = c_ws c_default.
Proof. exact plain_tiled_nonvacuous. Qed.
Print Assumptions C22_tiled_nonvacuous.

(* each run with its own sufficient fuel (fuel monotonicity, Proofs/PegFuel.v) *)
Theorem C22_comment_invariant_any_fuel_partial : forall g cfg orc orc' f f' a w1 c w2 b,
  cmt_wf g cfg = true ->
  cmt_ins_okb g cfg orc' a w1 c w2 = true ->
  shift_okb g (a ++ b) orc (a ++ (w1 ++ c ++ w2) ++ b) orc' (length a) (length (w1 ++ c ++ w2)) = true ->
  PegWsDefs.not_aborted (run g cfg orc false f (a ++ b)) ->
  PegWsDefs.not_aborted (run g cfg orc' false f' (a ++ (w1 ++ c ++ w2) ++ b)) ->
  outcome_shifted (length a) (length (w1 ++ c ++ w2))
                  (run g cfg orc false f (a ++ b)) (run g cfg orc' false f' (a ++ (w1 ++ c ++ w2) ++ b)).
Proof. exact comment_insert_invariant_any_fuel. Qed.
Print Assumptions C22_comment_invariant_any_fuel_partial.

Theorem C22_invariant_any_fuel_partial : forall g cfg orc orc' f f' a ins b,
  ins_wf g cfg ins = true ->
  shift_okb g (a ++ b) orc (a ++ ins ++ b) orc' (length a) (length ins) = true ->
  PegWsDefs.not_aborted (run g cfg orc false f (a ++ b)) ->
  PegWsDefs.not_aborted (run g cfg orc' false f' (a ++ ins ++ b)) ->
  outcome_shifted (length a) (length ins)
                  (run g cfg orc false f (a ++ b)) (run g cfg orc' false f' (a ++ ins ++ b)).
Proof. exact ws_insert_invariant_any_fuel. Qed.
Print Assumptions C22_invariant_any_fuel_partial.

Example C22_any_fuel_nonvacuous :
  PegWsDefs.not_aborted (run g_cmt1 c_default cmt1_orc false 20 ([97] ++ [32;98])%N) /\
  PegWsDefs.not_aborted (run g_cmt1 c_default cmt1_orc' false 50 ([97] ++ ([32] ++ [47;47;32;105] ++ [10]) ++ [32;98])%N).
Proof. exact cmt1_any_fuel. Qed.
Print Assumptions C22_any_fuel_nonvacuous.

(* ---------------------------------------------------------------- the MODEL (object graph)
   Model/Build.v (C01/C06: parse tree -> object graph over the dumped metamodel table) commutes with the
   position shift: on a tree in which no terminal lies across the insertion point, no zero-length terminal
   sits exactly at it and (for an insertion at position 0) no NonTerminal is empty ([fits], decidable,
   evaluated per case; derived from grammar + oracle for interior insertions, C22_fits_of_run below), building the shifted tree on the mutated
   input gives the same outcome (same error, or the same object graph) with _tx_position moved by phi,
   _tx_position_end by phie, and classes, attribute names, values (incl. the text every base-type
   conversion is applied to), defaults and containment unchanged.  use_regexp_group = False. *)
Theorem C22_build_commutes : forall g mm a ins b grp grp' auto r,
  fits_res (length a) r = true ->
  build g mm (a ++ ins ++ b) grp' auto false (shift_res (length a) (length ins) r) =
  map_bres (shift_val (length a) (length ins)) (build g mm (a ++ b) grp auto false r).
Proof. exact build_sht. Qed.
Print Assumptions C22_build_commutes.

Theorem C22_model_unchanged_partial : forall g mm cfg orc orc' grp grp' auto fuel a ins b r,
  ins_wf g cfg ins = true ->
  shift_okb g (a ++ b) orc (a ++ ins ++ b) orc' (length a) (length ins) = true ->
  run g cfg orc false fuel (a ++ b) = Parsed r ->
  fits_res (length a) r = true ->
  exists r', run g cfg orc' false fuel (a ++ ins ++ b) = Parsed r' /\
             models_shifted (length a) (length ins)
               (build g mm (a ++ b) grp auto false r) (build g mm (a ++ ins ++ b) grp' auto false r').
Proof. exact ws_model_unchanged. Qed.
Print Assumptions C22_model_unchanged_partial.

Theorem C22_comment_model_unchanged_partial : forall g mm cfg orc orc' grp grp' auto fuel a w1 c w2 b r,
  cmt_wf g cfg = true ->
  cmt_ins_okb g cfg orc' a w1 c w2 = true ->
  shift_okb g (a ++ b) orc (a ++ (w1 ++ c ++ w2) ++ b) orc' (length a) (length (w1 ++ c ++ w2)) = true ->
  run g cfg orc false fuel (a ++ b) = Parsed r ->
  PegWsDefs.not_aborted (run g cfg orc' false fuel (a ++ (w1 ++ c ++ w2) ++ b)) ->
  fits_res (length a) r = true ->
  exists r', run g cfg orc' false fuel (a ++ (w1 ++ c ++ w2) ++ b) = Parsed r' /\
             models_shifted (length a) (length (w1 ++ c ++ w2))
               (build g mm (a ++ b) grp auto false r) (build g mm (a ++ (w1 ++ c ++ w2) ++ b) grp' auto false r').
Proof. exact comment_model_unchanged. Qed.
Print Assumptions C22_comment_model_unchanged_partial.

(* "unchanged apart from source positions": with the two position fields erased the models are equal *)
Theorem C22_models_equal_apart_from_positions : forall k n m m',
  models_shifted k n m m' -> map_bres erase_val m' = map_bres erase_val m.
Proof. exact models_shifted_erase. Qed.
Print Assumptions C22_models_equal_apart_from_positions.

Example C22_model_unchanged_nonvacuous :
  ins_wf g_obj c_obj [10;32]%N = true /\
  shift_okb g_obj ([109;32;97;32;49;32] ++ [98;32;50])%N (orc_of tbl_obj)
            ([109;32;97;32;49;32] ++ [10;32] ++ [98;32;50])%N (orc_of tbl_obj') 6 2 = true /\
  exists r, run g_obj c_obj (orc_of tbl_obj) false 60 ([109;32;97;32;49;32] ++ [98;32;50])%N = Parsed r /\
            fits_res 6 r = true /\
            is_obj (build g_obj mm_obj ([109;32;97;32;49;32] ++ [98;32;50])%N no_grp true false r) = true.
Proof. exact obj_nonvacuous. Qed.
Print Assumptions C22_model_unchanged_nonvacuous.

(* ---------------------------------------------------------------- the tree condition from grammar + oracle
   With the terminal invariant of the whole interpreter (Proofs/PegInv.v, C20/C21): under shift_okb no
   terminal of an accepted parse lies across the insertion point; with no StrMatch '' in the table the only
   zero-length terminals are EOF terminals (at the end of the input); so for an insertion strictly inside the
   input (a, b non-empty) every accepted parse satisfies [fits_res], with or without memoization. *)
Theorem C22_fits_of_run : forall g a ins b orc orc',
  shift_okb g (a ++ b) orc (a ++ ins ++ b) orc' (length a) (length ins) = true ->
  no_empty_lit g = true -> b <> [] ->
  forall cfg memo fuel r, a <> [] -> run g cfg orc memo fuel (a ++ b) = Parsed r -> fits_res (length a) r = true.
Proof. exact fits_of_run. Qed.
Print Assumptions C22_fits_of_run.

(* the model is unchanged: hypotheses on the grammar table, the configuration and the oracle only *)
Theorem C22_model_unchanged : forall g mm cfg orc orc' grp grp' auto fuel a ins b r,
  ins_wf g cfg ins = true ->
  shift_okb g (a ++ b) orc (a ++ ins ++ b) orc' (length a) (length ins) = true ->
  no_empty_lit g = true -> a <> [] -> b <> [] ->
  run g cfg orc false fuel (a ++ b) = Parsed r ->
  exists r', run g cfg orc' false fuel (a ++ ins ++ b) = Parsed r' /\
             models_shifted (length a) (length ins)
               (build g mm (a ++ b) grp auto false r) (build g mm (a ++ ins ++ b) grp' auto false r').
Proof. exact ws_model_unchanged_table. Qed.
Print Assumptions C22_model_unchanged.

Theorem C22_comment_model_unchanged : forall g mm cfg orc orc' grp grp' auto fuel a w1 c w2 b r,
  cmt_wf g cfg = true ->
  cmt_ins_okb g cfg orc' a w1 c w2 = true ->
  shift_okb g (a ++ b) orc (a ++ (w1 ++ c ++ w2) ++ b) orc' (length a) (length (w1 ++ c ++ w2)) = true ->
  no_empty_lit g = true -> a <> [] -> b <> [] ->
  run g cfg orc false fuel (a ++ b) = Parsed r ->
  PegWsDefs.not_aborted (run g cfg orc' false fuel (a ++ (w1 ++ c ++ w2) ++ b)) ->
  exists r', run g cfg orc' false fuel (a ++ (w1 ++ c ++ w2) ++ b) = Parsed r' /\
             models_shifted (length a) (length (w1 ++ c ++ w2))
               (build g mm (a ++ b) grp auto false r) (build g mm (a ++ (w1 ++ c ++ w2) ++ b) grp' auto false r').
Proof. exact comment_model_unchanged_table. Qed.
Print Assumptions C22_comment_model_unchanged.

Example C22_model_unchanged_table_nonvacuous :
  no_empty_lit g_obj = true /\ ([109;32;97;32;49;32]%N <> []) /\ ([98;32;50]%N <> []) /\
  PegWsDefs.accepts (run g_obj c_obj (orc_of tbl_obj) false 60 ([109;32;97;32;49;32] ++ [98;32;50])%N) = true.
Proof. exact obj_table_nonvacuous. Qed.
Print Assumptions C22_model_unchanged_table_nonvacuous.
