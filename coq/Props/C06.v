(* C06 - object source spans and locations are exact.
   Model: Model/Build.v (process_node positions, get_location, pos_to_linecol) on Model/Peg.v trees. *)
From TxV Require Import Core.Base Model.PegSyntax Model.Peg Model.Build Proofs.BuildProofs Proofs.BuildObjProofs.

(* get_location: line = 1 + number of newlines before the position, col = distance from the start
   of that line + 1, nchar = end - position; for every input and position inside it. *)
Theorem C06_linecol_exact :
  forall input p e line col nchar,
    p <= List.length input ->
    get_location input p e = ((line, col), nchar) ->
    nchar = e - p /\
    line = 1 + count_nl (firstn p input) /\
    exists ls, ls <= p /\ col = p - ls + 1 /\
               (ls = 0 \/ nth_error input (ls - 1) = Some 10%N) /\
               (forall q, ls <= q < p -> nth_error input q <> Some 10%N).
Proof. exact get_location_exact. Qed.
Print Assumptions C06_linecol_exact.

Example C06_linecol_nonvacuous :
  get_location [97;10;32;98;99;10;100]%N 3 5 = ((2, 2), 2).
Proof. vm_compute. reflexivity. Qed.
Print Assumptions C06_linecol_nonvacuous.

(* Every node of a well-formed parse tree (non-empty terminals and NonTerminals, children left to
   right without overlap) spans exactly [start of its first terminal, end of its last terminal). *)
Theorem C06_node_span :
  forall t, wf_tree t = true ->
    exists p len rest, leaves t = (p, len) :: rest /\ tpos t = p /\
    exists p2 len2 pre, leaves t = pre ++ [(p2, len2)] /\ tend t = p2 + len2.
Proof. exact leaves_span. Qed.
Print Assumptions C06_node_span.

Theorem C06_node_nonempty : forall t, wf_tree t = true -> tpos t < tend t.
Proof. exact wf_tree_nonempty. Qed.
Print Assumptions C06_node_nonempty.

Theorem C06_node_nesting :
  forall n kids x, wf_tree (NT n kids) = true -> In x kids ->
    tpos (NT n kids) <= tpos x /\ tend x <= tend (NT n kids).
Proof. exact wf_tree_nesting. Qed.
Print Assumptions C06_node_nesting.

Theorem C06_node_siblings_disjoint :
  forall n l1 k1 l2 k2 l3, wf_tree (NT n (l1 ++ k1 :: l2 ++ k2 :: l3)) = true -> tend k1 <= tpos k2.
Proof. exact wf_tree_siblings. Qed.
Print Assumptions C06_node_siblings_disjoint.

Example C06_node_nonvacuous :
  wf_tree (NT 0 [NT 1 [T 2 1 3 false]; T 3 5 1 false; NT 1 [T 2 7 2 false; T 3 9 1 false]]) = true.
Proof. vm_compute. reflexivity. Qed.
Print Assumptions C06_node_nonvacuous.

(* Every object is built from a common-rule node and carries exactly that node's span, for every
   grammar table, metamodel table, input, group oracle and option setting: processing the children
   (assignments, nested objects) never moves the positions of the object under construction.
   With C06_node_span: [_tx_position, _tx_position_end) = [start of the first terminal of the rule's
   node, end of its last terminal). *)
Theorem C06_object_span :
  forall g mm input grp auto use_grp n kids top cls p e attrs top',
    pnode g mm input grp auto use_grp (NT n kids) top = BOk (VObj cls p e attrs, top') ->
    (exists c a, info mm n = IRule RCommon c a) ->
    p = tpos (NT n kids) /\ e = tend (NT n kids).
Proof. exact object_span_is_node_span. Qed.
Print Assumptions C06_object_span.

Example C06_object_span_nonvacuous :
  pnode (mkGrammar [] 0 None) [IRule RCommon [65]%N []] [] (fun _ _ => None) true false
        (NT 0 [T 1 2 3 false; T 1 7 1 false]) None = BOk (VObj [65]%N 2 8 [], None).
Proof. vm_compute. reflexivity. Qed.
Print Assumptions C06_object_span_nonvacuous.
