(* C06 - object source spans and locations are exact.
   Model: Model/Build.v (process_node positions, get_location, pos_to_linecol) on Model/Peg.v trees. *)
From TxV Require Import Core.Base Model.PegSyntax Model.Peg Model.Spec Model.Build Proofs.BuildProofs Proofs.BuildObjProofs
     Proofs.SpecProofs Proofs.SpecSepProofs Proofs.SpecWf.

(* get_location: line = 1 + number of newlines before the position, col = distance from the start
   of that line + 1, nchar = end - position; for every input and position inside it. *)
Theorem C06_linecol_exact :
  forall input p e line col nchar,
    p <= List.length input ->
    get_location input p e = ((line, col), nchar) ->
    nchar = e - p /\
    line = 1 + count_nl (firstn p input) /\
    exists ls, ls <= p /\ col = p - ls + 1 /\
               (ls = 0 \/ nth_error input (ls - 1) = Some 10%N) /\
               (forall q, ls <= q < p -> nth_error input q <> Some 10%N).
Proof. exact get_location_exact. Qed.
Print Assumptions C06_linecol_exact.

Example C06_linecol_nonvacuous :
  get_location [97;10;32;98;99;10;100]%N 3 5 = ((2, 2), 2).
Proof. vm_compute. reflexivity. Qed.
Print Assumptions C06_linecol_nonvacuous.

(* Every node of a well-formed parse tree (non-empty terminals and NonTerminals, children left to
   right without overlap) spans exactly [start of its first terminal, end of its last terminal). *)
Theorem C06_node_span :
  forall t, wf_tree t = true ->
    exists p len rest, leaves t = (p, len) :: rest /\ tpos t = p /\
    exists p2 len2 pre, leaves t = pre ++ [(p2, len2)] /\ tend t = p2 + len2.
Proof. exact leaves_span. Qed.
Print Assumptions C06_node_span.

Theorem C06_node_nonempty : forall t, wf_tree t = true -> tpos t < tend t.
Proof. exact wf_tree_nonempty. Qed.
Print Assumptions C06_node_nonempty.

Theorem C06_node_nesting :
  forall n kids x, wf_tree (NT n kids) = true -> In x kids ->
    tpos (NT n kids) <= tpos x /\ tend x <= tend (NT n kids).
Proof. exact wf_tree_nesting. Qed.
Print Assumptions C06_node_nesting.

Theorem C06_node_siblings_disjoint :
  forall n l1 k1 l2 k2 l3, wf_tree (NT n (l1 ++ k1 :: l2 ++ k2 :: l3)) = true -> tend k1 <= tpos k2.
Proof. exact wf_tree_siblings. Qed.
Print Assumptions C06_node_siblings_disjoint.

Example C06_node_nonvacuous :
  wf_tree (NT 0 [NT 1 [T 2 1 3 false]; T 3 5 1 false; NT 1 [T 2 7 2 false; T 3 9 1 false]]) = true.
Proof. vm_compute. reflexivity. Qed.
Print Assumptions C06_node_nonvacuous.

(* Every object is built from a common-rule node and carries exactly that node's span, for every
   grammar table, metamodel table, input, group oracle and option setting: processing the children
   (assignments, nested objects) never moves the positions of the object under construction.
   With C06_node_span: [_tx_position, _tx_position_end) = [start of the first terminal of the rule's
   node, end of its last terminal). *)
Theorem C06_object_span :
  forall g mm input grp auto use_grp n kids top cls p e attrs top',
    pnode g mm input grp auto use_grp (NT n kids) top = BOk (VObj cls p e attrs, top') ->
    (exists c a, info mm n = IRule RCommon c a) ->
    p = tpos (NT n kids) /\ e = tend (NT n kids).
Proof. exact object_span_is_node_span. Qed.
Print Assumptions C06_object_span.

Example C06_object_span_nonvacuous :
  pnode (mkGrammar [] 0 None) [IRule RCommon [65]%N []] [] (fun _ _ => None) true false
        (NT 0 [T 1 2 3 false; T 1 7 1 false]) None = BOk (VObj [65]%N 2 8 [], None).
Proof. vm_compute. reflexivity. Qed.
Print Assumptions C06_object_span_nonvacuous.

(* OBJECT level nesting and list order.  For every grammar table, metamodel table, input, group oracle and
   option setting: if the node is a well-formed tree and assignment nodes sit where the grammar compiler
   puts them (children of common-rule nodes; decidable, evaluated per case), the value Build returns for
   it is [good] for the node's span.  [good lo hi v] is spelled out by the three theorems that follow:
   every object has a non-empty span inside [lo, hi]; the values of its attributes are good for the
   object's own span (child slices inside the parent slice, recursively); the objects of one list are
   ordered and disjoint. *)
Theorem C06_objects_nested_ordered :
  forall g mm input grp auto use_grp t top v top' under,
    wf_tree t = true -> asg_placed mm under t = true ->
    pnode g mm input grp auto use_grp t top = BOk (v, top') -> good (tpos t) (tend t) v.
Proof. exact objects_nested_ordered. Qed.
Print Assumptions C06_objects_nested_ordered.

Theorem C06_good_object_nonempty_inside :
  forall lo hi c p e attrs, good lo hi (VObj c p e attrs) -> lo <= p /\ p < e /\ e <= hi.
Proof. exact good_obj_bounds. Qed.
Print Assumptions C06_good_object_nonempty_inside.

Theorem C06_good_child_inside_parent :
  forall lo hi c p e attrs a x, good lo hi (VObj c p e attrs) -> In (a, x) attrs -> good p e x.
Proof. exact good_child. Qed.
Print Assumptions C06_good_child_inside_parent.

Theorem C06_good_list_ordered_disjoint :
  forall l1 lo hi c1 p1 e1 a1 l2 c2 p2 e2 a2 l3,
    good lo hi (VList (l1 ++ VObj c1 p1 e1 a1 :: l2 ++ VObj c2 p2 e2 a2 :: l3)) -> e1 <= p2.
Proof. exact good_list_order. Qed.
Print Assumptions C06_good_list_ordered_disjoint.

Example C06_objects_nonvacuous :
  let mm := [IRule RCommon [77]%N [mkAttr [120]%N MPlus true false [65]%N false];
             IAsgn [120]%N OpList; IRule RCommon [65]%N []; ITerm [] 0] in
  let t := NT 0 [NT 1 [NT 2 [T 3 1 2 false]; NT 2 [T 3 5 1 false]]] in
  wf_tree t = true /\ asg_placed mm false t = true /\
  pnode (mkGrammar [] 0 None) mm [] (fun _ _ => None) true false t None
    = BOk (VObj [77]%N 1 6 [([120]%N, VList [VObj [65]%N 1 3 []; VObj [65]%N 5 6 []])], None).
Proof. vm_compute. repeat split. Qed.
Print Assumptions C06_objects_nonvacuous.

(* When are the interpreter's trees well formed?  For every grammar table in the class of the C01 refinement
   theorem (wfg), without separators (nosep) and with EOF only as the second child of the top node (eof_ok;
   all three decidable), every config, input, fuel and non-empty-match oracle: if the interpreter accepts,
   its result is the top NonTerminal and the subtree the model is built from (parse_tree[0]) is a wf_tree -
   so C06_node_span / C06_object_span / C06_objects_nested_ordered apply to it.  Proved on the reference
   semantics (Proofs/SpecWf.v seval_wf) and transported by C01_refinement_partial.  The boundary is the known
   findings: a trailing separator (nosep) and an empty literal (excluded by wfg) give trees that are not
   well formed (C06_wf_boundary_refuted); a suppressed edge match keeps the tree well formed and only
   breaks span = extent. *)
Theorem C06_run_wf :
  forall g pf c orc fuel input r,
    wfg g pf = true -> nosep g = true -> eof_ok g = true -> orc_pos orc ->
    run g c orc false fuel input = Parsed r ->
    exists t rest, r = RTree (NT (g_top g) (t :: rest)) /\ wf_tree t = true.
Proof. exact run_wf. Qed.
Print Assumptions C06_run_wf.

Example C06_run_wf_nonvacuous :
  wfg g_items 24 = true /\ nosep g_items = true /\ eof_ok g_items = true /\
  accepts (run g_items c_default (orc_of t_items) false 60 in_items) = true.
Proof. exact run_wf_nonvacuous. Qed.
Print Assumptions C06_run_wf_nonvacuous.

(* with a separator the hypothesis nosep is necessary: x,b under A: xs+=X[','] keeps the separator it gave
   back, the subtree of Model is not well formed (children overlap) *)
Theorem C06_wf_boundary_refuted :
  exists g c orc fuel input t rest,
    wfg g 24 = true /\ nosep g = false /\ eof_ok g = true /\
    run g c orc false fuel input = Parsed (RTree (NT (g_top g) (t :: rest))) /\ wf_tree t = false.
Proof. exact wf_boundary_refuted. Qed.
Print Assumptions C06_wf_boundary_refuted.

From TxV Require Proofs.BuildPlaced.

(* asg_placed derived from the TABLE.  BuildPlaced.table_asg_ok g mm K (decidable): below a root node that is not
   a common rule (match / abstract rules, assignment nodes, the top node) no assignment node is reachable without
   crossing another root.  For tables in the class of the C01 refinement theorem that satisfy it, every
   NonTerminal of the interpreter's result has its children placed - proved on the reference semantics
   (BuildPlaced.seval_placed) and transported by C01_refinement_partial.  Usable by every property that assumes
   asg_placed of the parsed tree (C02_parsed_object_values, C34's Build bridge). *)
Theorem C06_asg_placed_of_run :
  forall g pf mm K c orc fuel input n t rest,
    wfg g pf = true -> orc_pos orc -> BuildPlaced.table_asg_ok g mm K = true ->
    run g c orc false fuel input = Parsed (RTree (NT n (t :: rest))) ->
    asg_placed mm (BuildPlaced.commonb mm n) t = true.
Proof. exact BuildPlaced.asg_placed_of_run_tree. Qed.
Print Assumptions C06_asg_placed_of_run.

(* C06_objects_nested_ordered with hypotheses on the table and the oracle only *)
Theorem C06_objects_nested_ordered_run :
  forall g pf mm K c orc fuel input r,
    wfg g pf = true -> nosep g = true -> eof_ok g = true -> orc_pos orc -> BuildPlaced.table_asg_ok g mm K = true ->
    run g c orc false fuel input = Parsed r ->
    exists t rest, r = RTree (NT (g_top g) (t :: rest)) /\ wf_tree t = true /\
      asg_placed mm (BuildPlaced.commonb mm (g_top g)) t = true /\
      forall grp auto ug top v top', pnode g mm input grp auto ug t top = BOk (v, top') -> good (tpos t) (tend t) v.
Proof. exact BuildPlaced.objects_nested_ordered_run. Qed.
Print Assumptions C06_objects_nested_ordered_run.

Example C06_objects_run_nonvacuous :
  wfg g_items 24 = true /\ nosep g_items = true /\ eof_ok g_items = true /\
  BuildPlaced.table_asg_ok g_items BuildPlaced.mm_items 24 = true /\
  accepts (run g_items c_default (orc_of t_items) false 60 in_items) = true.
Proof. exact BuildPlaced.placed_nonvacuous. Qed.
Print Assumptions C06_objects_run_nonvacuous.

(* the table condition fails when an assignment node sits below a match rule *)
Example C06_table_asg_refuted :
  BuildPlaced.table_asg_ok g_items [IOther; IRule RMatch [77]%N []; ITerm [] 0; IOther; IAsgn [105]%N OpList] 24 = false.
Proof. exact BuildPlaced.table_asg_refuted. Qed.
Print Assumptions C06_table_asg_refuted.
