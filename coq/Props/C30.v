(* C30 — the textx CLI reports outcomes and passes generator arguments faithfully. *)
From TxV Require Import Core.Base Gen.SrcCli Model.Cli Proofs.CliProofs.

(* The translated argument loop is the documented one: every --name is stored under the
   name with dashes turned into underscores, with its (quote-stripped) value or True. *)
Theorem C30_names : forall args, parse_loop args [] [] = spec_loop args [] [].
Proof. intro args. exact (parse_loop_spec args [] []). Qed.
Print Assumptions C30_names.

Theorem C30_no_dash_reaches_generator : forall args k v, In (k, v) (custom_args args) -> ~ In dash k.
Proof. exact custom_args_no_dash. Qed.
Print Assumptions C30_no_dash_reaches_generator.

Theorem C30_bare_flag : forall fs name,
  forallb (fun m => negb (is_prefix [45;45]%N m)) fs = true ->
  custom_args (fs ++ [dd ++ name]) = [(normalize name, ATrue)] /\ model_files (fs ++ [dd ++ name]) = fs.
Proof. exact bare_flag. Qed.
Print Assumptions C30_bare_flag.

Theorem C30_valued_arg : forall fs name v,
  forallb (fun m => negb (is_prefix [45;45]%N m)) fs = true -> is_prefix [45;45]%N v = false ->
  custom_args (fs ++ [dd ++ name; v]) = [(normalize name, AStr (strip quotes v))].
Proof. exact valued_arg. Qed.
Print Assumptions C30_valued_arg.

(* declared parameters: exit status 0 exactly when every mandatory parameter is given and
   every given one is declared (a generator with an empty declaration list is free-form) *)
Theorem C30_declared : forall decl given,
  exit_of_verdict (validate decl given) = 0 <-> validate_spec decl given.
Proof. exact validate_exit. Qed.
Print Assumptions C30_declared.

Theorem C30_check_exit : forall loads,
  (check_exit loads = 0 <-> forallb (fun b => b) loads = true) /\ (check_exit loads = 0 \/ check_exit loads = 1).
Proof. intro l. split; [apply check_exit_zero_iff | apply check_exit_values]. Qed.
Print Assumptions C30_check_exit.

(* The per-file loop of `textx generate` (translated facts: the generator is looked up on every call by the
   language handed in, the language is re-deduced per file unless --language/--grammar is given, --grammar
   forces "any") is the documented one: files are processed in order up to the first one that cannot be
   processed; exit status and generator calls are those of `doc_calls`. *)
Theorem C30_generate_loop : forall files first info m reg given,
  gen_files files first info m reg given = doc_calls (map (doc_call info m reg given) files).
Proof. exact gen_files_doc. Qed.
Print Assumptions C30_generate_loop.

(* Every generator call is for a file of the command line that parses with the meta-model of its language
   (its own language by file name, or the --language one, or the --grammar meta-model), and is made by the
   generator registered for that very language - or by the "any" generator if that language has none and
   was deduced from the file name -, whose declared parameters accept the given arguments. *)
Theorem C30_generator_per_file : forall files info m reg given f gl l,
  In (f, gl, l) (snd (gen_files files None info m reg given)) ->
  In f files /\ exists fi decl, assoc f info = Some fi /\ doc_lang m fi = Some l /\ f_valid fi l = true /\
     lookup reg l (is_per_file m) = Some (gl, decl) /\ validate decl given = Accept /\
     ((gl = l /\ reg l = Some decl) \/ (is_per_file m = true /\ reg l = None /\ gl = any_lang /\ reg any_lang = Some decl)).
Proof. exact generator_per_file_full. Qed.
Print Assumptions C30_generator_per_file.

(* exit status of generate: 0 exactly when every file can be processed (then every file got its call), else 1 *)
Theorem C30_generate_exit : forall files info m reg given,
  let r := gen_files files None info m reg given in
  (fst r = 0 <-> Forall (fun f => doc_call info m reg given f <> None) files) /\ (fst r = 0 \/ fst r = 1) /\
  (fst r = 0 -> map Some (snd r) = map (doc_call info m reg given) files).
Proof. exact generate_exit. Qed.
Print Assumptions C30_generate_exit.

(* textx check with --language / --grammar / per-file meta-models: 0 iff every file loads, else 1 *)
Theorem C30_check_cmd : forall m info files,
  (check_cmd m info files = 0 <-> forall f, In f files -> file_loads m info f = true) /\
  (check_cmd m info files = 0 \/ check_cmd m info files = 1).
Proof. exact check_cmd_exit. Qed.
Print Assumptions C30_check_cmd.

Example C30_nonvacuous :
  custom_args [[109]; [45;45;97;45;98]; [45;45;99;45;100]; [39;120;39]]%N
  = [([97;95;98], ATrue); ([99;95;100], AStr [120])]%N.
Proof. vm_compute. reflexivity. Qed.
Print Assumptions C30_nonvacuous.

(* two files of two languages: each is handed to the generator of its own language *)
Example C30_nonvacuous_per_file :
  let info := [([97]%N, {| f_lang := Some 0; f_valid := fun _ => true |}); ([98]%N, {| f_lang := Some 1; f_valid := fun _ => true |})] in
  gen_files [[97]; [98]]%N None info PerFile (fun l => match l with 0 => Some None | 1 => Some (Some []) | _ => None end) []
  = (0, [([97]%N, 0, 0); ([98]%N, 1, 1)]).
Proof. vm_compute. reflexivity. Qed.
Print Assumptions C30_nonvacuous_per_file.
