(* C30 — the textx CLI reports outcomes and passes generator arguments faithfully. *)
From TxV Require Import Core.Base Gen.SrcCli Model.Cli Proofs.CliProofs.

(* The translated argument loop is the documented one: every --name is stored under the
   name with dashes turned into underscores, with its (quote-stripped) value or True. *)
Theorem C30_names : forall args, parse_loop args [] [] = spec_loop args [] [].
Proof. intro args. exact (parse_loop_spec args [] []). Qed.
Print Assumptions C30_names.

Theorem C30_no_dash_reaches_generator : forall args k v, In (k, v) (custom_args args) -> ~ In dash k.
Proof. exact custom_args_no_dash. Qed.
Print Assumptions C30_no_dash_reaches_generator.

Theorem C30_bare_flag : forall fs name,
  forallb (fun m => negb (is_prefix [45;45]%N m)) fs = true ->
  custom_args (fs ++ [dd ++ name]) = [(normalize name, ATrue)] /\ model_files (fs ++ [dd ++ name]) = fs.
Proof. exact bare_flag. Qed.
Print Assumptions C30_bare_flag.

Theorem C30_valued_arg : forall fs name v,
  forallb (fun m => negb (is_prefix [45;45]%N m)) fs = true -> is_prefix [45;45]%N v = false ->
  custom_args (fs ++ [dd ++ name; v]) = [(normalize name, AStr (strip quotes v))].
Proof. exact valued_arg. Qed.
Print Assumptions C30_valued_arg.

(* declared parameters: exit status 0 exactly when every mandatory parameter is given and
   every given one is declared (a generator with an empty declaration list is free-form) *)
Theorem C30_declared : forall decl given,
  exit_of_verdict (validate decl given) = 0 <-> validate_spec decl given.
Proof. exact validate_exit. Qed.
Print Assumptions C30_declared.

Theorem C30_check_exit : forall loads,
  (check_exit loads = 0 <-> forallb (fun b => b) loads = true) /\ (check_exit loads = 0 \/ check_exit loads = 1).
Proof. intro l. split; [apply check_exit_zero_iff | apply check_exit_values]. Qed.
Print Assumptions C30_check_exit.

Example C30_nonvacuous :
  custom_args [[109]; [45;45;97;45;98]; [45;45;99;45;100]; [39;120;39]]%N
  = [([97;95;98], ATrue); ([99;95;100], AStr [120])]%N.
Proof. vm_compute. reflexivity. Qed.
Print Assumptions C30_nonvacuous.
