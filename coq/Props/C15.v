(* C15 — a failed load leaves nothing behind (for the references textX itself stores; the
   run-time reachability is observed by the check, see design/C15.md). *)
From TxV Require Import Core.Base Gen.SrcUserCls Model.UserCls Proofs.UserClsProofs Proofs.UserClsLogProofs Proofs.UserClsSrcProofs.

(* FULL STATEMENT (not provable in this model: frames, tracebacks and exception chaining are not
   represented): after a failing load no object allocated by it is reachable from textX, its
   classes or the metamodel.

   Proved, partial: in every history of the load machine, when the running load raises, none of
   the user objects it has allocated keeps an entry in `_tx_obj_attrs` (the only place where a
   user class refers to objects), none of its models stays in a model repository, and the load
   is no longer running (its parsers are not counted any more, see C15_classes_uninstrumented). *)
Theorem C15_unreachable_partial : forall d0 ops c rest,
  s_ctxs (run replace_names restore_names (init d0) ops) = c :: rest ->
  let s' := step replace_names restore_names (run replace_names restore_names (init d0) ops) Fail in
  (forall x, In x (c_objs c) -> ~ In x (k_store (s_cls s'))) /\
  (forall m, In m (c_mids c) -> ~ In m (s_repo s')) /\
  s_ctxs s' = rest.
Proof. exact src_failed_load_leaves_nothing. Qed.
Print Assumptions C15_unreachable_partial.

(* User classes are left uninstrumented: once no load runs (in particular after a failed
   top-level load, however it failed and whatever ran inside it), the class is as before. *)
Theorem C15_classes_uninstrumented : forall d0 ops,
  s_ctxs (run replace_names restore_names (init d0) ops) = [] ->
  cls_same d0 (s_cls (run replace_names restore_names (init d0) ops)).
Proof. exact src_restored. Qed.
Print Assumptions C15_classes_uninstrumented.

(* PARTIAL (C15_next_load_fresh): as far as the user classes are concerned a load after a failed
   one starts from the state of a fresh metamodel, and whatever follows ends in that state again.
   The equality of the resulting models is observed by the check (next_check), the history
   independence of the rest of the metamodel is C16. *)
Theorem C15_next_load_fresh_partial : forall d0 ops,
  s_ctxs (run replace_names restore_names (init d0) ops) = [] ->
  cls_same d0 (s_cls (run replace_names restore_names (init d0) ops)) /\
  forall ops2, s_ctxs (run replace_names restore_names (init d0) (ops ++ ops2)) = [] ->
               cls_same d0 (s_cls (run replace_names restore_names (init d0) (ops ++ ops2))).
Proof. exact src_idle_is_initial. Qed.
Print Assumptions C15_next_load_fresh_partial.

(* non-vacuity: a load with an imported model in a metamodel-global repository fails after the
   first __init__; before the failure 3 objects are stored and 2 models registered *)
Example C15_nonvacuous :
  let ops := [Begin true true true; Alloc; Alloc; Complete; Complete; Begin false true true; Alloc; Complete;
              ResolveOk; EndModel; Init true] in
  let s := run replace_names restore_names (init (fun _ => Absent)) ops in
  exists c, s_ctxs s = [c] /\ c_objs c = [2; 3; 6] /\ c_mids c = [1; 5] /\ length (k_store (s_cls s)) = 2 /\ s_repo s = [1; 5] /\
            k_store (s_cls (step replace_names restore_names s Fail)) = [] /\ s_repo (step replace_names restore_names s Fail) = [].
Proof. eexists. vm_compute. repeat split; reflexivity. Qed.
Print Assumptions C15_nonvacuous.
